(* Bridge between the two views of a buffer: the walker's bit lists (Codec/Walker.v, Spec/Wire.v: LSB of byte 0 first) and the byte
   lists of the primitive models (Common/Bits.v `bit`, Prims/*.v).  Everything the instances (Codec/Instances*.v) need to turn the
   "bit p of the result = ..." statements of the C14 theorems into the list equations of the walker's laws. *)
From Verif Require Import Bits.
From Verif Require Import Wire WireThm WireThmExt Walker PrimsOn.
Local Open Scope nat_scope.

(* ---------- bytes of a bit list (a short last chunk is zero-padded) ---------- *)
Fixpoint bytes_of_bits_n (n : nat) (l : list bool) : list N :=
  match n with O => [] | S n' => N_of_bits (firstn 8 l) :: bytes_of_bits_n n' (skipn 8 l) end.

Definition bytes_of_bits (l : list bool) : list N := bytes_of_bits_n ((length l + 7) / 8) l.

(* ---------- numbers and bit lists ---------- *)
Lemma testbit_N_of_bits l : forall i, N.testbit (N_of_bits l) (N.of_nat i) = nth i l false.
Proof.
  induction l as [|b r IH]; intros i; cbn [N_of_bits].
  - rewrite N.bits_0. destruct i; reflexivity.
  - rewrite N.add_comm. destruct i as [|i].
    + cbn [N.of_nat nth]. apply N.testbit_0_r.
    + rewrite Nat2N.inj_succ, N.testbit_succ_r. cbn [nth]. apply IH.
Qed.

Lemma N_of_bits_lt l : (N_of_bits l < 2 ^ N.of_nat (length l))%N.
Proof.
  induction l as [|b r IH]; cbn [N_of_bits length]; [cbn; lia|].
  rewrite Nat2N.inj_succ, N.pow_succ_r'. destruct b; cbn [N.b2n]; lia.
Qed.

Lemma nth_bits_of_N w : forall x i, i < w -> nth i (bits_of_N w x) false = N.testbit x (N.of_nat i).
Proof.
  induction w as [|w IH]; intros x i Hi; [lia|]. cbn [bits_of_N]. destruct i as [|i]; cbn [nth].
  - symmetry. apply N.bit0_odd.
  - rewrite IH by lia. rewrite N.div2_spec, N.shiftr_spec'. f_equal. lia.
Qed.

Lemma nth_bits_of_N_beyond w x i : w <= i -> nth i (bits_of_N w x) false = false.
Proof. intros H. apply nth_overflow. rewrite bits_of_N_length. exact H. Qed.

Lemma nth_take_ze w : forall l k, nth k (take_ze w l) false = if k <? w then nth k l false else false.
Proof.
  induction w as [|w IH]; intros l k; cbn [take_ze].
  - destruct k; reflexivity.
  - destruct l as [|b r]; destruct k as [|k]; cbn [nth]; try reflexivity.
    + rewrite IH. destruct (Nat.ltb_spec k w), (Nat.ltb_spec (S k) (S w)); try lia; destruct k; reflexivity.
    + rewrite IH. destruct (Nat.ltb_spec k w), (Nat.ltb_spec (S k) (S w)); try lia; reflexivity.
Qed.

Lemma bits_of_N_of_bits l : bits_of_N (length l) (N_of_bits l) = l.
Proof.
  apply (nth_ext _ _ false false); [apply bits_of_N_length|].
  intros n Hn. rewrite bits_of_N_length in Hn. rewrite nth_bits_of_N by exact Hn. apply testbit_N_of_bits.
Qed.

(* ---------- bit p of a byte list is element p of its bit list ---------- *)
Lemma bit_nil p : bit [] p = false.
Proof. unfold bit, byte_at. destruct (N.to_nat (p / 8)); cbn [nth]; apply N.bits_0. Qed.

Lemma bit_cons_low x t p : (p < 8)%N -> bit (x :: t) p = N.testbit x p.
Proof.
  intros H. unfold bit, byte_at. rewrite N.div_small by exact H. rewrite N.mod_small by exact H. reflexivity.
Qed.

Lemma bit_cons_high x t p : bit (x :: t) (8 + p) = bit t p.
Proof.
  unfold bit, byte_at.
  assert (Hd : ((8 + p) / 8 = 1 + p / 8)%N) by lia. assert (Hm : ((8 + p) mod 8 = p mod 8)%N) by lia.
  rewrite Hd, Hm. replace (N.to_nat (1 + p / 8)) with (S (N.to_nat (p / 8))) by lia. reflexivity.
Qed.

Lemma bit_bits_of_bytes b : forall p, bit b (N.of_nat p) = nth p (bits_of_bytes b) false.
Proof.
  induction b as [|x t IH]; intros p; cbn [bits_of_bytes].
  - rewrite bit_nil. destruct p; reflexivity.
  - destruct (Nat.ltb_spec p 8) as [Hlt|Hge].
    + rewrite bit_cons_low by lia. rewrite app_nth1 by (rewrite bits_of_N_length; exact Hlt).
      symmetry. apply nth_bits_of_N. exact Hlt.
    + replace (N.of_nat p) with (8 + N.of_nat (p - 8))%N by lia. rewrite bit_cons_high, IH.
      rewrite app_nth2 by (rewrite bits_of_N_length; exact Hge). rewrite bits_of_N_length. reflexivity.
Qed.

Lemma bits_of_bytes_length b : length (bits_of_bytes b) = 8 * length b.
Proof. induction b as [|x b IH]; cbn [bits_of_bytes length]; [reflexivity|]. rewrite app_length, bits_of_N_length, IH. lia. Qed.

(* two bit lists of the same length with the same elements *)
Lemma bits_ext (a b : list bool) : length a = length b -> (forall p, p < length a -> nth p a false = nth p b false) -> a = b.
Proof. intros Hl H. apply (nth_ext _ _ false false); assumption. Qed.

(* ---------- round trip bits -> bytes -> bits on whole-byte buffers ---------- *)
Lemma bytes_of_bits_n_length n : forall l, length (bytes_of_bits_n n l) = n.
Proof. induction n as [|n IH]; intros l; cbn [bytes_of_bits_n length]; [reflexivity | rewrite IH; reflexivity]. Qed.

Lemma bits_of_bytes_of_bits_n n : forall l, length l = 8 * n -> bits_of_bytes (bytes_of_bits_n n l) = l.
Proof.
  induction n as [|n IH]; intros l Hl; cbn [bytes_of_bits_n bits_of_bytes].
  - destruct l; [reflexivity | cbn [length] in Hl; lia].
  - assert (H8 : length (firstn 8 l) = 8) by (rewrite firstn_length; lia).
    rewrite <- H8 at 1. rewrite bits_of_N_of_bits. rewrite IH by (rewrite skipn_length; lia).
    apply firstn_skipn.
Qed.

Lemma bytes_of_bits_length l : length l mod 8 = 0 -> length (bytes_of_bits l) = length l / 8.
Proof.
  intros H. unfold bytes_of_bits. rewrite bytes_of_bits_n_length.
  pose proof (Nat.div_mod (length l) 8). pose proof (Nat.div_mod (length l + 7) 8).
  pose proof (Nat.mod_upper_bound (length l + 7) 8). lia.
Qed.

Lemma bits_of_bytes_of_bits l : length l mod 8 = 0 -> bits_of_bytes (bytes_of_bits l) = l.
Proof.
  intros H. unfold bytes_of_bits. apply bits_of_bytes_of_bits_n.
  pose proof (Nat.div_mod (length l) 8). pose proof (Nat.div_mod (length l + 7) 8).
  pose proof (Nat.mod_upper_bound (length l + 7) 8). lia.
Qed.

Lemma bit_bytes_of_bits l p : length l mod 8 = 0 -> bit (bytes_of_bits l) (N.of_nat p) = nth p l false.
Proof. intros H. rewrite bit_bits_of_bytes, bits_of_bytes_of_bits by exact H. reflexivity. Qed.

Lemma bytes_of_bits_n_ok n : forall l, forallb (fun x => (x <? 256)%N) (bytes_of_bits_n n l) = true.
Proof.
  induction n as [|n IH]; intros l; cbn [bytes_of_bits_n forallb]; [reflexivity|].
  rewrite IH, andb_true_r. apply N.ltb_lt.
  pose proof (N_of_bits_lt (firstn 8 l)) as H. pose proof (firstn_le_length 8 l) as Hl.
  assert (Hp : (2 ^ N.of_nat (length (firstn 8 l)) <= 2 ^ 8)%N) by (apply N.pow_le_mono_r; lia).
  change (2 ^ 8)%N with 256%N in Hp. lia.
Qed.

Lemma bytes_of_bits_ok l : forallb (fun x => (x <? 256)%N) (bytes_of_bits l) = true.
Proof. apply bytes_of_bits_n_ok. Qed.

(* ---------- nth of skipn / firstn ---------- *)
Lemma nth_skipn_add {A} (d : A) : forall n (l : list A) k, nth k (skipn n l) d = nth (n + k) l d.
Proof.
  induction n as [|n IH]; intros l k; [reflexivity|].
  destruct l as [|x l]; cbn [skipn plus nth]; [destruct k; reflexivity | apply IH].
Qed.

Lemma nth_firstn_low {A} (d : A) : forall n (l : list A) k, k < n -> nth k (firstn n l) d = nth k l d.
Proof.
  induction n as [|n IH]; intros l k H; [lia|].
  destruct l as [|x l]; cbn [firstn]; [reflexivity|]. destruct k as [|k]; cbn [nth]; [reflexivity | apply IH; lia].
Qed.

(* ---------- the two shapes of the walker's laws, bitwise ---------- *)
Lemma nth_store (buf v : list bool) off p : off + length v <= length buf ->
  nth p (firstn off buf ++ v ++ skipn (off + length v) buf) false =
  if (off <=? p) && (p <? off + length v) then nth (p - off) v false else nth p buf false.
Proof.
  intros Hfit. assert (Hlf : length (firstn off buf) = off) by (rewrite firstn_length; lia).
  destruct (Nat.leb_spec off p) as [H1|H1]; cbn [andb].
  - rewrite app_nth2 by lia. rewrite Hlf.
    destruct (Nat.ltb_spec p (off + length v)) as [H2|H2].
    + rewrite app_nth1 by lia. reflexivity.
    + rewrite app_nth2 by lia. rewrite nth_skipn_add. f_equal. lia.
  - rewrite app_nth1 by lia. apply nth_firstn_low. exact H1.
Qed.

Lemma nth_window (buf : list bool) cap off w k : cap <= length buf ->
  nth k (take_ze w (skipn off (firstn cap buf))) false =
  if (k <? w) && (off + k <? cap) then nth (off + k) buf false else false.
Proof.
  intros Hc. rewrite nth_take_ze. destruct (Nat.ltb_spec k w) as [H1|H1]; cbn [andb]; [|reflexivity].
  rewrite nth_skipn_add. destruct (Nat.ltb_spec (off + k) cap) as [H2|H2].
  - apply nth_firstn_low. exact H2.
  - apply nth_overflow. rewrite firstn_length. lia.
Qed.
