(* What the generated Python classes ACCEPT (audit 2, C01 #5): the property setters raise ValueError for integers outside the wire
   range and for finite floats outside the wire range WHATEVER the cast mode (base.j2 l.352-372), `assign_array` refuses arrays
   above the capacity / of the wrong length and out-of-range elements (l.118-140), a union holds exactly one of its variants.
   `py_accepts` is what an ASSIGNMENT admits; `err rejected` of the harness is its complement.
   CORRECTION (audit 3, C01 #2): it is NOT an invariant of the objects the serializer sees.  `assign_array` binds a caller ndarray of
   the right dtype BY REFERENCE (base.j2 l.108-113 "Fast binding ... Beware of the shared reference"; bytes/bytearray via frombuffer),
   and `o.t[0] = 200` / `src[1] = 200` after the assignment bypass every setter: an element of a `uint7[3]` (dtype uint8) can hold
   any uint8.  So for ARRAY ELEMENTS the reachable domain is the NumPy dtype range (`py_elem_reachable`: the storage type of width
   std_width w), for scalar fields it is `py_in_range` (scalars are immutable Python numbers: only the setter writes them).
   On that wider domain the saturating / truncating branch of the element loop IS reachable (`py_saturation_live_example`: uint7
   holding 200 -> 127 saturated, 72 truncated, as the real code does); `py_walk_ser_refines` has no value proviso and covers it.
   `py_saturation_dead` below is therefore a statement about SCALAR fields and about arrays immediately after assignment only.
   The range predicates are C18's (Gen/PyObj.v `int_in_range`: `urange` / `srange`, proved there to be exactly when the setter
   raises); here they are restated on the codec vocabulary, with:
     `py_accepts_valid`          accepted objects are valid values (no length / tag / shape error can occur);
     `py_saturation_dead`        on accepted values the `max(min())` / isfinite clamp of the serialization templates is the identity:
                                 the cast mode of a field does not influence the Python bytes (the probe of the audit: "the template's
                                 saturation code is dead");
     `py_accepted_serializes`    an accepted, tie-free object is serialized successfully to the specification's bytes.
   float16/32 scalars: the stored Python float is a binary64; `VFlt x` is the binary32 pattern struct.pack rounds it to - the range
   test of the setter is on the binary64 value, modelled on the binary32 pattern (in range iff finite magnitude <= 65504 for
   float16; every finite binary32 is in range for float32). *)
From Verif Require Walker.
From Verif Require Import Wire WireThm WireThmValid TargetPre TargetPreThm PyWalker PyWalkerThm PyWalkerPre.
From Verif Require PyObj.
From Coq Require Import Lia ZifyBool ZifyNat ZifyN.
Local Open Scope nat_scope.

Definition py_in_range (p : prim) (v : val) : bool :=
  match p, v with
  | PU w _, VInt z => (0 <=? z)%Z && (z <=? pow2 w - 1)%Z
  | PS w _, VInt z => (- pow2 (w - 1) <=? z)%Z && (z <=? pow2 (w - 1) - 1)%Z
  | PF w _, VFlt x =>
      if is_f16 w then let mag := N.land (x mod 2 ^ 32) 2147483647 in (mag <=? F32_65504)%N || (F32INF <=? mag)%N else true
  | _, _ => true
  end.

Definition py_accepts (t : ty) (v : val) : bool := valid_val t v && all_prims py_in_range t v.

Lemma py_accepts_valid t v : py_accepts t v = true -> valid_val t v = true.
Proof. unfold py_accepts. intros H. apply andb_prop in H. apply H. Qed.

Definition unsat (p : prim) : prim :=
  match p with PU w _ => PU w false | PS w _ => PS w false | PF w _ => PF w false | _ => p end.

Lemma sat16_in_range y : ((N.land y 2147483647 <=? F32_65504)%N || (F32INF <=? N.land y 2147483647)%N) = true -> sat16 y = y.
Proof.
  intros H. unfold sat16. destruct (N.ltb_spec (N.land y 2147483647) F32INF) as [Hf|Hf]; [|reflexivity].
  destruct (N.ltb_spec F32_65504 (N.land y 2147483647)) as [Hb|Hb]; [|reflexivity].
  apply orb_prop in H. destruct H as [H|H]; [apply N.leb_le in H | apply N.leb_le in H]; lia.
Qed.

Theorem py_saturation_dead : forall p v, py_in_range p v = true -> py_enc_prim p v = py_enc_prim (unsat p) v.
Proof.
  intros p v H. destruct p as [|w s|w s|w s|w], v; cbn [py_enc_prim unsat py_in_range] in *; try reflexivity.
  - destruct s; [|reflexivity]. apply andb_prop in H. destruct H as [H1 H2]. f_equal. f_equal. f_equal. f_equal. lia.
  - destruct s; [|reflexivity]. apply andb_prop in H. destruct H as [H1 H2].
    replace (Z.max (Z.min z (pow2 (w - 1) - 1)) (- pow2 (w - 1))) with z by lia. reflexivity.
  - destruct (is_f16 w); [|reflexivity]. destruct s; [|reflexivity]. unfold f16_in. rewrite sat16_in_range by exact H. reflexivity.
Qed.

Theorem py_accepted_serializes : forall Q u fs ext v cap, add_law Q (8 * cap) -> hdr_law Q (8 * cap) -> bulk_law Q (8 * cap) ->
  wf_ty (TComp u fs ext) = true -> bmax (TComp u fs ext) <= 8 * cap ->
  py_accepts (TComp u fs ext) v = true -> no_f16_tie (TComp u fs ext) v = true ->
  exists bits, py_walk_ser Q py_enc_prim (TComp u fs ext) v cap = Ok bits /\ enc_body (TComp u fs ext) v = Ok bits.
Proof.
  intros Q u fs ext v cap Ha Hh Hb Hwf Hge Hacc Htie.
  destruct (proj2 (enc_ok_iff_valid _ _) (py_accepts_valid _ _ Hacc)) as (bits & E).
  exists bits. split; [|exact E].
  rewrite (py_walk_ser_pre_refines_on Q u fs ext v cap Ha Hh Hb Hwf Hge), (py_pre_id _ _ Htie).
  unfold ser_spec. destruct (Nat.ltb_spec (8 * cap) (bmax (TComp u fs ext))); [lia | exact E].
Qed.

(* what an element of an array field can hold when the caller mutates the bound ndarray in place: any value of the NumPy dtype *)
Definition py_elem_reachable (p : prim) (v : val) : bool :=
  match p, v with
  | PU w _, VInt z => (0 <=? z)%Z && (z <? pow2 (Walker.std_width w))%Z
  | PS w _, VInt z => (- pow2 (Walker.std_width w - 1) <=? z)%Z && (z <? pow2 (Walker.std_width w - 1))%Z
  | _, _ => true
  end.

(* the saturating / truncating branch of the element loop is reachable and computes the specification's cast *)
Example py_saturation_live_example :
  py_elem_reachable (PU 7 true) (VInt 200) = true /\ py_in_range (PU 7 true) (VInt 200) = false /\
  py_enc_prim (PU 7 true) (VInt 200) = Ok (bits_of_N 7 127) /\ py_enc_prim (PU 7 false) (VInt 200) = Ok (bits_of_N 7 72) /\
  py_enc_prim (PS 5 true) (VInt (-100)) = Ok (bits_of_N 5 16) /\
  enc_prim (PU 7 true) (VInt 200) = Ok (bits_of_N 7 127) /\ enc_prim (PU 7 false) (VInt 200) = Ok (bits_of_N 7 72).
Proof. vm_compute. repeat split; reflexivity. Qed.

(* the integer ranges are C18's: Gen/PyObj.v `urange w z = (0 <=? z) && (z <=? 2^w - 1)`, `srange w z = (-2^(w-1) <=? z) && (z <=?
   2^(w-1) - 1)`, about which PyObjThm*.v proves that the generated setter raises ValueError exactly outside them *)
(* ... literally the same predicates as C18's model of the generated setters *)
Lemma py_in_range_is_c18 : forall w s z, 1 <= w ->
  py_in_range (PU w s) (VInt z) = PyObj.int_in_range (PyObj.KU (Z.of_nat w)) z /\
  py_in_range (PS w s) (VInt z) = PyObj.int_in_range (PyObj.KS (Z.of_nat w)) z.
Proof.
  intros w s z Hw. cbn [py_in_range PyObj.int_in_range]. unfold PyObj.urange, PyObj.srange, pow2.
  replace (Z.of_nat (w - 1)) with (Z.of_nat w - 1)%Z by lia. split; reflexivity.
Qed.

Example py_accepts_examples :
  py_in_range (PU 8 false) (VInt 255) = true /\ py_in_range (PU 8 false) (VInt 256) = false /\
  py_in_range (PS 13 true) (VInt (-4096)) = true /\ py_in_range (PS 13 true) (VInt 4096) = false /\
  py_in_range (PF 16 false) (VFlt 1199570944%N) = false /\      (* 65520.0: refused even for a truncated field *)
  py_in_range (PF 16 true) (VFlt 2139095040%N) = true.          (* +inf accepted *)
Proof. vm_compute. repeat split; reflexivity. Qed.
