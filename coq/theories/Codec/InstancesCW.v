(* The C instance with the WIDTH OF size_t AS A PARAMETER (audit 2, C01 #8 / C02 #7): the cursor `offset_bits`, the capacity and the
   array counts of the generated C code have the type named `unsigned_bit_length` / `unsigned_length` in lang/c/properties.yaml
   (size_t): 32 bits on the 32-bit MCUs that are the main deployment target, 64 on LP64 hosts.  b-c14's Prims/CPrimsW.v is the support
   header with every size_t operation wrapped modulo M; here the walker is instantiated with those functions (current text of
   nunavutSetUxx: `set_uxx_satM`), for EVERY M >= 2^16:
       `c_walk_des_refines_W`, `c_walk_ser_refines_W`   side conditions `|bits| + tsz t < M`, `8*cap < M`
   and the two deployment widths as corollaries (`_32`, `_64`).  At M = 2^64 the functions are those of InstancesC.v
   (`CPrimsWThm.width64_is_cprims`).  The walker's own arithmetic is on unbounded naturals; the side conditions are exactly what
   keeps every quantity it computes below M (cursor bound: Codec/WalkerBound.v). *)
From Verif Require Import Bits CPrims CPrimsThm CPrimsW CPrimsWThm.
From Verif Require Import Wire WireThm WireThmRt WireThmExt Walker PrimsOn InstancesBase WalkerBound RefineDes RefineSerBits RefineSerBase RefineSer InstancesC.
Local Open Scope nat_scope.

Section Width.
  Variable M : N.
  Hypothesis HM : (65536 <= M)%N.

  Definition c_set_bitsW (little : bool) (buf : list bool) (off : nat) (v : list bool) : option (list bool) :=
    let b := bytes_of_bits buf in
    match set_uxx_satM M little b (blen b) (N.of_nat off) (N_of_bits v) (N.of_nat (length v)) with
    | Some (inl r) => Some (bits_of_bytes r)
    | _ => None
    end.

  Definition c_get_bitsW (little : bool) (buf : list bool) (cap off w : nat) : list bool :=
    match get_uxxM M little (N.of_nat (std_width w)) (bytes_of_bits buf) (N.of_nat (cap / 8)) (N.of_nat off) (N.of_nat w) with
    | Some x => bits_of_N w x
    | None => repeat false w
    end.

  Definition c_primsW (little : bool) : prims := {| set_bits := c_set_bitsW little; get_bits := c_get_bitsW little |}.

  Definition c_domW (buf : list bool) : Prop := length buf mod 8 = 0 /\ (N.of_nat (length buf) < M)%N.

  Lemma c_buf_preW buf size off : c_domW buf -> size <= length buf / 8 -> (N.of_nat off < M)%N ->
    buf_preM M (bytes_of_bits buf) (N.of_nat size) (N.of_nat off) = true.
  Proof.
    intros [Hm Hl] Hs Ho. unfold buf_preM. rewrite (blen_bytes_of_bits buf Hm).
    assert (H1 : (N.of_nat size <=? N.of_nat (length buf / 8))%N = true) by (apply N.leb_le; lia).
    assert (H2 : (8 * N.of_nat (length buf / 8) <? M)%N = true) by (apply N.ltb_lt; lia).
    assert (H3 : (N.of_nat off <? M)%N = true) by (apply N.ltb_lt; exact Ho).
    rewrite H1, H2, H3. cbn [andb]. apply bytes_of_bits_ok.
  Qed.

  Lemma c_get_okW little buf cap off w : c_domW buf -> 1 <= w <= 64 -> cap <= length buf -> cap mod 8 = 0 ->
    (N.of_nat off < M)%N -> c_get_bitsW little buf cap off w = take_ze w (skipn off (firstn cap buf)).
  Proof.
    intros Hd Hw Hc Hm Ho. unfold c_get_bitsW.
    assert (Hs : cap / 8 <= length buf / 8) by (destruct Hd; lia).
    destruct (get_uxx_spec_bM M HM little _ _ _ _ (N.of_nat w) (std_width_is_N w) (c_buf_preW buf (cap / 8) off Hd Hs Ho))
      as (x & -> & Hx).
    apply bits_ext; [rewrite bits_of_N_length, take_ze_length; reflexivity|].
    intros k Hk. rewrite bits_of_N_length in Hk.
    rewrite nth_bits_of_N by exact Hk. rewrite Hx. rewrite (nth_window buf cap off w k Hc).
    pose proof (RefineSerBits.std_width_ge w ltac:(lia)) as Hsw.
    replace (N.of_nat off + N.of_nat k)%N with (N.of_nat (off + k)) by lia.
    rewrite (bit_bytes_of_bits buf (off + k)) by (destruct Hd; assumption).
    destruct (N.ltb_spec (N.of_nat k) (N.min (N.of_nat w) (N.of_nat (std_width w)))) as [A|A];
      destruct (Nat.ltb_spec k w) as [A'|A']; try lia; cbn [andb].
    destruct (N.ltb_spec (N.of_nat (off + k)) (8 * N.of_nat (cap / 8))) as [C|C];
      destruct (Nat.ltb_spec (off + k) cap) as [C'|C']; try lia; reflexivity.
  Qed.

  Theorem c_get_lawW little B bits : c_domW bits -> (N.of_nat B < M)%N ->
    get_law (guard B (c_primsW little)) (fun w => 1 <= w <= 64) bits.
  Proof.
    intros Hd HB cap off w Hw Hc Hm. unfold guard. cbn [get_bits c_primsW].
    destruct (Nat.leb_spec (off + w) B) as [Hle|_]; [|reflexivity].
    apply c_get_okW; try assumption. lia.
  Qed.

  Theorem c_set_lawW little L : L mod 8 = 0 -> (N.of_nat L < M)%N -> set_law (c_primsW little) L.
  Proof.
    intros HLm HL buf off v Hl H64 Hfit. cbn [set_bits c_primsW]. unfold c_set_bitsW.
    assert (Hd : c_domW buf) by (unfold c_domW; rewrite Hl; split; assumption).
    assert (Hm : length buf mod 8 = 0) by apply Hd.
    assert (Hpre : buf_preM M (bytes_of_bits buf) (blen (bytes_of_bits buf)) (N.of_nat off) = true).
    { rewrite (blen_bytes_of_bits buf Hm). apply c_buf_preW; [exact Hd | lia | lia]. }
    pose proof (set_uxx_sat_exactM M HM little _ _ _ (N_of_bits v) (N.of_nat (length v)) Hpre) as H.
    rewrite (blen_bytes_of_bits buf Hm) in *.
    destruct (N.ltb_spec (N.of_nat (length buf / 8) * 8) (N.of_nat off + N.of_nat (length v))) as [Hbad|_]; [lia|].
    destruct H as (r & -> & Hlen & Hbit). f_equal.
    assert (Hbl : length (bytes_of_bits buf) = length buf / 8) by (apply bytes_of_bits_length; exact Hm).
    apply bits_ext.
    - rewrite bits_of_bytes_length, Hlen, Hbl, !app_length, firstn_length, skipn_length. lia.
    - intros p Hp. rewrite <- bit_bits_of_bytes, Hbit. rewrite (nth_store buf v off p) by lia.
      rewrite (bit_bytes_of_bits buf p Hm).
      destruct (N.leb_spec (N.of_nat off) (N.of_nat p)) as [A|A]; destruct (Nat.leb_spec off p) as [A'|A']; try lia; cbn [andb];
        [|reflexivity].
      destruct (N.ltb_spec (N.of_nat p) (N.of_nat off + N.min (N.of_nat (length v)) 64)) as [C|C];
        destruct (Nat.ltb_spec p (off + length v)) as [C'|C']; try lia; [|reflexivity].
      pose proof (N_of_bits_lt v) as Hv.
      assert (Hpow : (2 ^ N.of_nat (length v) <= 2 ^ 64)%N) by (apply N.pow_le_mono_r; lia).
      rewrite N.mod_small by lia.
      replace (N.of_nat p - N.of_nat off)%N with (N.of_nat (p - off)) by lia. apply testbit_N_of_bits.
  Qed.

  Theorem c_walk_des_refines_W : forall (little : bool) t bits, wf_ty t = true -> length bits mod 8 = 0 ->
    (N.of_nat (length bits + tsz t) < M)%N ->
    walk_des (c_primsW little) t bits = des_spec t bits.
  Proof.
    intros little t bits Hwf Hm HB.
    rewrite <- (walk_des_guard (c_primsW little) (length bits + tsz t) t bits (le_n _)).
    apply (walk_des_refines_on _ (fun w => 1 <= w <= 64)); [trivial | | right; exact Hwf | exact Hm].
    apply c_get_lawW; [split; [exact Hm | lia] | exact HB].
  Qed.

  Theorem c_walk_ser_refines_W : forall (little : bool) u fs ext v buf cap,
    wf_ty (TComp u fs ext) = true -> length buf = 8 * cap -> (N.of_nat (8 * cap) < M)%N ->
    storage_ok (TComp u fs ext) v = true ->
    walk_ser (c_primsW little) (TComp u fs ext) v buf cap = ser_spec (TComp u fs ext) v cap.
  Proof.
    intros little u fs ext v buf cap Hwf Hl HB Hst. apply walk_ser_refines_on; try assumption.
    apply c_set_lawW; [lia | exact HB].
  Qed.
End Width.

(* the two deployment widths *)
Corollary c_walk_des_refines_32 : forall little t bits, wf_ty t = true -> length bits mod 8 = 0 ->
  (N.of_nat (length bits + tsz t) < 2 ^ 32)%N -> walk_des (c_primsW (2 ^ 32) little) t bits = des_spec t bits.
Proof. intros. apply c_walk_des_refines_W; try assumption. exact width32_ok. Qed.

Corollary c_walk_ser_refines_32 : forall little u fs ext v buf cap,
  wf_ty (TComp u fs ext) = true -> length buf = 8 * cap -> (N.of_nat (8 * cap) < 2 ^ 32)%N -> storage_ok (TComp u fs ext) v = true ->
  walk_ser (c_primsW (2 ^ 32) little) (TComp u fs ext) v buf cap = ser_spec (TComp u fs ext) v cap.
Proof. intros. apply c_walk_ser_refines_W; try assumption. exact width32_ok. Qed.

Corollary c_walk_des_refines_64 : forall little t bits, wf_ty t = true -> length bits mod 8 = 0 ->
  (N.of_nat (length bits + tsz t) < 2 ^ 64)%N -> walk_des (c_primsW (2 ^ 64) little) t bits = des_spec t bits.
Proof. intros. apply c_walk_des_refines_W; try assumption. exact width64_ok. Qed.

(* a 32-bit size_t really changes the functions: an offset of 2^32 - 8 bits wraps in the model of the OLD check only; with the
   current saturating check the 32-bit store reports TooSmall *)
Example width32_store_example :
  set_uxx_satM (2 ^ 32) false [0; 0]%N 2 (2 ^ 32 - 8) 1 16 = Some (inr TooSmall).
Proof. vm_compute. reflexivity. Qed.
