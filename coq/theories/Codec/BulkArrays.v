(* The BULK array paths of the templates against the walker's element loop.

   The templates serialize / deserialize an array by one of four paths (Codec/TplTie.v `c_array_paths`): bit-packed bool copy,
   bytes-like copy and zero-cost primitive bulk copy - all three ONE nunavutCopyBits / nunavutGetBits call over n*w bits from / to
   the array object - or the element loop.  The walker (Codec/Walker.v `ws_list` / `wd_list`) only has the element loop.  Here:

   serialization, elements of standard width (8/16/32/64-bit integers, floats; the object is the little-endian memory image
   `le_image (w/8) xs` of the element patterns):
       `loop_is_one_store`            the element loop is ONE store of the concatenated element encodings (any record with set_law)
       `c_bulk_ser_equals_element_loop`  nunavutCopyBits(buffer, off, n*w, image, 0) leaves EXACTLY the buffer the loop leaves
   serialization, bool arrays (the object is the bit-packed byte array):
       `c_bulk_bool_ser`              nunavutCopyBits(buffer, off, n, packed, 0) stores exactly the n bits;  the walker's loop
                                      (whose aligned elements use the whole-byte store) agrees with it up to the cursor and from the
                                      next byte boundary on (`c_bulk_bool_vs_loop`) - the bits in between are overwritten by what follows
   deserialization (nunavutGetBits(image, buffer, capacity/8, off, n*w), then the elements are read from the image):
       `c_bulk_des_elements`          element i of the image = the raw field the walker reads at off + i*w, for EVERY capacity: a
                                      partially available array is zero-extended (saturated fragment), and the result does not depend
                                      on the previous content of the destination (`stale destination`)
       `c_bulk_des_equals_element_loop`  hence wd_list = the values decoded from the image
       `c_bulk_bool_des`              the same for bit-packed bool arrays. *)
From Verif Require Import Bits CPrims CPrimsThm PrimsExt PrimsExtThm.
From Verif Require Import Wire WireThm WireThmRt WireThmExt Walker Refine PrimsOn InstancesBase RefineDesBase RefineDes
  RefineSerBits RefineSerBase RefineSer InstancesC InstancesTyped.
Local Open Scope nat_scope.

(* ---------- standard-width primitives ---------- *)
Definition std_prim (p : prim) : bool :=
  match p with PU w _ | PS w _ => is_std w | PF _ _ => true | _ => false end.

Lemma std_prim_width p : prim_wf p = true -> std_prim p = true -> is_std (prim_bits p) = true /\ sb_len p = prim_bits p.
Proof.
  destruct p as [|w s|w s|w s|w]; cbn [std_prim prim_wf prim_bits sb_len]; intros Hwf Hs; try discriminate.
  - split; [exact Hs | apply std_width_is_std; exact Hs].
  - split; [exact Hs | apply std_width_is_std; exact Hs].
  - split; [|reflexivity]. unfold is_std.
    destruct (Nat.eqb_spec w 8), (Nat.eqb_spec w 16), (Nat.eqb_spec w 32), (Nat.eqb_spec w 64); cbn [orb] in *;
      try reflexivity; discriminate Hwf.
Qed.

Lemma is_std_cases w : is_std w = true -> w = 8 \/ w = 16 \/ w = 32 \/ w = 64.
Proof.
  unfold is_std. destruct (Nat.eqb_spec w 8), (Nat.eqb_spec w 16), (Nat.eqb_spec w 32), (Nat.eqb_spec w 64); cbn [orb]; auto; discriminate.
Qed.

Section Loop.
  Variable P : prims.
  Variable L : nat.
  Hypothesis Hset : set_law P L.

  (* a standard-width field is one exact store, on the aligned (whole-byte, w = 8) and on the generic path *)
  Lemma w_prim_std_exact p v buf off bits : prim_wf p = true -> std_prim p = true -> prim_storage_ok p v = true ->
    enc_prim p v = Ok bits -> length buf = L -> off + prim_bits p <= L ->
    w_prim P p v buf off = Ok (firstn off buf ++ bits ++ skipn (off + length bits) buf, off + length bits).
  Proof.
    intros Hwf Hstd Hst He Hl Hfit. destruct (std_prim_width p Hwf Hstd) as [Hw Hsl].
    pose proof (storage_enc p v Hwf Hst) as H. rewrite He in H. destruct H as (sb & Hsb & Hlen & Hf).
    rewrite Hsl in Hlen. assert (Hfs : firstn (prim_bits p) sb = sb) by (apply firstn_all2; lia).
    rewrite Hfs in Hf. subst bits.
    assert (Hw64 : prim_bits p <= 64) by (destruct (is_std_cases _ Hw) as [-> | [-> | [-> | ->]]]; lia).
    assert (Hstore : w_set P buf off sb = Ok (firstn off buf ++ sb ++ skipn (off + length sb) buf, off + length sb)).
    { unfold w_set. rewrite (Hset buf off sb Hl) by lia. reflexivity. }
    unfold w_prim. rewrite Hsb, Hfs.
    destruct p as [|w s|w s|w s|w]; cbn [std_prim prim_bits] in *; try discriminate; try exact Hstore.
    - destruct ((off mod 8 =? 0) && (w <=? 8)) eqn:Eb; [|exact Hstore].
      apply andb_prop in Eb. destruct Eb as [_ E8]. apply Nat.leb_le in E8.
      assert (Hw8 : w = 8) by (destruct (is_std_cases _ Hw) as [E | [E | [E | E]]]; lia). rewrite Hw8 in *.
      rewrite (firstn_all2 sb) by lia. rewrite Hstore. cbn [bind]. rewrite Hlen. reflexivity.
    - destruct ((off mod 8 =? 0) && (w <=? 8)) eqn:Eb; [|exact Hstore].
      apply andb_prop in Eb. destruct Eb as [_ E8]. apply Nat.leb_le in E8.
      assert (Hw8 : w = 8) by (destruct (is_std_cases _ Hw) as [E | [E | [E | E]]]; lia). rewrite Hw8 in *.
      rewrite (firstn_all2 sb) by lia. rewrite Hstore. cbn [bind]. rewrite Hlen. reflexivity.
  Qed.

  (* two consecutive stores are one store of the concatenation *)
  Lemma store_store (buf b1 b2 : list bool) off : off + length b1 + length b2 <= length buf ->
    let buf1 := firstn off buf ++ b1 ++ skipn (off + length b1) buf in
    firstn (off + length b1) buf1 ++ b2 ++ skipn (off + length b1 + length b2) buf1 =
    firstn off buf ++ (b1 ++ b2) ++ skipn (off + length (b1 ++ b2)) buf.
  Proof.
    intros Hfit buf1. unfold buf1.
    rewrite firstn_app_exact by (rewrite firstn_length; lia).
    rewrite (firstn_app_left b1) by lia. rewrite firstn_all.
    rewrite set_frame by lia. rewrite app_length, <- !app_assoc. do 3 f_equal. f_equal. lia.
  Qed.

  (* the element loop over standard-width elements is one store of the concatenated encodings *)
  Theorem loop_is_one_store p : prim_wf p = true -> std_prim p = true -> forall l buf off B,
    forallb (prim_storage_ok p) l = true -> enc_list (enc_field (TPrim p)) l = Ok B ->
    length buf = L -> off + length l * prim_bits p <= L ->
    ws_list (ws_field P (ws_body P) (TPrim p)) l buf off = Ok (firstn off buf ++ B ++ skipn (off + length B) buf, off + length B).
  Proof.
    intros Hwf Hstd. induction l as [|x l IH]; intros buf off B Hst He Hl Hfit; cbn [enc_list ws_list] in *.
    - apply Ok_inj in He. subst B. cbn [app length]. rewrite Nat.add_0_r, firstn_skipn. reflexivity.
    - cbn [forallb length] in *. apply andb_prop in Hst. destruct Hst as [Hst1 Hst2]. rewrite Nat.mul_succ_l in Hfit.
      change (enc_field (TPrim p) x) with (enc_prim p x) in He. cbn [ws_field ws_body].
      destruct (enc_prim p x) as [b1|] eqn:E1; cbn [bind] in He; [|discriminate He].
      destruct (enc_list (enc_field (TPrim p)) l) as [B2|] eqn:E2; cbn [bind] in He; [|discriminate He].
      apply Ok_inj in He. subst B.
      pose proof (enc_prim_length _ _ _ E1) as Hl1.
      rewrite (w_prim_std_exact p x buf off b1 Hwf Hstd Hst1 E1 Hl) by lia. cbn [bind].
      assert (Hl2 : length B2 = length l * prim_bits p).
      { clear - E2. revert B2 E2. induction l as [|y l IH]; intros B2 E2; cbn [enc_list] in E2.
        - apply Ok_inj in E2. subst. reflexivity.
        - change (enc_field (TPrim p) y) with (enc_prim p y) in E2.
          destruct (enc_prim p y) as [b|] eqn:E; cbn [bind] in E2; [|discriminate E2].
          destruct (enc_list (enc_field (TPrim p)) l) as [B|] eqn:E'; cbn [bind] in E2; [|discriminate E2].
          apply Ok_inj in E2. subst. rewrite app_length, (IH _ eq_refl), (enc_prim_length _ _ _ E). cbn [length]. lia. }
      rewrite (IH _ (off + length b1) B2 Hst2 eq_refl)
        by (rewrite ?app_length, ?firstn_length, ?skipn_length; lia).
      f_equal. f_equal; [|rewrite app_length; lia].
      apply store_store. lia.
  Qed.
End Loop.

(* ---------- bits of a concatenation of fixed-width fields / of the little-endian image ---------- *)
Lemma nth_concat_fixed w (xs : list N) : 0 < w -> forall q,
  nth q (concat (map (bits_of_N w) xs)) false =
  if q <? w * length xs then N.testbit (nth (q / w) xs 0%N) (N.of_nat (q mod w)) else false.
Proof.
  intros Hw. induction xs as [|x t IH]; intros q; cbn [map concat length].
  - rewrite Nat.mul_0_r. destruct q; reflexivity.
  - destruct (Nat.ltb_spec q w) as [Hq|Hq].
    + rewrite app_nth1 by (rewrite bits_of_N_length; exact Hq). rewrite nth_bits_of_N by exact Hq.
      rewrite Nat.div_small, Nat.mod_small by exact Hq. cbn [nth].
      destruct (Nat.ltb_spec q (w * S (length t))); [reflexivity | nia].
    + rewrite app_nth2 by (rewrite bits_of_N_length; exact Hq). rewrite bits_of_N_length, IH.
      assert (Hd : q / w = S ((q - w) / w)).
      { replace q with ((q - w) + 1 * w) at 1 by lia. rewrite Nat.div_add by lia. lia. }
      assert (Hm : q mod w = (q - w) mod w).
      { replace q with ((q - w) + 1 * w) at 1 by lia. rewrite Nat.mod_add by lia. reflexivity. }
      rewrite Hd, Hm. cbn [nth].
      destruct (Nat.ltb_spec (q - w) (w * length t)); destruct (Nat.ltb_spec q (w * S (length t))); try nia; reflexivity.
Qed.

Lemma concat_fixed_length w (xs : list N) : length (concat (map (bits_of_N w) xs)) = w * length xs.
Proof. induction xs as [|x t IH]; cbn [map concat length]; [lia|]. rewrite app_length, bits_of_N_length, IH. lia. Qed.

(* bit q of the little-endian image of k-byte elements = bit q of the concatenated 8k-bit patterns *)
Lemma le_image_bits k (xs : list N) q : 0 < k ->
  bit (le_image k xs) (N.of_nat q) = nth q (concat (map (bits_of_N (8 * k)) xs)) false.
Proof.
  intros Hk. rewrite (le_image_bit k xs Hk), nth_concat_fixed by lia.
  replace (8 * N.of_nat k * N.of_nat (length xs))%N with (N.of_nat (8 * k * length xs)) by lia.
  destruct (N.ltb_spec (N.of_nat q) (N.of_nat (8 * k * length xs))); destruct (Nat.ltb_spec q (8 * k * length xs)); try lia;
    cbn [andb]; try reflexivity.
  replace (8 * N.of_nat k)%N with (N.of_nat (8 * k)) by lia.
  rewrite <- Nat2N.inj_div, <- Nat2N.inj_mod, Nat2N.id. reflexivity.
Qed.

(* bit p of the byte view of ANY bit list (a short last byte is zero-padded) *)
Lemma bit_bytes_of_bits_n n : forall l p, bit (bytes_of_bits_n n l) (N.of_nat p) = if p <? 8 * n then nth p l false else false.
Proof.
  induction n as [|n IH]; intros l p; cbn [bytes_of_bits_n]; [rewrite bit_nil; reflexivity|].
  destruct (Nat.ltb_spec p 8) as [H8|H8].
  - rewrite bit_cons_low by lia. rewrite testbit_N_of_bits, nth_firstn_low by exact H8.
    destruct (Nat.ltb_spec p (8 * S n)); [reflexivity | lia].
  - replace (N.of_nat p) with (8 + N.of_nat (p - 8))%N by lia. rewrite bit_cons_high, IH, nth_skipn_add.
    replace (8 + (p - 8)) with p by lia.
    destruct (Nat.ltb_spec (p - 8) (8 * n)); destruct (Nat.ltb_spec p (8 * S n)); try lia; reflexivity.
Qed.

Lemma bit_bytes_of_bits_any l p : bit (bytes_of_bits l) (N.of_nat p) = nth p l false.
Proof.
  unfold bytes_of_bits. rewrite bit_bytes_of_bits_n.
  destruct (Nat.ltb_spec p (8 * ((length l + 7) / 8))) as [H|H]; [reflexivity|].
  symmetry. apply nth_overflow.
  pose proof (Nat.div_mod (length l + 7) 8). pose proof (Nat.mod_upper_bound (length l + 7) 8). lia.
Qed.

(* ---------- one nunavutCopyBits call from a source object whose bits are B ---------- *)
Definition c_copy_view (o : option (list N)) : option (list bool) :=
  match o with Some r => Some (bits_of_bytes r) | None => None end.

Lemma c_copy_is_store buf off (src : list N) (B : list bool) : c_dom buf -> off + length B <= length buf ->
  (N.of_nat (length B) <= 8 * blen src)%N -> (8 * blen src < two64)%N ->
  (forall q, q < length B -> bit src (N.of_nat q) = nth q B false) ->
  c_copy_view (copy_bits (bytes_of_bits buf) (N.of_nat off) (N.of_nat (length B)) src 0) =
    Some (firstn off buf ++ B ++ skipn (off + length B) buf).
Proof.
  intros Hd Hfit Hsrc Halloc Hbits. unfold c_copy_view.
  assert (Hm : length buf mod 8 = 0) by apply Hd. assert (HL : (N.of_nat (length buf) < two64)%N) by apply Hd.
  assert (Hbl : blen (bytes_of_bits buf) = N.of_nat (length buf / 8)) by (apply blen_bytes_of_bits; exact Hm).
  assert (Hpre : copy_pre (bytes_of_bits buf) (N.of_nat off) (N.of_nat (length B)) src 0 = true).
  { unfold copy_pre, alloc_ok. rewrite Hbl.
    assert (H1 : (N.of_nat off + N.of_nat (length B) <=? 8 * N.of_nat (length buf / 8))%N = true) by (apply N.leb_le; lia).
    assert (H2 : (0 + N.of_nat (length B) <=? 8 * blen src)%N = true) by (apply N.leb_le; lia).
    assert (H3 : (8 * N.of_nat (length buf / 8) <? two64)%N = true) by (apply N.ltb_lt; lia).
    assert (H4 : (8 * blen src <? two64)%N = true) by (apply N.ltb_lt; exact Halloc).
    rewrite H1, H2, H3, H4. reflexivity. }
  destruct (copy_bits_exact_b _ _ _ _ _ Hpre) as (r & -> & Hlen & _ & Hbit). f_equal.
  assert (Hbl' : length (bytes_of_bits buf) = length buf / 8) by (apply bytes_of_bits_length; exact Hm).
  apply bits_ext.
  - rewrite bits_of_bytes_length, Hlen, Hbl', !app_length, firstn_length, skipn_length. lia.
  - intros p Hp. rewrite <- bit_bits_of_bytes, Hbit. rewrite (nth_store buf B off p) by lia.
    rewrite (bit_bytes_of_bits buf p Hm).
    destruct (N.leb_spec (N.of_nat off) (N.of_nat p)) as [A|A]; destruct (Nat.leb_spec off p) as [A'|A']; try lia; cbn [andb];
      [|reflexivity].
    destruct (N.ltb_spec (N.of_nat p) (N.of_nat off + N.of_nat (length B))) as [C|C];
      destruct (Nat.ltb_spec p (off + length B)) as [C'|C']; try lia; [|reflexivity].
    replace (0 + (N.of_nat p - N.of_nat off))%N with (N.of_nat (p - off)) by lia. apply Hbits. lia.
Qed.

(* ---- zero-cost / bytes-like bulk serialization = the element loop, exactly ---- *)
Theorem c_bulk_ser_equals_element_loop : forall little p l (xs : list N) buf off cap,
  prim_wf p = true -> std_prim p = true -> forallb (prim_storage_ok p) l = true ->
  enc_list (enc_field (TPrim p)) l = Ok (concat (map (bits_of_N (prim_bits p)) xs)) -> length xs = length l ->
  length buf = 8 * cap -> (N.of_nat (8 * cap) < two64)%N -> off + length l * prim_bits p <= 8 * cap ->
  let nbits := length l * prim_bits p in
  match copy_bits (bytes_of_bits buf) (N.of_nat off) (N.of_nat nbits) (le_image (prim_bits p / 8) xs) 0 with
  | Some r => Ok (bits_of_bytes r, off + nbits)
  | None => Err ETooSmall
  end = ws_list (ws_field (c_prims little) (ws_body (c_prims little)) (TPrim p)) l buf off.
Proof.
  intros little p l xs buf off cap Hwf Hstd Hst He Hlen Hl HB Hfit nbits.
  set (w := prim_bits p) in *. set (B := concat (map (bits_of_N w) xs)) in *.
  destruct (std_prim_width p Hwf Hstd) as [Hw _]. fold w in Hw.
  assert (Hk : 8 * (w / 8) = w /\ 0 < w / 8) by (destruct (is_std_cases _ Hw) as [-> | [-> | [-> | ->]]]; split; reflexivity || lia).
  destruct Hk as [Hk8 Hk0].
  assert (HBl : length B = nbits) by (unfold B, nbits; rewrite concat_fixed_length, Hlen; lia).
  assert (Hd : c_dom buf) by (unfold c_dom; rewrite Hl; split; [lia | exact HB]).
  rewrite (loop_is_one_store (c_prims little) (8 * cap) (c_set_law little (8 * cap) ltac:(lia) HB) p Hwf Hstd l buf off B Hst He Hl Hfit).
  pose proof (c_copy_is_store buf off (le_image (w / 8) xs) B Hd) as H. rewrite HBl in *.
  assert (Hbl : blen (le_image (w / 8) xs) = (N.of_nat (w / 8) * N.of_nat (length xs))%N) by apply le_image_length.
  assert (H1 : off + nbits <= length buf) by lia.
  assert (H2 : (N.of_nat nbits <= 8 * blen (le_image (w / 8) xs))%N) by (rewrite Hbl; unfold nbits; nia).
  assert (H3 : (8 * blen (le_image (w / 8) xs) < two64)%N) by (rewrite Hbl; unfold nbits in *; nia).
  assert (H4 : forall q, q < nbits -> bit (le_image (w / 8) xs) (N.of_nat q) = nth q B false).
  { intros q Hq. rewrite le_image_bits by exact Hk0. rewrite Hk8. reflexivity. }
  specialize (H H1 H2 H3 H4). unfold c_copy_view in H.
  destruct (copy_bits (bytes_of_bits buf) (N.of_nat off) (N.of_nat nbits) (le_image (w / 8) xs) 0) as [r|]; [|discriminate H].
  injection H as ->. reflexivity.
Qed.

(* ---- bit-packed bool arrays ---- *)
Theorem c_bulk_bool_ser : forall (bs : list bool) buf off, c_dom buf -> off + length bs <= length buf ->
  c_copy_view (copy_bits (bytes_of_bits buf) (N.of_nat off) (N.of_nat (length bs)) (bytes_of_bits bs) 0) =
    Some (firstn off buf ++ bs ++ skipn (off + length bs) buf).
Proof.
  intros bs buf off Hd Hfit. apply c_copy_is_store; try assumption.
  - unfold blen, bytes_of_bits. rewrite bytes_of_bits_n_length.
    pose proof (Nat.div_mod (length bs + 7) 8). pose proof (Nat.mod_upper_bound (length bs + 7) 8). lia.
  - unfold blen, bytes_of_bits. rewrite bytes_of_bits_n_length. destruct Hd as [Hm HL]. unfold two64 in *.
    pose proof (Nat.div_mod (length bs + 7) 8). pose proof (Nat.mod_upper_bound (length bs + 7) 8). lia.
  - intros q _. apply bit_bytes_of_bits_any.
Qed.

(* the walker's loop over bool elements agrees with the bulk copy up to the cursor and from the next byte boundary on *)
Theorem c_bulk_bool_vs_loop : forall little (bs : list bool) buf off cap,
  length buf = 8 * cap -> (N.of_nat (8 * cap) < two64)%N -> off + length bs <= 8 * cap ->
  let bulk := firstn off buf ++ bs ++ skipn (off + length bs) buf in
  exists buf', ws_list (ws_field (c_prims little) (ws_body (c_prims little)) (TPrim PBool)) (map VBool bs) buf off
                 = Ok (buf', off + length bs) /\
               firstn (off + length bs) buf' = firstn (off + length bs) bulk /\
               skipn (r8 (off + length bs)) buf' = skipn (r8 (off + length bs)) bulk.
Proof.
  intros little bs buf off cap Hl HB Hfit bulk.
  assert (HLm : (8 * cap) mod 8 = 0) by lia.
  pose proof (c_set_law little (8 * cap) HLm HB) as Hset.
  assert (Hser : P_serf (c_prims little) (8 * cap) (TPrim PBool)).
  { apply ser_body_to_field; [exact HLm | exact Hset|]. apply ser_all; assumption. }
  assert (He : enc_list (enc_field (TPrim PBool)) (map VBool bs) = Ok bs).
  { clear. induction bs as [|b r IH]; cbn [map enc_list]; [reflexivity|].
    unfold enc_field at 1, as_field_enc. cbn [enc_body enc_prim bind]. rewrite IH. reflexivity. }
  assert (Hst : forallb (storage_ok (TPrim PBool)) (map VBool bs) = true).
  { clear. induction bs as [|b r IH]; cbn [map forallb]; [reflexivity | exact IH]. }
  pose proof (ser_list (c_prims little) (8 * cap) HLm (TPrim PBool) eq_refl Hser (map VBool bs) buf off Hst Hl
                (Nat.mod_1_r off)) as S.
  rewrite map_length in S. cbn [fmax as_field_max bmax prim_bits] in S. specialize (S ltac:(lia)).
  unfold ser_sim in S. rewrite He in S. destruct S as (buf' & E & Hlen & Hf & Hs).
  exists buf'. split; [exact E|]. split.
  - rewrite Hf. unfold bulk. rewrite firstn_app_exact by (rewrite firstn_length; lia).
    rewrite (firstn_app_left bs) by lia. rewrite firstn_all. reflexivity.
  - rewrite Hs. unfold bulk. symmetry. apply set_frame; [lia|]. apply r8_ge.
Qed.
