(* The cursor bound of Codec/WalkerBound.v for the EXTENDED deserialization walker (Codec/WalkerXDes.v): `wd_body_x` never issues a
   read - neither a <= 64-bit getter nor the bulk nunavutGetBits - with off + (number of bits) > |buffer| + tsz t.  Hence records that
   are trusted only up to B (the `size_t offset_bits` of the C contracts) may be used whenever |buffer| + tsz t <= B.
   The Section is WalkerBound.v's proof with `wd_body` replaced by `wd_body_x` plus `qx_array` for the bulk call. *)
From Verif Require Import WalkerSafe.
From Verif Require Import Wire WireThm Walker WalkerBound WalkerXDes.
From Coq Require Import Lia ZifyBool ZifyNat ZifyN.
Local Open Scope nat_scope.
Ltac Zify.zify_post_hook ::= Z.div_mod_to_equations.

Section BoundX.
  Variable P : prims.
  Variable getl : list bool -> nat -> nat -> nat -> list bool.
  Variable cf : cfg.
  Variable B : nat.
  Variable buf : list bool.
  Let G := guard B P.
  (* the guarded GetBits: trusted only up to B *)
  Definition getl_g (b : list bool) (cap off m : nat) : list bool :=
    if off + m <=? B then getl b cap off m else take_ze m (skipn off (firstn cap b)).

  Definition bnd {A} (r : res (A * nat)) (b : nat) : Prop := match r with Ok (_, o) => o <= b | Err _ => True end.

  Lemma guard_get cap off w : off + w <= B -> get_bits G buf cap off w = get_bits P buf cap off w.
  Proof. intros H. unfold G, guard. cbn [get_bits]. destruct (Nat.leb_spec (off + w) B); [reflexivity | lia]. Qed.

  Lemma guard_r_prim p cap off : off + prim_bits p <= B -> r_prim G p buf cap off = r_prim P p buf cap off.
  Proof.
    intros H. destruct p; cbn [r_prim prim_bits] in *; rewrite ?guard_get by lia; reflexivity.
  Qed.

  Definition QX (t : ty) : Prop := forall cap off, Nat.max cap off + tsz t <= B ->
    wd_body_x G getl_g cf t buf cap off = wd_body_x P getl cf t buf cap off /\ bnd (wd_body_x P getl cf t buf cap off) (Nat.max cap off + tsz t).

  Definition QXf (t : ty) : Prop := forall cap off, Nat.max cap off + (32 + tsz t) <= B ->
    wd_field G (wd_body_x G getl_g cf) t buf cap off = wd_field P (wd_body_x P getl cf) t buf cap off /\
    bnd (wd_field P (wd_body_x P getl cf) t buf cap off) (Nat.max cap off + (32 + tsz t)).

  Lemma bnd_weaken {A} (r : res (A * nat)) a b : a <= b -> bnd r a -> bnd r b.
  Proof. destruct r as [[v o]|e]; cbn [bnd]; lia. Qed.

  Lemma qx_body_to_field t : QX t -> QXf t.
  Proof.
    intros H cap off Hb.
    destruct t as [p|e n|e c|u fs [x|]];
      try (destruct (H cap off ltac:(lia)) as [E Hn]; split; [exact E | eapply bnd_weaken; [|exact Hn]; lia]).
    - (* delimited *)
      cbn [wd_field]. unfold header_bits in *. rewrite guard_get by lia.
      set (hN := N_of_bits (get_bits P buf cap off 32)).
      destruct (N.ltb_spec (N.of_nat (cap / 8 - Nat.min ((off + 32) / 8) (cap / 8))) hN) as [Hlt|Hge];
        [split; [reflexivity | exact I]|].
      set (h := N.to_nat hN).
      assert (Hh : off + 32 + 8 * h <= Nat.max cap off + 39) by (subst h; lia).
      destruct (H (Nat.min cap (off + 32 + 8 * h)) (off + 32) ltac:(lia)) as [E _]. rewrite E.
      split; [reflexivity|].
      destruct (wd_body_x P getl cf _ buf _ (off + 32)) as [[v o']|err]; cbn [bind bnd]; [|exact I].
      cbn [tsz]. lia.
    - (* sealed *)
      cbn [wd_field]. destruct (H cap off ltac:(lia)) as [E Hn]. rewrite E. split; [reflexivity|].
      destruct (wd_body_x P getl cf _ buf cap off) as [[v o']|err]; cbn [bind bnd] in *; [|exact I]. lia.
  Qed.

  Lemma qx_list e : QXf e -> forall n cap off, Nat.max cap off + n * (32 + tsz e) <= B ->
    wd_list (wd_field G (wd_body_x G getl_g cf) e) n buf cap off = wd_list (wd_field P (wd_body_x P getl cf) e) n buf cap off /\
    bnd (wd_list (wd_field P (wd_body_x P getl cf) e) n buf cap off) (Nat.max cap off + n * (32 + tsz e)).
  Proof.
    intros He. induction n as [|n IH]; intros cap off Hb; cbn [wd_list].
    - split; [reflexivity|]. cbn [bnd]. lia.
    - rewrite Nat.mul_succ_l in *.
      destruct (He cap off ltac:(lia)) as [E Hn]. rewrite E.
      destruct (wd_field P (wd_body_x P getl cf) e buf cap off) as [[v o]|err]; cbn [bind bnd] in *; [|split; [reflexivity | exact I]].
      destruct (IH cap o ltac:(lia)) as [E2 Hn2]. rewrite E2. split; [reflexivity|].
      destruct (wd_list (wd_field P (wd_body_x P getl cf) e) n buf cap o) as [[vs o']|err]; cbn [bind bnd] in *; [lia | exact I].
  Qed.

  Lemma qx_fields fs : Forall QXf fs -> forall cap off, Nat.max cap off + tsz_sum tsz fs + 7 <= B ->
    wd_fields (wd_field G (wd_body_x G getl_g cf)) fs buf cap off = wd_fields (wd_field P (wd_body_x P getl cf)) fs buf cap off /\
    bnd (wd_fields (wd_field P (wd_body_x P getl cf)) fs buf cap off) (Nat.max cap off + tsz_sum tsz fs + 7).
  Proof.
    induction 1 as [|f fs Hf Hfs IH]; intros cap off Hb; cbn [wd_fields tsz_sum] in *.
    - split; [reflexivity|]. cbn [bnd]. unfold pad8. lia.
    - pose proof (padn_le7 off f) as Hp.
      destruct (Hf cap (off + padn off (align f)) ltac:(lia)) as [E Hn]. rewrite E.
      destruct (wd_field P (wd_body_x P getl cf) f buf cap _) as [[v o]|err]; cbn [bind bnd] in *; [|split; [reflexivity | exact I]].
      destruct (IH cap o ltac:(lia)) as [E2 Hn2]. rewrite E2. split; [reflexivity|].
      destruct (wd_fields (wd_field P (wd_body_x P getl cf)) fs buf cap o) as [[vs o']|err]; cbn [bind bnd] in *; [lia | exact I].
  Qed.

  Lemma qx_sel fs : Forall QXf fs -> forall k cap off, Nat.max cap off + tsz_sum tsz fs <= B ->
    wd_sel (wd_field G (wd_body_x G getl_g cf)) fs k buf cap off = wd_sel (wd_field P (wd_body_x P getl cf)) fs k buf cap off /\
    bnd (wd_sel (wd_field P (wd_body_x P getl cf)) fs k buf cap off) (Nat.max cap off + tsz_sum tsz fs).
  Proof.
    induction 1 as [|f fs Hf Hfs IH]; intros k cap off Hb; [destruct k; (split; [reflexivity | exact I])|].
    cbn [tsz_sum] in *. destruct k as [|k]; cbn [wd_sel].
    - destruct (Hf cap off ltac:(lia)) as [E Hn]. split; [exact E | eapply bnd_weaken; [|exact Hn]; lia].
    - destruct (IH k cap off ltac:(lia)) as [E Hn]. split; [exact E | eapply bnd_weaken; [|exact Hn]; lia].
  Qed.

  Lemma qx_array e : QXf e -> forall n cap off, Nat.max cap off + n * (32 + tsz e) <= B ->
    wdx_array getl_g cf e n buf cap off (wd_list (wd_field G (wd_body_x G getl_g cf) e) n buf cap off) =
    wdx_array getl cf e n buf cap off (wd_list (wd_field P (wd_body_x P getl cf) e) n buf cap off) /\
    bnd (wdx_array getl cf e n buf cap off (wd_list (wd_field P (wd_body_x P getl cf) e) n buf cap off))
        (Nat.max cap off + n * (32 + tsz e)).
  Proof.
    intros He n cap off Hb. unfold wdx_array.
    destruct e as [p| | |]; try (apply qx_list; assumption). destruct (bulk cf (TPrim p)); [|apply qx_list; assumption].
    cbn [tsz] in Hb. unfold getl_g. destruct (Nat.leb_spec (off + n * prim_bits p) B) as [_|Hbad]; [|nia].
    split; [reflexivity|]. cbn [bnd tsz]. nia.
  Qed.

  Theorem qx_all : forall t, QX t.
  Proof.
    induction t as [p|e n IHe|e c IHe|u fs ext H] using ty_nested_ind; unfold QX; intros cap off Hb; cbn [tsz] in Hb.
    - cbn [wd_body_x tsz]. rewrite guard_r_prim by lia. split; [reflexivity|]. cbn [bnd]. lia.
    - cbn [wd_body_x tsz]. destruct (qx_array e (qx_body_to_field e IHe) n cap off Hb) as [E Hn]. rewrite E.
      split; [reflexivity|].
      destruct (wdx_array getl cf e n buf cap off (wd_list (wd_field P (wd_body_x P getl cf) e) n buf cap off)) as [[vs o]|err];
        cbn [bind bnd] in *; [exact Hn | exact I].
    - cbn [wd_body_x tsz]. pose proof (len_width_le64 c) as Hw. unfold prefix_bits in *.
      rewrite guard_get by lia.
      set (nN := N_of_bits (get_bits P buf cap off (len_width c))).
      destruct (N.ltb_spec (N.of_nat c) nN) as [Hlt|Hge]; [split; [reflexivity | exact I]|].
      assert (Hn : N.to_nat nN * (32 + tsz e) <= c * (32 + tsz e)) by (apply Nat.mul_le_mono_r; lia).
      destruct (qx_array e (qx_body_to_field e IHe) (N.to_nat nN) cap (off + len_width c) ltac:(lia)) as [E Hb2]. rewrite E.
      split; [reflexivity|].
      destruct (wdx_array getl cf e (N.to_nat nN) buf cap (off + len_width c)
                  (wd_list (wd_field P (wd_body_x P getl cf) e) (N.to_nat nN) buf cap (off + len_width c))) as [[vs o]|err];
        cbn [bind bnd] in *; [lia | exact I].
    - assert (Hf : Forall QXf fs).
      { rewrite Forall_forall in *. intros f Hin. apply qx_body_to_field. apply H. exact Hin. }
      destruct u; cbn [wd_body_x tsz].
      + pose proof (len_width_le64 (length fs - 1)) as Hw. unfold tag_bits in *.
        rewrite guard_get by lia.
        set (kN := N_of_bits (get_bits P buf cap off (len_width (length fs - 1)))).
        destruct (N.leb_spec (N.of_nat (length fs)) kN) as [Hle|Hgt]; [split; [reflexivity | exact I]|].
        destruct (qx_sel fs Hf (N.to_nat kN) cap (off + len_width (length fs - 1)) ltac:(lia)) as [E Hb2]. rewrite E.
        split; [reflexivity|].
        destruct (wd_sel (wd_field P (wd_body_x P getl cf)) fs (N.to_nat kN) buf cap (off + len_width (length fs - 1))) as [[v o]|err]; cbn [bind bnd] in *; [unfold pad8; lia | exact I].
      + destruct (qx_fields fs Hf cap off ltac:(lia)) as [E Hb2]. rewrite E. split; [reflexivity|].
        destruct (wd_fields (wd_field P (wd_body_x P getl cf)) fs buf cap off) as [[vs o]|err]; cbn [bind bnd] in *; [lia | exact I].
  Qed.
End BoundX.

Theorem walk_des_x_guard : forall P getl cf B t bits, length bits + tsz t <= B ->
  walk_des_x (guard B P) (getl_g getl B) cf t bits = walk_des_x P getl cf t bits.
Proof.
  intros P getl cf B t bits Hb. unfold walk_des_x.
  destruct (qx_all P getl cf B bits t (length bits) 0 ltac:(lia)) as [E _]. rewrite E. reflexivity.
Qed.
