(* The extended C serialization walker (Codec/WalkerX.v: little-endian memmove path + bulk array paths) over the SHIPPED C functions:
   `c_prims little` (nunavutSetUxx) for the <= 64-bit stores and nunavutCopyBits for the bulk copies, the array object given by its
   bytes.  `c_walk_ser_x_refines`: for every well-formed composite type, every value in the storage ranges, every initial buffer:
   the routine that takes the memmove path whenever the field is byte-aligned on a little-endian target and ONE CopyBits call for
   every array of bool / zero-cost elements (`WalkerSafe.bulk (std_cfg little)`: the translated `is_zero_cost_primitive`) emits
   the specification's bytes - and therefore the same bytes as the plain walker. *)
From Verif Require Import Bits CPrims CPrimsThm.
From Verif Require Import WalkerSafe.
From Verif Require Import Wire WireThm Walker PrimsOn InstancesBase RefineSerBits RefineSer InstancesC InstancesTyped BulkArrays WalkerX RefineSerX.
Local Open Scope nat_scope.

Definition c_copy (buf : list bool) (off : nat) (B : list bool) : option (list bool) :=
  c_copy_view (copy_bits (bytes_of_bits buf) (N.of_nat off) (N.of_nat (length B)) (bytes_of_bits B) 0).

Theorem c_copy_law : forall L, L mod 8 = 0 -> (N.of_nat L < two64)%N -> copy_law c_copy L.
Proof.
  intros L HLm HL buf off B Hl Hfit. unfold c_copy.
  assert (Hd : c_dom buf) by (unfold c_dom; rewrite Hl; split; assumption).
  apply c_copy_is_store; try assumption; [lia | | |].
  - unfold blen, bytes_of_bits. rewrite bytes_of_bits_n_length.
    pose proof (Nat.div_mod (length B + 7) 8). pose proof (Nat.mod_upper_bound (length B + 7) 8). lia.
  - unfold blen, bytes_of_bits. rewrite bytes_of_bits_n_length. unfold two64 in *.
    pose proof (Nat.div_mod (length B + 7) 8). pose proof (Nat.mod_upper_bound (length B + 7) 8). lia.
  - intros q _. apply bit_bytes_of_bits_any.
Qed.

Theorem c_walk_ser_x_refines : forall (little : bool) u fs ext v buf cap,
  wf_ty (TComp u fs ext) = true -> length buf = 8 * cap -> (N.of_nat (8 * cap) < two64)%N ->
  storage_ok (TComp u fs ext) v = true ->
  walk_ser_x (c_prims little) c_copy (std_cfg little) (TComp u fs ext) v buf cap = ser_spec (TComp u fs ext) v cap.
Proof.
  intros little u fs ext v buf cap Hwf Hl HB Hst. apply walk_ser_x_refines_on; try assumption.
  - apply c_set_law; [lia | exact HB].
  - apply c_copy_law; [lia | exact HB].
Qed.

Corollary c_walk_ser_x_equals_walk_ser : forall (little : bool) u fs ext v buf cap,
  wf_ty (TComp u fs ext) = true -> length buf = 8 * cap -> (N.of_nat (8 * cap) < two64)%N ->
  storage_ok (TComp u fs ext) v = true ->
  walk_ser_x (c_prims little) c_copy (std_cfg little) (TComp u fs ext) v buf cap = walk_ser (c_prims little) (TComp u fs ext) v buf cap.
Proof. intros. rewrite c_walk_ser_x_refines, c_walk_ser_refines by assumption. reflexivity. Qed.

(* the audit's example: a truncated uint13 holding 0xFFFF at a byte-aligned offset on a little-endian target: the memmove path
   writes 16 storage bits (ones in bits 13-15), the next field / the final padding overwrites them; a bool array goes through ONE
   CopyBits call; the routine result is the specification's *)
Example c_walk_ser_x_example :
  let t := TComp false [TPrim (PU 13 false); TPrim (PU 3 true); TFix (TPrim PBool) 5; TFix (TPrim (PU 16 true)) 2] None in
  let v := VStruct [VInt 65535; VInt 2; VArr [VBool true; VBool false; VBool true; VBool true; VBool false]; VArr [VInt 258; VInt 772]] in
  wx_prim (c_prims true) (std_cfg true) (PU 13 false) (VInt 65535) (repeat false 64) 0 = Ok (repeat true 16 ++ repeat false 48, 13) /\
  walk_ser_x (c_prims true) c_copy (std_cfg true) t v (repeat true 64) 8 = ser_spec t v 8 /\
  bulk (std_cfg true) (TPrim (PU 16 true)) = Some 16 /\ bulk (std_cfg true) (TPrim PBool) = Some 1.
Proof. vm_compute. repeat split; reflexivity. Qed.
