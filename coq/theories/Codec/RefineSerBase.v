(* Serialization refinement, part 2: the invariant and the leaf steps.

   `wrote buf off bits r`: the walker step r succeeded, advanced the cursor from off by |bits|, kept the buffer length, and the
   buffer up to the new cursor is the old buffer up to off followed by bits, and the buffer from the next byte boundary at or
   after the new cursor on (`r8`) is untouched.  Nothing is assumed about the initial buffer content.  Nothing is claimed about
   the bits between the cursor and the next byte boundary: the aligned whole-byte stores of the generated code
   (`buffer[off/8] = (uint8_t) value`) clobber them, later fields and the final padding overwrite them.
   `ser_sim` lifts it to results: same error, or `wrote` of the specification's bits. *)
From Verif Require Import Wire WireThm WireThmRt Walker Refine RefineDesBase RefineSerBits PrimsOn.
From Coq Require Import Lia ZifyBool ZifyNat ZifyN.
Local Open Scope nat_scope.
Ltac Zify.zify_post_hook ::= Z.div_mod_to_equations.

(* ---------- lists ---------- *)
Lemma firstn_app_exact {A} (a b : list A) n m : length a = n -> firstn (n + m) (a ++ b) = a ++ firstn m b.
Proof. intros <-. rewrite firstn_app_2. reflexivity. Qed.

Lemma firstn_app_left {A} (a b : list A) n : n <= length a -> firstn n (a ++ b) = firstn n a.
Proof. intros H. rewrite firstn_app. replace (n - length a) with 0 by lia. cbn [firstn]. apply app_nil_r. Qed.

Lemma skipn_app_exact {A} (a b : list A) n : length a = n -> skipn n (a ++ b) = b.
Proof. intros <-. apply skipn_app_len. Qed.

Lemma firstn_firstn_le {A} (l : list A) i j : i <= j -> firstn i (firstn j l) = firstn i l.
Proof. intros H. rewrite firstn_firstn. f_equal. lia. Qed.

(* ---------- the invariant ---------- *)
Definition wres := res (list bool * nat).

Definition r8 (o : nat) : nat := o + pad8 o.

Definition wrote (buf : list bool) (off : nat) (bits : list bool) (r : wres) : Prop :=
  exists buf', r = Ok (buf', off + length bits) /\ length buf' = length buf /\
               firstn (off + length bits) buf' = firstn off buf ++ bits /\
               skipn (r8 (off + length bits)) buf' = skipn (r8 (off + length bits)) buf.

Lemma skipn_eq_mono {A} (x y : list A) a b : skipn a x = skipn a y -> a <= b -> skipn b x = skipn b y.
Proof.
  intros H Hab. replace b with (a + (b - a)) by lia. rewrite <- !skipn_add, H. reflexivity.
Qed.

Lemma r8_mono a b : a <= b -> r8 a <= r8 b.
Proof. apply rup8_mono. Qed.

Lemma r8_ge a : a <= r8 a.
Proof. unfold r8. lia. Qed.

(* a store of d at off leaves everything from off + |d| on untouched *)
Lemma set_frame (buf d : list bool) off n : off + length d <= length buf -> off + length d <= n ->
  skipn n (firstn off buf ++ d ++ skipn (off + length d) buf) = skipn n buf.
Proof.
  intros Hfit Hn. rewrite app_assoc, skipn_app.
  assert (Hl : length (firstn off buf ++ d) = off + length d) by (rewrite app_length, firstn_length; lia).
  rewrite Hl, skipn_all2 by lia. cbn [app]. rewrite skipn_add. f_equal. lia.
Qed.

Definition ser_sim (buf : list bool) (off : nat) (rs : res (list bool)) (rw : wres) : Prop :=
  match rs with Ok bits => wrote buf off bits rw | Err e => rw = Err e end.

Lemma wrote_nil buf off : wrote buf off [] (Ok (buf, off)).
Proof. exists buf. cbn [length]. rewrite Nat.add_0_r, app_nil_r. auto. Qed.

(* sequencing: a step from (buf, off) to (buf1, off1) followed by a step from there *)
Lemma wrote_trans buf off b1 buf1 b2 r :
  length buf1 = length buf -> firstn (off + length b1) buf1 = firstn off buf ++ b1 ->
  skipn (r8 (off + length b1)) buf1 = skipn (r8 (off + length b1)) buf ->
  wrote buf1 (off + length b1) b2 r -> wrote buf off (b1 ++ b2) r.
Proof.
  intros Hl Hf Hs (buf2 & -> & Hl2 & Hf2 & Hs2). exists buf2. rewrite app_length, Nat.add_assoc.
  split; [reflexivity|]. split; [lia|]. split; [rewrite Hf2, Hf, app_assoc; reflexivity|].
  rewrite Hs2. eapply skipn_eq_mono; [exact Hs|]. apply r8_mono. lia.
Qed.

(* the earlier part of the buffer survives a step *)
Lemma wrote_prefix buf off bits buf' o : wrote buf off bits (Ok (buf', o)) -> off <= length buf ->
  firstn off buf' = firstn off buf.
Proof.
  intros (b & E & Hl & Hf & _) Hoff. apply Ok_inj in E. injection E as -> ->.
  rewrite <- (firstn_firstn_le b off (off + length bits)) by lia. rewrite Hf.
  rewrite firstn_app_left by (rewrite firstn_length; lia). apply firstn_firstn_le. lia.
Qed.

Section Leaf.
  Variable P : prims.
  (* the only thing assumed of the primitives: stores of at most 64 bits into buffers of length L they fit into (PrimsOn.set_law) *)
  Variable L : nat.
  Hypothesis Hset : set_law P L.

  (* a store of m bits of which w count (cursor += w): both the plain store (m = w) and the whole-byte store (m = 8) *)
  Lemma w_store buf off d w : length buf = L -> length d <= 64 ->
    w <= length d -> off + length d <= length buf -> off + length d <= r8 (off + w) ->
    wrote buf off (firstn w d) (bind (w_set P buf off d) (fun '(b, _) => Ok (b, off + w))).
  Proof.
    intros HL H64 Hw Hfit Hr. unfold w_set. rewrite (Hset buf off d HL H64) by lia. cbn [bind].
    assert (Hlw : length (firstn w d) = w) by (rewrite firstn_length; lia).
    eexists. rewrite Hlw. split; [reflexivity|]. split; [|split].
    - rewrite !app_length, firstn_length, skipn_length. lia.
    - rewrite firstn_app_exact by (rewrite firstn_length; lia). f_equal.
      rewrite firstn_app_left by lia. reflexivity.
    - apply set_frame; assumption.
  Qed.

  Lemma w_set_wrote buf off d : length buf = L -> length d <= 64 ->
    off + length d <= length buf -> wrote buf off d (w_set P buf off d).
  Proof.
    intros HL H64 Hfit. pose proof (w_store buf off d (length d) HL H64 (le_n _) Hfit (r8_ge _)) as H.
    rewrite firstn_all in H. unfold w_set in *. rewrite (Hset buf off d HL H64) in * by lia. exact H.
  Qed.

  (* alignment padding, a = 1 or 8 *)
  Lemma w_pad_wrote buf off t : length buf = L -> off + padn off (align t) <= length buf ->
    wrote buf off (repeat false (padn off (align t))) (w_pad P buf off (align t)).
  Proof.
    intros HL Hfit. unfold w_pad.
    destruct (align_cases t) as [E | E]; rewrite E in *.
    - rewrite padn_1, Nat.mod_1_r. cbn [Nat.eqb repeat]. apply wrote_nil.
    - rewrite padn_8 in *. destruct (Nat.eqb_spec (off mod 8) 0) as [Hz|Hnz].
      + rewrite (pad8_aligned off Hz). cbn [repeat]. apply wrote_nil.
      + assert (Hp : pad8 off = 8 - off mod 8) by (unfold pad8; lia). rewrite Hp in *.
        apply w_set_wrote; rewrite ?repeat_length; [exact HL | lia | exact Hfit].
  Qed.

  Lemma w_pad8_wrote buf off : length buf = L -> off + pad8 off <= length buf ->
    wrote buf off (repeat false (pad8 off)) (w_pad P buf off 8).
  Proof. intros HL H. exact (w_pad_wrote buf off (TComp false [] None) HL H). Qed.

  (* a primitive field *)
  Lemma w_prim_sim p v buf off : prim_wf p = true -> prim_storage_ok p v = true -> length buf = L ->
    length buf mod 8 = 0 -> off + prim_bits p <= length buf ->
    ser_sim buf off (enc_prim p v) (w_prim P p v buf off).
  Proof.
    intros Hwf Hst HL Hl Hfit.
    assert (Hp64 : prim_bits p <= 64) by (destruct p; cbn [prim_wf prim_bits] in *; lia). pose proof (storage_enc p v Hwf Hst) as H. unfold ser_sim, w_prim.
    destruct (enc_prim p v) as [bits|e].
    - destruct H as (sb & -> & Hsl & <-).
      assert (Hplain : sb_len p >= prim_bits p ->
                wrote buf off (firstn (prim_bits p) sb) (w_set P buf off (firstn (prim_bits p) sb))).
      { intros Hge. apply w_set_wrote; rewrite ?firstn_length; [exact HL | lia | lia]. }
      assert (Hbyte : prim_bits p <= 8 -> 8 <= sb_len p -> 1 <= prim_bits p -> off mod 8 = 0 ->
                wrote buf off (firstn (prim_bits p) sb)
                  (bind (w_set P buf off (firstn 8 sb)) (fun '(b, _) => Ok (b, off + prim_bits p)))).
      { intros H8 Hs8 H1 Ha.
        rewrite <- (firstn_firstn_le sb (prim_bits p) 8) by exact H8.
        apply w_store; rewrite ?firstn_length; unfold r8, pad8; try exact HL; lia. }
      destruct p as [|w sat|w sat|w sat|w]; cbn [prim_bits sb_len prim_wf] in *.
      + destruct (Nat.eqb_spec (off mod 8) 0) as [Ha|Ha]; cbn [andb Nat.leb];
          [apply Hbyte; lia | apply Hplain; lia].
      + pose proof (std_width_ge w) as Hg. pose proof (std_width_ge8 w) as Hg8.
        destruct (Nat.eqb_spec (off mod 8) 0) as [Ha|Ha]; destruct (Nat.leb_spec w 8) as [H8|H8]; cbn [andb];
          try (apply Hplain; lia). apply Hbyte; lia.
      + pose proof (std_width_ge w) as Hg. pose proof (std_width_ge8 w) as Hg8.
        destruct (Nat.eqb_spec (off mod 8) 0) as [Ha|Ha]; destruct (Nat.leb_spec w 8) as [H8|H8]; cbn [andb];
          try (apply Hplain; lia). apply Hbyte; lia.
      + apply Hplain. lia.
      + apply Hplain. lia.
    - destruct H as [-> ->]. reflexivity.
  Qed.
End Leaf.

(* ---------- offsets of a structure that starts at a multiple of 8 ---------- *)
Lemma fields_sum_shift B fs a : a mod 8 = 0 -> forall off, fields_sum B fs (a + off) = a + fields_sum B fs off.
Proof.
  intros Ha. induction fs as [|f fs IH]; intros off; cbn [fields_sum].
  - unfold pad8. lia.
  - assert (Hp : padn (a + off) (align f) = padn off (align f)) by (apply padn_cong; lia).
    rewrite Hp. rewrite <- IH. f_equal. lia.
Qed.

Lemma fields_sum_ge B fs : forall off, off <= fields_sum B fs off.
Proof.
  induction fs as [|f fs IH]; intros off; cbn [fields_sum]; [lia|].
  etransitivity; [|apply IH]. lia.
Qed.

Lemma fields_sum_mono B fs : forall a b, a <= b -> fields_sum B fs a <= fields_sum B fs b.
Proof.
  induction fs as [|f fs IH]; intros a b H; cbn [fields_sum]; [apply rup8_mono; exact H|].
  apply IH. pose proof (rupn_mono a b f H). lia.
Qed.

Lemma enc_fields_shift E fs a : a mod 8 = 0 -> forall vs off, enc_fields E fs vs (a + off) = enc_fields E fs vs off.
Proof.
  intros Ha. induction fs as [|f fs IH]; intros vs off; destruct vs as [|v vs]; cbn [enc_fields]; try reflexivity.
  - f_equal. f_equal. unfold pad8. lia.
  - assert (Hp : padn (a + off) (align f) = padn off (align f)) by (apply padn_cong; lia).
    rewrite Hp. destruct (E f v) as [b|e]; cbn [bind]; [|reflexivity].
    replace (a + off + padn off (align f) + length b) with (a + (off + padn off (align f) + length b)) by lia.
    rewrite IH. reflexivity.
Qed.

Lemma enc_sel_oob E fs : forall k x, length fs <= k -> enc_sel E fs k x = Err EBadTag.
Proof.
  induction fs as [|f fs IH]; intros k x H; [destruct k; reflexivity|].
  destruct k as [|k]; cbn [length] in H; [lia|]. cbn [enc_sel]. apply IH. lia.
Qed.
