(* The Python-shaped serialization walker with the EXPLICIT Python leaf (Spec/TargetPre.v `py_enc_prim`, shared with C03:
   `max(min())` saturation, two's complement and masking by the support functions, struct.pack with round-half-EVEN float16)
   against the specification: the walker on v is, leaf by leaf, the walker with the specification's own leaf on the pre-adjusted
   value `py_pre t v` (`py_enc_prim_spec`), and that one emits `ser_spec t (py_pre t v)` (PyWalkerThm.v).  `map_prims` keeps
   malformed values, surplus fields and list lengths unchanged, so the EShape / EBadLen / EBadTag cases agree too. *)
From Verif Require Import Wire WireThm TargetPre TargetPreThm PyWalker PyWalkerThm.
Local Open Scope nat_scope.

Section LeafMap.
  Variable Q : pyprims.
  Variable lf : prim -> val -> res (list bool).
  Variable F : prim -> val -> val.
  Hypothesis Hlf : forall p v, lf p v = enc_prim p (F p v).
  Hypothesis Hvoid : forall w v, F (PVoid w) v = v.

  Let M := map_prims F.

  Lemma pw_prim_leaf p v buf off : pw_prim Q lf p v buf off = pw_prim Q enc_prim p (F p v) buf off.
  Proof.
    unfold pw_prim. destruct p as [| | | |w]; try (rewrite Hlf; destruct v; reflexivity || (destruct (F _ _); reflexivity)).
    rewrite Hvoid. destruct v; try reflexivity; rewrite Hlf, Hvoid; reflexivity.
  Qed.

  Definition Pm (t : ty) : Prop := forall v buf off, pw_body Q lf t v buf off = pw_body Q enc_prim t (M t v) buf off.
  Definition Pmf (t : ty) : Prop := forall v buf off,
    pw_field Q (pw_body Q lf) t v buf off = pw_field Q (pw_body Q enc_prim) t (M t v) buf off.

  Lemma pm_body_to_field t : Pm t -> Pmf t.
  Proof.
    intros H v buf off. destruct t as [p|e n|e c|u fs [x|]]; cbn [pw_field]; try apply H. rewrite H. reflexivity.
  Qed.

  Lemma pm_list e : Pmf e -> forall l buf off,
    pw_list (pw_field Q (pw_body Q lf) e) l buf off = pw_list (pw_field Q (pw_body Q enc_prim) e) (map (M e) l) buf off.
  Proof.
    intros He. induction l as [|x l IH]; intros buf off; cbn [pw_list map]; [reflexivity|].
    rewrite He. destruct (pw_field Q (pw_body Q enc_prim) e (M e x) buf off) as [[b o]|err]; cbn [bind]; [apply IH | reflexivity].
  Qed.

  Lemma pm_fields fs : Forall Pmf fs -> forall vs buf off,
    pw_fields (pw_field Q (pw_body Q lf)) fs vs buf off =
    pw_fields (pw_field Q (pw_body Q enc_prim)) fs (map_fields M fs vs) buf off.
  Proof.
    induction 1 as [|f fs Hf Hfs IH]; intros vs buf off; destruct vs as [|v vs]; cbn [pw_fields map_fields]; try reflexivity.
    rewrite Hf. destruct (pw_field Q (pw_body Q enc_prim) f (M f v) buf _) as [[b o]|err]; cbn [bind]; [apply IH | reflexivity].
  Qed.

  Lemma pm_sel fs : Forall Pmf fs -> forall k x buf off,
    pw_sel (pw_field Q (pw_body Q lf)) fs k x buf off = pw_sel (pw_field Q (pw_body Q enc_prim)) fs k (map_sel M fs k x) buf off.
  Proof.
    induction 1 as [|f fs Hf Hfs IH]; intros k x buf off; [destruct k; reflexivity|].
    destruct k as [|k]; cbn [pw_sel map_sel]; [apply Hf | apply IH].
  Qed.

  Lemma enc_list_leaf p : forall l, enc_list (lf p) l = enc_list (enc_prim p) (map (F p) l).
  Proof. induction l as [|x l IH]; cbn [enc_list map]; [reflexivity|]. rewrite Hlf, IH. reflexivity. Qed.

  Lemma pm_array e l buf off loop loop' : loop = loop' ->
    pw_array Q lf e l buf off loop = pw_array Q enc_prim e (map (M e) l) buf off loop'.
  Proof.
    intros ->. unfold pw_array. destruct e as [p| | |]; try reflexivity. unfold M. cbn [py_array_kind].
    change (map (map_prims F (TPrim p)) l) with (map (F p) l).
    destruct p as [|w s|w s|w s|w]; try reflexivity; try (destruct (py_std_w w); [|reflexivity]); rewrite enc_list_leaf; reflexivity.
  Qed.

  Theorem pm_all : forall t, Pm t.
  Proof.
    induction t as [p|e n IHe|e c IHe|u fs ext H] using ty_nested_ind; unfold Pm; intros v buf off.
    - cbn [pw_body]. unfold M. cbn [map_prims]. apply pw_prim_leaf.
    - unfold M. destruct v; cbn [pw_body map_prims]; try reflexivity. rewrite map_length.
      destruct (length l =? n); [|reflexivity]. apply pm_array. apply pm_list. apply pm_body_to_field. exact IHe.
    - unfold M. destruct v; cbn [pw_body map_prims]; try reflexivity. rewrite map_length.
      destruct (c <? length l); [reflexivity|].
      destruct (p_set Q buf off _) as [[b o]|err]; cbn [bind]; [|reflexivity]. apply pm_array. apply pm_list. apply pm_body_to_field. exact IHe.
    - assert (Hf : Forall Pmf fs).
      { rewrite Forall_forall in *. intros f Hin. apply pm_body_to_field. apply H. exact Hin. }
      unfold M. destruct u, v; cbn [pw_body map_prims]; try reflexivity.
      + destruct (length fs <=? tag); [reflexivity|].
        destruct (p_set Q buf off _) as [[b o]|err]; cbn [bind]; [|reflexivity]. rewrite (pm_sel fs Hf). reflexivity.
      + apply pm_fields. exact Hf.
  Qed.
End LeafMap.

Lemma py_leaf_void w v : py_leaf (PVoid w) v = v.
Proof. reflexivity. Qed.

(* ---- the Python serialization refinement with the explicit leaf, from the two Serializer laws ---- *)
Theorem py_walk_ser_pre_refines_on : forall Q u fs ext v cap, add_law Q (8 * cap) -> hdr_law Q (8 * cap) -> bulk_law Q (8 * cap) ->
  wf_ty (TComp u fs ext) = true -> bmax (TComp u fs ext) <= 8 * cap ->
  py_walk_ser Q py_enc_prim (TComp u fs ext) v cap = ser_spec (TComp u fs ext) (py_pre (TComp u fs ext) v) cap.
Proof.
  intros Q u fs ext v cap Ha Hh Hbk Hwf Hge.
  rewrite <- (py_walk_ser_refines_on Q u fs ext (py_pre (TComp u fs ext) v) cap Ha Hh Hbk Hwf Hge).
  unfold py_walk_ser. rewrite (pm_all Q py_enc_prim py_leaf py_enc_prim_spec py_leaf_void). reflexivity.
Qed.
