(* A model of what the generated C code does (templates lang/c/templates/serialization.j2 / deserialization.j2), written against
   an abstract record of primitive buffer operations:
     - bit cursor `off`, up-front capacity check against the maximum bit length, result size = cursor / 8 resp.
       min(cursor, capacity) / 8;
     - per-field alignment padding (serialization writes zero bits, deserialization rounds the cursor up);
     - saturation code emitted only for saturated NON-standard widths; standard widths and truncated fields hand the storage
       pattern to the primitive, which copies the low `w` bits;
     - aligned fast path selected by a static annotation: an aligned integer of at most 8 bits (and an aligned bool) is stored
       as one whole byte `buffer[off/8] = (uint8_t) value`, later fields / the final padding overwrite the surplus bits;
       aligned reads of at most 8 bits are guarded by `off + w <= capacity_bits`;
     - nested composites: recursive call on the same buffer at the (byte aligned) cursor; delimited ones write the header
       (body size) in front, on decoding check `header > capacity - min(off/8, capacity)`, decode with the capacity bounded to
       header bytes and advance the cursor by the HEADER value; sealed ones advance by the nested routine's (clamped) size;
     - array length / union tag checks before any element is touched.
   Buffers are viewed as bit lists (8 * bytes).  The record is instantiated by list-of-bits reference primitives below; the C14
   development proves the corresponding laws for the C primitives (Prims/CPrimsThm.v: set_uxx_exact, get_uxx_spec, ...). *)
From Verif Require Import Wire.
Local Open Scope nat_scope.

Record prims : Type := {
  set_bits : list bool -> nat -> list bool -> option (list bool);   (* nunavutSetUxx/SetIxx/SetF*/CopyBits: None = error *)
  get_bits : list bool -> nat -> nat -> nat -> list bool;           (* buf, capacity_bits, off, w: nunavutGetU*/GetI*/GetBits *)
}.

Record prims_ok (P : prims) : Prop := {
  set_ok : forall buf off v, off + length v <= length buf ->
             set_bits P buf off v = Some (firstn off buf ++ v ++ skipn (off + length v) buf);
  get_ok : forall buf cap off w, get_bits P buf cap off w = take_ze w (skipn off (firstn cap buf));
}.

Definition ref_prims : prims := {|
  set_bits := fun buf off v =>
    if off + length v <=? length buf then Some (firstn off buf ++ v ++ skipn (off + length v) buf) else None;
  get_bits := fun buf cap off w => take_ze w (skipn off (firstn cap buf));
|}.

Definition std_width (w : nat) : nat := if w <=? 8 then 8 else if w <=? 16 then 16 else if w <=? 32 then 32 else 64.
Definition is_std (w : nat) : bool := (w =? 8) || (w =? 16) || (w =? 32) || (w =? 64).

(* the bits of the storage object of a primitive field as the serializer reads them (two's complement, storage width) *)
Definition storage_bits (p : prim) (v : val) : option (list bool) :=
  match p, v with
  | PBool, VBool b => Some [b; false; false; false; false; false; false; false]     (* `obj->x ? 1U : 0U` *)
  | PU w sat, VInt z =>
      let z' := if sat && negb (is_std w) then clampZ 0 (pow2 w - 1) z else z in     (* emitted saturation code *)
      Some (bits_of_N (std_width w) (Z.to_N (z' mod pow2 (std_width w))))
  | PS w sat, VInt z =>
      let z' := if sat && negb (is_std w) then clampZ (- pow2 (w - 1)) (pow2 (w - 1) - 1) z else z in
      Some (bits_of_N (std_width w) (Z.to_N (z' mod pow2 (std_width w))))
  | PF w sat, VFlt x => Some (bits_of_N w (cast_f w sat x))                          (* nunavutSetF16/32/64 incl. the isfinite clamp *)
  | PVoid w, VVoid => Some (repeat false w)
  | _, _ => None
  end.

Section Walk.
  Variable P : prims.

  (* ---- serialization ---- state: buffer, cursor *)
  Definition wres := res (list bool * nat).

  Definition w_set (buf : list bool) (off : nat) (v : list bool) : wres :=
    match set_bits P buf off v with Some b => Ok (b, off + length v) | None => Err ETooSmall end.

  Definition w_pad (buf : list bool) (off a : nat) : wres :=
    if off mod a =? 0 then Ok (buf, off) else w_set buf off (repeat false (a - off mod a)).

  Definition w_prim (p : prim) (v : val) (buf : list bool) (off : nat) : wres :=
    match storage_bits p v with
    | None => Err EShape
    | Some sb =>
        let w := prim_bits p in
        let aligned := off mod 8 =? 0 in             (* static annotation: exact for the offsets the templates know *)
        match p with
        | PBool | PU _ _ | PS _ _ =>
            if aligned && (w <=? 8)
            then bind (w_set buf off (firstn 8 sb)) (fun '(b, _) => Ok (b, off + w))   (* whole-byte store, cursor += w *)
            else w_set buf off (firstn w sb)
        | _ => w_set buf off (firstn w sb)
        end
    end.

  Section SerList.
    Variable Se : val -> list bool -> nat -> wres.
    Fixpoint ws_list (l : list val) (buf : list bool) (off : nat) : wres :=
      match l with
      | [] => Ok (buf, off)
      | x :: r => bind (Se x buf off) (fun '(b, o) => ws_list r b o)
      end.
  End SerList.

  Section SerComb.
    Variable Sr : ty -> val -> list bool -> nat -> wres.
    Fixpoint ws_fields (fs : list ty) (vs : list val) (buf : list bool) (base off : nat) : wres :=
      match fs, vs with
      | [], [] => w_pad buf off 8
      | f :: fs', v :: vs' =>
          bind (w_pad buf off (align f)) (fun '(b, o) => bind (Sr f v b o) (fun '(b', o') => ws_fields fs' vs' b' base o'))
      | _, _ => Err EShape
      end.
    Fixpoint ws_sel (fs : list ty) (k : nat) (v : val) (buf : list bool) (off : nat) : wres :=
      match fs, k with
      | [], _ => Err EBadTag
      | f :: _, O => Sr f v buf off
      | _ :: r, S k' => ws_sel r k' v buf off
      end.
  End SerComb.

  (* nested composite as a field: delimited ones reserve 32 bits, serialize the body, then store its size in the header *)
  Definition ws_field (Sr : ty -> val -> list bool -> nat -> wres) (t : ty) (v : val) (buf : list bool) (off : nat) : wres :=
    match t with
    | TComp _ _ (Some _) =>
        bind (Sr t v buf (off + header_bits)) (fun '(b, o) =>
          bind (w_set b off (bits_of_N header_bits (N.of_nat ((o - (off + header_bits)) / 8)))) (fun '(b', _) => Ok (b', o)))
    | _ => Sr t v buf off
    end.

  Fixpoint ws_body (t : ty) (v : val) (buf : list bool) (off : nat) : wres :=
    match t with
    | TPrim p => w_prim p v buf off
    | TFix e n =>
        match v with
        | VArr l => if length l =? n then ws_list (ws_field ws_body e) l buf off else Err EShape
        | _ => Err EShape
        end
    | TVar e cap =>
        match v with
        | VArr l =>
            if cap <? length l then Err EBadLen
            else bind (w_set buf off (bits_of_N (prefix_bits cap) (N.of_nat (length l)))) (fun '(b, o) =>
                   ws_list (ws_field ws_body e) l b o)
        | _ => Err EShape
        end
    | TComp false fs _ =>
        match v with VStruct vs => ws_fields (ws_field ws_body) fs vs buf off off | _ => Err EShape end
    | TComp true fs _ =>
        match v with
        | VUnion k x =>
            if length fs <=? k then Err EBadTag
            else bind (w_set buf off (bits_of_N (tag_bits (length fs)) (N.of_nat k))) (fun '(b, o) =>
                   bind (ws_sel (ws_field ws_body) fs k x b o) (fun '(b', o') => w_pad b' o' 8))
        | _ => Err EShape
        end
    end.

  (* T_serialize_(obj, buffer, &size): capacity check first, cursor from 0, size = cursor / 8, bytes beyond are not observable *)
  Definition walk_ser (t : ty) (v : val) (buf : list bool) (cap_bytes : nat) : res (list bool) :=
    if 8 * cap_bytes <? bmax t then Err ETooSmall
    else bind (ws_body t v buf 0) (fun '(b, o) => Ok (firstn (8 * (o / 8)) b)).

  (* ---- deserialization ---- state: buffer, capacity_bits of the current (sub)object, cursor *)
  Definition r_prim (p : prim) (buf : list bool) (cap off : nat) : val :=
    let w := prim_bits p in
    let aligned := off mod 8 =? 0 in
    match p with
    | PBool => VBool (if off <? cap then match get_bits P buf cap off 1 with b :: _ => b | [] => false end else false)
    | PU _ _ =>
        if aligned && (w <=? 8)
        then VInt (if off + w <=? cap then Z.of_N (N_of_bits (get_bits P buf cap off w)) else 0%Z)   (* guarded byte load *)
        else VInt (Z.of_N (N_of_bits (get_bits P buf cap off w)))
    | PS _ _ => VInt (signed_of w (N_of_bits (get_bits P buf cap off w)))
    | PF _ _ => VFlt (if w =? 16 then f16_unpack (N_of_bits (get_bits P buf cap off w)) else N_of_bits (get_bits P buf cap off w))
    | PVoid _ => VVoid
    end.

  Definition rres (A : Type) := res (A * nat).

  Section DesList.
    Variable De : list bool -> nat -> nat -> rres val.
    Fixpoint wd_list (n : nat) (buf : list bool) (cap off : nat) : rres (list val) :=
      match n with
      | O => Ok ([], off)
      | S n' => bind (De buf cap off) (fun '(v, o) => bind (wd_list n' buf cap o) (fun '(vs, o') => Ok (v :: vs, o')))
      end.
  End DesList.

  Section DesComb.
    Variable D : ty -> list bool -> nat -> nat -> rres val.
    Fixpoint wd_fields (fs : list ty) (buf : list bool) (cap off : nat) : rres (list val) :=
      match fs with
      | [] => Ok ([], off + pad8 off)
      | f :: fs' =>
          let o := off + padn off (align f) in
          bind (D f buf cap o) (fun '(v, o') => bind (wd_fields fs' buf cap o') (fun '(vs, o'') => Ok (v :: vs, o'')))
      end.
    Fixpoint wd_sel (fs : list ty) (k : nat) (buf : list bool) (cap off : nat) : rres val :=
      match fs, k with
      | [], _ => Err EBadTag
      | f :: _, O => D f buf cap off
      | _ :: r, S k' => wd_sel r k' buf cap off
      end.
  End DesComb.

  Definition wd_field (D : ty -> list bool -> nat -> nat -> rres val) (t : ty) (buf : list bool) (cap off : nat) : rres val :=
    match t with
    | TComp _ _ (Some _) =>
        let hN := N_of_bits (get_bits P buf cap off header_bits) in
        let o := off + header_bits in
        let remaining := cap / 8 - Nat.min (o / 8) (cap / 8) in
        if (N.of_nat remaining <? hN)%N then Err EBadHdr
        else let h := N.to_nat hN in
             bind (D t buf (Nat.min cap (o + 8 * h)) o) (fun '(v, _) => Ok (v, o + 8 * h))   (* cursor += header value *)
    | TComp _ _ None =>
        (* nested sealed object: handed the rest of the buffer; cursor advanced by the size it reports (clamped to what is there) *)
        bind (D t buf cap off) (fun '(v, o') =>
          let avail := cap - Nat.min off cap in
          Ok (v, off + 8 * (Nat.min (o' - off) avail / 8)))
    | _ => D t buf cap off
    end.

  Fixpoint wd_body (t : ty) (buf : list bool) (cap off : nat) : rres val :=
    match t with
    | TPrim p => Ok (r_prim p buf cap off, off + prim_bits p)
    | TFix e n => bind (wd_list (wd_field wd_body e) n buf cap off) (fun '(vs, o) => Ok (VArr vs, o))
    | TVar e c =>
        let pw := prefix_bits c in
        let nN := N_of_bits (get_bits P buf cap off pw) in
        if (N.of_nat c <? nN)%N then Err EBadLen
        else bind (wd_list (wd_field wd_body e) (N.to_nat nN) buf cap (off + pw)) (fun '(vs, o) => Ok (VArr vs, o))
    | TComp false fs _ => bind (wd_fields (wd_field wd_body) fs buf cap off) (fun '(vs, o) => Ok (VStruct vs, o))
    | TComp true fs _ =>
        let tw := tag_bits (length fs) in
        let kN := N_of_bits (get_bits P buf cap off tw) in
        if (N.of_nat (length fs) <=? kN)%N then Err EBadTag
        else bind (wd_sel (wd_field wd_body) fs (N.to_nat kN) buf cap (off + tw)) (fun '(v, o) =>
               Ok (VUnion (N.to_nat kN) v, o + pad8 o))
    end.

  (* T_deserialize_(out, buffer, &size): size = min(cursor, capacity_bits) / 8 *)
  Definition walk_des (t : ty) (buf : list bool) : res (val * nat) :=
    let cap := length buf in
    bind (wd_body t buf cap 0) (fun '(v, o) => Ok (v, Nat.min o cap / 8)).
End Walk.

(* observables, with the reference primitives *)
Definition walk_ser_obs (t : ty) (v : val) (buf : list bool) (cap_bytes : nat) : res (list bool) := walk_ser ref_prims t v buf cap_bytes.
Definition ser_obs_spec (t : ty) (v : val) (cap_bytes : nat) : res (list bool) := ser_spec t v cap_bytes.
Definition walk_des_obs (t : ty) (bytes : list N) : res (val * nat) := walk_des ref_prims t (bits_of_bytes bytes).
Definition walk_des_bits (t : ty) (bits : list bool) : res (val * nat) := walk_des ref_prims t bits.
