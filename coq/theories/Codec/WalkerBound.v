(* A fact about the deserialization walker alone (no specification, no laws of the primitives): its bit cursor never exceeds
   max(capacity, start) + tsz t, where tsz is a crude size of the type.  Consequently a primitive record may be replaced by
   anything that agrees with it on reads with off + w <= B, provided |buffer| + tsz t <= B.

   This is how the walker "establishes the side condition" of primitives whose contract needs the bit offset to be
   representable (C: `size_t offset_bits`, B = 2^64 - 1): `guard B P` behaves like the reference beyond B, satisfies the read law
   for all offsets, and `walk_des (guard B P) = walk_des P` for every type and buffer with |buffer| + tsz t <= B. *)
From Verif Require Import Wire WireThm Walker.
From Coq Require Import Lia ZifyBool ZifyNat ZifyN.
Local Open Scope nat_scope.
Ltac Zify.zify_post_hook ::= Z.div_mod_to_equations.

Definition guard (B : nat) (P : prims) : prims := {|
  set_bits := set_bits P;
  get_bits := fun buf cap off w =>
    if off + w <=? B then get_bits P buf cap off w else take_ze w (skipn off (firstn cap buf));
|}.

Section TszSum.
  Variable T : ty -> nat.
  Fixpoint tsz_sum (fs : list ty) : nat := match fs with [] => 0 | f :: r => 39 + T f + tsz_sum r end.
End TszSum.

(* crude: every field is charged a delimiter header (32) and a padding (7), every array / union a 64-bit prefix / tag *)
Fixpoint tsz (t : ty) : nat :=
  match t with
  | TPrim p => prim_bits p
  | TFix e n => n * (32 + tsz e)
  | TVar e c => 64 + c * (32 + tsz e)
  | TComp _ fs _ => 71 + tsz_sum tsz fs
  end.

Lemma padn_le7 off t : padn off (align t) <= 7.
Proof. destruct (align_cases t) as [-> | ->]; rewrite ?padn_1, ?padn_8; unfold pad8; lia. Qed.

Lemma len_width_le64 m : len_width m <= 64.
Proof. destruct (len_width_cases m) as [-> | [-> | [-> | ->]]]; lia. Qed.

Section Bound.
  Variable P : prims.
  Variable B : nat.
  Variable buf : list bool.
  Let G := guard B P.

  Definition bnd {A} (r : res (A * nat)) (b : nat) : Prop := match r with Ok (_, o) => o <= b | Err _ => True end.

  Lemma guard_get cap off w : off + w <= B -> get_bits G buf cap off w = get_bits P buf cap off w.
  Proof. intros H. unfold G, guard. cbn [get_bits]. destruct (Nat.leb_spec (off + w) B); [reflexivity | lia]. Qed.

  Lemma guard_r_prim p cap off : off + prim_bits p <= B -> r_prim G p buf cap off = r_prim P p buf cap off.
  Proof.
    intros H. destruct p; cbn [r_prim prim_bits] in *; rewrite ?guard_get by lia; reflexivity.
  Qed.

  Definition Q (t : ty) : Prop := forall cap off, Nat.max cap off + tsz t <= B ->
    wd_body G t buf cap off = wd_body P t buf cap off /\ bnd (wd_body P t buf cap off) (Nat.max cap off + tsz t).

  Definition Qf (t : ty) : Prop := forall cap off, Nat.max cap off + (32 + tsz t) <= B ->
    wd_field G (wd_body G) t buf cap off = wd_field P (wd_body P) t buf cap off /\
    bnd (wd_field P (wd_body P) t buf cap off) (Nat.max cap off + (32 + tsz t)).

  Lemma bnd_weaken {A} (r : res (A * nat)) a b : a <= b -> bnd r a -> bnd r b.
  Proof. destruct r as [[v o]|e]; cbn [bnd]; lia. Qed.

  Lemma q_body_to_field t : Q t -> Qf t.
  Proof.
    intros H cap off Hb.
    destruct t as [p|e n|e c|u fs [x|]];
      try (destruct (H cap off ltac:(lia)) as [E Hn]; split; [exact E | eapply bnd_weaken; [|exact Hn]; lia]).
    - (* delimited *)
      cbn [wd_field]. unfold header_bits in *. rewrite guard_get by lia.
      set (hN := N_of_bits (get_bits P buf cap off 32)).
      destruct (N.ltb_spec (N.of_nat (cap / 8 - Nat.min ((off + 32) / 8) (cap / 8))) hN) as [Hlt|Hge];
        [split; [reflexivity | exact I]|].
      set (h := N.to_nat hN).
      assert (Hh : off + 32 + 8 * h <= Nat.max cap off + 39) by (subst h; lia).
      destruct (H (Nat.min cap (off + 32 + 8 * h)) (off + 32) ltac:(lia)) as [E _]. rewrite E.
      split; [reflexivity|].
      destruct (wd_body P _ buf _ (off + 32)) as [[v o']|err]; cbn [bind bnd]; [|exact I].
      cbn [tsz]. lia.
    - (* sealed *)
      cbn [wd_field]. destruct (H cap off ltac:(lia)) as [E Hn]. rewrite E. split; [reflexivity|].
      destruct (wd_body P _ buf cap off) as [[v o']|err]; cbn [bind bnd] in *; [|exact I]. lia.
  Qed.

  Lemma q_list e : Qf e -> forall n cap off, Nat.max cap off + n * (32 + tsz e) <= B ->
    wd_list (wd_field G (wd_body G) e) n buf cap off = wd_list (wd_field P (wd_body P) e) n buf cap off /\
    bnd (wd_list (wd_field P (wd_body P) e) n buf cap off) (Nat.max cap off + n * (32 + tsz e)).
  Proof.
    intros He. induction n as [|n IH]; intros cap off Hb; cbn [wd_list].
    - split; [reflexivity|]. cbn [bnd]. lia.
    - rewrite Nat.mul_succ_l in *.
      destruct (He cap off ltac:(lia)) as [E Hn]. rewrite E.
      destruct (wd_field P (wd_body P) e buf cap off) as [[v o]|err]; cbn [bind bnd] in *; [|split; [reflexivity | exact I]].
      destruct (IH cap o ltac:(lia)) as [E2 Hn2]. rewrite E2. split; [reflexivity|].
      destruct (wd_list (wd_field P (wd_body P) e) n buf cap o) as [[vs o']|err]; cbn [bind bnd] in *; [lia | exact I].
  Qed.

  Lemma q_fields fs : Forall Qf fs -> forall cap off, Nat.max cap off + tsz_sum tsz fs + 7 <= B ->
    wd_fields (wd_field G (wd_body G)) fs buf cap off = wd_fields (wd_field P (wd_body P)) fs buf cap off /\
    bnd (wd_fields (wd_field P (wd_body P)) fs buf cap off) (Nat.max cap off + tsz_sum tsz fs + 7).
  Proof.
    induction 1 as [|f fs Hf Hfs IH]; intros cap off Hb; cbn [wd_fields tsz_sum] in *.
    - split; [reflexivity|]. cbn [bnd]. unfold pad8. lia.
    - pose proof (padn_le7 off f) as Hp.
      destruct (Hf cap (off + padn off (align f)) ltac:(lia)) as [E Hn]. rewrite E.
      destruct (wd_field P (wd_body P) f buf cap _) as [[v o]|err]; cbn [bind bnd] in *; [|split; [reflexivity | exact I]].
      destruct (IH cap o ltac:(lia)) as [E2 Hn2]. rewrite E2. split; [reflexivity|].
      destruct (wd_fields (wd_field P (wd_body P)) fs buf cap o) as [[vs o']|err]; cbn [bind bnd] in *; [lia | exact I].
  Qed.

  Lemma q_sel fs : Forall Qf fs -> forall k cap off, Nat.max cap off + tsz_sum tsz fs <= B ->
    wd_sel (wd_field G (wd_body G)) fs k buf cap off = wd_sel (wd_field P (wd_body P)) fs k buf cap off /\
    bnd (wd_sel (wd_field P (wd_body P)) fs k buf cap off) (Nat.max cap off + tsz_sum tsz fs).
  Proof.
    induction 1 as [|f fs Hf Hfs IH]; intros k cap off Hb; [destruct k; (split; [reflexivity | exact I])|].
    cbn [tsz_sum] in *. destruct k as [|k]; cbn [wd_sel].
    - destruct (Hf cap off ltac:(lia)) as [E Hn]. split; [exact E | eapply bnd_weaken; [|exact Hn]; lia].
    - destruct (IH k cap off ltac:(lia)) as [E Hn]. split; [exact E | eapply bnd_weaken; [|exact Hn]; lia].
  Qed.

  Theorem q_all : forall t, Q t.
  Proof.
    induction t as [p|e n IHe|e c IHe|u fs ext H] using ty_nested_ind; unfold Q; intros cap off Hb; cbn [tsz] in Hb.
    - cbn [wd_body tsz]. rewrite guard_r_prim by lia. split; [reflexivity|]. cbn [bnd]. lia.
    - cbn [wd_body tsz]. destruct (q_list e (q_body_to_field e IHe) n cap off Hb) as [E Hn]. rewrite E.
      split; [reflexivity|]. destruct (wd_list (wd_field P (wd_body P) e) n buf cap off) as [[vs o]|err]; cbn [bind bnd] in *; [exact Hn | exact I].
    - cbn [wd_body tsz]. pose proof (len_width_le64 c) as Hw. unfold prefix_bits in *.
      rewrite guard_get by lia.
      set (nN := N_of_bits (get_bits P buf cap off (len_width c))).
      destruct (N.ltb_spec (N.of_nat c) nN) as [Hlt|Hge]; [split; [reflexivity | exact I]|].
      assert (Hn : N.to_nat nN * (32 + tsz e) <= c * (32 + tsz e)) by (apply Nat.mul_le_mono_r; lia).
      destruct (q_list e (q_body_to_field e IHe) (N.to_nat nN) cap (off + len_width c) ltac:(lia)) as [E Hb2]. rewrite E.
      split; [reflexivity|].
      destruct (wd_list (wd_field P (wd_body P) e) (N.to_nat nN) buf cap (off + len_width c)) as [[vs o]|err]; cbn [bind bnd] in *; [lia | exact I].
    - assert (Hf : Forall Qf fs).
      { rewrite Forall_forall in *. intros f Hin. apply q_body_to_field. apply H. exact Hin. }
      destruct u; cbn [wd_body tsz].
      + pose proof (len_width_le64 (length fs - 1)) as Hw. unfold tag_bits in *.
        rewrite guard_get by lia.
        set (kN := N_of_bits (get_bits P buf cap off (len_width (length fs - 1)))).
        destruct (N.leb_spec (N.of_nat (length fs)) kN) as [Hle|Hgt]; [split; [reflexivity | exact I]|].
        destruct (q_sel fs Hf (N.to_nat kN) cap (off + len_width (length fs - 1)) ltac:(lia)) as [E Hb2]. rewrite E.
        split; [reflexivity|].
        destruct (wd_sel (wd_field P (wd_body P)) fs (N.to_nat kN) buf cap (off + len_width (length fs - 1))) as [[v o]|err]; cbn [bind bnd] in *; [unfold pad8; lia | exact I].
      + destruct (q_fields fs Hf cap off ltac:(lia)) as [E Hb2]. rewrite E. split; [reflexivity|].
        destruct (wd_fields (wd_field P (wd_body P)) fs buf cap off) as [[vs o]|err]; cbn [bind bnd] in *; [lia | exact I].
  Qed.
End Bound.

(* the deserialization walker never asks for a read with off + w > |buffer| + tsz t *)
Theorem walk_des_guard : forall P B t bits, length bits + tsz t <= B -> walk_des (guard B P) t bits = walk_des P t bits.
Proof.
  intros P B t bits Hb. unfold walk_des.
  destruct (q_all P B bits t (length bits) 0 ltac:(lia)) as [E _]. rewrite E. reflexivity.
Qed.
