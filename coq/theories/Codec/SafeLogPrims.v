(* Link between C04's access logs (Codec/WalkerSafe.v: every buffer access of the generated code as a byte range, `acc_ok`) and the
   option-returning byte accessors of the C primitive model (Prims/CPrims.v: `rd`, `wr`, `memmove`, `memset0` return `None` exactly
   when the access leaves the allocation = C undefined behaviour): a log entry that passes `acc_ok capB` denotes accesses that are
   all defined on an allocation of capB bytes.  With C04's theorem that every logged access of the instrumented walker is
   `acc_ok`, no raw access of the generated code is undefined in the CPrims sense. *)
From Verif Require Import Bits CPrims.
From Verif Require Import WalkerSafe.
Local Open Scope nat_scope.

Theorem acc_ok_reads_defined : forall capB lo hi (buf : list N), acc_ok capB (BR lo hi) = true -> length buf = capB ->
  forall i, lo <= i < hi -> exists x, rd buf (N.of_nat i) = Some x.
Proof.
  intros capB lo hi buf H Hl i Hi. cbn [acc_ok] in H. apply orb_prop in H.
  destruct H as [H|H]; [apply Nat.leb_le in H | apply Nat.leb_le in H; lia].
  unfold rd. rewrite Nat2N.id. destruct (nth_error buf i) as [x|] eqn:E; [exists x; reflexivity|].
  apply nth_error_None in E. lia.
Qed.

Theorem acc_ok_store_defined : forall capB lo hi (buf : list N) v, acc_ok capB (BW lo hi) = true -> length buf = capB ->
  forall i, lo <= i < hi -> exists b, wr buf (N.of_nat i) v = Some b.
Proof.
  intros capB lo hi buf v H Hl i Hi. cbn [acc_ok] in H. apply orb_prop in H.
  destruct H as [H|H]; [apply Nat.leb_le in H | apply Nat.leb_le in H; lia].
  unfold wr, blen. destruct (N.ltb_spec (N.of_nat i) (N.of_nat (length buf))) as [_|Hb]; [eexists; reflexivity | lia].
Qed.

Theorem acc_ok_memmove_defined : forall capB lo hi (dst src : list N), acc_ok capB (BW lo hi) = true -> length dst = capB ->
  lo < hi -> hi - lo <= length src ->
  exists b, memmove dst (N.of_nat lo) src 0 (N.of_nat (hi - lo)) = Some b /\ length b = length dst.
Proof.
  intros capB lo hi dst src H Hl Hlh Hs. cbn [acc_ok] in H. apply orb_prop in H.
  assert (Hhi : hi <= capB \/ hi = lo) by (destruct H as [H|H]; apply Nat.leb_le in H; lia).
  unfold memmove, blen.
  destruct (N.leb_spec (0 + N.of_nat (hi - lo)) (N.of_nat (length src))) as [_|]; [|lia].
  destruct (N.leb_spec (N.of_nat lo + N.of_nat (hi - lo)) (N.of_nat (length dst))) as [Hd|Hd].
  - cbn [andb]. eexists. split; [reflexivity|].
    rewrite !app_length, !firstn_length, !skipn_length. replace (N.to_nat (N.of_nat lo + N.of_nat (hi - lo))) with hi by lia.
    rewrite !Nat2N.id. change (N.to_nat 0) with 0. lia.
  - lia.
Qed.
