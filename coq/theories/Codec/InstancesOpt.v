(* De-totalised instance theorems (audit C02 #2, C01 #9): the deserialization walker over the OPTION-valued reads of the primitive
   models - `None` (C: access outside the allocation / undefined behaviour; Python: raised exception) aborts with `EAssert` -
   returns exactly `des_spec`, whose errors are EBadLen / EBadTag / EBadHdr only.  So no read the walker issues is undefined, for
   every well-formed type and every byte string; the functional theorems of InstancesC/Cpp/Py.v are therefore not satisfied
   vacuously by the zero default of their total adapters.  For stores: the adapter `c_set_bits` returns `Some` only for
   `Some (inl _)` of nunavutSetUxx (never for `None` = UB nor for `TooSmall`), and under the walker's store law the call IS
   `Some (inl _)` (`c_store_defined`); a successful or value-error serialization therefore issued only defined stores. *)
From Verif Require Import Bits CPrims CPrimsThm CppPrims CppPrimsThm CppPrimsMoreThm PyPrims PyPrimsThm PyPrimsMoreThm.
From Verif Require Import Wire WireThm Walker PrimsOn InstancesBase WalkerBound WalkerOpt WalkerOptThm RefineDes
  InstancesC InstancesCpp InstancesPy InstancesTyped.
Local Open Scope nat_scope.

Definition opt_bits (w : nat) (o : option N) : option (list bool) :=
  match o with Some x => Some (bits_of_N w x) | None => None end.

(* ---- C ---- *)
Definition c_oprims (little : bool) : oprims := {| o_get := fun buf cap off w =>
  opt_bits w (get_uxx little (N.of_nat (std_width w)) (bytes_of_bits buf) (N.of_nat (cap / 8)) (N.of_nat off) (N.of_nat w)) |}.

Lemma c_oget_defined little buf cap off w : c_dom buf -> cap <= length buf -> (N.of_nat off < two64)%N ->
  o_get (c_oprims little) buf cap off w = Some (get_bits (c_prims little) buf cap off w).
Proof.
  intros Hd Hc Ho. cbn [o_get c_oprims get_bits c_prims]. unfold c_get_bits.
  assert (Hs : cap / 8 <= length buf / 8) by (destruct Hd; lia).
  destruct (get_uxx_spec_b little _ _ _ _ (N.of_nat w) (std_width_is_N w) (c_buf_pre buf (cap / 8) off Hd Hs Ho)) as (x & -> & _).
  reflexivity.
Qed.

Theorem c_walk_des_defined : forall (little : bool) t bits, wf_ty t = true -> length bits mod 8 = 0 ->
  (N.of_nat (length bits + tsz t) < two64)%N ->
  walk_des_o (c_oprims little) t bits = des_spec t bits.
Proof.
  intros little t bits Hwf Hm HB.
  rewrite (walk_des_o_defined (c_oprims little) (c_prims little) (length bits + tsz t) t bits); [| | exact Hwf | lia].
  - apply c_walk_des_refines; assumption.
  - intros cap off w Hc Hb _. apply c_oget_defined; [split; [exact Hm | lia] | exact Hc | lia].
Qed.

(* ---- C++ ---- *)
Definition cpp_oprims : oprims := {| o_get := fun buf cap off w =>
  opt_bits w (cpp_get_uxx (N.of_nat (std_width w)) (cpp_span buf (cap / 8) off) (N.of_nat w)) |}.

Lemma cpp_oget_defined zv buf cap off w : c_dom buf -> cap <= length buf -> (N.of_nat off < two64)%N ->
  o_get cpp_oprims buf cap off w = Some (get_bits (cpp_prims zv) buf cap off w).
Proof.
  intros Hd Hc Ho. cbn [o_get cpp_oprims get_bits cpp_prims]. unfold cpp_get_bits.
  assert (Hs : cap / 8 <= length buf / 8) by (destruct Hd; lia).
  destruct (cpp_members_are_c_b _ (cpp_span_ok buf (cap / 8) off Hd Hs Ho)) as (_ & _ & _ & Hg & _).
  destruct (Hg (N.of_nat (std_width w)) (N.of_nat w) (std_width_is_N w)) as [E _]. rewrite E.
  cbn [sp_data sp_size sp_off cpp_span].
  destruct (get_uxx_spec_b false _ _ _ _ (N.of_nat w) (std_width_is_N w) (c_buf_pre buf (cap / 8) off Hd Hs Ho)) as (x & -> & _).
  reflexivity.
Qed.

Theorem cpp_walk_des_defined : forall t bits, wf_ty t = true -> length bits mod 8 = 0 ->
  (N.of_nat (length bits + tsz t) < two64)%N ->
  walk_des_o cpp_oprims t bits = des_spec t bits.
Proof.
  intros t bits Hwf Hm HB.
  rewrite (walk_des_o_defined cpp_oprims (cpp_prims false) (length bits + tsz t) t bits); [| | exact Hwf | lia].
  - apply cpp_walk_des_refines; assumption.
  - intros cap off w Hc Hb _. apply cpp_oget_defined; [split; [exact Hm | lia] | exact Hc | lia].
Qed.

(* ---- Python: a raised exception is None ---- *)
Definition py_oprims : oprims := {| o_get := fun buf cap off w =>
  let d := mkdes (bytes_of_bits (firstn cap buf)) (N.of_nat off) in
  match (if off mod 8 =? 0 then fetch_aligned_unsigned d (N.of_nat w) else fetch_unaligned_unsigned d (N.of_nat w)) with
  | Some (x, _) => Some (bits_of_N w x)
  | None => None
  end |}.

Lemma py_oget_defined buf cap off w : 1 <= w -> o_get py_oprims buf cap off w = Some (get_bits py_prims buf cap off w).
Proof.
  intros Hw. cbn [o_get py_oprims get_bits py_prims]. unfold py_get_bits.
  set (d := mkdes (bytes_of_bits (firstn cap buf)) (N.of_nat off)).
  destruct (Nat.eqb_spec (off mod 8) 0) as [Ha|Ha].
  - destruct (fetch_aligned_unsigned_spec d (N.of_nat w) (bytes_of_bits_bytes_ok _) ltac:(lia) ltac:(unfold d; cbn [d_off]; lia))
      as (x & d' & -> & _). reflexivity.
  - destruct (fetch_unaligned_unsigned_spec d (N.of_nat w) (bytes_of_bits_bytes_ok _) ltac:(lia)) as (x & d' & -> & _). reflexivity.
Qed.

Theorem py_walk_des_defined : forall t bits, wf_ty t = true -> length bits mod 8 = 0 ->
  walk_des_o py_oprims t bits = des_spec t bits.
Proof.
  intros t bits Hwf Hm.
  rewrite (walk_des_o_defined py_oprims py_prims (length bits + tsz t) t bits); [| | exact Hwf | lia].
  - apply py_walk_des_refines; assumption.
  - intros cap off w _ _ Hw. apply py_oget_defined. exact Hw.
Qed.

(* ---- stores: under the walker's store law the nunavutSetUxx call is defined and not TooSmall ---- *)
Theorem c_store_defined : forall little buf off v, c_dom buf -> length v <= 64 -> off + length v <= length buf ->
  exists r, PrimsCur.set_uxx_cur little (bytes_of_bits buf) (blen (bytes_of_bits buf)) (N.of_nat off) (N_of_bits v) (N.of_nat (length v)) = Some (inl r) /\
            bits_of_bytes r = firstn off buf ++ v ++ skipn (off + length v) buf.
Proof.
  intros little buf off v Hd H64 Hfit.
  pose proof (c_set_bits_is_store little buf off v Hd H64 Hfit) as H. unfold c_set_bits in H.
  destruct (PrimsCur.set_uxx_cur little _ _ _ _ _) as [[r|e]|]; try discriminate H. exists r. split; [reflexivity|]. congruence.
Qed.

(* the adapter reports success only for `Some (inl _)`: neither `None` (UB) nor `TooSmall` is ever turned into a buffer *)
Theorem c_set_bits_some_iff : forall little buf off v r,
  set_bits (c_prims little) buf off v = Some r <->
  exists r', PrimsCur.set_uxx_cur little (bytes_of_bits buf) (blen (bytes_of_bits buf)) (N.of_nat off) (N_of_bits v) (N.of_nat (length v)) = Some (inl r') /\
             r = bits_of_bytes r'.
Proof.
  intros little buf off v r. cbn [set_bits c_prims]. unfold c_set_bits.
  destruct (PrimsCur.set_uxx_cur little _ _ _ _ _) as [[r'|e]|]; split.
  - intros H. exists r'. split; [reflexivity | congruence].
  - intros (r'' & E & ->). congruence.
  - discriminate.
  - intros (r'' & E & _). discriminate E.
  - discriminate.
  - intros (r'' & E & _). discriminate E.
Qed.

(* the option-valued walker really aborts on an undefined read: a record that is undefined everywhere *)
Example walk_des_o_detects_none :
  walk_des_o {| o_get := fun _ _ _ _ => None |} (TComp false [TPrim (PU 8 true)] None) (repeat false 8) = Err EAssert.
Proof. reflexivity. Qed.
