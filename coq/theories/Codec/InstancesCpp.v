(* The walker refinement instantiated with the SHIPPED C++ bitspan members (Prims/CppPrims.v: bitspan::setUxx, setZeros,
   const_bitspan::getU8..U64 of nunavut/support/serialization.hpp), using the C14 theorems cpp_members_are_c_b (members = the C
   functions on (data, size, offset)) and setZeros_exact_b / pad_and_move_spec_b (padding and void fields).

     cpp_prims zv : prims     set_bits = bitspan{data, size, off}.setUxx(value, len), or - when zv = true and the bits are all zero, as
                              for alignment padding and void fields - bitspan{data, size, off}.setZeros(len)
                              get_bits = const_bitspan{data, capacity/8, off}.getU<std_width w>(w)
   Side conditions as for C (InstancesC.v): whole-byte buffer addressable by a size_t, at most 64 bits per access, cursor below
   |buffer| + tsz t < 2^64. *)
From Verif Require Import Bits CPrims CPrimsThm CppPrims CppPrimsThm CppPrimsMoreThm PrimsCur.
From Verif Require Import Wire WireThm WireThmExt Walker PrimsOn InstancesBase WalkerBound RefineDes RefineSerBits RefineSerBase RefineSer InstancesC.
Local Open Scope nat_scope.

Definition all_zero (v : list bool) : bool := forallb negb v.

Definition cpp_span (buf : list bool) (size_bytes off : nat) : span :=
  mkspan (bytes_of_bits buf) (N.of_nat size_bytes) (N.of_nat off).

Definition cpp_set_bits (zv : bool) (buf : list bool) (off : nat) (v : list bool) : option (list bool) :=
  let s := cpp_span buf (length (bytes_of_bits buf)) off in
  match (if zv && all_zero v then setZeros s (N.of_nat (length v)) else cpp_set_uxx_cur s (N_of_bits v) (N.of_nat (length v))) with
  | Some (inl r) => Some (bits_of_bytes r)
  | _ => None
  end.

Definition cpp_get_bits (buf : list bool) (cap off w : nat) : list bool :=
  match cpp_get_uxx (N.of_nat (std_width w)) (cpp_span buf (cap / 8) off) (N.of_nat w) with
  | Some x => bits_of_N w x
  | None => repeat false w
  end.

Definition cpp_prims (zv : bool) : prims := {| set_bits := cpp_set_bits zv; get_bits := cpp_get_bits |}.

Lemma cpp_span_ok buf size off : c_dom buf -> size <= length buf / 8 -> (N.of_nat off < two64)%N ->
  span_okb (cpp_span buf size off) = true.
Proof. intros Hd Hs Ho. exact (c_buf_pre buf size off Hd Hs Ho). Qed.

Lemma all_zero_repeat v : all_zero v = true -> v = repeat false (length v).
Proof.
  induction v as [|b r IH]; cbn [all_zero forallb length repeat]; [reflexivity|].
  intros H. apply andb_prop in H. destruct H as [Hb Hr]. destruct b; [discriminate|]. f_equal. apply IH. exact Hr.
Qed.

(* loads are the C loads *)
Lemma cpp_get_is_c buf cap off w : c_dom buf -> cap <= length buf -> (N.of_nat off < two64)%N ->
  cpp_get_bits buf cap off w = c_get_bits false buf cap off w.
Proof.
  intros Hd Hc Ho. unfold cpp_get_bits, c_get_bits.
  assert (Hs : cap / 8 <= length buf / 8) by (destruct Hd; lia).
  destruct (cpp_members_are_c_b _ (cpp_span_ok buf (cap / 8) off Hd Hs Ho)) as (_ & _ & _ & Hg & _).
  destruct (Hg (N.of_nat (std_width w)) (N.of_nat w) (std_width_is_N w)) as [-> _]. reflexivity.
Qed.

Theorem cpp_get_law zv B bits : c_dom bits -> (N.of_nat B < two64)%N ->
  get_law (guard B (cpp_prims zv)) (fun w => 1 <= w <= 64) bits.
Proof.
  intros Hd HB cap off w Hw Hc Hm. unfold guard. cbn [get_bits cpp_prims].
  destruct (Nat.leb_spec (off + w) B) as [Hle|_]; [|reflexivity].
  rewrite cpp_get_is_c by (try assumption; lia). apply c_get_ok; try assumption. lia.
Qed.

(* stores: setUxx is the C store; setZeros writes exactly the zero bits *)
Theorem cpp_set_law zv L : L mod 8 = 0 -> (N.of_nat L < two64)%N -> set_law (cpp_prims zv) L.
Proof.
  intros HLm HL buf off v Hl H64 Hfit. cbn [set_bits cpp_prims]. unfold cpp_set_bits.
  assert (Hd : c_dom buf) by (unfold c_dom; rewrite Hl; split; assumption).
  assert (Hm : length buf mod 8 = 0) by apply Hd.
  assert (Hbl : length (bytes_of_bits buf) = length buf / 8) by (apply bytes_of_bits_length; exact Hm).
  assert (Hok : span_okb (cpp_span buf (length (bytes_of_bits buf)) off) = true)
    by (apply cpp_span_ok; [exact Hd | lia | lia]).
  destruct (zv && all_zero v) eqn:Ez.
  - (* setZeros *)
    apply andb_prop in Ez. destruct Ez as [_ Ez]. apply all_zero_repeat in Ez.
    assert (Hk : (N.of_nat (length v) <? two64)%N = true) by (apply N.ltb_lt; lia).
    pose proof (setZeros_exact_b _ _ Hok Hk) as H.
    assert (Hbits : sp_bits (cpp_span buf (length (bytes_of_bits buf)) off) = N.of_nat (length buf - off)).
    { unfold sp_bits, cpp_span. cbn [sp_size sp_off]. rewrite Hbl. unfold w64. rewrite N.mod_small by lia.
      destruct (N.ltb_spec (N.of_nat (length buf / 8) * 8) (N.of_nat off)); lia. }
    rewrite Hbits in H.
    destruct (N.ltb_spec (N.of_nat (length buf - off)) (N.of_nat (length v))) as [Hbad|_]; [lia|].
    destruct H as (r & -> & Hlen & Hbit). f_equal. cbn [sp_data sp_off cpp_span] in *.
    apply bits_ext.
    + rewrite bits_of_bytes_length, Hlen, Hbl, !app_length, firstn_length, skipn_length. lia.
    + intros p Hp. rewrite <- bit_bits_of_bytes, Hbit. rewrite (nth_store buf v off p) by lia.
      rewrite (bit_bytes_of_bits buf p Hm).
      destruct (N.leb_spec (N.of_nat off) (N.of_nat p)) as [A|A]; destruct (Nat.leb_spec off p) as [A'|A']; try lia;
        cbn [andb]; [|reflexivity].
      destruct (N.ltb_spec (N.of_nat p) (N.of_nat off + N.of_nat (length v))) as [C|C];
        destruct (Nat.ltb_spec p (off + length v)) as [C'|C']; try lia; [|reflexivity].
      rewrite Ez. symmetry. apply nth_repeat.
  - (* setUxx = nunavutSetUxx (any/big rendering) *)
    destruct (cpp_members_are_c_b _ Hok) as (Hs & _).
    rewrite cpp_set_uxx_cur_is_old by (cbn [sp_off sp_size cpp_span]; rewrite ?Hbl; lia).
    rewrite Hs by (cbn [sp_off cpp_span]; apply N.ltb_lt; lia).
    cbn [sp_data sp_size sp_off cpp_span].
    rewrite <- set_uxx_cur_is_old by (rewrite ?Hbl; lia).
    exact (c_set_law false L HLm HL buf off v Hl H64 Hfit).
Qed.

(* bitspan::padAndMoveToAlignment(8) is the walker's padding step: same bits, same new offset *)
Theorem cpp_pad_is_w_pad : forall buf off, c_dom buf -> off + pad8 off <= length buf ->
  exists r, padAndMoveToAlignment (cpp_span buf (length (bytes_of_bits buf)) off) 8 = Some (inl (r, N.of_nat (off + pad8 off))) /\
            bits_of_bytes r = firstn off buf ++ repeat false (pad8 off) ++ skipn (off + pad8 off) buf.
Proof.
  intros buf off Hd Hfit. assert (Hm : length buf mod 8 = 0) by apply Hd.
  assert (Hbl : length (bytes_of_bits buf) = length buf / 8) by (apply bytes_of_bits_length; exact Hm).
  assert (Hl : (N.of_nat (length buf) < two64)%N) by apply Hd.
  assert (Hok : span_okb (cpp_span buf (length (bytes_of_bits buf)) off) = true)
    by (apply cpp_span_ok; [exact Hd | lia | lia]).
  pose proof (pad_and_move_spec_b _ 8%N Hok eq_refl) as H. cbn zeta in H.
  assert (Hpad : ((8 - sp_off (cpp_span buf (length (bytes_of_bits buf)) off) mod 8) mod 8 = N.of_nat (pad8 off))%N).
  { cbn [sp_off cpp_span]. unfold pad8. lia. }
  rewrite Hpad in H.
  assert (Hbits : sp_bits (cpp_span buf (length (bytes_of_bits buf)) off) = N.of_nat (length buf - off)).
  { unfold sp_bits, cpp_span. cbn [sp_size sp_off]. rewrite Hbl. unfold w64. rewrite N.mod_small by lia.
    destruct (N.ltb_spec (N.of_nat (length buf / 8) * 8) (N.of_nat off)); lia. }
  rewrite Hbits in H.
  destruct (N.ltb_spec (N.of_nat (length buf - off)) (N.of_nat (pad8 off))) as [Hbad|_]; [lia|].
  destruct H as (r & E & _ & Hlen & Hbit). exists r. cbn [sp_data sp_off cpp_span] in *. split.
  - rewrite E. do 3 f_equal. lia.
  - apply bits_ext.
    + rewrite bits_of_bytes_length, Hlen, Hbl, !app_length, firstn_length, repeat_length, skipn_length. lia.
    + intros p Hp. rewrite <- bit_bits_of_bytes, Hbit.
      pose proof (nth_store buf (repeat false (pad8 off)) off p) as Hn. rewrite repeat_length in Hn. rewrite Hn by lia.
      rewrite (bit_bytes_of_bits buf p Hm).
      destruct (N.leb_spec (N.of_nat off) (N.of_nat p)) as [A|A]; destruct (Nat.leb_spec off p) as [A'|A']; try lia;
        cbn [andb]; [|reflexivity].
      destruct (N.ltb_spec (N.of_nat p) (N.of_nat off + N.of_nat (pad8 off))) as [C|C];
        destruct (Nat.ltb_spec p (off + pad8 off)) as [C'|C']; try lia; [|reflexivity].
      symmetry. apply nth_repeat.
Qed.

(* ---- the C01/C02 walker theorems about the C++ members ---- *)
Theorem cpp_walk_des_refines : forall (zv : bool) t bits, wf_ty t = true -> length bits mod 8 = 0 ->
  (N.of_nat (length bits + tsz t) < two64)%N ->
  walk_des (cpp_prims zv) t bits = des_spec t bits.
Proof.
  intros zv t bits Hwf Hm HB.
  rewrite <- (walk_des_guard (cpp_prims zv) (length bits + tsz t) t bits (le_n _)).
  apply (walk_des_refines_on _ (fun w => 1 <= w <= 64)); [trivial | | right; exact Hwf | exact Hm].
  apply cpp_get_law; [split; [exact Hm | lia] | exact HB].
Qed.

Theorem cpp_walk_ser_refines : forall (zv : bool) u fs ext v buf cap,
  wf_ty (TComp u fs ext) = true -> length buf = 8 * cap -> (N.of_nat (8 * cap) < two64)%N ->
  storage_ok (TComp u fs ext) v = true ->
  walk_ser (cpp_prims zv) (TComp u fs ext) v buf cap = ser_spec (TComp u fs ext) v cap.
Proof.
  intros zv u fs ext v buf cap Hwf Hl HB Hst. apply walk_ser_refines_on; try assumption.
  apply cpp_set_law; [lia | exact HB].
Qed.

Theorem cpp_ws_body_effect : forall (zv : bool) u fs ext v buf cap bits,
  wf_ty (TComp u fs ext) = true -> length buf = 8 * cap -> (N.of_nat (8 * cap) < two64)%N ->
  storage_ok (TComp u fs ext) v = true -> bmax (TComp u fs ext) <= 8 * cap -> enc_body (TComp u fs ext) v = Ok bits ->
  ws_body (cpp_prims zv) (TComp u fs ext) v buf 0 = Ok (bits ++ skipn (length bits) buf, length bits).
Proof.
  intros zv u fs ext v buf cap bits Hwf Hl HB Hst Hge E. apply (ws_body_effect_on _ u fs ext v buf cap); try assumption.
  apply cpp_set_law; [lia | exact HB].
Qed.

(* non-vacuity: setZeros of 5 bits at bit offset 6 of a 0xFF-filled buffer (the F-CPP-ZEROS shape), through the instance *)
Example cpp_prims_example :
  set_bits (cpp_prims true) (repeat true 24) 6 (repeat false 5) =
    Some (firstn 6 (repeat true 24) ++ repeat false 5 ++ skipn 11 (repeat true 24)).
Proof. vm_compute. reflexivity. Qed.
