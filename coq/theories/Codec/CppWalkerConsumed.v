(* "The reported number of consumed bytes never exceeds the number supplied" for the cursor-returning C++-shaped model
   (audit C02 #4): the generated C++ routine itself returns `std::min(in_buffer.offset(), capacity_bits) / 8` (deserialization.j2
   l.60-62), so the bound holds for ANY behaviour of the bitspan members - it does not rest on the refinement, nor on the `Nat.min`
   of the specification's contract; the assert `capacity_bits >= _bits_got_` next to it can never fire.  The informative half: when
   the specification's cursor stays inside the data the routine reports exactly that cursor (no clamping took place). *)
From Verif Require Import Wire WireThm Walker PrimsOn CppWalker CppWalkerThm.
From Coq Require Import Lia ZifyBool ZifyNat ZifyN.
Local Open Scope nat_scope.
Ltac Zify.zify_post_hook ::= Z.div_mod_to_equations.

Theorem cpp_walk_des_consumed_le : forall Q t bits v c, cpp_walk_des Q t bits = Ok (v, c) -> 8 * c <= length bits.
Proof.
  intros Q t bits v c H. unfold cpp_walk_des, cd_routine in H.
  destruct (cd_body Q t bits 0 (length bits) 0) as [[v' o]|e]; cbn [bind] in H; [|discriminate H].
  apply Ok_inj in H. assert (Hc : Nat.min o (length bits - 0) / 8 = c) by congruence. rewrite <- Hc. lia.
Qed.

Theorem cpp_walk_des_consumed_exact : forall Q (Wd : nat -> Prop) t bits v k,
  (forall w, 1 <= w <= 64 -> Wd w) -> cget_law Q Wd bits -> wf_ty t = true -> length bits mod 8 = 0 ->
  dec_body t bits = Ok (v, k) -> k <= length bits -> cpp_walk_des Q t bits = Ok (v, k / 8).
Proof.
  intros Q Wd t bits v k HWd Hget Hwf Hm Hd Hk.
  rewrite (cpp_walk_des_refines_on Q Wd t bits HWd Hget Hwf Hm). unfold des_spec. rewrite Hd. cbn [bind].
  rewrite Nat.min_l by exact Hk. reflexivity.
Qed.
