(* Serialization refinement, part 3: the code-shaped walker emits exactly the bits (or the error) the wire specification
   prescribes, for EVERY well-formed composite type - all primitives at arbitrary bit offsets incl. the aligned whole-byte
   fast path, arrays of anything, alignment padding, nested sealed composites, nested delimited composites (32 bits reserved,
   body serialized, header written afterwards), unions - every value that fits the storage types of the generated fields
   (`storage_ok`, RefineSerBits.v), every initial buffer content, every capacity, every primitive record satisfying `prims_ok`.

   Relation to `Refine.walk_ser_refines_statement`: that statement (storage proviso = True, any type) is FALSE
   (`walk_ser_refines_statement_refuted` below: a saturated standard-width field has no saturation code, so a value outside the
   C storage type is emitted differently; and a top-level non-composite is not byte-padded).  What is proved is the statement
   with the real storage proviso for composite types - the only types that have a serialization routine.

   Shape of the proof: nested induction on the type of
     P_ser t := at every cursor `off` aligned for t with off + bmax t <= |buf| (this bound is what the single up-front capacity
                check of the generated code establishes; it makes every store succeed):
                  enc_body t v = Err e   ->  ws_body t v buf off = Err e
                  enc_body t v = Ok bits ->  ws_body t v buf off = Ok (buf', off + |bits|), |buf'| = |buf|,
                                             firstn (off + |bits|) buf' = firstn off buf ++ bits,
                                             buf' = buf from the next byte boundary at/after the new cursor on. *)
From Verif Require Import Wire WireThm WireThmRt Walker Refine RefineDesBase RefineSerBits PrimsOn RefineSerBase.
From Coq Require Import Lia ZifyBool ZifyNat ZifyN.
Local Open Scope nat_scope.
Ltac Zify.zify_post_hook ::= Z.div_mod_to_equations.

Lemma wrote_step buf off b1 n buf1 b2 r :
  length b1 = n -> length buf1 = length buf -> firstn (off + n) buf1 = firstn off buf ++ b1 ->
  skipn (r8 (off + n)) buf1 = skipn (r8 (off + n)) buf ->
  wrote buf1 (off + n) b2 r -> wrote buf off (b1 ++ b2) r.
Proof. intros <-. apply wrote_trans. Qed.

Lemma prefix_kept (buf buf1 : list bool) off bits : off <= length buf ->
  firstn (off + length bits) buf1 = firstn off buf ++ bits -> firstn off buf1 = firstn off buf.
Proof.
  intros Hoff Hf. rewrite <- (firstn_firstn_le buf1 off (off + length bits)) by lia. rewrite Hf.
  rewrite firstn_app_left by (rewrite firstn_length; lia). apply firstn_firstn_le. lia.
Qed.

Section RefineSer.
  Variable P : prims.
  Variable L : nat.
  Hypothesis HL : L mod 8 = 0.
  (* the only thing assumed of the primitives (PrimsOn.set_law) *)
  Hypothesis Hset : set_law P L.

  Definition P_ser (t : ty) : Prop := wf_ty t = true -> forall v buf off, storage_ok t v = true -> length buf = L ->
    off mod align t = 0 -> off + bmax t <= L -> ser_sim buf off (enc_body t v) (ws_body P t v buf off).

  Definition P_serf (t : ty) : Prop := wf_ty t = true -> forall v buf off, storage_ok t v = true -> length buf = L ->
    off mod align t = 0 -> off + fmax t <= L -> ser_sim buf off (enc_field t v) (ws_field P (ws_body P) t v buf off).

  (* a delimited composite as a field: reserve the header, serialize the body, store the body size into the header *)
  Lemma ser_body_to_field t : P_ser t -> P_serf t.
  Proof.
    intros H Hwf v buf off Hst Hl Ha Hfit. unfold enc_field, as_field_enc, fmax, as_field_max in *.
    destruct t as [p|e n|e c|u fs [x|]]; try (apply H; assumption).
    cbn [ws_field]. cbn [align] in Ha.
    destruct (wf_extent _ _ _ Hwf) as [Hx _].
    assert (Ha' : (off + header_bits) mod align (TComp u fs (Some x)) = 0) by (cbn [align]; unfold header_bits; lia).
    assert (Hfit' : off + header_bits + bmax (TComp u fs (Some x)) <= L) by lia.
    pose proof (H Hwf v buf (off + header_bits) Hst Hl Ha' Hfit') as S. unfold ser_sim in *.
    destruct (enc_body (TComp u fs (Some x)) v) as [b|e] eqn:E; cbn [bind]; [|rewrite S; reflexivity].
    destruct S as (buf1 & E1 & Hl1 & Hf1 & Hs1).
    assert (Hpre1 : firstn (off + header_bits) buf1 = firstn (off + header_bits) buf).
    { eapply prefix_kept; [|exact Hf1]. lia. }
    rewrite E1. cbn [bind].
    replace (off + header_bits + length b - (off + header_bits)) with (length b) by lia.
    set (hdr := bits_of_N header_bits (N.of_nat (length b / 8))).
    assert (Hh : length hdr = header_bits) by apply bits_of_N_length.
    unfold w_set. rewrite (Hset buf1 off hdr) by (rewrite ?Hh; unfold header_bits in *; lia). cbn [bind].
    eexists. split; [f_equal; f_equal; rewrite app_length, Hh; lia|]. split; [|split].
    - rewrite !app_length, firstn_length, skipn_length. lia.
    - rewrite app_length, Hh.
      rewrite firstn_app_exact by (rewrite firstn_length; lia).
      rewrite firstn_app_exact by exact Hh.
      f_equal; [|f_equal].
      + rewrite <- (firstn_firstn_le buf1 off (off + header_bits)) by lia.
        rewrite Hpre1. apply firstn_firstn_le. lia.
      + rewrite firstn_skipn_comm, Hf1. apply skipn_app_exact. rewrite firstn_length. lia.
    - pose proof (r8_ge (off + length (hdr ++ b))) as Hr. rewrite app_length in Hr.
      rewrite set_frame by (rewrite ?app_length; lia).
      rewrite app_length, Hh. replace (off + (header_bits + length b)) with (off + header_bits + length b) by lia. exact Hs1.
  Qed.

  Lemma ser_list e : wf_ty e = true -> P_serf e -> forall l buf off, forallb (storage_ok e) l = true -> length buf = L ->
    off mod align e = 0 -> off + length l * fmax e <= L ->
    ser_sim buf off (enc_list (enc_field e) l) (ws_list (ws_field P (ws_body P) e) l buf off).
  Proof.
    intros Hwf He. induction l as [|x l IH]; intros buf off Hst Hl Ha Hfit; cbn [enc_list ws_list].
    - cbn [ser_sim]. apply wrote_nil.
    - cbn [forallb length] in *. apply andb_prop in Hst. destruct Hst as [Hst1 Hst2].
      rewrite Nat.mul_succ_l in Hfit.
      assert (Hfit1 : off + fmax e <= L) by lia.
      pose proof (He Hwf x buf off Hst1 Hl Ha Hfit1) as S. unfold ser_sim in S.
      destruct (enc_field e x) as [b1|err] eqn:E1; cbn [bind]; [|rewrite S; reflexivity].
      destruct S as (buf1 & -> & Hl1 & Hf1 & Hs1). cbn [bind].
      destruct (enc_field_len_bounds _ _ _ Hwf E1) as [[_ Hhi] Hmod].
      assert (Ha1 : (off + length b1) mod align e = 0).
      { destruct (align_cases e) as [A|A]; rewrite A in *; [apply Nat.mod_1_r|]. specialize (Hmod eq_refl). lia. }
      assert (Hl1' : length buf1 = L) by lia.
      assert (Hfit2 : off + length b1 + length l * fmax e <= L) by lia.
      pose proof (IH buf1 (off + length b1) Hst2 Hl1' Ha1 Hfit2) as S.
      destruct (enc_list (enc_field e) l) as [b2|err]; cbn [bind ser_sim] in *; [|exact S].
      eapply wrote_trans; [exact Hl1 | exact Hf1 | exact Hs1 | exact S].
  Qed.

  Lemma ser_fields fs : Forall P_serf fs -> forallb wf_ty fs = true -> forall vs buf base off omax,
    storage_fields storage_ok fs vs = true -> length buf = L -> off <= omax -> fields_sum fmax fs omax <= L ->
    ser_sim buf off (enc_fields enc_field fs vs off) (ws_fields P (ws_field P (ws_body P)) fs vs buf base off).
  Proof.
    induction 1 as [|f fs Hf Hfs IH]; intros Hwf vs buf base off omax Hst Hl Hle Hfit.
    - destruct vs as [|v vs]; cbn [enc_fields ws_fields ser_sim]; [|reflexivity].
      apply (w_pad8_wrote P L Hset); [exact Hl|]. cbn [fields_sum] in Hfit. pose proof (rup8_mono off omax Hle). lia.
    - cbn [forallb] in Hwf. apply andb_prop in Hwf. destruct Hwf as [Hwf1 Hwf2].
      destruct vs as [|v vs]; cbn [enc_fields ws_fields]; [reflexivity|].
      cbn [storage_fields] in Hst. apply andb_prop in Hst. destruct Hst as [Hst1 Hst2].
      cbn [fields_sum] in Hfit.
      set (p := padn off (align f)).
      pose proof (rupn_mono off omax f Hle) as Hmono. fold p in Hmono.
      pose proof (fields_sum_ge fmax fs (omax + padn omax (align f) + fmax f)) as Hge.
      assert (Hfit0 : off + padn off (align f) <= length buf) by (fold p; lia).
      destruct (w_pad_wrote P L Hset buf off f Hl Hfit0) as (buf0 & E0 & Hl0 & Hf0 & Hs0).
      fold p in E0, Hf0, Hs0. rewrite repeat_length in E0, Hf0, Hs0. rewrite E0. cbn [bind].
      assert (Hl0' : length buf0 = L) by lia.
      assert (Hfit1 : off + p + fmax f <= L) by lia.
      pose proof (Hf Hwf1 v buf0 (off + p) Hst1 Hl0' (rupn_aligned off f) Hfit1) as S. unfold ser_sim in S.
      destruct (enc_field f v) as [b1|err] eqn:E1; cbn [bind]; [|rewrite S; reflexivity].
      destruct S as (buf1 & -> & Hl1 & Hf1 & Hs1). cbn [bind].
      destruct (enc_field_len_bounds _ _ _ Hwf1 E1) as [[_ Hhi] _].
      assert (Hl1' : length buf1 = L) by lia.
      assert (Hle' : off + p + length b1 <= omax + padn omax (align f) + fmax f) by lia.
      pose proof (IH Hwf2 vs buf1 base (off + p + length b1) _ Hst2 Hl1' Hle' Hfit) as S.
      destruct (enc_fields enc_field fs vs (off + p + length b1)) as [r|err]; cbn [bind ser_sim] in *; [|exact S].
      eapply (wrote_step buf off (repeat false p) p buf0); [apply repeat_length | exact Hl0 | exact Hf0 | exact Hs0 |].
      eapply wrote_trans; [exact Hl1 | exact Hf1 | exact Hs1 | exact S].
  Qed.

  Lemma ser_sel fs : Forall P_serf fs -> forallb wf_ty fs = true -> forall k x buf off,
    storage_sel storage_ok fs k x = true -> length buf = L -> off mod 8 = 0 -> off + fields_max fmax fs <= L ->
    ser_sim buf off (enc_sel enc_field fs k x) (ws_sel (ws_field P (ws_body P)) fs k x buf off).
  Proof.
    induction 1 as [|f fs Hf Hfs IH]; intros Hwf k x buf off Hst Hl Ha Hfit; [destruct k; reflexivity|].
    cbn [forallb] in Hwf. apply andb_prop in Hwf. destruct Hwf as [Hwf1 Hwf2]. cbn [fields_max] in Hfit.
    destruct k as [|k]; cbn [enc_sel ws_sel storage_sel] in *.
    - apply Hf; [assumption | assumption | assumption | apply mod_align; exact Ha | lia].
    - apply IH; [assumption | assumption | assumption | assumption | lia].
  Qed.

  Theorem ser_all : forall t, P_ser t.
  Proof.
    induction t as [p|e n IHe|e c IHe|u fs ext H] using ty_nested_ind; unfold P_ser; intros Hwf v buf off Hst Hl Ha Hfit.
    - (* primitive *)
      cbn [ws_body enc_body wf_ty storage_ok bmax] in *. apply (w_prim_sim P L Hset); [assumption | assumption | assumption | lia | lia].
    - (* fixed array *)
      cbn [ws_body enc_body]. cbn [wf_ty align bmax] in *. fold (fmax e) in Hfit.
      destruct v; try reflexivity.
      destruct (Nat.eqb_spec (length l) n) as [En|En]; [|reflexivity]. subst n.
      cbn [storage_ok] in Hst. change (as_field_enc enc_body e) with (enc_field e).
      apply ser_list; try assumption. apply ser_body_to_field. exact IHe.
    - (* variable array *)
      cbn [ws_body enc_body]. cbn [wf_ty align bmax] in *. fold (fmax e) in Hfit.
      apply andb_prop in Hwf. destruct Hwf as [Hwf _].
      destruct v; try reflexivity.
      destruct (Nat.ltb_spec c (length l)) as [Ec|Ec]; [reflexivity|].
      cbn [storage_ok] in Hst. change (as_field_enc enc_body e) with (enc_field e).
      set (pfx := bits_of_N (prefix_bits c) (N.of_nat (length l))).
      assert (Hpl : length pfx = prefix_bits c) by apply bits_of_N_length.
      assert (Hmul : length l * fmax e <= c * fmax e) by (apply Nat.mul_le_mono_r; exact Ec).
      assert (Hfit0 : off + length pfx <= length buf) by lia.
      assert (Hp64 : length pfx <= 64) by (rewrite Hpl; unfold prefix_bits; destruct (len_width_cases c) as [-> | [-> | [-> | ->]]]; lia).
      destruct (w_set_wrote P L Hset buf off pfx Hl Hp64 Hfit0) as (buf0 & E0 & Hl0 & Hf0 & Hs0).
      rewrite E0. cbn [bind].
      assert (Hl0' : length buf0 = L) by lia.
      assert (Ha0 : (off + length pfx) mod align e = 0).
      { pose proof (len_width_mod8 c) as Hw. unfold prefix_bits in Hpl. rewrite Hpl.
        destruct (align_cases e) as [A | A]; rewrite A in *; [apply Nat.mod_1_r | lia]. }
      assert (Hfit1 : off + length pfx + length l * fmax e <= L) by lia.
      pose proof (ser_list e Hwf (ser_body_to_field e IHe) l buf0 (off + length pfx) Hst Hl0' Ha0 Hfit1) as S.
      destruct (enc_list (enc_field e) l) as [b|err]; cbn [bind ser_sim] in *; [|exact S].
      eapply wrote_trans; [exact Hl0 | exact Hf0 | exact Hs0 | exact S].
    - (* composite *)
      assert (Hf : Forall P_serf fs).
      { rewrite Forall_forall in *. intros f Hin. apply ser_body_to_field. apply H. exact Hin. }
      assert (Hwfs : forallb wf_ty fs = true).
      { cbn [wf_ty] in Hwf. apply andb_prop in Hwf. destruct Hwf as [Hwf _]. apply andb_prop in Hwf. destruct Hwf as [Hwf _]. exact Hwf. }
      cbn [align] in Ha.
      destruct u; cbn [ws_body enc_body]; change (as_field_enc enc_body) with enc_field.
      + (* union: tag, selected member, final padding *)
        destruct v; try reflexivity.
        cbn [bmax] in Hfit. fold fmax in Hfit.
        set (tw := tag_bits (length fs)) in *.
        destruct (Nat.leb_spec (length fs) tag) as [Ek|Ek].
        { rewrite enc_sel_oob by exact Ek. reflexivity. }
        cbn [storage_ok] in Hst.
        set (tg := bits_of_N tw (N.of_nat tag)).
        assert (Htl : length tg = tw) by apply bits_of_N_length.
        assert (Htw : tw mod 8 = 0) by apply tag_bits_mod8.
        assert (Hfit0 : off + length tg <= length buf) by lia.
        assert (Ht64 : length tg <= 64) by (rewrite Htl; unfold tw, tag_bits; destruct (len_width_cases (length fs - 1)) as [-> | [-> | [-> | ->]]]; lia).
        destruct (w_set_wrote P L Hset buf off tg Hl Ht64 Hfit0) as (buf0 & E0 & Hl0 & Hf0 & Hs0).
        rewrite E0. cbn [bind].
        assert (Hl0' : length buf0 = L) by lia.
        assert (Ha0 : (off + length tg) mod 8 = 0) by lia.
        assert (Hfit1 : off + length tg + fields_max fmax fs <= L) by lia.
        pose proof (ser_sel fs Hf Hwfs tag v buf0 (off + length tg) Hst Hl0' Ha0 Hfit1) as S. unfold ser_sim in S.
        destruct (enc_sel enc_field fs tag v) as [b|err] eqn:Eb; cbn [bind]; [|rewrite S; reflexivity].
        destruct S as (buf1 & -> & Hl1 & Hf1 & Hs1). cbn [bind ser_sim].
        destruct (enc_sel_in _ _ _ _ _ Eb) as (f & Hin & _ & He).
        rewrite forallb_forall in Hwfs.
        destruct (enc_field_len_bounds _ _ _ (Hwfs f Hin) He) as [[_ Hhi] _].
        pose proof (fields_max_ge fmax f fs Hin) as Hmx.
        assert (Hpad : pad8 (off + length tg + length b) = pad8 (tw + length b)) by (unfold pad8; lia).
        pose proof (rup8_mono (tw + length b) (tw + fields_max fmax fs)) as Hr.
        assert (Hfit2 : off + length tg + length b + pad8 (off + length tg + length b) <= length buf1) by lia.
        assert (Hl1' : length buf1 = L) by lia.
        pose proof (w_pad8_wrote P L Hset buf1 (off + length tg + length b) Hl1' Hfit2) as S. rewrite Hpad in S.
        eapply wrote_trans; [exact Hl0 | exact Hf0 | exact Hs0 |].
        eapply wrote_trans; [exact Hl1 | exact Hf1 | exact Hs1 | exact S].
      + (* structure *)
        destruct v; try reflexivity.
        cbn [bmax storage_ok] in *. fold fmax in Hfit.
        pose proof (fields_sum_shift fmax fs off Ha 0) as Hs. rewrite Nat.add_0_r in Hs.
        assert (Hfit0 : fields_sum fmax fs off <= L) by lia.
        pose proof (ser_fields fs Hf Hwfs l buf off off off Hst Hl (le_n _) Hfit0) as S.
        pose proof (enc_fields_shift enc_field fs off Ha l 0) as Hsh. rewrite Nat.add_0_r in Hsh.
        rewrite Hsh in S. exact S.
  Qed.
End RefineSer.

(* ---- the serialization refinement for composite types, from the restricted store law (PrimsOn.set_law): this is the form that
   is instantiated with the shipped primitives (Codec/Instances*.v) ---- *)
Theorem walk_ser_refines_on : forall P u fs ext v buf cap, set_law P (8 * cap) ->
  wf_ty (TComp u fs ext) = true -> length buf = 8 * cap -> storage_ok (TComp u fs ext) v = true ->
  walk_ser P (TComp u fs ext) v buf cap = ser_spec (TComp u fs ext) v cap.
Proof.
  intros P u fs ext v buf cap HP Hwf Hl Hst. set (t := TComp u fs ext) in *. unfold walk_ser, ser_spec.
  destruct (Nat.ltb_spec (8 * cap) (bmax t)) as [Hlt|Hge]; [reflexivity|].
  assert (HL : (8 * cap) mod 8 = 0) by lia.
  pose proof (ser_all P (8 * cap) HL HP t Hwf v buf 0 Hst Hl eq_refl Hge) as S. unfold ser_sim in S.
  destruct (enc_body t v) as [bits|e] eqn:E; [|rewrite S; reflexivity].
  destruct S as (buf' & -> & _ & Hf & _). cbn [bind plus firstn app] in *.
  destruct (enc_len_bounds _ _ _ Hwf E) as [_ Hmod]. specialize (Hmod eq_refl).
  replace (8 * (length bits / 8)) with (length bits) by lia. rewrite Hf. reflexivity.
Qed.

Theorem walk_ser_refines_composite : forall P u fs ext v buf cap, prims_ok P ->
  wf_ty (TComp u fs ext) = true -> length buf = 8 * cap -> storage_ok (TComp u fs ext) v = true ->
  walk_ser P (TComp u fs ext) v buf cap = ser_spec (TComp u fs ext) v cap.
Proof. intros P u fs ext v buf cap HP. apply walk_ser_refines_on. apply prims_ok_set_law. exact HP. Qed.

(* the whole effect on the buffer, for every initial content: the walker leaves `bits ++ untouched rest` *)
Theorem ws_body_effect_on : forall P u fs ext v buf cap bits, set_law P (8 * cap) ->
  wf_ty (TComp u fs ext) = true -> length buf = 8 * cap -> storage_ok (TComp u fs ext) v = true ->
  bmax (TComp u fs ext) <= 8 * cap -> enc_body (TComp u fs ext) v = Ok bits ->
  ws_body P (TComp u fs ext) v buf 0 = Ok (bits ++ skipn (length bits) buf, length bits).
Proof.
  intros P u fs ext v buf cap bits HP Hwf Hl Hst Hge E. set (t := TComp u fs ext) in *.
  assert (HL : (8 * cap) mod 8 = 0) by lia.
  pose proof (ser_all P (8 * cap) HL HP t Hwf v buf 0 Hst Hl eq_refl Hge) as S. unfold ser_sim in S. rewrite E in S.
  destruct S as (buf' & -> & _ & Hf & Hs). cbn [plus firstn app] in *.
  destruct (enc_len_bounds _ _ _ Hwf E) as [_ Hmod]. specialize (Hmod eq_refl).
  assert (Hr : r8 (length bits) = length bits) by (unfold r8, pad8; lia). rewrite Hr in Hs.
  f_equal. f_equal. rewrite <- (firstn_skipn (length bits) buf'). rewrite Hf, Hs. reflexivity.
Qed.

Theorem ws_body_effect_composite : forall P u fs ext v buf cap bits, prims_ok P ->
  wf_ty (TComp u fs ext) = true -> length buf = 8 * cap -> storage_ok (TComp u fs ext) v = true ->
  bmax (TComp u fs ext) <= 8 * cap -> enc_body (TComp u fs ext) v = Ok bits ->
  ws_body P (TComp u fs ext) v buf 0 = Ok (bits ++ skipn (length bits) buf, length bits).
Proof. intros P u fs ext v buf cap bits HP. apply ws_body_effect_on. apply prims_ok_set_law. exact HP. Qed.

Theorem walk_ser_obs_refines : forall u fs ext v buf cap,
  wf_ty (TComp u fs ext) = true -> length buf = 8 * cap -> storage_ok (TComp u fs ext) v = true ->
  walk_ser_obs (TComp u fs ext) v buf cap = ser_obs_spec (TComp u fs ext) v cap.
Proof. intros. apply walk_ser_refines_composite; try assumption. apply ref_prims_ok. Qed.

(* the statement left open in Refine.v, with `in_storage_range := True` and arbitrary top-level types, does not hold *)
Theorem walk_ser_refines_statement_refuted : ~ walk_ser_refines_statement.
Proof.
  intros H.
  specialize (H ref_prims (TComp false [TPrim (PU 8 true)] None) (VStruct [VInt 300]) (repeat false 8) 1
                ref_prims_ok eq_refl eq_refl I).
  vm_compute in H. discriminate H.
Qed.
