(* DERIVED tie of the C++ (de)serialization templates to the target-shaped walker Codec/CppWalker.v, with the interpreter of
   Codec/TplSem.v and a rule table for the C++ statements (whole-payload equality, closed list, fails closed like the C one). *)
From Coq Require Import List String Bool Arith Lia.
From Verif Require Import TplTieBase Gen_CodecTpl Wire Walker TplSem CppWalker.
Import ListNotations.
Local Open Scope nat_scope.
Local Open Scope string_scope.

Definition cpp_rules : list (akind * string * option wstep) :=
  [
    (KCall, "(void)(obj);", None);
    (KMacro, "_serialize_impl(t)", Some WAny);
    (KCall, "(void)(out_buffer);", None);
    (KReturn, "return 0U;", Some WFinalSize);
    (KCall, "const {{ typename_unsigned_length }} capacity_bits = out_buffer.size();", None);
    (KPre, "#ifndef {{ t | full_macro_name }}_DISABLE_SERIALIZATION_BUFFER_CHECK_", None);
    (KGuard, "if ((static_cast<{{ typename_unsigned_bit_length }}>(capacity_bits)) < {{ t.inner_type.bit_length_set.max }}UL)", Some WCapCheck);
    (KOpen, "", None);
    (KReturn, "return -nunavut::support::Error::SerializationBufferTooSmall;", None);
    (KClose, "", None);
    (KPre, "#endif // ndef {{ t | full_macro_name }}_DISABLE_SERIALIZATION_BUFFER_CHECK_", None);
    (KRAssert, "'out_buffer.offset_alings_to_byte()'", None);
    (KMacro, "_pad_to_alignment(f.data_type.alignment_requirement)", Some WPad);
    (KMacro, "_serialize_any(f.data_type, ""obj.%s""|format(f|id), offset)", Some WAny);
    (KStore, "using VariantType = {{ t|short_reference_name }}::VariantType;", None);
    (KCall, "const auto {{ <index> }} = obj.union_value.index();", None);
    (KMacro, "_serialize_integer(t.inner_type.tag_field_type, <index>, 0|bit_length_set)", Some WTag);
    (KGuard, "{{ 'if' if loop.first else 'else if' }} (VariantType::IndexOf::{{ f| id }} == {{ <index> }})", Some WTagCase);
    (KCall, "auto {{ <ptr> }} = obj.get_{{ f|id }}_if();", None);
    (KMacro, "_serialize_any(f.data_type, '(*%s)' | format(<ptr>), offset)", Some WAny);
    (KElse, "else", None);
    (KReturn, "return -nunavut::support::Error::RepresentationBadUnionTag;", Some WBadTag);
    (KMacro, "_pad_to_alignment(t.inner_type.alignment_requirement)", Some WPad);
    (KRAssert, "'out_buffer.offset() >= %sULL'|format(t.inner_type.bit_length_set.min)", None);
    (KRAssert, "'out_buffer.offset() <= %sULL'|format(t.inner_type.bit_length_set.max)", None);
    (KRAssert, "'out_buffer.offset() == %sULL'|format(t.inner_type.bit_length_set.max)", None);
    (KReturn, "return out_buffer.offset_bytes_ceil();", Some WFinalSize);
    (KCall, "const auto {{ <result> }} = out_buffer.padAndMoveToAlignment({{ n_bits }}U);", Some WPadZeros);
    (KGuard, "if(not {{ <result> }}){", Some WErrProp);
    (KReturn, "return -{{ <result> }}.error();", None);
    (KRAssert, "'out_buffer.offset_alings_to(%dU)'|format(t.alignment_requirement)", None);
    (KRAssert, "'%dULL <= out_buffer.size()'|format(t.bit_length_set.max)", None);
    (KMacro, "_serialize_void(t, offset)", Some WAny);
    (KMacro, "_serialize_boolean(t, reference, offset)", Some WAny);
    (KMacro, "_serialize_integer(t, reference, offset)", Some WAny);
    (KMacro, "_serialize_float(t, reference, offset)", Some WAny);
    (KMacro, "_serialize_fixed_length_array(t, reference, offset)", Some WAny);
    (KMacro, "_serialize_variable_length_array(t, reference, offset)", Some WAny);
    (KMacro, "_serialize_composite(t, reference, offset)", Some WAny);
    (KCall, "auto {{ <result> }} = out_buffer.setZeros({{ t.bit_length }}UL);", Some WZeros);
    (KCall, "out_buffer.add_offset({{ t.bit_length }}UL);", Some (WAdv ZBits));
    (KCall, "auto {{ <result> }} = out_buffer.setBit({{ reference }});", Some WSetBits);
    (KCall, "out_buffer.add_offset(1UL);", Some (WAdv ZOne));
    (KStore, "{{ t|type_from_primitive }} {{ <sat> }} = {{ reference }};", None);
    (KGuard, "if ({{ <sat> }} < {{ t.inclusive_value_range[0]|literal(t) }})", Some WClampLo);
    (KStore, "{{ <sat> }} = {{ t.inclusive_value_range[0]|literal(t) }};", None);
    (KGuard, "if ({{ <sat> }} > {{ t.inclusive_value_range[1]|literal(t) }})", Some WClampHi);
    (KStore, "{{ <sat> }} = {{ t.inclusive_value_range[1]|literal(t) }};", None);
    (KCall, "const auto {{ <result> }} = out_buffer.set{{ 'U' if t is UnsignedIntegerType else 'I' }}xx({{ <sat> }}, {{ t.bit_length }}U);", Some WSetBits);
    (KCall, "out_buffer.add_offset({{ t.bit_length }}U);", Some (WAdv ZBits));
    (KGuard, "if (std::isfinite({{ <sat> }}))", Some WClampF16);
    (KSAssert, "static_assert(NUNAVUT_PLATFORM_IEEE754_FLOAT, ""Native IEEE754 binary32 required. TODO: relax constraint"");", None);
    (KSAssert, "static_assert(NUNAVUT_PLATFORM_IEEE754_DOUBLE, ""Native IEEE754 binary64 required. TODO: relax constraint"");", None);
    (KCall, "auto {{ <result> }} = out_buffer.setF{{ t.bit_length }}({{ <sat> }});", Some WSetBits);
    (KCall, "const {{ typename_unsigned_bit_length }} {{ <origin> }} = out_buffer.offset();", None);
    (KLoop, "for ({{ typename_unsigned_length }} {{ <index> }} = 0U; {{ <index> }} < {{ t.capacity }}UL; ++{{ <index> }})", Some WLoop);
    (KMacro, "_serialize_any(t.element_type, reference + ('[%s]'|format(<index>)), element_offset)", Some WAny);
    (KRAssert, "'(out_buffer.offset() - %s) >= %sULL'|format(<origin>, t.bit_length_set.min)", None);
    (KRAssert, "'(out_buffer.offset() - %s) <= %sULL'|format(<origin>, t.bit_length_set.max)", None);
    (KRAssert, "'(out_buffer.offset() - %s) == %sULL'|format(<origin>, t.bit_length_set.max)", None);
    (KCall, "(void) {{ <origin> }};", None);
    (KGuard, "if ({{ reference }}.size() > {{ t.capacity }})", Some WLenCheck);
    (KReturn, "return -nunavut::support::Error::SerializationBadArrayLength;", None);
    (KMacro, "_serialize_integer(t.length_field_type, reference + '.size()', offset)", Some WPrefix);
    (KLoop, "for ({{ typename_unsigned_length }} {{ <index> }} = 0U; {{ <index> }} < {{ reference }}.size(); ++{{ <index> }})", Some WLoop);
    (KStore, "{{ typename_unsigned_length }} {{ <size_bytes> }} = {{ size_bytes }}UL;", None);
    (KCall, "auto {{ <subspan> }} = out_buffer.subspan({{ t.delimiter_header_type.bit_length }}U, {{ <size_bytes> }} * 8U);", Some (WSubspan true));
    (KCall, "auto {{ <subspan> }} = out_buffer.subspan(0U, {{ <size_bytes> }} * 8U);", Some (WSubspan false));
    (KGuard, "if(not {{ <subspan> }}){", Some WErrProp);
    (KReturn, "return -{{ <subspan> }}.error();", None);
    (KRAssert, "'%s->offset_alings_to_byte()' | format(<subspan>)", None);
    (KCall, "auto {{ <err> }} = serialize({{ reference }}, {{ <subspan> }}.value());", Some WNested);
    (KGuard, "if (not {{ <err> }})", Some WErrProp);
    (KReturn, "return {{ <err> }};", None);
    (KCall, "{{ <size_bytes> }} = {{ <err> }}.value();", None);
    (KRAssert, "'(%s * 8U) >= %sULL'|format(<size_bytes>, t.inner_type.bit_length_set.min)", None);
    (KRAssert, "'(%s * 8U) <= %sULL'|format(<size_bytes>, t.inner_type.bit_length_set.max)", None);
    (KRAssert, "'(%s * 8U) == %sULL'|format(<size_bytes>, t.inner_type.bit_length_set.max)", None);
    (KMacro, "_serialize_integer(t.delimiter_header_type, <size_bytes>, offset)", Some WHdrBack);
    (KCall, "out_buffer.add_offset({{ <size_bytes> }} * 8U);", Some (WAdv ZSize8));
    (KMacro, "_deserialize_impl(t)", Some WAny);
    (KCall, "(void)(in_buffer);", None);
    (KReturn, "return 0;", Some WFinalSizeMin);
    (KCall, "const auto capacity_bits = in_buffer.size();", Some WCapBits);
    (KMacro, "_deserialize_any(f.data_type, ""obj.%s""|format(f|id), offset)", Some WAny);
    (KCall, "auto {{ <index> }} = obj.union_value.index();", None);
    (KMacro, "_deserialize_integer(t.inner_type.tag_field_type, <index>, 0|bit_length_set)", Some WTag);
    (KCall, "obj.set_{{ f|id }}();", None);
    (KMacro, "_deserialize_any(f.data_type, '(*%s)' | format(<ptr>), offset)", Some WAny);
    (KRAssert, "'in_buffer.offset_alings_to_byte()'", None);
    (KCall, "auto _bits_got_ = std::min<{{ typename_unsigned_bit_length }}>(in_buffer.offset(), capacity_bits);", None);
    (KRAssert, "'capacity_bits >= _bits_got_'", None);
    (KReturn, "return { static_cast<{{ typename_unsigned_length }}>(_bits_got_ / 8U) };", Some WFinalSizeMin);
    (KCall, "in_buffer.align_offset_to<{{ n_bits }}U>();", Some WAlign);
    (KRAssert, "'in_buffer.offset_alings_to(%dU)'|format(t.alignment_requirement)", None);
    (KMacro, "_deserialize_void(t, offset)", Some WAny);
    (KMacro, "_deserialize_boolean(t, reference, offset)", Some WAny);
    (KMacro, "_deserialize_integer(t, reference, offset)", Some WAny);
    (KMacro, "_deserialize_float(t, reference, offset)", Some WAny);
    (KMacro, "_deserialize_fixed_length_array(t, reference, offset)", Some WAny);
    (KMacro, "_deserialize_variable_length_array(t, reference, offset)", Some WAny);
    (KMacro, "_deserialize_composite(t, reference, offset)", Some WAny);
    (KCall, "in_buffer.add_offset({{ t.bit_length }});", Some (WAdv ZBits));
    (KCall, "{{ reference }} = in_buffer.getBit();", Some WLoad);
    (KCall, "in_buffer.add_offset(1U);", Some (WAdv ZOne));
    (KCall, "{{ reference }} = in_buffer.{{ getter }}({{ t.bit_length }}U);", Some WLoad);
    (KCall, "in_buffer.add_offset({{ t.bit_length }}U);", Some (WAdv ZBits));
    (KCall, "{{ reference }} = in_buffer.getF{{ t.bit_length }}();", Some WLoad);
    (KMacro, "_deserialize_any(t.element_type, reference + ('[%s]'|format(<index>)), element_offset)", Some WAny);
    (KMacro, "_deserialize_integer(t.length_field_type, ('const %s %s'|format( typename_unsigned_length, <size>)) , offset)", Some WPrefix);
    (KGuard, "if ( {{ <size> }} > {{ t.capacity }}U)", Some WLenCheck);
    (KCall, "{{ reference }}.clear();", None);
    (KCall, "{{ reference }}.reserve({{ <size> }});", None);
    (KLoop, "for ({{ typename_unsigned_length }} {{ <index> }} = 0U; {{ <index> }} < {{ <size> }}; ++{{ <index> }})", Some WLoop);
    (KCall, "{{ t.element_type | declaration }} {{ <tmp> }} = {{ t.element_type | declaration }}({{ t.element_type | default_construction(reference) }});", None);
    (KMacro, "_deserialize_any(t.element_type, <tmp>, element_offset)", Some WAny);
    (KCall, "{{ reference }}.push_back(std::move({{ <tmp> }}));", None);
    (KCall, "{{ typename_unsigned_length }} {{ <size_bytes> }} = in_buffer.size() / 8U;", Some WRest);
    (KMacro, "_deserialize_integer(t.delimiter_header_type, <size_bytes>, offset)", Some WHdrRead);
    (KGuard, "if ({{ <size_bytes> }} > (in_buffer.size() / 8U))", Some WHdrCheck);
    (KReturn, "return -nunavut::support::Error::RepresentationBadDelimiterHeader;", Some WBadHdr);
    (KStore, "const {{ typename_unsigned_length }} {{ <dh> }} = {{ <size_bytes> }};", Some WHdrKeep);
    (KCall, "const auto {{ <err> }} = deserialize({{ reference }}, in_buffer.subspan_bytes({{ <dh> }}));", Some WNested);
    (KCall, "const auto {{ <err> }} = deserialize({{ reference }}, in_buffer.subspan());", Some WNested);
    (KGuard, "if({{ <err> }}){", Some WErrProp);
    (KElse, "}else{", None);
    (KReturn, "return -{{ <err> }}.error();", None);
    (KCall, "in_buffer.add_offset({{ <dh> }} * 8U);", Some (WAdv ZDh8));
    (KCall, "in_buffer.add_offset({{ <size_bytes> }} * 8U);", Some (WAdv ZSize8)) ].

Definition sem_cpp_ser (m : string) := sem_in cpp_rules gen_cpp_ser_macros m.
Definition sem_cpp_des (m : string) := sem_in cpp_rules gen_cpp_des_macros m.

(* ---------------- plans: what CppWalker does at each node ---------------- *)
Definition clamps (f : pfacts) : list wstep :=
  if p_sat f && negb (p_std f) then ((if p_uns f then [] else [WClampLo]) ++ [WClampHi])%list else [].
(* cw_prim: storage image (saturation code iff saturated /\ non-standard width, Walker.storage_bits) then ONE checked store
   (setUxx / setIxx / setBit / setF / setZeros), error propagated, add_offset *)
Definition plan_cpp_ser_int (f : pfacts) : list wstep := (clamps f ++ [WSetBits; WErrProp; WAdv ZBits])%list.
Definition plan_cpp_ser_bool : list wstep := [WSetBits; WErrProp; WAdv ZOne].
Definition plan_cpp_ser_void : list wstep := [WZeros; WErrProp; WAdv ZBits].
Definition plan_cpp_ser_float (f : ffacts) : list wstep :=
  ((if f_sat f then match f_w f with F16w => [WClampF16; WClampLo; WClampHi] | _ => [] end else [])
   ++ [WSetBits; WErrProp; WAdv ZBits])%list.
(* cw_body TFix / TVar: element loop only (no bulk paths in the C++ templates) *)
Definition plan_cpp_ser_farr : list wstep := [WLoop; WAny].
Definition plan_cpp_ser_varr : list wstep := [WLenCheck; WPrefix; WLoop; WAny].
(* cw_field: sub-span (after the header bits when delimited), nested routine, header written AFTER the body, cursor += size *)
Definition plan_cpp_ser_comp (f : cfacts) : list wstep :=
  ([WSubspan (c_delim f); WErrProp; WNested; WErrProp] ++ (if c_delim f then [WHdrBack] else []) ++ [WAdv ZSize8])%list.
(* cw_routine + cw_body (TComp ..): capacity check, fields with padding between them / tag, option, else bad tag; final pad; bytes *)
Definition plan_cpp_ser_impl (f : cfacts) : list wstep :=
  ([WCapCheck] ++ (if c_struct f then [WPad; WAny] else [WTag; WTagCase; WAny; WBadTag]) ++ [WPad; WFinalSize])%list.
Definition plan_cpp_ser_pad : list wstep := [WPadZeros; WErrProp].
(* cd_prim: one zero-extending getter; cd_field / cd_routine / cd_body *)
Definition plan_cpp_des_prim (one : bool) : list wstep := [WLoad; WAdv (if one then ZOne else ZBits)].
Definition plan_cpp_des_void : list wstep := [WAdv ZBits].
Definition plan_cpp_des_farr : list wstep := [WLoop; WAny].
Definition plan_cpp_des_varr : list wstep := [WPrefix; WLenCheck; WLoop; WAny].
Definition plan_cpp_des_comp (f : cfacts) : list wstep :=
  if c_delim f then [WRest; WHdrRead; WHdrCheck; WBadHdr; WHdrKeep; WNested; WErrProp; WAdv ZDh8]
  else [WRest; WNested; WErrProp; WAdv ZSize8].
Definition plan_cpp_des_impl (f : cfacts) : list wstep :=
  ([WCapBits] ++ (if c_struct f then [WPad; WAny] else [WTag; WTagCase; WAny; WBadTag]) ++ [WPad; WFinalSizeMin])%list.
Definition plan_cpp_des_pad : list wstep := [WAlign].

Definition cpp_prim_ok (f : pfacts) : bool :=
  same (sem_cpp_ser "_serialize_integer" (rho_int f)) (plan_cpp_ser_int f)
  && same (sem_cpp_ser "_serialize_boolean" (rho_int f)) plan_cpp_ser_bool
  && same (sem_cpp_ser "_serialize_void" (rho_int f)) plan_cpp_ser_void
  && same (sem_cpp_des "_deserialize_integer" (rho_int f)) (plan_cpp_des_prim false)
  && same (sem_cpp_des "_deserialize_boolean" (rho_int f)) (plan_cpp_des_prim true)
  && same (sem_cpp_des "_deserialize_void" (rho_int f)) plan_cpp_des_void.
Definition cpp_float_ok (f : ffacts) : bool :=
  same (sem_cpp_ser "_serialize_float" (rho_float f)) (plan_cpp_ser_float f)
  && same (sem_cpp_des "_deserialize_float" (rho_float f)) (plan_cpp_des_prim false).
Definition cpp_arr_ok (f : afacts) : bool :=
  same (sem_cpp_ser "_serialize_fixed_length_array" (rho_arr f)) plan_cpp_ser_farr
  && same (sem_cpp_ser "_serialize_variable_length_array" (rho_arr f)) plan_cpp_ser_varr
  && same (sem_cpp_des "_deserialize_fixed_length_array" (rho_arr f)) plan_cpp_des_farr
  && same (sem_cpp_des "_deserialize_variable_length_array" (rho_arr f)) plan_cpp_des_varr.
Definition cpp_comp_ok (f : cfacts) : bool :=
  same (sem_cpp_ser "_serialize_composite" (rho_comp f)) (plan_cpp_ser_comp f)
  && same (sem_cpp_des "_deserialize_composite" (rho_comp f)) (plan_cpp_des_comp f)
  && same (sem_cpp_ser "_serialize_impl" (rho_loop f)) (plan_cpp_ser_impl f)
  && same (sem_cpp_des "_deserialize_impl" (rho_loop f)) (plan_cpp_des_impl f)
  && same (sem_cpp_ser "_pad_to_alignment" (rho_comp f)) plan_cpp_ser_pad
  && same (sem_cpp_des "_pad_to_alignment" (rho_comp f)) plan_cpp_des_pad.

Lemma cpp_prim_all : forallb cpp_prim_ok all_pfacts = true. Proof. vm_compute. reflexivity. Qed.
Lemma cpp_float_all : forallb cpp_float_ok all_ffacts = true. Proof. vm_compute. reflexivity. Qed.
Lemma cpp_arr_all : forallb cpp_arr_ok all_afacts = true. Proof. vm_compute. reflexivity. Qed.
Lemma cpp_comp_all : forallb cpp_comp_ok all_cfacts = true. Proof. vm_compute. reflexivity. Qed.

Definition cpp_ser_templates_are_walker_plans_statement : Prop :=
  (forall f, sem_cpp_ser "_serialize_integer" (rho_int f) = plan_cpp_ser_int f /\ sem_cpp_ser "_serialize_boolean" (rho_int f) = plan_cpp_ser_bool /\
             sem_cpp_ser "_serialize_void" (rho_int f) = plan_cpp_ser_void) /\
  (forall f, sem_cpp_ser "_serialize_float" (rho_float f) = plan_cpp_ser_float f) /\
  (forall f, sem_cpp_ser "_serialize_fixed_length_array" (rho_arr f) = plan_cpp_ser_farr /\
             sem_cpp_ser "_serialize_variable_length_array" (rho_arr f) = plan_cpp_ser_varr) /\
  (forall f, sem_cpp_ser "_serialize_composite" (rho_comp f) = plan_cpp_ser_comp f /\ sem_cpp_ser "_serialize_impl" (rho_loop f) = plan_cpp_ser_impl f /\
             sem_cpp_ser "_pad_to_alignment" (rho_comp f) = plan_cpp_ser_pad).
Theorem cpp_ser_templates_are_walker_plans : cpp_ser_templates_are_walker_plans_statement.
Proof.
  unfold cpp_ser_templates_are_walker_plans_statement.
  pose proof cpp_prim_all as H. pose proof cpp_float_all as H2. pose proof cpp_arr_all as H1. pose proof cpp_comp_all as H0.
  split; [|split; [|split]]; intros f.
  - pose proof (proj1 (forallb_forall _ _) H f (all_pfacts_complete f)) as G. unfold cpp_prim_ok in G.
    repeat (apply andb_prop in G; destruct G as [G ?]). repeat split; apply same_true; assumption.
  - pose proof (proj1 (forallb_forall _ _) H2 f (all_ffacts_complete f)) as G. unfold cpp_float_ok in G.
    apply andb_prop in G; destruct G. apply same_true; assumption.
  - pose proof (proj1 (forallb_forall _ _) H1 f (all_afacts_complete f)) as G. unfold cpp_arr_ok in G.
    repeat (apply andb_prop in G; destruct G as [G ?]). split; apply same_true; assumption.
  - pose proof (proj1 (forallb_forall _ _) H0 f (all_cfacts_complete f)) as G. unfold cpp_comp_ok in G.
    repeat (apply andb_prop in G; destruct G as [G ?]). repeat split; apply same_true; assumption.
Qed.

Definition cpp_des_templates_are_walker_plans_statement : Prop :=
  (forall f, sem_cpp_des "_deserialize_integer" (rho_int f) = plan_cpp_des_prim false /\ sem_cpp_des "_deserialize_boolean" (rho_int f) = plan_cpp_des_prim true /\
             sem_cpp_des "_deserialize_void" (rho_int f) = plan_cpp_des_void) /\
  (forall f, sem_cpp_des "_deserialize_float" (rho_float f) = plan_cpp_des_prim false) /\
  (forall f, sem_cpp_des "_deserialize_fixed_length_array" (rho_arr f) = plan_cpp_des_farr /\
             sem_cpp_des "_deserialize_variable_length_array" (rho_arr f) = plan_cpp_des_varr) /\
  (forall f, sem_cpp_des "_deserialize_composite" (rho_comp f) = plan_cpp_des_comp f /\ sem_cpp_des "_deserialize_impl" (rho_loop f) = plan_cpp_des_impl f /\
             sem_cpp_des "_pad_to_alignment" (rho_comp f) = plan_cpp_des_pad).
Theorem cpp_des_templates_are_walker_plans : cpp_des_templates_are_walker_plans_statement.
Proof.
  unfold cpp_des_templates_are_walker_plans_statement.
  pose proof cpp_prim_all as H. pose proof cpp_float_all as H2. pose proof cpp_arr_all as H1. pose proof cpp_comp_all as H0.
  split; [|split; [|split]]; intros f.
  - pose proof (proj1 (forallb_forall _ _) H f (all_pfacts_complete f)) as G. unfold cpp_prim_ok in G.
    repeat (apply andb_prop in G; destruct G as [G ?]). repeat split; apply same_true; assumption.
  - pose proof (proj1 (forallb_forall _ _) H2 f (all_ffacts_complete f)) as G. unfold cpp_float_ok in G.
    apply andb_prop in G; destruct G. apply same_true; assumption.
  - pose proof (proj1 (forallb_forall _ _) H1 f (all_afacts_complete f)) as G. unfold cpp_arr_ok in G.
    repeat (apply andb_prop in G; destruct G as [G ?]). split; apply same_true; assumption.
  - pose proof (proj1 (forallb_forall _ _) H0 f (all_cfacts_complete f)) as G. unfold cpp_comp_ok in G.
    repeat (apply andb_prop in G; destruct G as [G ?]). repeat split; apply same_true; assumption.
Qed.

(* every statement of every C++ codec macro is listed; the table fails closed *)
Definition cpp_known (kp : akind * string) : bool :=
  match classify cpp_rules (fst kp) (snd kp) with Some (WUnknown _ _) => false | _ => true end.
Theorem cpp_rules_total :
  forallb cpp_known (flat_map (fun m => flat_map acts (snd m)) (gen_cpp_ser_macros ++ gen_cpp_des_macros)%list) = true.
Proof. vm_compute. reflexivity. Qed.
Example cpp_rules_fail_closed :
  cpp_known (KDecl, "break;") = false /\ cpp_known (KPre, "#if 0") = false /\ cpp_known (KDecl, "goto done;") = false /\
  cpp_known (KCall, "auto {{ <result> }} = out_buffer.getBit();") = false /\ cpp_known (KCall, "out_buffer.add_offset(2UL);") = false.
Proof. vm_compute. repeat split; reflexivity. Qed.

(* ---------------- the integer plan IS CppWalker.cw_prim ---------------- *)
Section ExecCpp.
  Variable Q : cppprims.
  Fixpoint exec_cpp_prim (steps : list wstep) (w : nat) (sbf : bool -> list bool) (clamped : bool)
           (buf : list bool) (base cap at_ off : nat) : cres :=
    match steps with
    | [] => Ok (buf, off)
    | (WClampLo | WClampHi | WClampF16) :: r => exec_cpp_prim r w sbf true buf base cap at_ off
    | WSetBits :: r =>
        match c_set Q buf base cap at_ (firstn w (sbf clamped)) with
        | Some b => exec_cpp_prim r w sbf clamped b base cap at_ off
        | None => Err ETooSmall
        end
    | WErrProp :: r => exec_cpp_prim r w sbf clamped buf base cap at_ off
    | WAdv (ZBits | ZOne) :: r => exec_cpp_prim r w sbf clamped buf base cap at_ (off + w)
    | _ => Err EShape
    end.

  Theorem cw_prim_is_plan_uint : forall w sat z buf base cap off little, w <= 64 ->
    cw_prim Q (PU w sat) (VInt z) buf base cap off =
    exec_cpp_prim (plan_cpp_ser_int (facts_int true sat w off little)) w (int_image true w z) false buf base cap off off.
  Proof.
    intros w sat z buf base cap off little Hw. unfold cw_prim, plan_cpp_ser_int, clamps, facts_int.
    cbn [storage_bits prim_bits p_sat p_std p_uns].
    destruct sat, (is_std w); cbn [andb negb app exec_cpp_prim]; unfold cw_set, int_image; cbn [andb negb];
      match goal with |- context [c_set Q ?b ?ba ?c ?o ?v] => destruct (c_set Q b ba c o v) end;
      try reflexivity; rewrite firstn_bits_len by exact Hw; reflexivity.
  Qed.

  Theorem cw_prim_is_plan_sint : forall w sat z buf base cap off little, w <= 64 ->
    cw_prim Q (PS w sat) (VInt z) buf base cap off =
    exec_cpp_prim (plan_cpp_ser_int (facts_int false sat w off little)) w (int_image false w z) false buf base cap off off.
  Proof.
    intros w sat z buf base cap off little Hw. unfold cw_prim, plan_cpp_ser_int, clamps, facts_int.
    cbn [storage_bits prim_bits p_sat p_std p_uns].
    destruct sat, (is_std w); cbn [andb negb app exec_cpp_prim]; unfold cw_set, int_image; cbn [andb negb];
      match goal with |- context [c_set Q ?b ?ba ?c ?o ?v] => destruct (c_set Q b ba c o v) end;
      try reflexivity; rewrite firstn_bits_len by exact Hw; reflexivity.
  Qed.

  (* structural nodes: what CppWalker IS there (definitional), annotated with the plan steps *)
  Lemma cw_field_comp : forall u fs ext v buf base cap off,
    cw_field Q (cw_body Q) (TComp u fs ext) v buf base cap off =
      let t := TComp u fs ext in
      let size_bytes := (bmax t + 7) / 8 in
      let hb := match ext with Some _ => header_bits | None => 0 end in
      match cw_subspan base cap off hb (size_bytes * 8) with                                              (* WSubspan; WErrProp *)
      | None => Err ETooSmall
      | Some (base', cap', off') =>
          bind (cw_routine (cw_body Q) t v buf base' cap' off') (fun '(b, nbytes) =>                     (* WNested; WErrProp *)
            match ext with
            | Some _ => bind (cw_set Q b base cap off (bits_of_N header_bits (N.of_nat nbytes)))          (* WHdrBack *)
                          (fun '(b', o) => Ok (b', o + nbytes * 8))                                       (* WAdv ZSize8 *)
            | None => Ok (b, off + nbytes * 8)
            end)
      end.
  Proof. reflexivity. Qed.

  Lemma cw_routine_def : forall t v buf base cap off,
    cw_routine (cw_body Q) t v buf base cap off =
      if Nat.ltb (cap - off) (bmax t) then Err ETooSmall                                                  (* WCapCheck *)
      else bind (cw_body Q t v buf base cap off) (fun '(b, o) => Ok (b, (o + 7) / 8)).                   (* ...; WFinalSize *)
  Proof. reflexivity. Qed.

  Lemma cd_field_delimited : forall u fs x buf base cap off,
    cd_field Q (cd_body Q) (TComp u fs (Some x)) buf base cap off =
      let hN := N_of_bits (c_get Q buf base cap off header_bits) in                                      (* WHdrRead *)
      let o := off + header_bits in
      if (N.of_nat (cap - o) <? hN * 8)%N then Err EBadHdr                                                (* WHdrCheck; WBadHdr *)
      else let dh := N.to_nat hN in                                                                       (* WHdrKeep *)
           let '(base', cap', off') := cd_subspan_bytes base cap o dh in
           bind (cd_routine (cd_body Q) (TComp u fs (Some x)) buf base' cap' off') (fun '(v, _) => Ok (v, o + dh * 8)).   (* WNested; WAdv ZDh8 *)
  Proof. reflexivity. Qed.
End ExecCpp.
