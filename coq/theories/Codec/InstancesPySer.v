(* The Python-shaped serialization walker (Codec/PyWalker.v) instantiated with the SHIPPED Serializer members
   (Prims/PyPrims.v): `py_pyprims` appends with add_aligned_unsigned / add_unaligned_unsigned (selected by the cursor's alignment,
   as `alignment_prefix` does in the templates) and writes the delimiter header with add_aligned_u32.
     add_law   = InstancesPy.py_store_inv (C14: add_(un)aligned_unsigned_appends under the Serializer invariant)
     hdr_law   = `py_hdr_plain` below: add_aligned_u32 is four plain byte stores (`self._buf[i] = v`), proved here WITHOUT the
                 invariant, because the nested object already sits behind the header when the parent writes it
   Result: `py_walk_ser_refines` - the Python templates' shape over the shipped Serializer emits the specification's bytes. *)
From Verif Require Import Bits CPrims CPrimsThm PyPrims PyPrimsThm PyPrimsMoreThm PyPrimsBitsThm PrimsExt PrimsExtThm.
From Verif Require Import Wire WireThm WireThmRt TargetPre TargetPreThm Walker InstancesBase InstancesPy BulkArrays PyWalker PyWalkerThm PyWalkerPre.
Local Open Scope nat_scope.

(* a plain store of n bits f at the (byte-aligned) cursor: nothing else changes *)
Definition plain (s s' : ser) (n : N) (f : N -> bool) : Prop :=
  s_off s' = (s_off s + n)%N /\ length (s_buf s') = length (s_buf s) /\
  forall p, bit (s_buf s') p = if ((s_off s <=? p) && (p <? s_off s + n))%N then f (p - s_off s)%N else bit (s_buf s) p.

Lemma u8_plain s x : (s_off s mod 8 = 0)%N -> (x <= 255)%N -> (s_off s / 8 < blen (s_buf s))%N ->
  exists s', add_aligned_u8 s x = Some s' /\ plain s s' 8 (N.testbit x).
Proof.
  intros Ha Hx Hc. unfold add_aligned_u8, store. rewrite Ha. cbn [N.eqb negb].
  destruct (N.ltb_spec 255 x) as [|_]; [lia|]. destruct (N.ltb_spec (s_off s / 8) (blen (s_buf s))) as [_|]; [|lia].
  eexists. split; [reflexivity|]. unfold plain. cbn [s_off s_buf]. split; [reflexivity|]. split; [apply upd_length|].
  intros p. rewrite bit_upd by (unfold blen in Hc; lia).
  destruct (N.eqb_spec (p / 8) (s_off s / 8)) as [E|E];
    destruct (N.leb_spec (s_off s) p) as [A|A]; destruct (N.ltb_spec p (s_off s + 8)) as [B|B]; cbn [andb]; try lia; try reflexivity.
  f_equal. lia.
Qed.

Lemma plain_trans s s1 s2 n m f g : plain s s1 n f -> plain s1 s2 m g ->
  plain s s2 (n + m) (fun k => if (k <? n)%N then f k else g (k - n)%N).
Proof.
  intros (O1 & L1 & B1) (O2 & L2 & B2). unfold plain. split; [lia|]. split; [congruence|].
  intros p. rewrite B2, B1, O1.
  destruct (N.leb_spec (s_off s + n) p); destruct (N.ltb_spec p (s_off s + n + m)); destruct (N.leb_spec (s_off s) p);
    destruct (N.ltb_spec p (s_off s + n)); destruct (N.ltb_spec p (s_off s + (n + m))); destruct (N.ltb_spec (p - s_off s) n);
    cbn [andb]; try lia; try reflexivity. f_equal. lia.
Qed.

Lemma plain_ext s s' n f g : (forall k, (k < n)%N -> f k = g k) -> plain s s' n f -> plain s s' n g.
Proof.
  intros H (O & L & B). unfold plain. split; [exact O|]. split; [exact L|]. intros p. rewrite B.
  destruct (N.leb_spec (s_off s) p); destruct (N.ltb_spec p (s_off s + n)); cbn [andb]; try reflexivity. apply H. lia.
Qed.

Lemma tb_low8 x k : (k < 8)%N -> N.testbit (N.land x 255) k = N.testbit x k.
Proof. intros H. rewrite N.land_spec, tb_255. destruct (N.ltb_spec k 8); [apply andb_true_r | lia]. Qed.

Lemma u16_plain s x : (s_off s mod 8 = 0)%N -> (s_off s / 8 + 2 <= blen (s_buf s))%N ->
  exists s', add_aligned_u16 s x = Some s' /\ plain s s' 16 (N.testbit x).
Proof.
  intros Ha Hc. unfold add_aligned_u16, PyPrims.bind. rewrite (ensure_writable_true s _ _ Hc). cbn [negb].
  destruct (u8_plain s (N.land x 255) Ha) as (s1 & -> & P1); [pose proof (land_255_lt x); lia | lia |].
  destruct P1 as (O1 & L1 & B1).
  destruct (u8_plain s1 (N.land (N.shiftr x 8) 255)) as (s2 & -> & P2);
    [rewrite O1; lia | pose proof (land_255_lt (N.shiftr x 8)); lia | unfold blen in *; rewrite L1, O1; lia |].
  exists s2. split; [reflexivity|].
  apply (plain_ext s s2 16 (fun k => if (k <? 8)%N then N.testbit (N.land x 255) k else N.testbit (N.land (N.shiftr x 8) 255) (k - 8)%N)).
  - intros k Hk. destruct (N.ltb_spec k 8); [apply tb_low8; assumption|].
    rewrite tb_low8 by lia. rewrite tb_shiftr. f_equal. lia.
  - exact (plain_trans s s1 s2 8 8 _ _ (conj O1 (conj L1 B1)) P2).
Qed.

Lemma u32_plain s x : (s_off s mod 8 = 0)%N -> (s_off s / 8 + 4 <= blen (s_buf s))%N ->
  exists s', add_aligned_u32 s x = Some s' /\ plain s s' 32 (N.testbit x).
Proof.
  intros Ha Hc. unfold add_aligned_u32, PyPrims.bind. rewrite (ensure_writable_true s _ _ Hc). cbn [negb].
  destruct (u16_plain s x Ha) as (s1 & -> & P1); [lia|]. destruct P1 as (O1 & L1 & B1).
  destruct (u16_plain s1 (N.shiftr x 16)) as (s2 & -> & P2); [rewrite O1; lia | unfold blen in *; rewrite L1, O1; lia |].
  exists s2. split; [reflexivity|].
  apply (plain_ext s s2 32 (fun k => if (k <? 16)%N then N.testbit x k else N.testbit (N.shiftr x 16) (k - 16)%N)).
  - intros k Hk. destruct (N.ltb_spec k 16); [reflexivity|]. rewrite tb_shiftr. f_equal. lia.
  - exact (plain_trans s s1 s2 16 16 _ _ (conj O1 (conj L1 B1)) P2).
Qed.

(* the delimiter header written by the parent Serializer *)
Definition py_hdr_store (buf : list bool) (off : nat) (x : N) : option (list bool) :=
  match add_aligned_u32 (py_ser_at buf off) x with
  | Some s' => Some (firstn (length buf) (bits_of_bytes (s_buf s')))
  | None => None
  end.

(* ---- the bulk array adders ---- *)
(* a Serializer state on the buffer, with the invariant and capacity facts every adder needs *)
Lemma py_ser_at_facts buf off : length buf mod 8 = 0 -> zero_from buf off ->
  Inv (py_ser_at buf off) /\ bytes_ok (s_buf (py_ser_at buf off)) /\
  blen (s_buf (py_ser_at buf off)) = (N.of_nat (length buf / 8) + 1)%N.
Proof.
  intros Hm Hz. assert (Hbl : length (bytes_of_bits buf) = length buf / 8) by (apply bytes_of_bits_length; exact Hm).
  split; [|split].
  - intros p Hp. unfold py_ser_at in *. cbn [s_buf s_off] in *.
    replace p with (N.of_nat (N.to_nat p)) by lia. rewrite (bit_spare buf _ Hm). apply Hz. lia.
  - unfold py_ser_at. cbn [s_buf]. apply Forall_app. split; [apply bytes_of_bits_bytes_ok|]. constructor; [lia | constructor].
  - unfold py_ser_at, blen. cbn [s_buf]. rewrite app_length, Hbl. cbn [length]. lia.
Qed.

(* what any `appended` result looks like on the bit list *)
Lemma appended_stored buf off v s' f : length buf mod 8 = 0 -> off + length v <= length buf -> zero_from buf off ->
  appended (py_ser_at buf off) s' (N.of_nat (length v)) f -> (forall k, k < length v -> f (N.of_nat k) = nth k v false) ->
  firstn (length buf) (bits_of_bytes (s_buf s')) = firstn off buf ++ v ++ skipn (off + length v) buf.
Proof.
  intros Hm Hfit Hz (Hoff & Hlen & _ & Hbit) Hf.
  assert (Hbl : length (bytes_of_bits buf) = length buf / 8) by (apply bytes_of_bits_length; exact Hm).
  assert (Hlen' : length (s_buf s') = length buf / 8 + 1).
  { rewrite Hlen. unfold py_ser_at. cbn [s_buf]. rewrite app_length, Hbl. reflexivity. }
  apply bits_ext.
  - rewrite firstn_length, bits_of_bytes_length, Hlen', !app_length, firstn_length, skipn_length. lia.
  - intros p Hp. rewrite firstn_length, bits_of_bytes_length, Hlen' in Hp.
    rewrite nth_firstn_low by lia. rewrite <- bit_bits_of_bytes, Hbit. rewrite (nth_store buf v off p) by lia.
    unfold py_ser_at. cbn [s_buf s_off]. rewrite (bit_spare buf p Hm).
    destruct (N.ltb_spec (N.of_nat p) (N.of_nat off)) as [A|A]; destruct (Nat.leb_spec off p) as [A'|A']; try lia;
      cbn [andb]; [reflexivity|].
    destruct (N.ltb_spec (N.of_nat p) (N.of_nat off + N.of_nat (length v))) as [C|C];
      destruct (Nat.ltb_spec p (off + length v)) as [C'|C']; try lia.
    + replace (N.of_nat p - N.of_nat off)%N with (N.of_nat (p - off)) by lia. apply Hf. lia.
    + symmetry. apply Hz. lia.
Qed.

(* add_aligned_array_of_bits / add_unaligned_array_of_bits, selected by the cursor's alignment *)
Definition py_bits_store (buf : list bool) (off : nat) (v : list bool) : option (list bool) :=
  let s := py_ser_at buf off in
  match (if off mod 8 =? 0 then add_aligned_array_of_bits s v else add_unaligned_array_of_bits s v) with
  | Some s' => Some (firstn (length buf) (bits_of_bytes (s_buf s')))
  | None => None
  end.

(* the elements of the NumPy array whose little-endian memory image has the bits v *)
Fixpoint chunksN (n w : nat) (v : list bool) : list N :=
  match n with O => [] | S n' => N_of_bits (firstn w v) :: chunksN n' w (skipn w v) end.

Lemma chunksN_length n w : forall v, length (chunksN n w v) = n.
Proof. induction n as [|n IH]; intros v; cbn [chunksN length]; [reflexivity | rewrite IH; reflexivity]. Qed.

Lemma concat_chunksN n w : forall v, length v = n * w -> concat (map (bits_of_N w) (chunksN n w v)) = v.
Proof.
  induction n as [|n IH]; intros v Hl; cbn [chunksN map concat].
  - destruct v; [reflexivity | cbn [length] in Hl; lia].
  - assert (Hw : length (firstn w v) = w) by (rewrite firstn_length; lia).
    rewrite <- Hw at 1. rewrite bits_of_N_of_bits. rewrite IH by (rewrite skipn_length; lia). apply firstn_skipn.
Qed.

(* add_aligned_ / add_unaligned_array_of_standard_bit_length_primitives on elements of w bits *)
Definition py_std_store (w : nat) (buf : list bool) (off : nat) (v : list bool) : option (list bool) :=
  let s := py_ser_at buf off in
  let xs := chunksN (length v / w) w v in
  match (if off mod 8 =? 0 then add_aligned_array_std s (w / 8) xs else add_unaligned_array_std s (w / 8) xs) with
  | Some s' => Some (firstn (length buf) (bits_of_bytes (s_buf s')))
  | None => None
  end.

Definition py_pyprims : pyprims :=
  {| p_add := py_set_bits; p_hdr := py_hdr_store; p_bits := py_bits_store; p_std := py_std_store |}.

Theorem py_hdr_plain : forall L, L mod 8 = 0 -> hdr_law py_pyprims L.
Proof.
  intros L HLm buf off x Hl Ha Hfit Hx. cbn [p_hdr py_pyprims]. unfold py_hdr_store, header_bits in *.
  assert (Hm : length buf mod 8 = 0) by (rewrite Hl; exact HLm).
  assert (Hbl : length (bytes_of_bits buf) = length buf / 8) by (apply bytes_of_bits_length; exact Hm).
  set (s := py_ser_at buf off).
  assert (Hblen : blen (s_buf s) = (N.of_nat (length buf / 8) + 1)%N).
  { unfold s, py_ser_at, blen. cbn [s_buf]. rewrite app_length, Hbl. cbn [length]. lia. }
  destruct (u32_plain s x) as (s' & -> & Ho & Hlen & Hbit);
    [unfold s, py_ser_at; cbn [s_off]; lia | rewrite Hblen; unfold s, py_ser_at; cbn [s_off]; lia |].
  f_equal.
  assert (Hlen' : length (s_buf s') = length buf / 8 + 1).
  { rewrite Hlen. unfold s, py_ser_at. cbn [s_buf]. rewrite app_length, Hbl. reflexivity. }
  set (hdr := bits_of_N 32 x). assert (Hh : length hdr = 32) by apply bits_of_N_length.
  apply bits_ext.
  - rewrite firstn_length, bits_of_bytes_length, Hlen', !app_length, firstn_length, skipn_length, Hh. lia.
  - intros p Hp. rewrite firstn_length, bits_of_bytes_length, Hlen' in Hp.
    rewrite nth_firstn_low by lia. rewrite <- bit_bits_of_bytes, Hbit.
    pose proof (nth_store buf hdr off p) as Hn. rewrite Hh in Hn. rewrite Hn by lia.
    unfold s, py_ser_at. cbn [s_buf s_off]. rewrite (bit_spare buf p Hm).
    destruct (N.leb_spec (N.of_nat off) (N.of_nat p)) as [A|A]; destruct (Nat.leb_spec off p) as [A'|A']; try lia; cbn [andb];
      [|reflexivity].
    destruct (N.ltb_spec (N.of_nat p) (N.of_nat off + 32)) as [C|C]; destruct (Nat.ltb_spec p (off + 32)) as [C'|C']; try lia;
      [|reflexivity].
    unfold hdr. rewrite nth_bits_of_N by lia. f_equal. lia.
Qed.

Theorem py_add_law : forall L, L mod 8 = 0 -> add_law py_pyprims L.
Proof.
  intros L HLm buf off v Hl Hv Hfit Hz. cbn [p_add py_pyprims].
  destruct (py_store_inv buf off v ltac:(rewrite Hl; exact HLm) Hv ltac:(lia) Hz) as (b & -> & -> & _). reflexivity.
Qed.

Theorem py_bulk_law : forall L, L mod 8 = 0 -> bulk_law py_pyprims L.
Proof.
  intros L HLm buf off v Hl Hfit Hz. cbn [p_bits p_std py_pyprims].
  assert (Hm : length buf mod 8 = 0) by (rewrite Hl; exact HLm).
  destruct (py_ser_at_facts buf off Hm Hz) as (HI & Hok & Hblen).
  split.
  - unfold py_bits_store.
    assert (Happ : exists s', (if off mod 8 =? 0 then add_aligned_array_of_bits (py_ser_at buf off) v
                               else add_unaligned_array_of_bits (py_ser_at buf off) v) = Some s' /\
                              appended (py_ser_at buf off) s' (N.of_nat (length v)) (nthb v)).
    { destruct (Nat.eqb_spec (off mod 8) 0) as [Ha|Ha].
      - apply add_aligned_array_of_bits_appends; try assumption; unfold py_ser_at in *; cbn [s_off s_buf] in *; rewrite ?Hblen; lia.
      - apply add_unaligned_array_of_bits_appends; try assumption; unfold py_ser_at in *; cbn [s_off s_buf] in *; rewrite ?Hblen; lia. }
    destruct Happ as (s' & -> & Happ). f_equal.
    apply (appended_stored buf off v s' (nthb v) Hm ltac:(lia) Hz Happ).
    intros k _. unfold nthb. rewrite Nat2N.id. reflexivity.
  - intros w Hw0 Hw8 Hvw. unfold py_std_store.
    set (n := length v / w). set (xs := chunksN n w v).
    assert (Hlv : length v = n * w) by (unfold n; pose proof (Nat.div_mod (length v) w ltac:(lia)); lia).
    assert (Hk : 8 * (w / 8) = w /\ 0 < w / 8) by (split; pose proof (Nat.div_mod w 8 ltac:(lia)); lia).
    destruct Hk as [Hk8 Hk0].
    assert (Hxs : length xs = n) by apply chunksN_length.
    assert (Hnbits : (8 * (N.of_nat (w / 8) * N.of_nat (length xs)) = N.of_nat (length v))%N) by (rewrite Hxs; nia).
    assert (Happ : exists s', (if off mod 8 =? 0 then add_aligned_array_std (py_ser_at buf off) (w / 8) xs
                               else add_unaligned_array_std (py_ser_at buf off) (w / 8) xs) = Some s' /\
                              appended (py_ser_at buf off) s' (8 * (N.of_nat (w / 8) * N.of_nat (length xs))) (bit (le_image (w / 8) xs))).
    { destruct (Nat.eqb_spec (off mod 8) 0) as [Ha|Ha].
      - apply (add_array_std_appends true); try assumption. unfold py_ser_at in *; cbn [s_off s_buf] in *. rewrite ?Hblen. split; nia.
      - apply (add_array_std_appends false); try assumption. left. unfold py_ser_at in *; cbn [s_off s_buf] in *. rewrite ?Hblen. nia. }
    destruct Happ as (s' & -> & Happ). rewrite Hnbits in Happ. f_equal.
    apply (appended_stored buf off v s' _ Hm ltac:(lia) Hz Happ).
    intros k Hk. rewrite le_image_bits by exact Hk0. rewrite Hk8. unfold xs. rewrite concat_chunksN by exact Hlv. reflexivity.
Qed.

(* ---- the Python serialization refinement about the shipped Serializer, with the explicit Python leaf
   (Spec/TargetPre.v `py_enc_prim`: round-half-EVEN float16 etc.): the bytes are the specification's encoding of the PRE-ADJUSTED
   value `py_pre t v` (= C03's `target_pre TgPy`): an exact float16 tie whose away-rounded half is odd is emitted as its even
   neighbour (finding F-F16-TIE); for every other value `py_pre t v = v` ---- *)
Theorem py_walk_ser_refines : forall u fs ext v cap,
  wf_ty (TComp u fs ext) = true -> bmax (TComp u fs ext) <= 8 * cap ->
  py_walk_ser py_pyprims py_enc_prim (TComp u fs ext) v cap = ser_spec (TComp u fs ext) (py_pre (TComp u fs ext) v) cap.
Proof.
  intros u fs ext v cap Hwf Hge.
  apply py_walk_ser_pre_refines_on; try assumption; [apply py_add_law | apply py_hdr_plain | apply py_bulk_law]; lia.
Qed.

Corollary py_walk_ser_refines_tie_free : forall u fs ext v cap,
  wf_ty (TComp u fs ext) = true -> bmax (TComp u fs ext) <= 8 * cap -> no_f16_tie (TComp u fs ext) v = true ->
  py_walk_ser py_pyprims py_enc_prim (TComp u fs ext) v cap = ser_spec (TComp u fs ext) v cap.
Proof. intros u fs ext v cap Hwf Hge Ht. rewrite py_walk_ser_refines by assumption. rewrite py_pre_id by exact Ht. reflexivity. Qed.

(* non-vacuity, and the audit's witness: the float16 field holds the exact tie 0x3F801000 (1 + 2^-11); Python emits 0x3C00 (15360),
   the ties-away specification on the unadjusted value 0x3C01 (15361) *)
Example py_walk_ser_example :
  let inner := TComp false [TPrim (PU 3 true); TPrim (PS 13 true); TPrim (PF 16 true)] (Some 64) in
  let t := TComp true [TPrim (PU 8 true); inner; TVar (TPrim PBool) 9] None in
  let v := VUnion 1 (VStruct [VInt 9; VInt (-5000); VFlt 1065357312%N]) in
  py_walk_ser py_pyprims py_enc_prim t v 13 =
    Ok (bits_of_N 8 1 ++ bits_of_N 32 4 ++ bits_of_N 3 7 ++ bits_of_N 13 4096 ++ bits_of_N 16 15360) /\
  enc_body t v = Ok (bits_of_N 8 1 ++ bits_of_N 32 4 ++ bits_of_N 3 7 ++ bits_of_N 13 4096 ++ bits_of_N 16 15361) /\
  no_f16_tie t v = false.
Proof. vm_compute. repeat split; reflexivity. Qed.
