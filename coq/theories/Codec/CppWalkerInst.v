(* The C++-shaped walker (Codec/CppWalker.v) instantiated with the SHIPPED bitspan members (Prims/CppPrims.v: bitspan::setUxx,
   setZeros, const_bitspan::getU8..U64 of nunavut/support/serialization.hpp).

     cppw_prims : cppprims    c_set  buf base cap off v = bitspan{window, cap/8, off}.setUxx(value of v, |v|)
                              c_zero buf base cap off n = bitspan{window, cap/8, off}.setZeros(n)
                              c_get  buf base cap off w = const_bitspan{data@base, cap/8, off}.getU<std_width w>(w)
   where `window` = the cap/8 bytes of the memory from bit `base` on (for stores the span's memory is modelled as exactly its
   window: the members refuse anything beyond data_.size(), B 765 / B 587), and data@base = all bytes from `base` on (loads).
   The laws of CppWalkerThm.v are obtained from the instance theorems that already exist for the C-shaped walker -
   InstancesCpp.cpp_set_law (setUxx = the C store, setZeros exact), cpp_get_is_c + InstancesC.c_get_ok (getU<N> = the C load =
   the zero-extended window) - applied to the window; InstancesTyped.cpp_typed_members_are_c covers setIxx/setBit/setF*/getI*/
   getBit/getF* (restated for the window as `cppw_typed_members`).

   Side conditions: stores need 8 * capacity < 2^64; loads need the cursor to be a size_t: CppWalkerBound.v shows the cursor of
   the C++-shaped deserializer stays below |buffer| + tsz t, assumed < 2^64.

   Results: `cppw_walk_ser_refines`, `cppw_cw_body_effect`, `cppw_walk_des_refines`. *)
From Verif Require Import Bits CPrims CPrimsThm CppPrims CppPrimsThm CppPrimsMoreThm PrimsExt.
From Verif Require Import Wire WireThm WireThmExt Walker Refine PrimsOn InstancesBase WalkerBound RefineSerBits RefineSerBase.
From Verif Require Import InstancesC InstancesCpp InstancesTyped CppWalker CppWalkerThm CppWalkerBound.
From Coq Require Import Lia ZifyBool ZifyNat ZifyN.
Local Open Scope nat_scope.
Ltac Zify.zify_post_hook ::= Z.div_mod_to_equations.

(* the cap/8 bytes of the memory behind bit `base` *)
Definition window (buf : list bool) (base cap : nat) : list bool := firstn cap (skipn base buf).

Definition cppw_set (buf : list bool) (base cap off : nat) (v : list bool) : option (list bool) :=
  match cpp_set_bits false (window buf base cap) off v with
  | Some r => Some (firstn base buf ++ r ++ skipn (base + cap) buf)
  | None => None
  end.

Definition cppw_zero (buf : list bool) (base cap off n : nat) : option (list bool) :=
  match cpp_set_bits true (window buf base cap) off (repeat false n) with
  | Some r => Some (firstn base buf ++ r ++ skipn (base + cap) buf)
  | None => None
  end.

Definition cppw_get (buf : list bool) (base cap off w : nat) : list bool := cpp_get_bits (skipn base buf) cap off w.

Definition cppw_prims : cppprims := {| c_set := cppw_set; c_zero := cppw_zero; c_get := cppw_get |}.

(* what the two store members are, spelled out on the shipped models *)
Lemma all_zero_zeros n : all_zero (repeat false n) = true.
Proof. induction n as [|n IH]; [reflexivity|]. cbn [repeat all_zero forallb negb andb]. exact IH. Qed.

Lemma cppw_set_is_setUxx buf base cap off v :
  cppw_set buf base cap off v =
    match PrimsCur.cpp_set_uxx_cur (cpp_span (window buf base cap) (length (bytes_of_bits (window buf base cap))) off)
                      (N_of_bits v) (N.of_nat (length v)) with
    | Some (inl r) => Some (firstn base buf ++ bits_of_bytes r ++ skipn (base + cap) buf)
    | _ => None
    end.
Proof.
  unfold cppw_set, cpp_set_bits. cbn [andb].
  destruct (PrimsCur.cpp_set_uxx_cur _ _ _) as [[r|e]|]; reflexivity.
Qed.

Lemma cppw_zero_is_setZeros buf base cap off n :
  cppw_zero buf base cap off n =
    match setZeros (cpp_span (window buf base cap) (length (bytes_of_bits (window buf base cap))) off) (N.of_nat n) with
    | Some (inl r) => Some (firstn base buf ++ bits_of_bytes r ++ skipn (base + cap) buf)
    | _ => None
    end.
Proof.
  unfold cppw_zero, cpp_set_bits. rewrite all_zero_zeros, repeat_length. cbn [andb].
  destruct (setZeros _ _) as [[r|e]|]; reflexivity.
Qed.

(* ---------- a store into the window is a store into the memory ---------- *)
Lemma window_length buf base cap : base + cap <= length buf -> length (window buf base cap) = cap.
Proof. intros H. unfold window. rewrite firstn_length, skipn_length. lia. Qed.

Lemma window_split buf base cap : buf = firstn base buf ++ window buf base cap ++ skipn (base + cap) buf.
Proof.
  unfold window. rewrite <- (Refine.skipn_add base cap buf). rewrite (firstn_skipn cap (skipn base buf)).
  symmetry. apply firstn_skipn.
Qed.

Lemma stored_app (A W C : list bool) off v : off + length v <= length W ->
  stored (A ++ W ++ C) (length A + off) v = A ++ stored W off v ++ C.
Proof.
  intros Hfit. unfold stored.
  rewrite firstn_app_2. rewrite (firstn_app_left W C) by lia.
  replace (length A + off + length v) with (length A + (off + length v)) by lia.
  rewrite skipn_app. rewrite skipn_all2 by lia. cbn [app].
  replace (length A + (off + length v) - length A) with (off + length v) by lia.
  rewrite skipn_app. replace (off + length v - length W) with 0 by lia. cbn [skipn].
  rewrite <- !app_assoc. reflexivity.
Qed.

Lemma window_store buf base cap off v : base + cap <= length buf -> off + length v <= cap ->
  firstn base buf ++ stored (window buf base cap) off v ++ skipn (base + cap) buf = stored buf (base + off) v.
Proof.
  intros Hb Hfit. pose proof (window_length buf base cap Hb) as Hw.
  pose proof (stored_app (firstn base buf) (window buf base cap) (skipn (base + cap) buf) off v ltac:(lia)) as H.
  rewrite <- (window_split buf base cap) in H. rewrite firstn_length in H.
  replace (Nat.min base (length buf)) with base in H by lia. symmetry. exact H.
Qed.

(* ---------- the store laws of CppWalkerThm.v hold of the shipped members ---------- *)
Theorem cppw_cset_law L : (N.of_nat L < two64)%N -> cset_law cppw_prims L.
Proof.
  intros HL buf base cap off v Hl (Hb8 & Hc8 & HbL) Hv Hfit. cbn [c_set cppw_prims]. unfold cppw_set.
  pose proof (cpp_set_law false cap Hc8 ltac:(lia) (window buf base cap) off v
                (window_length buf base cap ltac:(lia)) ltac:(lia) Hfit) as H.
  cbn [set_bits cpp_prims] in H. rewrite H. f_equal. apply window_store; lia.
Qed.

Theorem cppw_czero_law L : (N.of_nat L < two64)%N -> czero_law cppw_prims L.
Proof.
  intros HL buf base cap off n Hl (Hb8 & Hc8 & HbL) Hn Hfit. cbn [c_zero cppw_prims]. unfold cppw_zero.
  pose proof (cpp_set_law true cap Hc8 ltac:(lia) (window buf base cap) off (repeat false n)
                (window_length buf base cap ltac:(lia)) ltac:(rewrite repeat_length; lia)
                ltac:(rewrite repeat_length; exact Hfit)) as H.
  cbn [set_bits cpp_prims] in H. rewrite H. f_equal.
  change (firstn off (window buf base cap) ++ repeat false n ++ skipn (off + length (repeat false n)) (window buf base cap))
    with (stored (window buf base cap) off (repeat false n)).
  apply window_store; rewrite ?repeat_length; lia.
Qed.

(* the typed members (setIxx, setBit, setF16/32/64, getI<N>, getBit, getF16/32/64) on a window are the C functions, which
   InstancesTyped.v shows to be the raw store / load of the walker's bit vector *)
Definition cppw_typed_members buf base cap size off :=
  cpp_typed_members_are_c (window buf base cap) size off.

(* ================= serialization: the C++ templates' shape over the shipped bitspan emits the specification's bytes ================= *)
Theorem cppw_walk_ser_refines : forall u fs ext v buf cap,
  wf_ty (TComp u fs ext) = true -> length buf = 8 * cap -> (N.of_nat (8 * cap) < two64)%N ->
  storage_ok (TComp u fs ext) v = true ->
  cpp_walk_ser cppw_prims (TComp u fs ext) v buf cap = ser_spec (TComp u fs ext) v cap.
Proof.
  intros u fs ext v buf cap Hwf Hl HB Hst.
  apply cpp_walk_ser_refines_on; try assumption; [apply cppw_cset_law | apply cppw_czero_law]; exact HB.
Qed.

Theorem cppw_cw_body_effect : forall u fs ext v buf cap bits,
  wf_ty (TComp u fs ext) = true -> length buf = 8 * cap -> (N.of_nat (8 * cap) < two64)%N ->
  storage_ok (TComp u fs ext) v = true -> bmax (TComp u fs ext) <= 8 * cap -> enc_body (TComp u fs ext) v = Ok bits ->
  cw_body cppw_prims (TComp u fs ext) v buf 0 (8 * cap) 0 = Ok (bits ++ skipn (length bits) buf, length bits).
Proof.
  intros u fs ext v buf cap bits Hwf Hl HB Hst Hge E.
  apply cw_body_effect_on; try assumption; [apply cppw_cset_law | apply cppw_czero_law]; exact HB.
Qed.

(* non-vacuity: a union holding a delimited structure (with a void field and alignment padding), through the shipped bitspan
   model, into a 0xFF-filled buffer *)
Example cppw_walk_ser_example :
  let inner := TComp false [TPrim (PU 3 true); TPrim (PVoid 2); TPrim (PS 13 true); TPrim (PF 16 true); TPrim PBool] (Some 64) in
  let t := TComp true [TPrim (PU 8 true); inner; TVar (TPrim PBool) 9] None in
  let v := VUnion 1 (VStruct [VInt 9; VVoid; VInt (-5000); VFlt 1065357312%N; VBool true]) in
  cpp_walk_ser cppw_prims t v (repeat true (8 * 14)) 14 = enc_body t v /\
  enc_body t v = Ok (bits_of_N 8 1 ++ bits_of_N 32 5 ++ bits_of_N 3 7 ++ bits_of_N 2 0 ++ bits_of_N 13 4096 ++ bits_of_N 16 15361
                       ++ bits_of_N 1 1 ++ bits_of_N 5 0).
Proof. vm_compute. split; reflexivity. Qed.

(* ================= deserialization ================= *)
Lemma c_dom_skipn buf base : c_dom buf -> base mod 8 = 0 -> c_dom (skipn base buf).
Proof. intros [Hm Hl] Hb. unfold c_dom. rewrite skipn_length. split; lia. Qed.

(* loads: getU<N> on the span (data@base, cap/8, off) returns the zero-extended window, for every cursor a size_t can hold *)
Theorem cppw_cget_law B bits : c_dom bits -> (N.of_nat B < two64)%N ->
  cget_law (cguard B cppw_prims) (fun w => 1 <= w <= 64) bits.
Proof.
  intros Hd HB base cap off w Hw Hb8 Hc8 Hc. unfold cguard. cbn [c_get cppw_prims].
  destruct (Nat.leb_spec (off + w) B) as [Hle|_]; [|reflexivity].
  unfold cppw_get. pose proof (c_dom_skipn bits base Hd Hb8) as Hd'.
  assert (Hc' : cap <= length (skipn base bits)) by (rewrite skipn_length; exact Hc).
  rewrite cpp_get_is_c by (try assumption; lia).
  apply c_get_ok; try assumption. lia.
Qed.

Theorem cppw_walk_des_refines : forall t bits, wf_ty t = true -> length bits mod 8 = 0 ->
  (N.of_nat (length bits + tsz t) < two64)%N ->
  cpp_walk_des cppw_prims t bits = des_spec t bits.
Proof.
  intros t bits Hwf Hm HB.
  rewrite <- (cpp_walk_des_guard cppw_prims (length bits + tsz t) t bits (le_n _)).
  apply (cpp_walk_des_refines_on _ (fun w => 1 <= w <= 64)); [trivial | | exact Hwf | exact Hm].
  apply cppw_cget_law; [split; [exact Hm | lia] | exact HB].
Qed.

(* non-vacuity: the bytes of the serialization example decode, through the shipped const_bitspan model, to the cast value
   (9 saturated to 7, -5000 saturated to -4096); a truncated copy (implicit zero extension inside the delimited object, header
   check against the remaining bytes) and a bad union tag are answered as the specification prescribes *)
Example cppw_walk_des_example :
  let inner := TComp false [TPrim (PU 3 true); TPrim (PVoid 2); TPrim (PS 13 true); TPrim (PF 16 true); TPrim PBool] (Some 64) in
  let t := TComp true [TPrim (PU 8 true); inner; TVar (TPrim PBool) 9] None in
  let bits := bits_of_N 8 1 ++ bits_of_N 32 5 ++ bits_of_N 3 7 ++ bits_of_N 2 0 ++ bits_of_N 13 4096 ++ bits_of_N 16 15361
                ++ bits_of_N 1 1 ++ bits_of_N 5 0 in
  cpp_walk_des cppw_prims t bits = Ok (VUnion 1 (VStruct [VInt 7; VVoid; VInt (-4096); VFlt 1065361408%N; VBool true]), 10) /\
  cpp_walk_des cppw_prims t (bits_of_N 8 1 ++ bits_of_N 32 2 ++ bits_of_N 16 65535) =
    Ok (VUnion 1 (VStruct [VInt 7; VVoid; VInt 2047; VFlt 0%N; VBool false]), 7) /\
  cpp_walk_des cppw_prims t (bits_of_N 8 1 ++ bits_of_N 32 3 ++ bits_of_N 16 65535) = Err EBadHdr /\
  cpp_walk_des cppw_prims t (bits_of_N 8 3) = Err EBadTag.
Proof. vm_compute. split; [|split; [|split]]; reflexivity. Qed.

(* ================= the span triples of CppWalker.v against the shipped sub-span members =================
   (base, cap, off) stands for the bitspan {data_.data() = memory + base/8, data_.size() = cap/8, offset_bits_ = off}: the bytes
   behind bit `base` of the bit list are the bytes behind byte base/8 of the byte list, and the triples computed by cw_subspan /
   cd_subspan / cd_subspan_bytes are the spans computed by bitspan::subspan(bits_at, size_bits), any_bitspan::subspan() and
   any_bitspan::subspan_bytes(n) (pointer = skipn; current, clamped text: Prims/PrimsExt.v, C14 subspan_clamped_spec). *)
Lemma bytes_of_bits_n_skipn k : forall n l, bytes_of_bits_n n (skipn (8 * k) l) = skipn k (bytes_of_bits_n (k + n) l).
Proof.
  induction k as [|k IH]; intros n l; [reflexivity|].
  cbn [plus bytes_of_bits_n]. rewrite skipn_cons, <- IH.
  replace (8 * S k) with (8 + 8 * k) by lia. rewrite <- Refine.skipn_add. reflexivity.
Qed.

Lemma bytes_of_bits_skipn buf k : length buf mod 8 = 0 -> bytes_of_bits (skipn (8 * k) buf) = skipn k (bytes_of_bits buf).
Proof.
  intros Hm. destruct (Nat.le_gt_cases (8 * k) (length buf)) as [Hle|Hgt].
  - unfold bytes_of_bits. rewrite bytes_of_bits_n_skipn, skipn_length. f_equal. f_equal. lia.
  - rewrite skipn_all2 by lia. rewrite skipn_all2 by (rewrite bytes_of_bits_length by exact Hm; lia). reflexivity.
Qed.

Definition span_at (buf : list bool) (base cap off : nat) : span :=
  mkspan (skipn (base / 8) (bytes_of_bits buf)) (N.of_nat (cap / 8)) (N.of_nat off).

(* the read member of the instance is getU<N> on the span whose pointer is memory + base/8 *)
Lemma cppw_get_is_getU buf base cap off w : length buf mod 8 = 0 -> base mod 8 = 0 ->
  cppw_get buf base cap off w =
    match cpp_get_uxx (N.of_nat (std_width w)) (span_at buf base cap off) (N.of_nat w) with
    | Some x => bits_of_N w x
    | None => repeat false w
    end.
Proof.
  intros Hm Hb. unfold cppw_get, cpp_get_bits, cpp_span, span_at.
  replace base with (8 * (base / 8)) at 1 by lia. rewrite bytes_of_bits_skipn by exact Hm. reflexivity.
Qed.

(* bitspan::subspan(bits_at, size_bits) *)
Theorem cw_subspan_is_subspan2 buf base cap off hb sz : base mod 8 = 0 ->
  span_ok (span_at buf base cap off) -> (N.of_nat (off + hb) < two64)%N -> (N.of_nat sz + 8 < two64)%N ->
  match cw_subspan base cap off hb sz with
  | None => subspan2 (span_at buf base cap off) (N.of_nat hb) (N.of_nat sz) = inr TooSmall
  | Some (base', cap', off') => subspan2 (span_at buf base cap off) (N.of_nat hb) (N.of_nat sz) = inl (span_at buf base' cap' off')
  end.
Proof.
  intros Hb Hok H1 H2.
  pose proof (subspan2_spec (span_at buf base cap off) (N.of_nat hb) (N.of_nat sz) Hok) as H.
  cbn [sp_off sp_size sp_data span_at] in H. specialize (H ltac:(lia) H2). cbv zeta in H.
  unfold cw_subspan.
  destruct (Nat.ltb_spec (cap / 8) ((off + hb) / 8)) as [A|A];
    destruct (N.ltb_spec (N.of_nat (cap / 8)) ((N.of_nat off + N.of_nat hb) / 8)) as [A'|A']; try lia; cbn [orb] in H; [exact H|].
  destruct (Nat.ltb_spec ((cap / 8 - (off + hb) / 8) * 8) ((off + hb) mod 8 + sz)) as [C|C];
    destruct (N.ltb_spec ((N.of_nat (cap / 8) - (N.of_nat off + N.of_nat hb) / 8) * 8)
                         ((N.of_nat off + N.of_nat hb) mod 8 + N.of_nat sz)) as [C'|C']; try lia; [exact H|].
  destruct H as [-> _]. unfold span_at. f_equal. f_equal.
  - rewrite Refine.skipn_add. f_equal. lia.
  - lia.
  - lia.
Qed.

(* any_bitspan::subspan() and subspan_bytes(n) of the CURRENT source (/repo 939fc9d: pointer clamped to one past the end of the data;
   Prims/PrimsExt.v `subspan_clamped`, `subspan_bytes_clamped`) *)
Theorem cd_subspan_is_subspan buf base cap off n : base mod 8 = 0 ->
  span_ok (span_at buf base cap off) ->
  (let '(b, c, o) := cd_subspan base cap off in subspan_clamped (span_at buf base cap off) 0 = span_at buf b c o) /\
  (let '(b, c, o) := cd_subspan_bytes base cap off n in subspan_bytes_clamped (span_at buf base cap off) (N.of_nat n) = span_at buf b c o).
Proof.
  intros Hb Hok. pose proof Hok as (S1 & S2 & S3). cbn [sp_off sp_size sp_data span_at] in S1, S2, S3.
  assert (T64 : two64 = 18446744073709551616%N) by reflexivity.
  set (ns := if off / 8 <? cap / 8 then cap / 8 - off / 8 else 0).
  assert (Hsub : subspan_clamped (span_at buf base cap off) 0 = span_at buf (base + 8 * (cap / 8 - ns)) (8 * ns) (off mod 8)).
  { unfold subspan_clamped, span_at. cbn [sp_off sp_size sp_data]. rewrite N.add_0_r, w64_small by lia.
    assert (Hns : (if (N.of_nat off / 8 <? N.of_nat (cap / 8))%N then (N.of_nat (cap / 8) - N.of_nat off / 8)%N else 0%N) = N.of_nat ns).
    { unfold ns. destruct (N.ltb_spec (N.of_nat off / 8) (N.of_nat (cap / 8))); destruct (Nat.ltb_spec (off / 8) (cap / 8)); lia. }
    rewrite Hns. f_equal.
    - rewrite Refine.skipn_add. f_equal. unfold ns. destruct (Nat.ltb_spec (off / 8) (cap / 8)); lia.
    - lia.
    - lia. }
  split.
  - unfold cd_subspan. fold ns. exact Hsub.
  - unfold cd_subspan_bytes, cd_subspan. fold ns. cbv beta iota. unfold subspan_bytes_clamped. rewrite Hsub. unfold span_at.
    cbn [sp_off sp_size sp_data]. f_equal.
    destruct (N.ltb_spec (N.of_nat n) (N.of_nat (8 * ns / 8))); destruct (Nat.ltb_spec n (8 * ns / 8)); lia.
Qed.

(* non-vacuity, sealed path: alignment padding (setZeros of 3 bits), a nested sealed structure and an array of sealed structures
   (subspan(0, max)), round trip through both shipped span models; a buffer one byte short is refused up front *)
Example cppw_walk_sealed_example :
  let s := TComp false [TPrim (PU 8 true); TPrim (PU 5 true)] None in
  let t := TComp false [TPrim (PU 5 false); s; TFix (TComp false [TPrim PBool] None) 2] None in
  let v := VStruct [VInt 37; VStruct [VInt 200; VInt 99]; VArr [VStruct [VBool true]; VStruct [VBool false]]] in
  cpp_walk_ser cppw_prims t v (repeat true (8 * 6)) 6 = enc_body t v /\
  enc_body t v = Ok (bits_of_N 8 5 ++ bits_of_N 8 200 ++ bits_of_N 8 31 ++ bits_of_N 8 1 ++ bits_of_N 8 0) /\
  cpp_walk_ser cppw_prims t v (repeat true (8 * 4)) 4 = Err ETooSmall /\
  cpp_walk_des cppw_prims t (bits_of_N 8 5 ++ bits_of_N 8 200 ++ bits_of_N 8 31 ++ bits_of_N 8 1 ++ bits_of_N 8 0) =
    Ok (VStruct [VInt 5; VStruct [VInt 200; VInt 31]; VArr [VStruct [VBool true]; VStruct [VBool false]]], 5) /\
  cpp_walk_des cppw_prims t (bits_of_N 8 5 ++ bits_of_N 8 200) =
    Ok (VStruct [VInt 5; VStruct [VInt 200; VInt 0]; VArr [VStruct [VBool false]; VStruct [VBool false]]], 2).
Proof. vm_compute. split; [|split; [|split; [|split]]]; reflexivity. Qed.
