(* C03: the observable behaviour of the generated (de)serializers of each target under each option set, defined over the
   code-shaped walkers instantiated with the SHIPPED primitive models:
     C       Codec/Walker.v  walk_ser / walk_des over  InstancesC.c_prims (opt_little o)      (nunavutSetUxx / nunavutGetU8..64, both
             renderings of target_endianness)
     C++     the same walker over  InstancesCpp.cpp_prims (opt_setzeros o)                     (bitspan::setUxx / setZeros / getU8..64)
     Python  Codec/PyWalker.v  py_walk_ser over  InstancesPySer.py_pyprims  with the explicit Python leaf  TargetPre.py_enc_prim
             (clamp, two's complement, mask, struct.pack('<e') = round half to even), and  walk_des  over  InstancesPy.py_prims
   plus the epilogue assertions of the generated routines, compiled in when enable_serialization_asserts is set (Python: always):
     serialization (c/templates/serialization.j2:78-83):  offset_bits >= min, <= max, offset_bits % 8 == 0
     deserialization (c/templates/deserialization.j2:64-66):  capacity_bytes >= *inout_buffer_size_bytes  (consumed <= supplied)
   A failing assertion is the observable `Err EAssert` (abort).  Nothing here mentions the wire specification: that the observables
   equal it, agree across targets and do not depend on the options is PROVED in Codec/ObsC03Thm.v.  No proofs in this file. *)
From Verif Require Export CPrims Wire TargetsC03 Walker WalkerBound PyWalker InstancesC InstancesCpp InstancesPy InstancesPySer.
Local Open Scope nat_scope.

Definition ser_epilogue_ok (t : ty) (b : list bool) : bool :=
  (bmin t <=? length b) && (length b <=? bmax t) && (length b mod 8 =? 0).

Definition ser_asserts (on : bool) (t : ty) (r : res (list bool)) : res (list bool) :=
  match r with
  | Ok b => if on && negb (ser_epilogue_ok t b) then Err EAssert else Ok b
  | Err e => Err e
  end.

Definition des_asserts (on : bool) (supplied_bits : nat) (r : res (val * nat)) : res (val * nat) :=
  match r with
  | Ok (v, consumed_bytes) => if on && negb (8 * consumed_bytes <=? supplied_bits) then Err EAssert else Ok (v, consumed_bytes)
  | Err e => Err e
  end.

(* serialize `v` into the caller's buffer `buf` of `cap` bytes (Python owns its zero-filled buffer: `buf` is not looked at) *)
Definition obs_ser (tg : target) (o : options) (t : ty) (v : val) (buf : list bool) (cap : nat) : res (list bool) :=
  match tg with
  | TgC => ser_asserts (opt_asserts o) t (walk_ser (c_prims (opt_little o)) t v buf cap)
  | TgCpp => ser_asserts (opt_asserts o) t (walk_ser (cpp_prims (opt_setzeros o)) t v buf cap)
  | TgPy => ser_asserts true t (py_walk_ser py_pyprims py_enc_prim t v cap)
  end.

Definition obs_des (tg : target) (o : options) (t : ty) (bits : list bool) : res (val * nat) :=
  match tg with
  | TgC => des_asserts (opt_asserts o) (length bits) (walk_des (c_prims (opt_little o)) t bits)
  | TgCpp => des_asserts (opt_asserts o) (length bits) (walk_des (cpp_prims (opt_setzeros o)) t bits)
  | TgPy => des_asserts true (length bits) (walk_des py_prims t bits)
  end.

(* side conditions of the primitive contracts: whole-byte caller buffer addressable in bits by a size_t *)
Definition buf_ok (buf : list bool) (cap : nat) : Prop := length buf = 8 * cap /\ (N.of_nat (8 * cap) < two64)%N.
Definition input_ok (t : ty) (bits : list bool) : Prop := length bits mod 8 = 0 /\ (N.of_nat (length bits + tsz t) < two64)%N.

(* for the harness (requests `oser` / `odes`): buffers as bit lists *)
Definition mk_options (little setzeros asserts : bool) : options :=
  {| opt_little := little; opt_setzeros := setzeros; opt_asserts := asserts |}.
