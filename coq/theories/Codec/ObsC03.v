(* C03: the observable behaviour of the generated (de)serializers of each target under each option set, defined through the
   TARGET-SHAPED walkers over the SHIPPED primitive models:
     C       Codec/WalkerX.v  walk_ser_x  / Codec/WalkerXDes.v  walk_des_x  with  WalkerSafe.std_cfg (is_little o): the C templates
             including the paths that `target_endianness = little` switches - memmove of ceil(w/8) storage bytes for aligned
             integers, ONE nunavutCopyBits / nunavutGetBits call for arrays of bool / zero-cost primitives (the TRANSLATED
             `is_zero_cost_primitive` of Generated/Gen_C01.v) - over InstancesC.c_prims (is_little o) (nunavutSetUxx / GetU8..64 in the
             rendering of that endianness), InstancesX.c_copy (nunavutCopyBits), InstancesXDes.c_getl (nunavutGetBits)
     C++     Codec/CppWalker.v  cpp_walk_ser / cpp_walk_des  (bitspan sub-spans, setZeros padding, tag-first unions, offset_bytes_ceil)
             over CppWalkerInst.cppw_prims (bitspan::setUxx / setZeros / getU8..64 of Prims/CppPrims.v)
     Python  Codec/PyWalker.v  py_walk_ser  over InstancesPySer.py_pyprims with the explicit leaf TargetPre.py_enc_prim, and
             Codec/PyDesWalker.v  py_walk_des  over PyDesWalkerInst.pyd_prims (ONE shared Deserializer, fetch_* members, fork_bytes)
             with the alignment annotation sa_dyn; nunavut_support.deserialize reports no consumed size
   plus, for C and C++,
     - the build gate of omit_float_serialization_support (a type with float fields has no compilable code: Err EShape stands for
       "no program"), and
     - the epilogue assertions compiled in by enable_serialization_asserts:
         serialization (c/templates/serialization.j2:78-83)    offset_bits >= min, <= max, offset_bits % 8 == 0
         deserialization (c/templates/deserialization.j2:64-66)  capacity_bytes >= *inout_buffer_size_bytes
       a failing assertion is the observable `Err EAssert` (abort).  The inner per-field assertion sites are not modelled.
   Nothing here mentions the wire specification.  No proofs in this file (Codec/ObsC03Thm.v). *)
From Verif Require Export CPrims Wire TargetsC03 Walker WalkerBound WalkerSafe WalkerX WalkerXDes InstancesC InstancesX InstancesXDes.
From Verif Require Export CppWalker CppWalkerInst PyWalker InstancesPySer PyDesWalker PyDesWalkerInst.
Local Open Scope nat_scope.

Definition ser_epilogue_ok (t : ty) (b : list bool) : bool :=
  (bmin t <=? length b) && (length b <=? bmax t) && (length b mod 8 =? 0).

Definition ser_asserts (on : bool) (t : ty) (r : res (list bool)) : res (list bool) :=
  match r with
  | Ok b => if on && negb (ser_epilogue_ok t b) then Err EAssert else Ok b
  | Err e => Err e
  end.

Definition des_asserts (on : bool) (supplied_bits : nat) (r : res (val * nat)) : res (val * nat) :=
  match r with
  | Ok (v, consumed_bytes) => if on && negb (8 * consumed_bytes <=? supplied_bits) then Err EAssert else Ok (v, consumed_bytes)
  | Err e => Err e
  end.

Definition gate {A} (tg : target) (o : options) (t : ty) (r : res A) : res A := if buildable tg o t then r else Err EShape.

(* serialize `v` into the caller's buffer `buf` of `cap` bytes (Python owns its zero-filled buffer: `buf` is not looked at) *)
Definition obs_ser (tg : target) (o : options) (t : ty) (v : val) (buf : list bool) (cap : nat) : res (list bool) :=
  match tg with
  | TgC => gate tg o t (ser_asserts (enable_serialization_asserts o) t
                          (walk_ser_x (c_prims (is_little o)) c_copy (std_cfg (is_little o)) t v buf cap))
  | TgCpp => gate tg o t (ser_asserts (enable_serialization_asserts o) t (cpp_walk_ser cppw_prims t v buf cap))
  | TgPy => ser_asserts true t (py_walk_ser py_pyprims py_enc_prim t v cap)
  end.

Definition obs_des (tg : target) (o : options) (t : ty) (bits : list bool) : dobs :=
  match tg with
  | TgC => gate tg o t (with_size (des_asserts (enable_serialization_asserts o) (length bits)
                                     (walk_des_x (c_prims (is_little o)) c_getl (std_cfg (is_little o)) t bits)))
  | TgCpp => gate tg o t (with_size (des_asserts (enable_serialization_asserts o) (length bits) (cpp_walk_des cppw_prims t bits)))
  | TgPy => no_size (py_walk_des pyd_prims sa_dyn t bits)
  end.

(* side conditions of the primitive contracts: whole-byte caller buffer addressable in bits by a size_t *)
Definition buf_ok (buf : list bool) (cap : nat) : Prop := length buf = 8 * cap /\ (N.of_nat (8 * cap) < two64)%N.
Definition input_ok (t : ty) (bits : list bool) : Prop := length bits mod 8 = 0 /\ (N.of_nat (length bits + tsz t + 8) < two64)%N.

(* for the harness (requests `oser` / `odes`) *)
Definition mk_options (e : endianness) (omit_float asserts : bool) : options :=
  {| target_endianness := e; omit_float_serialization_support := omit_float; enable_serialization_asserts := asserts |}.
