(* Structural tie of the templates that DECLARE the generated data types (C definitions.j2; C++ _composite_type.j2, _fields*.j2;
   Python base.j2): every emitted line verbatim under its Jinja control structure (comments / whitespace normalised) equals the
   reviewed copy in TplTieData.v (golden: these are reviewed by hand), plus - for C - the declaration rules the codec proofs and
   the C04 object model rest on, derived by interpreting the regenerated tree:
     - a structure without (non-padding) fields still has one member (`_dummy_`), so `sizeof` and `-pedantic` are fine;
     - a union is `struct { union { members }; <tag type> _tag_; }` with the tag typed by `type_from_primitive`;
     - primitive field -> `type_from_primitive` storage; fixed bool array -> bit-packed bytes `[capacity|bits2bytes_ceil]`;
       variable array -> `struct { elements[..._ARRAY_CAPACITY_] | bitpacked; size_t count; }`. *)
From Coq Require Import List String Bool.
From Verif Require Import TplTieBase TplTieData Gen_CodecTpl.
Import ListNotations.
Local Open Scope string_scope.

Theorem decl_templates_match_reviewed :
  gen_c_decl_definitions = walker_c_decl_definitions /\
  gen_cpp_decl_composite_type = walker_cpp_decl_composite_type /\ gen_cpp_decl_fields = walker_cpp_decl_fields /\
  gen_cpp_decl_fields_as_union = walker_cpp_decl_fields_as_union /\ gen_cpp_decl_fields_as_variant = walker_cpp_decl_fields_as_variant /\
  gen_py_decl_base = walker_py_decl_base.
Proof. repeat split; reflexivity. Qed.

(* the file-level wrappers: include guards, the includes a header needs when it is generated WITHOUT serialization support
   (`nunavut.support.omit`: <assert.h>/<stdbool.h>/<stdint.h> for C, the pod includes for C++), option static_asserts only when the
   support header is emitted, the `#pragma GCC diagnostic` push/pop around the body of a deprecated C++ type *)
Theorem decl_base_templates_match_reviewed :
  gen_c_decl_base = walker_c_decl_base /\ gen_cpp_decl_base = walker_cpp_decl_base.
Proof. split; reflexivity. Qed.

Definition has_sub (needle hay : string) : bool := match index 0 needle hay with Some _ => true | None => false end.
Definition lines (rho : string -> bool) (l : list tnode) : list string := map snd (flatten_all rho l).
Definition emits_line (needle : string) (ls : list string) : bool := existsb (has_sub needle) ls.

(* the body of a macro of definitions.j2 *)
Definition macro_on (name : string) (a : string) : bool := String.prefix ("<macro> " ++ name ++ "(") a.

(* _define_structure with NO non-padding field (Jinja for-else) still declares a member *)
Theorem c_fieldless_struct_has_dummy_member :
  let rho := fun a => macro_on "_define_structure" a || String.eqb a "<empty> f in t.fields_except_padding" in
  emits_line "{{ typename_byte }} _dummy_;" (lines rho gen_c_decl_definitions) = true /\
  (* ... and with fields it declares exactly the fields (the loop body), not the dummy *)
  emits_line "_dummy_" (lines (macro_on "_define_structure") gen_c_decl_definitions) = false /\
  emits_line "{{ _define_field(t, f.data_type, f.name) | indent }};" (lines (macro_on "_define_structure") gen_c_decl_definitions) = true.
Proof. vm_compute. repeat split; reflexivity. Qed.

Theorem c_union_has_tag_member :
  let ls := lines (macro_on "_define_union") gen_c_decl_definitions in
  emits_line "union" ls = true /\ emits_line "{{ t.tag_field_type | type_from_primitive }} _tag_;" ls = true /\
  emits_line "_UNION_OPTION_COUNT_ {{ t.fields | length }}U" ls = true.
Proof. vm_compute. repeat split; reflexivity. Qed.

Theorem c_field_shapes :
  let on k := fun a => macro_on "_define_field" a || macro_on "_define_bitpacked_array_field" a || String.eqb a k in
  emits_line "{{ f | type_from_primitive }} {{ name | id }}{{ suffix }}" (lines (on "f is PrimitiveType") gen_c_decl_definitions) = true /\
  emits_line "{{ f | full_reference_name }} {{ name | id }}{{ suffix }}" (lines (on "f is CompositeType") gen_c_decl_definitions) = true /\
  emits_line "{{ typename_unsigned_length }} count;" (lines (on "f is VariableLengthArrayType") gen_c_decl_definitions) = true /\
  emits_line "_ARRAY_CAPACITY_]'|format(t|full_reference_name, name)) }};" (lines (on "f is VariableLengthArrayType") gen_c_decl_definitions) = true /\
  emits_line "{{ typename_byte }} {{ name | id }}[{{ capacity | bits2bytes_ceil }}]" (lines (on "-") gen_c_decl_definitions) = true.
Proof. vm_compute. repeat split; reflexivity. Qed.
