(* C04: the safety walker and the functional walker are one program as far as the cursor goes.
   Whenever Codec/Walker.v's serializer (the functional model C01 proves equal to the wire specification and the C primitives) produces
   its bytes for a value v, the instrumented walker of Codec/WalkerSafe.v run on the object that holds v follows the SAME cursor and
   reports the SAME size - for every primitive record, every rendering whose checks sit in front (plan_ok) and whose length checks are
   the specification's, unless the instrumented walker reports TOO_SMALL (which ser_in_bounds excludes once the buffer passes the
   up-front test). *)
From Verif Require Import Wire WireThm Walker WalkerSafe WalkerSafeThm RefineSerBits.
From Coq Require Import Lia.
Local Open Scope nat_scope.

(* the C object that holds the value v of type t *)
Section EmbedComb.
  Variable E : ty -> val -> cobj.
  Fixpoint embed_fields (fs : list ty) (vs : list val) : list cobj :=
    match fs, vs with f :: fs', v :: vs' => E f v :: embed_fields fs' vs' | _, _ => [] end.
  Fixpoint embed_sel (fs : list ty) (k : nat) (x : val) : cobj :=
    match fs, k with [], _ => dflt | f :: _, O => E f x | _ :: r, S k' => embed_sel r k' x end.
End EmbedComb.
Fixpoint embed (t : ty) (v : val) : cobj :=
  match t, v with
  | TPrim _, _ => CPrim v
  | TFix e _, VArr l => CFix (map (embed e) l)
  | TVar e _, VArr l => CVar (length l) (map (embed e) l)
  | TComp false fs _, VStruct vs => CStruct (embed_fields embed fs vs)
  | TComp true fs _, VUnion k x => CUnion k (embed_sel embed fs k x)
  | _, _ => dflt
  end.

Definition NT {A} (m : M A) : Prop := fst m <> Err ETooSmall.

Lemma nt_bind {A B} (m : M A) (f : A -> M B) : NT (bindM m f) -> NT m /\ forall a, fst m = Ok a -> NT (f a).
Proof.
  unfold NT, bindM. destruct m as [[a|e] l]; cbn [fst]; intros H.
  - split; [discriminate|]. intros a' Ha. injection Ha as <-. exact H.
  - split; [intros E; apply H; congruence|]. intros a Ha. discriminate Ha.
Qed.

Lemma checked_only_ts lim off w e : fst (w_checked lim off w) = Err e -> e = ETooSmall.
Proof. unfold w_checked. destruct (lim <? off + w); cbn; intros H; [injection H as <-; reflexivity | discriminate]. Qed.
Lemma store_only_ts c lim off w e : fst (w_store c lim off w) = Err e -> e = ETooSmall.
Proof. unfold w_store. destruct (guarded c); [apply checked_only_ts | cbn; discriminate]. Qed.

Lemma nt_checked lim off w : NT (w_checked lim off w) -> fst (w_checked lim off w) = Ok (off + w).
Proof.
  intros H. destruct (fst (w_checked lim off w)) as [o|e] eqn:E.
  - apply checked_exact in E. subst o. reflexivity.
  - pose proof (checked_only_ts _ _ _ _ E) as He. subst e. exfalso. apply H. exact E.
Qed.
Lemma nt_store c lim off w : NT (w_store c lim off w) -> fst (w_store c lim off w) = Ok (off + w).
Proof. unfold w_store. destruct (guarded c); [apply nt_checked | reflexivity]. Qed.

Lemma nt_prim c p lim off : NT (ws_prim c p lim off) -> fst (ws_prim c p lim off) = Ok (off + prim_bits p).
Proof.
  destruct p; cbn [ws_prim prim_bits]; repeat match goal with |- context [if ?b then _ else _] => destruct b end;
    first [apply nt_store | apply nt_checked].
Qed.

Lemma nt_pad lim off a : NT (ws_pad lim off a) ->
  fst (ws_pad lim off a) = Ok (if off mod a =? 0 then off else off + (a - off mod a)).
Proof. unfold ws_pad. destruct (off mod a =? 0); [reflexivity | apply nt_checked]. Qed.

Lemma nt_guard c lim off w : NT (w_guard c lim off w) -> fst (w_guard c lim off w) = Ok (off + w).
Proof. unfold NT, w_guard. destruct (guarded c && _); cbn; [congruence | reflexivity]. Qed.
Lemma nt_nest c lim o1 sz : NT (w_nest c lim o1 sz) -> fst (w_nest c lim o1 sz) = Ok o1.
Proof. unfold NT, w_nest. destruct (_ || _); cbn; [congruence | reflexivity]. Qed.

Section Tie.
  Variable P : prims.
  Variable c : cfg.
  Hypothesis Hpl : plan_ok c.
  Hypothesis Hk : forall e n, chk_cap c e n = n.
  Hypothesis Has : asserts c = false.       (* assertions compiled out (their never firing is ser_asserts_never_fire_checked) *)

  Notation WB := (Walker.ws_body P).
  Notation WF := (Walker.ws_field P WB).

  Lemma W_set_cursor buf off v b o : w_set P buf off v = Ok (b, o) -> o = off + length v.
  Proof. unfold w_set. destruct (set_bits P buf off v); intros H; [injection H as _ <-; reflexivity | discriminate]. Qed.

  Lemma W_pad_cursor buf off a b o : w_pad P buf off a = Ok (b, o) -> o = if off mod a =? 0 then off else off + (a - off mod a).
  Proof.
    unfold w_pad. destruct (off mod a =? 0); intros H; [injection H as _ <-; reflexivity|].
    apply W_set_cursor in H. rewrite repeat_length in H. exact H.
  Qed.

  Lemma W_prim_cursor p v buf off b o : prim_wf p = true -> w_prim P p v buf off = Ok (b, o) -> o = off + prim_bits p.
  Proof.
    intros Hwf. unfold w_prim. destruct (storage_bits p v) as [sb|] eqn:Es; [|discriminate].
    assert (Hlen : prim_bits p <= length sb).
    { destruct p, v; cbn [storage_bits] in Es; try discriminate; injection Es as <-; cbn [prim_bits prim_wf length] in *;
        rewrite ?bits_of_N_length, ?repeat_length; try lia; apply std_width_ge; lia. }
    assert (Hf : length (firstn (prim_bits p) sb) = prim_bits p) by (rewrite firstn_length; lia).
    destruct p; cbn [prim_bits] in *;
      try (destruct ((off mod 8 =? 0) && _); [destruct (w_set P buf off (firstn 8 sb)) as [[b0 o0]|] eqn:E; cbn [bind]; intros H;
                                               [injection H as _ <-; reflexivity | discriminate]|]);
      intros H; apply W_set_cursor in H; rewrite Hf in H; exact H.
  Qed.

  Definition Pb (t : ty) : Prop := wf_ty t = true -> forall v buf off lim b' o',
    WB t v buf off = Ok (b', o') -> NT (ws_body c t (embed t v) lim off) -> fst (ws_body c t (embed t v) lim off) = Ok o'.
  Definition Pf (t : ty) : Prop := wf_ty t = true -> forall v buf off lim b' o',
    WF t v buf off = Ok (b', o') -> NT (ws_any c (ws_body c) t (embed t v) lim off) ->
    fst (ws_any c (ws_body c) t (embed t v) lim off) = Ok o'.

  Lemma any_eq Sr t o lim off : ws_any c Sr t o lim off = bindM (ret tt) (fun _ => ws_field c Sr t o lim off).
  Proof. unfold ws_any, w_assert. rewrite Has. reflexivity. Qed.

  Lemma tie_field_of_body t : Pb t -> Pf t.
  Proof.
    intros Hb Hwf v buf off lim b' o'. rewrite any_eq, fst_bindM. cbn [ret fst bind].
    assert (Hnt : NT (bindM (ret tt) (fun _ => ws_field c (ws_body c) t (embed t v) lim off)) -> NT (ws_field c (ws_body c) t (embed t v) lim off))
      by (intros H; apply nt_bind in H; destruct H as [_ H]; apply (H tt); reflexivity).
    intros Hw Hn0. apply Hnt in Hn0. clear Hnt. revert Hw Hn0. unfold Walker.ws_field, ws_field.
    destruct t as [p|e n|e cp|u fs [x|]]; try (apply Hb; exact Hwf).
    - (* delimited *)
      destruct (WB _ v buf (off + header_bits)) as [[b1 o1]|] eqn:E1; cbn [bind]; [|discriminate].
      destruct (w_set P b1 off _) as [[b2 o2]|] eqn:E2; cbn [bind]; [|discriminate]. intros H. injection H as _ <-.
      destruct (bmin _ =? bmax _); intros Hn.
      + apply nt_bind in Hn. destruct Hn as [Hn1 Hn]. rewrite fst_bindM, (nt_prim _ _ _ _ Hn1). cbn [bind prim_bits].
        specialize (Hn _ (nt_prim _ _ _ _ Hn1)). cbn [prim_bits] in Hn.
        apply nt_bind in Hn. destruct Hn as [Hn2 Hn]. rewrite fst_bindM, (nt_nest _ _ _ _ Hn2). cbn [bind].
        specialize (Hn _ (nt_nest _ _ _ _ Hn2)). apply nt_bind in Hn. destruct Hn as [_ Hn]. specialize (Hn tt eq_refl).
        rewrite fst_bindM. cbn [tell fst bind]. eapply Hb; [exact Hwf | exact E1 | exact Hn].
      + apply nt_bind in Hn. destruct Hn as [Hn1 Hn]. rewrite fst_bindM, (nt_guard _ _ _ _ Hn1). cbn [bind].
        specialize (Hn _ (nt_guard _ _ _ _ Hn1)).
        apply nt_bind in Hn. destruct Hn as [Hn2 Hn]. rewrite fst_bindM, (nt_nest _ _ _ _ Hn2). cbn [bind].
        specialize (Hn _ (nt_nest _ _ _ _ Hn2)). apply nt_bind in Hn. destruct Hn as [_ Hn]. specialize (Hn tt eq_refl).
        rewrite fst_bindM. cbn [tell fst bind]. apply nt_bind in Hn. destruct Hn as [Hn3 Hn].
        pose proof (Hb Hwf v buf (off + header_bits) _ b1 o1 E1 Hn3) as Hbody. rewrite fst_bindM, Hbody. cbn [bind].
        specialize (Hn _ Hbody). apply nt_bind in Hn. destruct Hn as [Hn4 _]. rewrite fst_bindM.
        destruct (little c); [rewrite (nt_store _ _ _ _ Hn4) | rewrite (nt_checked _ _ _ Hn4)]; reflexivity.
    - (* sealed *)
      intros Hw Hn. apply nt_bind in Hn. destruct Hn as [Hn2 Hn]. rewrite fst_bindM, (nt_nest _ _ _ _ Hn2). cbn [bind].
      specialize (Hn _ (nt_nest _ _ _ _ Hn2)). apply nt_bind in Hn. destruct Hn as [_ Hn]. specialize (Hn tt eq_refl).
      rewrite fst_bindM. cbn [tell fst bind]. eapply Hb; [exact Hwf | exact Hw | exact Hn].
  Qed.

  Lemma tie_list e : Pf e -> wf_ty e = true -> forall l buf off lim b' o',
    Walker.ws_list (WF e) l buf off = Ok (b', o') ->
    NT (ws_list (fun x off' => ws_any c (ws_body c) e x lim off') (length l) (map (embed e) l) off) ->
    fst (ws_list (fun x off' => ws_any c (ws_body c) e x lim off') (length l) (map (embed e) l) off) = Ok o'.
  Proof.
    intros He Hwf. induction l as [|x r IH]; intros buf off lim b' o'; cbn [Walker.ws_list ws_list length map hd tl].
    - intros H _. injection H as _ <-. reflexivity.
    - destruct (WF e x buf off) as [[b1 o1]|] eqn:E1; cbn [bind]; [|discriminate]. intros Hr Hn.
      apply nt_bind in Hn. destruct Hn as [Hn1 Hn]. pose proof (He Hwf x buf off lim b1 o1 E1 Hn1) as H1.
      rewrite fst_bindM, H1. cbn [bind]. eapply IH; [exact Hr | apply Hn; exact H1].
  Qed.

  (* arrays moved in bulk: the functional walker still loops, one primitive at a time *)
  Lemma W_list_prims p : prim_wf p = true -> forall l buf off b' o',
    Walker.ws_list (WF (TPrim p)) l buf off = Ok (b', o') -> o' = off + length l * prim_bits p.
  Proof.
    intros Hwf. induction l as [|x r IH]; intros buf off b' o'; cbn [Walker.ws_list length].
    - intros H. injection H as _ <-. lia.
    - unfold Walker.ws_field at 1. cbn [Walker.ws_body]. destruct (w_prim P p x buf off) as [[b1 o1]|] eqn:E1; cbn [bind]; [|discriminate].
      intros Hr. apply W_prim_cursor in E1; [|exact Hwf]. apply IH in Hr. lia.
  Qed.

  Lemma tie_array e : Pb e -> wf_ty e = true -> forall l buf off lim b' o',
    Walker.ws_list (WF e) l buf off = Ok (b', o') ->
    NT (match bulk c e with
        | Some w => w_store c lim off (length l * w)
        | None => ws_list (fun x off' => ws_any c (ws_body c) e x lim off') (length l) (map (embed e) l) off
        end) ->
    fst (match bulk c e with
         | Some w => w_store c lim off (length l * w)
         | None => ws_list (fun x off' => ws_any c (ws_body c) e x lim off') (length l) (map (embed e) l) off
         end) = Ok o'.
  Proof.
    intros He Hwf l buf off lim b' o' Hw Hn. destruct (bulk c e) as [w|] eqn:Eb.
    - destruct (bulk_prim _ _ _ Eb) as [-> _]. rewrite (nt_store _ _ _ _ Hn).
      unfold bulk in Eb. destruct (negb (bulk_on c)); [discriminate|]. destruct e as [p| | |]; try discriminate.
      apply (W_list_prims p Hwf) in Hw. subst o'. reflexivity.
    - eapply tie_list; [apply tie_field_of_body; exact He | exact Hwf | exact Hw | exact Hn].
  Qed.

  Lemma tie_fields fs : Forall Pf fs -> forallb wf_ty fs = true -> forall vs buf base off lim b' o',
    Walker.ws_fields P WF fs vs buf base off = Ok (b', o') ->
    NT (ws_fields (ws_any c (ws_body c)) fs (embed_fields embed fs vs) lim off) ->
    fst (ws_fields (ws_any c (ws_body c)) fs (embed_fields embed fs vs) lim off) = Ok o'.
  Proof.
    induction 1 as [|f fs Hf _ IH]; intros Hwf vs buf base off lim b' o'; cbn [Walker.ws_fields ws_fields].
    - destruct vs; [|discriminate]. intros Hw Hn. apply W_pad_cursor in Hw. rewrite (nt_pad _ _ _ Hn). subst o'. reflexivity.
    - apply andb_prop in Hwf. destruct Hwf as [Hwf1 Hwf2]. destruct vs as [|v vs]; [discriminate|]. cbn [embed_fields hd tl].
      destruct (w_pad P buf off (align f)) as [[b1 o1]|] eqn:E1; cbn [bind]; [|discriminate].
      destruct (WF f v b1 o1) as [[b2 o2]|] eqn:E2; cbn [bind]; [|discriminate]. intros Hr Hn.
      apply W_pad_cursor in E1. apply nt_bind in Hn. destruct Hn as [Hn1 Hn]. rewrite fst_bindM, (nt_pad _ _ _ Hn1). cbn [bind].
      specialize (Hn _ (nt_pad _ _ _ Hn1)). rewrite <- E1 in *. apply nt_bind in Hn. destruct Hn as [Hn2 Hn].
      pose proof (Hf Hwf1 v b1 o1 lim b2 o2 E2 Hn2) as H2. rewrite fst_bindM, H2. cbn [bind].
      eapply IH; [exact Hwf2 | exact Hr | apply Hn; exact H2].
  Qed.

  Lemma tie_sel fs : Forall Pf fs -> forallb wf_ty fs = true -> forall k x buf off lim b' o',
    Walker.ws_sel WF fs k x buf off = Ok (b', o') ->
    NT (ws_sel (ws_any c (ws_body c)) fs k (embed_sel embed fs k x) lim off) ->
    fst (ws_sel (ws_any c (ws_body c)) fs k (embed_sel embed fs k x) lim off) = Ok o'.
  Proof.
    induction 1 as [|f fs Hf _ IH]; intros Hwf k x buf off lim b' o'; cbn [Walker.ws_sel ws_sel embed_sel]; [destruct k; discriminate|].
    apply andb_prop in Hwf. destruct Hwf as [Hwf1 Hwf2]. destruct k as [|k]; [apply Hf; exact Hwf1 | apply IH; exact Hwf2].
  Qed.

  Theorem tie_body : forall t, Pb t.
  Proof.
    induction t as [p|e n IH|e cp IH|u fs ext IH] using ty_nested_ind; intros Hwf v buf off lim b' o'.
    - cbn [Walker.ws_body ws_body embed]. intros Hw Hn. apply W_prim_cursor in Hw; [|exact Hwf]. rewrite (nt_prim _ _ _ _ Hn). subst o'. reflexivity.
    - cbn [wf_ty] in Hwf. cbn [Walker.ws_body]. destruct v as [| | | |l| |]; try discriminate.
      destruct (Nat.eqb_spec (length l) n) as [<-|]; [|discriminate]. cbn [ws_body embed o_elems]. intros Hw Hn.
      apply nt_bind in Hn. destruct Hn as [_ Hn]. specialize (Hn tt eq_refl). rewrite fst_bindM. cbn [tell fst bind].
      eapply tie_array; [exact IH | exact Hwf | exact Hw | exact Hn].
    - cbn [wf_ty] in Hwf. apply andb_prop in Hwf. destruct Hwf as [Hwf _].
      cbn [Walker.ws_body]. destruct v as [| | | |l| |]; try discriminate.
      destruct (cp <? length l) eqn:Ec; [discriminate|].
      destruct (w_set P buf off _) as [[b1 o1]|] eqn:E1; cbn [bind]; [|discriminate]. intros Hw.
      apply W_set_cursor in E1. rewrite bits_of_N_length in E1.
      cbn [ws_body embed o_count o_elems]. unfold ordered. rewrite Hpl, Hk, Ec. cbn [pl_ser_vla all_first]. intros Hn.
      apply nt_bind in Hn. destruct Hn as [_ Hn]. specialize (Hn tt eq_refl). rewrite fst_bindM. cbn [tell fst bind].
      apply nt_bind in Hn. destruct Hn as [Hn1 Hn]. rewrite fst_bindM, (nt_prim _ _ _ _ Hn1). cbn [bind prim_bits].
      specialize (Hn _ (nt_prim _ _ _ _ Hn1)). cbn [prim_bits] in Hn. rewrite <- E1 in *.
      eapply tie_array; [exact IH | exact Hwf | exact Hw | exact Hn].
    - assert (Hwfs : forallb wf_ty fs = true).
      { cbn [wf_ty] in Hwf. apply andb_prop in Hwf. destruct Hwf as [Hwf _]. apply andb_prop in Hwf. destruct Hwf as [Hwf _]. exact Hwf. }
      assert (HF : Forall Pf fs) by (eapply Forall_impl; [|exact IH]; intros f Hf; apply tie_field_of_body; exact Hf).
      destruct u; cbn [Walker.ws_body].
      + destruct v as [| | | | | |k x]; try discriminate. destruct (length fs <=? k); [discriminate|].
        destruct (w_set P buf off _) as [[b1 o1]|] eqn:E1; cbn [bind]; [|discriminate].
        destruct (Walker.ws_sel WF fs k x b1 o1) as [[b2 o2]|] eqn:E2; cbn [bind]; [|discriminate]. intros Hw.
        apply W_set_cursor in E1. rewrite bits_of_N_length in E1. apply W_pad_cursor in Hw.
        cbn [ws_body embed o_tag o_cell]. intros Hn.
        apply nt_bind in Hn. destruct Hn as [Hn1 Hn]. rewrite fst_bindM, (nt_prim _ _ _ _ Hn1). cbn [bind prim_bits].
        specialize (Hn _ (nt_prim _ _ _ _ Hn1)). cbn [prim_bits] in Hn. rewrite <- E1 in *.
        apply nt_bind in Hn. destruct Hn as [Hn2 Hn].
        pose proof (tie_sel fs HF Hwfs k x b1 o1 lim b2 o2 E2 Hn2) as H2. rewrite fst_bindM, H2. cbn [bind].
        specialize (Hn _ H2). rewrite (nt_pad _ _ _ Hn). subst o'. reflexivity.
      + destruct v as [| | | | |vs|]; try discriminate. cbn [ws_body embed o_elems]. intros Hw Hn.
        eapply tie_fields; [exact HF | exact Hwfs | exact Hw | exact Hn].
  Qed.

  (* the routine: whenever the functional serializer produces its bytes, the safety walker reports exactly their number *)
  Theorem walk_ser_safe_size t v buf capB bits : wf_ty t = true -> align t = 8 -> cap_sound c ->
    Walker.walk_ser P t v buf capB = Ok bits -> length buf = 8 * capB ->
    (forall b o, WB t v buf 0 = Ok (b, o) -> length b = length buf) ->
    fst (walk_ser_safe c t (embed t v) capB) = Ok (length bits / 8).
  Proof.
    intros Hwf Ha Hc. unfold Walker.walk_ser, walk_ser_safe, ordered. rewrite Hpl. cbn [pl_ser_impl all_first].
    destruct (8 * capB <? bmax t) eqn:Eb; [discriminate|]. rewrite Bool.andb_false_r. apply Nat.ltb_ge in Eb.
    destruct (WB t v buf 0) as [[b o]|] eqn:E; cbn [bind]; [|discriminate]. intros H Hl Hlen.
    destruct (ws_body_sound c Hpl Hc t Hwf (embed t v) (8 * capB) 0) as (_ & [Hnt _] & H3); [rewrite Ha; reflexivity | lia|].
    pose proof (tie_body t Hwf v buf 0 (8 * capB) b o E Hnt) as Ht. rewrite fst_bindM, Ht.
    destruct (H3 o Ht) as [Hle Hm]. rewrite Ha in Hm.
    assert (Hbits : length bits = (o / 8) * 8).
    { apply Ok_inj in H. subst bits. rewrite firstn_length, (Hlen b o eq_refl), Hl. pose proof (Nat.div_mod_eq o 8).
      remember (o / 8) as q. remember (o mod 8) as r. lia. }
    rewrite Hbits, Nat.div_mul by lia. reflexivity.
  Qed.
End Tie.
