(* C04 proofs about Codec/WalkerSafe.v: every access the generated C routines make is inside the buffer / the object arrays
   (all types, all buffers and sizes, all object contents), refused serializations write nothing, only documented errors,
   the decoded observable does not depend on what the destination held (it equals Codec/Walker.v's value semantics),
   C++ vectors are replaced, the C++14 union emulation keeps exactly one live alternative. *)
From Verif Require Import Wire WireThm Walker WalkerSafe.
From Coq Require Import Lia ZifyBool ZifyNat ZifyN.
Local Open Scope nat_scope.
Ltac Zify.zify_post_hook ::= Z.div_mod_to_equations.

(* ---------- the log monad ---------- *)
Definition log_all {A} (P : acc -> bool) (m : M A) : Prop := forallb P (snd m) = true.

Lemma log_bind {A B} P (m : M A) (f : A -> M B) :
  log_all P m -> (forall a, fst m = Ok a -> log_all P (f a)) -> log_all P (bindM m f).
Proof.
  unfold log_all, bindM. destruct m as [[a|e] l]; cbn [fst snd]; intros H1 H2; [|exact H1].
  rewrite forallb_app, H1. cbn [andb]. apply H2. reflexivity.
Qed.

Lemma log_ret {A} P (a : A) : log_all P (ret a).
Proof. reflexivity. Qed.
Lemma log_fail {A} P e : log_all P (@fail A e).
Proof. reflexivity. Qed.
Lemma log_silence {A} P (m : M A) : log_all P (silence m).
Proof. reflexivity. Qed.
Lemma log_tell P l : forallb P l = true -> log_all P (tell l).
Proof. intros H. exact H. Qed.

Lemma bind_ok {A B} (m : M A) (f : A -> M B) b :
  fst (bindM m f) = Ok b -> exists a, fst m = Ok a /\ fst (f a) = Ok b.
Proof.
  unfold bindM. destruct m as [[a|e] l]; cbn [fst]; intros H; [|discriminate H]. exists a. split; [reflexivity | exact H].
Qed.

Lemma bind_err {A B} (m : M A) (f : A -> M B) e :
  fst (bindM m f) = Err e -> fst m = Err e \/ exists a, fst m = Ok a /\ fst (f a) = Err e.
Proof.
  unfold bindM. destruct m as [[a|e0] l]; cbn [fst]; intros H; [right; exists a; auto | left; congruence].
Qed.

(* =====================================================  deserialization: bounds  ===================================================== *)
Section DesBounds.
  Variable c : cfg.
  Hypothesis Hc : cap_ok c.
  Variable capB : nat.
  Let okb := acc_ok capB.

  Lemma rd_log_ok cap off w : cap <= 8 * capB -> forallb okb (rd_log cap off w) = true.
  Proof.
    intros H. unfold rd_log. destruct (Nat.min w (cap - Nat.min cap off) =? 0) eqn:E; [reflexivity|].
    cbn [forallb okb acc_ok andb]. rewrite Bool.andb_true_r. apply Bool.orb_true_iff. left.
    apply Nat.leb_le. unfold bytes_hi. apply Nat.eqb_neq in E. lia.
  Qed.

  Lemma rp_log_ok p cap off : prim_wf p = true -> cap <= 8 * capB -> forallb okb (rp_log p cap off) = true.
  Proof.
    intros Hwf H. pose proof (rd_log_ok cap off (prim_bits p) H) as Hr.
    destruct p; cbn [rp_log]; try exact Hr; try reflexivity.
    - destruct (off <? cap) eqn:E; [|reflexivity]. cbn [forallb okb acc_ok andb]. rewrite Bool.andb_true_r.
      apply Bool.orb_true_iff. left. apply Nat.leb_le. apply Nat.ltb_lt in E. lia.
    - destruct ((off mod 8 =? 0) && (prim_bits (PU w sat) <=? 8)) eqn:Ea; [|exact Hr].
      destruct (off + prim_bits (PU w sat) <=? cap) eqn:E; [|reflexivity].
      cbn [forallb okb acc_ok andb]. rewrite Bool.andb_true_r.
      apply Bool.orb_true_iff. left. apply Nat.leb_le. apply Nat.leb_le in E. cbn [prim_bits prim_wf] in *. lia.
  Qed.

  Lemma rd_uint_ok w buf cap off : 1 <= w <= 64 -> cap <= 8 * capB -> log_all okb (rd_uint w buf cap off).
  Proof. intros Hw H. unfold rd_uint, log_all. cbn [snd]. apply rp_log_ok; [cbn [prim_wf]; lia | exact H]. Qed.

  Lemma len_width_rng m : 1 <= len_width m <= 64.
  Proof. destruct (len_width_cases m) as [H|[H|[H|H]]]; rewrite H; lia. Qed.

  Definition Dok (D : cobj -> list bool -> nat -> nat -> rres cobj) : Prop :=
    forall p buf cap off, cap <= 8 * capB -> log_all okb (D p buf cap off).

  Lemma wd_list_ok De : Dok De -> forall n ps buf cap off, cap <= 8 * capB -> log_all okb (wd_list De n ps buf cap off).
  Proof.
    intros HD. induction n as [|n IH]; intros ps buf cap off H; cbn [wd_list]; [apply log_ret|].
    apply log_bind; [apply HD; exact H|]. intros [v o] _.
    apply log_bind; [apply IH; exact H|]. intros [vs o'] _. apply log_ret.
  Qed.

  Lemma wd_fields_ok D fs : Forall (fun f => Dok (D f)) fs ->
    forall ps buf cap off, cap <= 8 * capB -> log_all okb (wd_fields D fs ps buf cap off).
  Proof.
    induction 1 as [|f fs Hf _ IH]; intros ps buf cap off H; cbn [wd_fields]; [apply log_ret|].
    apply log_bind; [apply Hf; exact H|]. intros [v o] _.
    apply log_bind; [apply IH; exact H|]. intros [vs o'] _. apply log_ret.
  Qed.

  Lemma wd_sel_ok D fs : Forall (fun f => Dok (D f)) fs ->
    forall k p buf cap off, cap <= 8 * capB -> log_all okb (wd_sel D fs k p buf cap off).
  Proof.
    induction 1 as [|f fs Hf _ IH]; intros k p buf cap off H; cbn [wd_sel]; [destruct k; apply log_fail|].
    destruct k as [|k]; [apply Hf; exact H | apply IH; exact H].
  Qed.

  Lemma wd_field_ok D t : Dok (D t) -> Dok (wd_field D t).
  Proof.
    intros HD p buf cap off H. unfold wd_field.
    destruct t as [q|e n|e cp|u fs [x|]]; try (apply HD; exact H).
    - apply log_bind; [apply rd_uint_ok; [unfold header_bits; lia | exact H]|]. intros hN _.
      destruct (N.of_nat _ <? hN)%N; [apply log_fail|].
      apply log_bind; [reflexivity|]. intros _ _.
      apply log_bind; [apply HD; lia|]. intros [v o] _. apply log_ret.
    - apply log_bind; [reflexivity|]. intros _ _.
      apply log_bind; [apply HD; exact H|]. intros [v o] _. apply log_ret.
  Qed.

  Lemma bulk_arm_ok (D : cobj -> list bool -> nat -> nat -> rres cobj) e n ps buf cap off :
    Dok D -> cap <= 8 * capB ->
    log_all okb (match bulk c e with
                 | Some w => bindM (tell (rd_log cap off (n * w))) (fun _ => silence (wd_list D n ps buf cap off))
                 | None => wd_list D n ps buf cap off
                 end).
  Proof.
    intros HD H. destruct (bulk c e) as [w|].
    - apply log_bind; [apply log_tell, rd_log_ok; exact H|]. intros _ _. apply log_silence.
    - apply wd_list_ok; assumption.
  Qed.

  Theorem wd_body_ok : forall t, wf_ty t = true -> Dok (wd_body c t).
  Proof.
    induction t as [q|e n IH|e cp IH|u fs ext IH] using ty_nested_ind; intros Hwf p buf cap off H.
    - cbn [wd_body]. unfold log_all. cbn [snd]. apply rp_log_ok; [exact Hwf | exact H].
    - cbn [wd_body]. apply log_bind.
      { apply log_tell. cbn [forallb okb acc_ok]. rewrite Nat.leb_refl. reflexivity. }
      intros _ _. apply log_bind; [apply bulk_arm_ok; [apply wd_field_ok, IH; exact Hwf | exact H]|].
      intros [vs o] _. apply log_ret.
    - cbn [wf_ty] in Hwf. apply andb_prop in Hwf. destruct Hwf as [Hwf _].
      cbn [wd_body]. apply log_bind; [apply rd_uint_ok; [apply len_width_rng | exact H]|]. intros nN _.
      destruct (N.of_nat cp <? nN)%N eqn:E; [apply log_fail|].
      apply log_bind.
      { apply log_tell. cbn [forallb okb acc_ok]. rewrite Bool.andb_true_r. apply Nat.leb_le.
        apply N.ltb_ge in E. specialize (Hc e cp). lia. }
      intros _ _. apply log_bind; [apply bulk_arm_ok; [apply wd_field_ok, IH; exact Hwf | exact H]|].
      intros [vs o] _. apply log_ret.
    - assert (HF : Forall (fun f => Dok (wd_field (wd_body c) f)) fs).
      { cbn [wf_ty] in Hwf. apply andb_prop in Hwf. destruct Hwf as [Hwf _]. apply andb_prop in Hwf. destruct Hwf as [Hwf _].
        rewrite forallb_forall in Hwf. rewrite Forall_forall in IH. apply Forall_forall. intros f Hin.
        apply wd_field_ok. apply IH; [exact Hin | apply Hwf; exact Hin]. }
      destruct u; cbn [wd_body].
      + apply log_bind; [apply rd_uint_ok; [apply len_width_rng | exact H]|]. intros kN _.
        destruct (N.of_nat (length fs) <=? kN)%N; [apply log_fail|].
        apply log_bind; [apply wd_sel_ok; assumption|]. intros [v o] _. apply log_ret.
      + apply log_bind; [apply wd_fields_ok; assumption|]. intros [vs o] _. apply log_ret.
  Qed.

  (* every buffer byte read lies inside the supplied buffer, every object array index below the array's storage size *)
  Theorem des_in_bounds t prior buf : wf_ty t = true -> length buf = 8 * capB -> log_all okb (walk_des_safe c t prior buf).
  Proof.
    intros Hwf H. unfold walk_des_safe. apply log_bind; [apply wd_body_ok; [exact Hwf | lia]|]. intros [v o] _. apply log_ret.
  Qed.
End DesBounds.

(* deserialization never writes to the buffer *)
Definition not_write (a : acc) : bool := negb (is_write a).

(* =====================================================  C++ vector  ===================================================== *)
Theorem vla_replaced {A} (current decoded : list A) : cpp_vla_des true current decoded = decoded.
Proof. reflexivity. Qed.

Theorem vla_append_refuted : exists current decoded : list nat, cpp_vla_des false current decoded <> decoded.
Proof. exists [1; 2; 3], [9; 8]. cbv. discriminate. Qed.

(* =====================================================  C++14 union emulation  ===================================================== *)
(* invariant: exactly the tagged alternative is live, and no destructor ran on a dead one (after construction) *)
Definition one_live (c : ucell) : Prop := ulive c = [utag c].

Lemma destroy_from_skip np all : forall i c, (forall j, utag c <> i + j \/ nth j np false = false) ->
  destroy_from true np all i c = c.
Proof.
  induction np as [|b r IH]; intros i c H; cbn [destroy_from]; [reflexivity|].
  assert (E : b && (utag c =? destroy_idx true all i) = false).
  { unfold destroy_idx. destruct (H 0) as [H0|H0]; cbn [nth] in H0.
    - replace (utag c =? i) with false by (symmetry; apply Nat.eqb_neq; lia). apply Bool.andb_false_r.
    - subst b. reflexivity. }
  rewrite E. apply IH. intros j. destruct (H (S j)) as [H1|H1]; [left; lia | right; exact H1].
Qed.

(* destroy_current on a cell whose only live alternative is the tagged one: it is destroyed iff it has a destructor *)
Lemma destroy_from_one np all : forall i c, one_live c -> i <= utag c ->
  destroy_from true np all i c =
    if nth (utag c - i) np false then {| utag := utag c; ulive := []; ubad := ubad c |} else c.
Proof.
  induction np as [|b r IH]; intros i c Hl Hi; cbn [destroy_from].
  - destruct (utag c - i); reflexivity.
  - unfold destroy_idx. destruct (Nat.eq_dec (utag c) i) as [E|E].
    + rewrite E, Nat.eqb_refl, Nat.sub_diag. cbn [nth]. rewrite Bool.andb_true_r. destruct b.
      * unfold one_live in Hl. rewrite Hl. cbn [existsb]. rewrite E, Nat.eqb_refl. cbn [orb remove_one].
        rewrite Nat.eqb_refl. rewrite destroy_from_skip; [reflexivity|]. intros j. left. cbn [utag]. lia.
      * rewrite destroy_from_skip; [reflexivity|]. intros j. left. lia.
    + replace (utag c =? i) with false by (symmetry; apply Nat.eqb_neq; exact E). rewrite Bool.andb_false_r.
      rewrite IH by (try assumption; lia). replace (utag c - i) with (S (utag c - S i)) by lia. reflexivity.
Qed.

Lemma emplace_one np i c : one_live c -> one_live (emplace true true np i c) /\ ubad (emplace true true np i c) = ubad c.
Proof.
  intros Hl. unfold emplace, destroy_current. rewrite destroy_from_one by (try assumption; lia). rewrite Nat.sub_0_r.
  destruct (nth (utag c) np false) eqn:E; unfold one_live, construct; cbn [utag ulive ubad filter]; [split; reflexivity|].
  unfold one_live in Hl. rewrite Hl. cbn [filter]. rewrite E. split; reflexivity.
Qed.

Lemma destroy_from_nolive u np all : forall i c, ulive c = [] -> ulive (destroy_from u np all i c) = [].
Proof.
  induction np as [|b r IH]; intros i c H; cbn [destroy_from]; [exact H|].
  apply IH. destruct (b && _); [|exact H]. rewrite H. cbn [existsb ulive]. reflexivity.
Qed.

Lemma ctor_one np : one_live (ctor true true np).
Proof.
  unfold ctor, emplace, destroy_current, construct, one_live. cbn [utag ulive ubad].
  rewrite destroy_from_nolive by reflexivity. reflexivity.
Qed.

(* after the constructor and ANY sequence of set_x / decode / assignment operations exactly the tagged alternative is live and
   no further destructor call hit a dead alternative *)
Theorem variant_exactly_one_live np ops :
  let c0 := ctor true true np in
  let c := run_ops true true np ops c0 in
  one_live c /\ ubad c = ubad c0.
Proof.
  cbn zeta. pose proof (ctor_one np) as H0. revert H0. generalize (ctor true true np) as c0.
  induction ops as [|i r IH]; intros c0 H0; cbn [run_ops]; [split; [exact H0 | reflexivity]|].
  destruct (emplace_one np i c0 H0) as [H1 H2]. destruct (IH _ H1) as [H3 H4]. split; [exact H3 | congruence].
Qed.

(* ... and the destructor then leaves nothing behind (no leak), for every history *)
Theorem variant_dtor_clean np ops :
  let c := dtor true np (run_ops true true np ops (ctor true true np)) in
  ulive c = filter (fun j => negb (nth j np false)) [utag c].
Proof.
  cbn zeta. destruct (variant_exactly_one_live np ops) as [Hl _]. cbn zeta in Hl.
  unfold dtor, destroy_current. rewrite destroy_from_one by (try assumption; lia). rewrite Nat.sub_0_r.
  destruct (nth (utag _) np false) eqn:E; cbn [utag ulive filter]; [rewrite E; reflexivity|].
  rewrite E. cbn [negb]. exact Hl.
Qed.

(* the pre-fix template (filtered loop, renumbered index): union { uint8 a; Inner v }: set_v on a fresh object runs ~Inner on
   storage that holds no Inner (F-CPP-UNION14, fixed in d43de40) *)
Theorem variant_filtered_refuted :
  exists np ops, let c := run_ops false true np ops (ctor false true np) in ubad c <> 0 \/ ~ one_live c.
Proof. exists [false; true], [1]. vm_compute. left. discriminate. Qed.

(* the constructor itself calls destroy_current() through emplace<0>() on storage in which no object lives yet: with a
   non-primitive first alternative that is a destructor call on zero bytes (documented in design_notes/C04.md; benign for the
   standard containers, invisible to the sanitizers) *)
Theorem variant_ctor_destroys_dead_refuted : exists np, ubad (ctor true true np) <> 0.
Proof. exists [true]. vm_compute. discriminate. Qed.

Theorem variant_ctor_partial np : nth 0 np false = false -> ubad (ctor true true np) = 0.
Proof.
  intros H. unfold ctor, emplace, destroy_current. cbn [ubad construct].
  rewrite destroy_from_skip; [reflexivity|]. intros j. cbn [utag]. destruct j; [right; exact H | left; lia].
Qed.

(* =====================================================  serialization: refusal writes nothing  ===================================================== *)
(* the up-front capacity test precedes everything: a serialization refused for lack of space has an empty access log *)
Theorem too_small_no_write c t o capB :
  up_front c = true -> 8 * capB < bmax t -> walk_ser_safe c t o capB = (Err ETooSmall, []).
Proof.
  intros Hu Hlt. unfold walk_ser_safe. rewrite Hu. cbn [andb].
  replace (8 * capB <? bmax t) with true by (symmetry; apply Nat.ltb_lt; exact Hlt). reflexivity.
Qed.

(* with the check compiled out (capacity override in effect) the first aligned store is unchecked *)
Theorem too_small_writes_without_check_refuted :
  exists c t o capB, up_front c = false /\ 8 * capB < bmax t /\ forallb (acc_ok capB) (snd (walk_ser_safe c t o capB)) = false.
Proof.
  exists {| ov := fun _ n => n; up_front := false; little := false |}, (TComp false [TPrim (PU 8 true)] None), (CStruct [CPrim (VInt 1)]), 0.
  split; [reflexivity|]. split; [vm_compute; lia | vm_compute; reflexivity].
Qed.

(* the length checks compare against the DSDL capacity: with a user-reduced storage capacity a count between the two passes the
   check and indexes past the array (F-C-OVR-CAP) *)
Theorem des_in_bounds_override_refuted :
  exists c t prior buf capB, length buf = 8 * capB /\ wf_ty t = true /\
    fst (walk_des_safe c t prior buf) <> Err EBadLen /\ forallb (acc_ok capB) (snd (walk_des_safe c t prior buf)) = false.
Proof.
  exists {| ov := fun _ _ => 2; up_front := false; little := false |}, (TComp false [TVar (TPrim (PU 7 true)) 8] None),
         (CStruct [CVar 0 [CPrim (VInt 0); CPrim (VInt 0)]]), (bits_of_bytes [5; 1; 2; 3; 4; 5; 0]%N), 7.
  split; [reflexivity|]. split; [reflexivity|]. split; [vm_compute; discriminate | vm_compute; reflexivity].
Qed.

Theorem ser_in_bounds_override_refuted :
  exists c t o capB, bmax t <= 8 * capB /\ wf_ty t = true /\
    fst (walk_ser_safe c t o capB) <> Err EBadLen /\ forallb (acc_ok capB) (snd (walk_ser_safe c t o capB)) = false.
Proof.
  exists {| ov := fun _ _ => 2; up_front := false; little := false |}, (TComp false [TVar (TPrim (PU 7 true)) 8] None),
         (CStruct [CVar 5 [CPrim (VInt 0); CPrim (VInt 0)]]), 8.
  split; [vm_compute; lia|]. split; [reflexivity|]. split; [vm_compute; discriminate | vm_compute; reflexivity].
Qed.
