(* C04 proofs about Codec/WalkerSafe.v: every access the generated C routines make is inside the buffer / the object arrays
   (all types, all buffers and sizes, all object contents), refused serializations write nothing, only documented errors,
   the decoded observable does not depend on what the destination held (it equals Codec/Walker.v's value semantics),
   C++ vectors are replaced, the C++14 union emulation keeps exactly one live alternative. *)
From Verif Require Import Wire WireThm Walker WalkerSafe Gen_C01 GenC01Thm.
From Coq Require Import Lia ZifyBool ZifyNat ZifyN.
Local Open Scope nat_scope.
Ltac Zify.zify_post_hook ::= Z.div_mod_to_equations.

(* ---------- the log monad ---------- *)
Definition log_all {A} (P : acc -> bool) (m : M A) : Prop := forallb P (snd m) = true.

Lemma log_bind {A B} P (m : M A) (f : A -> M B) :
  log_all P m -> (forall a, fst m = Ok a -> log_all P (f a)) -> log_all P (bindM m f).
Proof.
  unfold log_all, bindM. destruct m as [[a|e] l]; cbn [fst snd]; intros H1 H2; [|exact H1].
  rewrite forallb_app, H1. cbn [andb]. apply H2. reflexivity.
Qed.

Lemma log_ret {A} P (a : A) : log_all P (ret a).
Proof. reflexivity. Qed.
Lemma log_fail {A} P e : log_all P (@fail A e).
Proof. reflexivity. Qed.
Lemma log_silence {A} P (m : M A) : log_all P (silence m).
Proof. reflexivity. Qed.
Lemma log_tell P l : forallb P l = true -> log_all P (tell l).
Proof. intros H. exact H. Qed.

Lemma bind_ok {A B} (m : M A) (f : A -> M B) b :
  fst (bindM m f) = Ok b -> exists a, fst m = Ok a /\ fst (f a) = Ok b.
Proof.
  unfold bindM. destruct m as [[a|e] l]; cbn [fst]; intros H; [|discriminate H]. exists a. split; [reflexivity | exact H].
Qed.

Lemma bind_err {A B} (m : M A) (f : A -> M B) e :
  fst (bindM m f) = Err e -> fst m = Err e \/ exists a, fst m = Ok a /\ fst (f a) = Err e.
Proof.
  unfold bindM. destruct m as [[a|e0] l]; cbn [fst]; intros H; [right; exists a; auto | left; congruence].
Qed.

(* =====================================================  deserialization: bounds  ===================================================== *)
Section DesBounds.
  Variable c : cfg.
  Hypothesis Hpl : plan_ok c.
  Hypothesis Hc : cap_sound c.
  Variable capB : nat.
  (* accesses in bounds, and - in the rendering that clamps the nested pointer - every pointer formed inside [buffer, buffer+size] *)
  Definition okp (a : acc) : bool := acc_ok capB a && (if ptr_clamp c then ptr_ok capB a else true).
  Let okb := okp.

  Lemma okb_br lo hi : hi <= capB -> okb (BR lo hi) = true.
  Proof.
    intros H. unfold okb, okp. cbn [acc_ok ptr_ok]. replace (hi <=? capB) with true by (symmetry; apply Nat.leb_le; exact H).
    destruct (ptr_clamp c); reflexivity.
  Qed.
  Lemma okb_oa s n : n <= s -> okb (OA s n) = true.
  Proof.
    intros H. unfold okb, okp. cbn [acc_ok ptr_ok]. replace (n <=? s) with true by (symmetry; apply Nat.leb_le; exact H).
    destruct (ptr_clamp c); reflexivity.
  Qed.
  Lemma okb_bp cap o : cap <= 8 * capB -> okb (BP (ptr_at c cap o)) = true.
  Proof.
    intros H. unfold okb, okp, ptr_at. cbn [acc_ok ptr_ok andb]. destruct (ptr_clamp c); [|reflexivity]. apply Nat.leb_le. lia.
  Qed.
  Lemma chk_cap_le_ov e cp : chk_cap c e cp <= ov c e cp.
  Proof. unfold chk_cap. destruct Hc as [H|H]; [rewrite H; lia | destruct (len_chk_storage c); [lia | apply H]]. Qed.

  Lemma rd_log_ok cap off w : cap <= 8 * capB -> forallb okb (rd_log cap off w) = true.
  Proof.
    intros H. unfold rd_log. destruct (Nat.min w (cap - Nat.min cap off) =? 0) eqn:E; [reflexivity|].
    cbn [forallb]. rewrite okb_br; [reflexivity|]. unfold bytes_hi. apply Nat.eqb_neq in E. lia.
  Qed.

  Lemma rp_log_ok p cap off : prim_wf p = true -> cap <= 8 * capB -> forallb okb (rp_log c p cap off) = true.
  Proof.
    intros Hwf H. pose proof (rd_log_ok cap off (prim_bits p) H) as Hr.
    destruct p; cbn [rp_log]; try exact Hr; try reflexivity.
    - destruct (off <? cap) eqn:E; [|reflexivity]. cbn [forallb]. rewrite okb_br; [reflexivity|]. apply Nat.ltb_lt in E. lia.
    - destruct (al c off && (prim_bits (PU w sat) <=? 8)) eqn:Ea; [|exact Hr].
      destruct (off + prim_bits (PU w sat) <=? cap) eqn:E; [|reflexivity].
      cbn [forallb]. rewrite okb_br; [reflexivity|]. apply Nat.leb_le in E. cbn [prim_bits prim_wf] in *. lia.
  Qed.

  Lemma rd_uint_ok w buf cap off : 1 <= w <= 64 -> cap <= 8 * capB -> log_all okb (rd_uint c w buf cap off).
  Proof. intros Hw H. unfold rd_uint, log_all. cbn [snd]. apply rp_log_ok; [cbn [prim_wf]; lia | exact H]. Qed.

  Lemma len_width_rng m : 1 <= len_width m <= 64.
  Proof. destruct (len_width_cases m) as [H|[H|[H|H]]]; rewrite H; lia. Qed.

  Definition Dok (D : cobj -> list bool -> nat -> nat -> rres cobj) : Prop :=
    forall p buf cap off, cap <= 8 * capB -> log_all okb (D p buf cap off).

  Lemma wd_list_ok De : Dok De -> forall n ps buf cap off, cap <= 8 * capB -> log_all okb (wd_list De n ps buf cap off).
  Proof.
    intros HD. induction n as [|n IH]; intros ps buf cap off H; cbn [wd_list]; [apply log_ret|].
    apply log_bind; [apply HD; exact H|]. intros [v o] _.
    apply log_bind; [apply IH; exact H|]. intros [vs o'] _. apply log_ret.
  Qed.

  Lemma wd_fields_ok D fs : Forall (fun f => Dok (D f)) fs ->
    forall ps buf cap off, cap <= 8 * capB -> log_all okb (wd_fields D fs ps buf cap off).
  Proof.
    induction 1 as [|f fs Hf _ IH]; intros ps buf cap off H; cbn [wd_fields]; [apply log_ret|].
    apply log_bind; [apply Hf; exact H|]. intros [v o] _.
    apply log_bind; [apply IH; exact H|]. intros [vs o'] _. apply log_ret.
  Qed.

  Lemma wd_sel_ok D fs : Forall (fun f => Dok (D f)) fs ->
    forall k p buf cap off, cap <= 8 * capB -> log_all okb (wd_sel D fs k p buf cap off).
  Proof.
    induction 1 as [|f fs Hf _ IH]; intros k p buf cap off H; cbn [wd_sel]; [destruct k; apply log_fail|].
    destruct k as [|k]; [apply Hf; exact H | apply IH; exact H].
  Qed.

  Lemma wd_field_ok D t : Dok (D t) -> Dok (wd_field c D t).
  Proof.
    intros HD p buf cap off H. unfold wd_field.
    destruct t as [q|e n|e cp|u fs [x|]]; try (apply HD; exact H).
    - apply log_bind; [apply rd_uint_ok; [unfold header_bits; lia | exact H]|]. intros hN _.
      unfold ordered; rewrite Hpl; cbn [pl_ser_impl pl_ser_vla pl_des_vla pl_des_hdr all_first]. destruct (N.of_nat _ <? hN)%N; [apply log_fail|].
      apply log_bind; [apply log_tell; cbn [forallb]; rewrite okb_bp by exact H; reflexivity|]. intros _ _.
      apply log_bind; [apply HD; lia|]. intros [v o] _. apply log_ret.
    - apply log_bind; [apply log_tell; cbn [forallb]; rewrite okb_bp by exact H; reflexivity|]. intros _ _.
      apply log_bind; [apply HD; exact H|]. intros [v o] _. apply log_ret.
  Qed.

  Lemma bulk_arm_ok (D : cobj -> list bool -> nat -> nat -> rres cobj) e n ps buf cap off :
    Dok D -> cap <= 8 * capB ->
    log_all okb (match bulk c e with
                 | Some w => bindM (tell (rd_log cap off (n * w))) (fun _ => silence (wd_list D n ps buf cap off))
                 | None => wd_list D n ps buf cap off
                 end).
  Proof.
    intros HD H. destruct (bulk c e) as [w|].
    - apply log_bind; [apply log_tell, rd_log_ok; exact H|]. intros _ _. apply log_silence.
    - apply wd_list_ok; assumption.
  Qed.

  Theorem wd_body_ok : forall t, wf_ty t = true -> Dok (wd_body c t).
  Proof.
    induction t as [q|e n IH|e cp IH|u fs ext IH] using ty_nested_ind; intros Hwf p buf cap off H.
    - cbn [wd_body]. unfold log_all. cbn [snd]. apply rp_log_ok; [exact Hwf | exact H].
    - cbn [wd_body]. apply log_bind.
      { apply log_tell. cbn [forallb]. rewrite okb_oa by lia. reflexivity. }
      intros _ _. apply log_bind; [apply bulk_arm_ok; [apply wd_field_ok, IH; exact Hwf | exact H]|].
      intros [vs o] _. apply log_ret.
    - cbn [wf_ty] in Hwf. apply andb_prop in Hwf. destruct Hwf as [Hwf _].
      cbn [wd_body]. apply log_bind; [apply rd_uint_ok; [apply len_width_rng | exact H]|]. intros nN _.
      unfold ordered; rewrite Hpl; cbn [pl_ser_impl pl_ser_vla pl_des_vla pl_des_hdr all_first]. destruct (N.of_nat (chk_cap c e cp) <? nN)%N eqn:E; [apply log_fail|].
      apply log_bind.
      { apply log_tell. cbn [forallb]. rewrite okb_oa; [reflexivity|].
        apply N.ltb_ge in E. pose proof (chk_cap_le_ov e cp). lia. }
      intros _ _. apply log_bind; [apply bulk_arm_ok; [apply wd_field_ok, IH; exact Hwf | exact H]|].
      intros [vs o] _. apply log_ret.
    - assert (HF : Forall (fun f => Dok (wd_field c (wd_body c) f)) fs).
      { cbn [wf_ty] in Hwf. apply andb_prop in Hwf. destruct Hwf as [Hwf _]. apply andb_prop in Hwf. destruct Hwf as [Hwf _].
        rewrite forallb_forall in Hwf. rewrite Forall_forall in IH. apply Forall_forall. intros f Hin.
        apply wd_field_ok. apply IH; [exact Hin | apply Hwf; exact Hin]. }
      destruct u; cbn [wd_body].
      + apply log_bind; [apply rd_uint_ok; [apply len_width_rng | exact H]|]. intros kN _.
        destruct (N.of_nat (length fs) <=? kN)%N; [apply log_fail|].
        apply log_bind; [apply wd_sel_ok; assumption|]. intros [v o] _. apply log_ret.
      + apply log_bind; [apply wd_fields_ok; assumption|]. intros [vs o] _. apply log_ret.
  Qed.

  (* every buffer byte read lies inside the supplied buffer, every object array index below the array's storage size *)
  Lemma des_okp t prior buf : wf_ty t = true -> length buf = 8 * capB -> log_all okb (walk_des_safe c t prior buf).
  Proof.
    intros Hwf H. unfold walk_des_safe. apply log_bind; [apply wd_body_ok; [exact Hwf | lia]|]. intros [v o] _. apply log_ret.
  Qed.

  Lemma forallb_weaken {A} (P Q : A -> bool) l : (forall a, P a = true -> Q a = true) -> forallb P l = true -> forallb Q l = true.
  Proof.
    intros H. induction l as [|a r IH]; cbn [forallb]; [auto|]. intros H1. apply andb_prop in H1. destruct H1 as [Ha Hr].
    rewrite (H a Ha), (IH Hr). reflexivity.
  Qed.

  (* every buffer byte read lies inside the supplied buffer, every object array index below the array's storage size *)
  Theorem des_in_bounds t prior buf : wf_ty t = true -> length buf = 8 * capB -> log_all (acc_ok capB) (walk_des_safe c t prior buf).
  Proof.
    intros Hwf H. pose proof (des_okp t prior buf Hwf H) as Hk. unfold log_all in *. revert Hk. apply forallb_weaken.
    intros a Ha. unfold okb, okp in Ha. apply andb_prop in Ha. apply Ha.
  Qed.

  (* ... and every pointer handed to a nested routine points into [buffer, buffer + size] (the clamped rendering) *)
  Theorem des_ptr_in_bounds t prior buf : ptr_clamp c = true -> wf_ty t = true -> length buf = 8 * capB ->
    log_all (ptr_ok capB) (walk_des_safe c t prior buf).
  Proof.
    intros Hp Hwf H. pose proof (des_okp t prior buf Hwf H) as Hk. unfold log_all in *. revert Hk. apply forallb_weaken.
    intros a Ha. unfold okb, okp in Ha. rewrite Hp in Ha. apply andb_prop in Ha. apply Ha.
  Qed.
End DesBounds.

(* deserialization never writes to the buffer *)
Definition not_write (a : acc) : bool := negb (is_write a).

(* =====================================================  serialization: refusal writes nothing  ===================================================== *)
(* the up-front capacity test precedes everything: a serialization refused for lack of space has an empty access log *)
Theorem too_small_no_write c t o capB : plan_ok c ->
  up_front c = true -> 8 * capB < bmax t -> walk_ser_safe c t o capB = (Err ETooSmall, []).
Proof.
  intros Hpl Hu Hlt. unfold walk_ser_safe. unfold ordered; rewrite Hpl; cbn [pl_ser_impl pl_ser_vla pl_des_vla pl_des_hdr all_first]. rewrite Hu. cbn [andb].
  replace (8 * capB <? bmax t) with true by (symmetry; apply Nat.ltb_lt; exact Hlt). reflexivity.
Qed.

(* =====================================================  serialization: bounds  ===================================================== *)
(* all bytes written end at or before bit E; object array indices inside the storage *)
Definition bw_le (E : nat) (a : acc) : bool :=
  match a with BR lo hi | BW lo hi => hi <=? bytes_hi E | OA s n => n <=? s | _ => true end.

Lemma bw_le_mono E1 E2 a : E1 <= E2 -> bw_le E1 a = true -> bw_le E2 a = true.
Proof.
  intros H. destruct a; cbn [bw_le]; auto; intros H1; apply Nat.leb_le in H1; apply Nat.leb_le; unfold bytes_hi in *; lia.
Qed.

Lemma bw_le_all_mono E1 E2 l : E1 <= E2 -> forallb (bw_le E1) l = true -> forallb (bw_le E2) l = true.
Proof.
  intros H. induction l as [|a r IH]; cbn [forallb]; [auto|]. intros H1. apply andb_prop in H1. destruct H1 as [Ha Hr].
  rewrite (bw_le_mono _ _ _ H Ha), (IH Hr). reflexivity.
Qed.

(* a step that starts somewhere below E: writes end by E, never reports TOO_SMALL, finishes by E on a multiple of al *)
Definition noabort {A} (r : res A) : Prop := r <> Err ETooSmall /\ r <> Err EAssert.
Definition sstep (al E : nat) (m : M nat) : Prop :=
  log_all (bw_le E) m /\ noabort (fst m) /\ forall o', fst m = Ok o' -> o' <= E /\ o' mod al = 0.

Lemma sstep_weaken al E1 E2 m : E1 <= E2 -> sstep al E1 m -> sstep al E2 m.
Proof.
  intros H (H1 & H2 & H3). split; [|split]; [eapply bw_le_all_mono; eassumption | exact H2|].
  intros o' Ho. destruct (H3 o' Ho). split; [lia | assumption].
Qed.

Lemma sstep_al1 al E m : sstep al E m -> sstep 1 E m.
Proof. intros (H1 & H2 & H3). split; [|split]; auto. intros o' Ho. destruct (H3 o' Ho). split; [assumption | apply Nat.mod_1_r]. Qed.

Lemma sstep_bind al al' E1 E (m : M nat) f :
  E1 <= E -> sstep al E1 m -> (forall o, fst m = Ok o -> o <= E1 -> o mod al = 0 -> sstep al' E (f o)) -> sstep al' E (bindM m f).
Proof.
  intros HE (H1 & H2 & H3) Hf. destruct m as [[o|e] l]; cbn [fst snd] in *.
  - destruct (H3 o eq_refl) as [Ho Hm]. destruct (Hf o eq_refl Ho Hm) as (F1 & F2 & F3).
    unfold bindM. split; [|split]; cbn [fst snd]; [|exact F2 | exact F3].
    unfold log_all in *. cbn [snd] in *. rewrite forallb_app, (bw_le_all_mono _ _ _ HE H1). exact F1.
  - unfold bindM. split; [|split]; cbn [fst snd]; [eapply bw_le_all_mono; eassumption | destruct H2; split; congruence | intros o' Ho; discriminate Ho].
Qed.

Lemma sstep_tell al E l (m : M nat) : forallb (bw_le E) l = true -> sstep al E m -> sstep al E (bindM (tell l) (fun _ => m)).
Proof.
  intros Hl (H1 & H2 & H3). unfold bindM, tell. split; [|split]; cbn [fst snd]; [|exact H2 | exact H3].
  unfold log_all in *. cbn [snd]. rewrite forallb_app, Hl. exact H1.
Qed.

Lemma sstep_ret al E o : o <= E -> o mod al = 0 -> sstep al E (ret o).
Proof. intros H1 H2. split; [reflexivity|]. split; [split; discriminate|]. intros o' Ho. injection Ho as <-. auto. Qed.

Lemma sstep_fail al E e : e <> ETooSmall -> e <> EAssert -> sstep al E (@fail nat e).
Proof. intros H H'. split; [reflexivity|]. split; [split; cbn; congruence|]. intros o' Ho. discriminate Ho. Qed.

Lemma sstep_raw off w : sstep 1 (off + w) (w_raw off w).
Proof.
  unfold w_raw. split; [|split]; cbn [fst snd]; [|split; discriminate|].
  - unfold log_all. cbn [snd forallb bw_le]. rewrite Nat.leb_refl. reflexivity.
  - intros o' Ho. injection Ho as <-. split; [lia | apply Nat.mod_1_r].
Qed.

Lemma sstep_checked lim off w : off + w <= lim -> sstep 1 (off + w) (w_checked lim off w).
Proof.
  intros H. unfold w_checked. replace (lim <? off + w) with false by (symmetry; apply Nat.ltb_ge; exact H). apply sstep_raw.
Qed.

Lemma sstep_store c lim off w : off + w <= lim -> sstep 1 (off + w) (w_store c lim off w).
Proof. intros H. unfold w_store. destruct (guarded c); [apply sstep_checked; exact H | apply sstep_raw]. Qed.

Lemma sstep_guard c lim off w al : off + w <= lim -> (off + w) mod al = 0 -> sstep al (off + w) (w_guard c lim off w).
Proof.
  intros H Hm. unfold w_guard. replace (lim <? off + w) with false by (symmetry; apply Nat.ltb_ge; exact H).
  rewrite Bool.andb_false_r. apply sstep_ret; [lia | exact Hm].
Qed.

Lemma sstep_nest c lim o1 sz al : o1 + sz <= lim -> o1 mod al = 0 -> sstep al o1 (w_nest c lim o1 sz).
Proof.
  intros H Hm. unfold w_nest. replace (lim <? o1) with false by (symmetry; apply Nat.ltb_ge; lia).
  replace (lim <? o1 + sz) with false by (symmetry; apply Nat.ltb_ge; exact H). rewrite !Bool.andb_false_r. cbn [orb].
  apply sstep_ret; [lia | exact Hm].
Qed.

Lemma guard_exact c lim off w o : fst (w_guard c lim off w) = Ok o -> o = off + w.
Proof. unfold w_guard. destruct (guarded c && _); [discriminate|]. cbn. intros H. injection H as <-. reflexivity. Qed.

Lemma raw_exact off w o : fst (w_raw off w) = Ok o -> o = off + w.
Proof. cbn. intros H. injection H as <-. reflexivity. Qed.
Lemma checked_exact lim off w o : fst (w_checked lim off w) = Ok o -> o = off + w.
Proof. unfold w_checked. destruct (lim <? off + w); [discriminate | apply raw_exact]. Qed.
Lemma store_exact c lim off w o : fst (w_store c lim off w) = Ok o -> o = off + w.
Proof. unfold w_store. destruct (guarded c); [apply checked_exact | apply raw_exact]. Qed.

Lemma ws_prim_sound c p lim off : off + prim_bits p <= lim -> sstep 1 (off + prim_bits p) (ws_prim c p lim off).
Proof.
  intros H. destruct p; cbn [ws_prim prim_bits] in *;
    repeat match goal with |- context [if ?b then _ else _] => destruct b end; first [apply sstep_store | apply sstep_checked]; exact H.
Qed.

Lemma ws_prim_exact c p lim off o : fst (ws_prim c p lim off) = Ok o -> o = off + prim_bits p.
Proof.
  destruct p; cbn [ws_prim prim_bits];
    repeat match goal with |- context [if ?b then _ else _] => destruct b end; intros H;
    first [apply store_exact in H | apply checked_exact in H]; exact H.
Qed.

Lemma ws_pad_sound lim off a : a = 1 \/ a = 8 -> off + padn off a <= lim -> sstep a (off + padn off a) (ws_pad lim off a).
Proof.
  intros Ha H. unfold ws_pad. destruct (off mod a =? 0) eqn:E.
  - apply Nat.eqb_eq in E. apply sstep_ret; [lia|]. unfold padn. destruct Ha; subst a; lia.
  - apply Nat.eqb_neq in E. assert (Hp : padn off a = a - off mod a) by (unfold padn; destruct Ha; subst a; lia).
    rewrite Hp in *. destruct (sstep_checked lim off (a - off mod a) H) as (H1 & H2 & H3).
    split; [exact H1|]. split; [exact H2|]. intros o' Ho. destruct (H3 o' Ho) as [Hle _]. split; [exact Hle|].
    apply checked_exact in Ho. subst o'. destruct Ha; subst a; lia.
Qed.

Lemma padn_shift S x a : S mod 8 = 0 -> a = 1 \/ a = 8 -> S + x + padn (S + x) a = S + (x + padn x a).
Proof. intros HS [->| ->]; unfold padn; lia. Qed.

Lemma fs_ge B fs : forall x, x <= fields_sum B fs x.
Proof.
  induction fs as [|f r IH]; intros x; cbn [fields_sum]; [lia|].
  etransitivity; [|apply IH]. lia.
Qed.

Lemma bulk_prim c e w : bulk c e = Some w -> w = fmax e /\ align e = 1.
Proof.
  unfold bulk. destruct (negb (bulk_on c)); [discriminate|]. destruct e as [p| | |]; try discriminate. destruct p; try discriminate;
    try (destruct (zero_cost c _); [|discriminate]); intros H; injection H as <-; split; reflexivity.
Qed.

Section SerBounds.
  Variable c : cfg.
  Hypothesis Hpl : plan_ok c.
  Hypothesis Hc : cap_sound c.

  Definition Pb (t : ty) : Prop := wf_ty t = true -> forall o lim off,
    off mod align t = 0 -> off + bmax t <= lim -> sstep (align t) (off + bmax t) (ws_body c t o lim off).
  Definition Pf (t : ty) : Prop := wf_ty t = true -> forall o lim off,
    off mod align t = 0 -> off + fmax t <= lim -> sstep (align t) (off + fmax t) (ws_any c (ws_body c) t o lim off).

  Lemma fs_mod8 B fs : forall x, fields_sum B fs x mod 8 = 0.
  Proof. induction fs as [|f r IH]; intros x; cbn [fields_sum]; [apply (proj1 (pad8_spec x)) | apply IH]. Qed.

  Lemma bmax_comp_mod8 u fs ext : bmax (TComp u fs ext) mod 8 = 0.
  Proof. destruct u; cbn [bmax]; [apply (proj1 (pad8_spec _)) | apply fs_mod8]. Qed.

  Lemma nlim_ge o1 sz lim b : o1 + b <= o1 + sz -> o1 + b <= lim -> o1 + b <= (if guarded c then Nat.min (o1 + sz) lim else o1 + sz).
  Proof. intros H1 H2. destruct (guarded c); lia. Qed.

  Lemma field_of_body t : Pb t -> Pf t.
  Proof.
    intros Hb Hwf o lim off Hal Hlim. unfold ws_any.
    assert (Has : w_assert c (off + as_field_max bmax t <=? lim) = ret tt).
    { unfold w_assert. replace (off + as_field_max bmax t <=? lim) with true by (symmetry; apply Nat.leb_le; exact Hlim).
      cbn [negb]. rewrite Bool.andb_false_r. reflexivity. }
    rewrite Has. apply sstep_tell; [reflexivity|]. unfold ws_field, fmax, as_field_max in *.
    destruct t as [p|e n|e cp|u fs [x|]]; try (apply Hb; assumption).
    - (* delimited *)
      destruct (wf_extent _ _ _ Hwf) as [Hx Hx8]. assert (Hal8 : off mod 8 = 0) by exact Hal. set (t := TComp u fs (Some x)) in *.
      pose proof (bmax_comp_mod8 u fs (Some x)) as Hm8. fold t in Hm8.
      assert (Hsz : 8 * bytes_hi (bmax t) = bmax t) by (unfold bytes_hi; lia).
      unfold header_bits in *. rewrite Hsz.
      destruct (bmin t =? bmax t).
      + eapply sstep_bind with (E1 := off + 32); [lia | apply (ws_prim_sound c (PU 32 false)); cbn [prim_bits]; lia|].
        intros o1 Ho1 _ _. apply ws_prim_exact in Ho1. cbn [prim_bits] in Ho1. subst o1.
        eapply sstep_bind with (E1 := off + 32) (al := 1); [lia | apply sstep_nest; [rewrite ?Hsz; lia | apply Nat.mod_1_r]|].
        intros _ _ _ _. apply sstep_tell; [reflexivity|].
        eapply sstep_weaken; [|apply Hb; [exact Hwf | unfold t; cbn [align]; lia | apply nlim_ge; lia]]. lia.
      + eapply sstep_bind with (E1 := off + 32) (al := 1); [lia | apply sstep_guard; [lia | apply Nat.mod_1_r]|].
        intros o1 Ho1 _ _. apply guard_exact in Ho1. subst o1.
        eapply sstep_bind with (E1 := off + 32) (al := 1); [lia | apply sstep_nest; [rewrite ?Hsz; lia | apply Nat.mod_1_r]|].
        intros _ _ _ _. apply sstep_tell; [reflexivity|].
        eapply sstep_bind with (E1 := off + 32 + bmax t) (al := 8);
          [lia | apply Hb; [exact Hwf | unfold t; cbn [align]; lia | apply nlim_ge; lia]|].
        intros o2 _ Ho2 Hm2.
        eapply sstep_bind with (E1 := off + 32) (al := 1); [lia | destruct (little c); [apply sstep_store | apply sstep_checked]; lia|].
        intros _ _ _ _. apply sstep_ret; [lia | exact Hm2].
    - (* sealed *)
      pose proof (bmax_comp_mod8 u fs None) as Hm8. set (t := TComp u fs None) in *.
      assert (Hsz : 8 * bytes_hi (bmax t) = bmax t) by (unfold bytes_hi; lia). rewrite Hsz.
      eapply sstep_bind with (E1 := off) (al := 1); [lia | apply sstep_nest; [rewrite ?Hsz; lia | apply Nat.mod_1_r]|].
      intros _ _ _ _. apply sstep_tell; [reflexivity|]. apply Hb; [exact Hwf | exact Hal | apply nlim_ge; lia].
  Qed.

  Lemma ws_list_sound e lim : Pf e -> wf_ty e = true -> forall n l off,
    off mod align e = 0 -> off + n * fmax e <= lim ->
    sstep (align e) (off + n * fmax e) (ws_list (fun x off' => ws_any c (ws_body c) e x lim off') n l off).
  Proof.
    intros He Hwf. induction n as [|n IH]; intros l off Hal Hlim; cbn [ws_list].
    - apply sstep_ret; [lia | exact Hal].
    - eapply sstep_bind with (E1 := off + fmax e); [lia | apply He; [exact Hwf | exact Hal | lia]|].
      intros o _ Ho Hm. eapply sstep_weaken; [|apply IH; [exact Hm | lia]]. lia.
  Qed.

  Lemma ws_fields_sound fs : Forall Pf fs -> forallb wf_ty fs = true -> forall S os lim off omax,
    S mod 8 = 0 -> off <= S + omax -> S + fields_sum fmax fs omax <= lim ->
    sstep 8 (S + fields_sum fmax fs omax) (ws_fields (ws_any c (ws_body c)) fs os lim off).
  Proof.
    induction 1 as [|f fs Hf _ IH]; intros Hwf S os lim off omax HS Hoff Hlim; cbn [ws_fields fields_sum] in *.
    - pose proof (rup8_mono off (S + omax) Hoff). assert (pad8 (S + omax) = pad8 omax) by (unfold pad8; lia).
      eapply sstep_weaken; [|apply ws_pad_sound; [right; reflexivity | rewrite padn_8; lia]]. rewrite padn_8. lia.
    - apply andb_prop in Hwf. destruct Hwf as [Hwf1 Hwf2].
      pose proof (rupn_mono off (S + omax) f Hoff) as Hr. pose proof (align_cases f) as Ha.
      rewrite (padn_shift S omax (align f) HS Ha) in Hr.
      pose proof (fs_ge fmax fs (omax + padn omax (align f) + fmax f)) as Hge.
      eapply sstep_bind with (E1 := off + padn off (align f)); [lia | apply ws_pad_sound; [exact Ha | lia]|].
      intros o1 _ Ho1 Hm1.
      eapply sstep_bind with (E1 := o1 + fmax f); [lia | apply Hf; [exact Hwf1 | exact Hm1 | lia]|].
      intros o2 _ Ho2 _. apply IH; [exact Hwf2 | exact HS | lia | exact Hlim].
  Qed.

  Lemma ws_sel_sound fs : Forall Pf fs -> forallb wf_ty fs = true -> forall k o lim off,
    off mod 8 = 0 -> off + fields_max fmax fs <= lim ->
    sstep 1 (off + fields_max fmax fs) (ws_sel (ws_any c (ws_body c)) fs k o lim off).
  Proof.
    induction 1 as [|f fs Hf _ IH]; intros Hwf k o lim off Hal Hlim; cbn [ws_sel fields_max] in *.
    - destruct k; apply sstep_fail; discriminate.
    - apply andb_prop in Hwf. destruct Hwf as [Hwf1 Hwf2]. destruct k as [|k].
      + apply sstep_al1 with (al := align f). eapply sstep_weaken; [|apply Hf; [exact Hwf1 | destruct (align_cases f) as [-> | ->]; lia | lia]]. lia.
      + eapply sstep_weaken; [|apply IH; [exact Hwf2 | exact Hal | lia]]. lia.
  Qed.

  Theorem ws_body_sound : forall t, Pb t.
  Proof.
    induction t as [p|e n IH|e cp IH|u fs ext IH] using ty_nested_ind; intros Hwf o lim off Hal Hlim.
    - cbn [ws_body bmax align] in *. eapply sstep_al1. apply ws_prim_sound. exact Hlim.
    - cbn [ws_body bmax align wf_ty] in *. fold (fmax e) in *.
      apply sstep_tell; [cbn [forallb bw_le]; rewrite Nat.leb_refl; reflexivity|].
      destruct (bulk c e) as [w|] eqn:Eb.
      + destruct (bulk_prim _ _ _ Eb) as [-> Ha1]. rewrite Ha1. apply sstep_store. exact Hlim.
      + apply ws_list_sound; [apply field_of_body, IH | exact Hwf | exact Hal | exact Hlim].
    - cbn [ws_body bmax align wf_ty] in *. fold (fmax e) in *. apply andb_prop in Hwf. destruct Hwf as [Hwf _].
      unfold ordered; rewrite Hpl; cbn [pl_ser_impl pl_ser_vla pl_des_vla pl_des_hdr all_first]. destruct (chk_cap c e cp <? o_count o) eqn:En; [apply sstep_fail; discriminate|]. apply Nat.ltb_ge in En.
      pose proof (chk_cap_le_ov c Hc e cp) as Hov.
      assert (Hcc : chk_cap c e cp <= cp) by (unfold chk_cap; destruct (len_chk_storage c); lia).
      apply sstep_tell; [cbn [forallb bw_le]; rewrite Bool.andb_true_r; apply Nat.leb_le; lia|].
      assert (En' : o_count o <= cp) by lia. clear En. rename En' into En.
      pose proof (len_width_mod8 cp) as Hp8. unfold prefix_bits in *.
      assert (Hmul : o_count o * fmax e <= cp * fmax e) by (apply Nat.mul_le_mono_r; exact En).
      eapply sstep_bind with (E1 := off + len_width cp); [lia | apply (ws_prim_sound c (PU (len_width cp) false)); cbn [prim_bits]; lia|].
      intros o1 Ho1 _ _. apply ws_prim_exact in Ho1. cbn [prim_bits] in Ho1. subst o1.
      assert (Hal1 : (off + len_width cp) mod align e = 0) by (destruct (align_cases e) as [Ha|Ha]; rewrite Ha in *; lia).
      destruct (bulk c e) as [w|] eqn:Eb.
      + destruct (bulk_prim _ _ _ Eb) as [-> Ha1]. rewrite Ha1. eapply sstep_weaken; [|apply sstep_store; lia]. lia.
      + eapply sstep_weaken; [|apply ws_list_sound; [apply field_of_body, IH | exact Hwf | exact Hal1 | lia]]. lia.
    - assert (Hwfs : forallb wf_ty fs = true).
      { cbn [wf_ty] in Hwf. apply andb_prop in Hwf. destruct Hwf as [Hwf _]. apply andb_prop in Hwf. destruct Hwf as [Hwf _]. exact Hwf. }
      assert (HF : Forall Pf fs) by (eapply Forall_impl; [|exact IH]; intros f Hf; apply field_of_body; exact Hf).
      cbn [align] in *. destruct u; cbn [ws_body bmax] in *.
      + pose proof (tag_bits_mod8 (length fs)) as Ht8. set (tw := tag_bits (length fs)) in *.
        set (mx := fields_max (as_field_max bmax) fs) in *.
        pose proof (pad8_spec (tw + mx)) as [Hp1 Hp2].
        eapply sstep_bind with (E1 := off + tw); [lia | apply (ws_prim_sound c (PU tw false)); cbn [prim_bits]; lia|].
        intros o1 Ho1 _ _. apply ws_prim_exact in Ho1. cbn [prim_bits] in Ho1. subst o1.
        eapply sstep_bind with (E1 := off + tw + mx) (al := 1); [lia | apply ws_sel_sound; [exact HF | exact Hwfs | lia | change (fields_max fmax fs) with mx; lia]|].
        intros o2 _ Ho2 _. pose proof (rup8_mono o2 (off + (tw + mx))). assert (pad8 (off + (tw + mx)) = pad8 (tw + mx)) by (unfold pad8; lia).
        eapply sstep_weaken; [|apply ws_pad_sound; [right; reflexivity | rewrite padn_8; lia]]. rewrite padn_8. lia.
      + apply (ws_fields_sound fs HF Hwfs off (o_elems o) lim off 0); [exact Hal | lia | exact Hlim].
  Qed.

  (* every byte written lies inside the supplied buffer, every object array index below the array's storage size; whatever the
     object holds; and a buffer that passes the up-front test is never reported too small later *)
  Theorem ser_in_bounds t o capB : wf_ty t = true -> align t = 8 -> bmax t <= 8 * capB ->
    log_all (acc_ok capB) (walk_ser_safe c t o capB) /\ fst (walk_ser_safe c t o capB) <> Err ETooSmall.
  Proof.
    intros Hwf Ha Hcap. unfold walk_ser_safe.
    unfold ordered; rewrite Hpl; cbn [pl_ser_impl pl_ser_vla pl_des_vla pl_des_hdr all_first]. replace (8 * capB <? bmax t) with false by (symmetry; apply Nat.ltb_ge; exact Hcap). rewrite Bool.andb_false_r.
    destruct (ws_body_sound t Hwf o (8 * capB) 0) as (H1 & H2 & H3); [rewrite Ha; reflexivity | lia|].
    destruct (ws_body c t o (8 * capB) 0) as [[off|e] l]; unfold bindM, ret; cbn [fst snd] in *.
    - split; [|discriminate]. unfold log_all in *. cbn [snd] in *. rewrite app_nil_r.
      clear - H1 Hcap. induction l as [|a r IH]; [reflexivity|]. cbn [forallb] in *. apply andb_prop in H1. destruct H1 as [Ha Hr].
      rewrite (IH Hr), Bool.andb_true_r. destruct a; cbn [bw_le acc_ok] in *; auto;
        apply Bool.orb_true_iff; left; apply Nat.leb_le in Ha; apply Nat.leb_le; unfold bytes_hi in Ha; lia.
    - split; [|exact (proj1 H2)]. unfold log_all in *. cbn [snd] in *.
      clear - H1 Hcap. induction l as [|a r IH]; [reflexivity|]. cbn [forallb] in *. apply andb_prop in H1. destruct H1 as [Ha Hr].
      rewrite (IH Hr), Bool.andb_true_r. destruct a; cbn [bw_le acc_ok] in *; auto;
        apply Bool.orb_true_iff; left; apply Nat.leb_le in Ha; apply Nat.leb_le; unfold bytes_hi in Ha; lia.
  Qed.
End SerBounds.

(* NUNAVUT_ASSERT((offset_bits + <max>) <= capacity_bytes * 8) of _serialize_any never fires when the up-front test is compiled in: too small
   a buffer is refused first, any other satisfies the invariant the assertion restates - EVERY buffer size, every object content *)
Theorem ser_asserts_never_fire_checked c t o capB : plan_ok c -> up_front c = true -> cap_sound c -> wf_ty t = true -> align t = 8 ->
  fst (walk_ser_safe c t o capB) <> Err EAssert.
Proof.
  intros Hpl Hu Hc Hwf Ha. destruct (Nat.ltb_spec (8 * capB) (bmax t)) as [Hlt|Hge].
  - rewrite (too_small_no_write c t o capB Hpl Hu Hlt). discriminate.
  - unfold walk_ser_safe, ordered. rewrite Hpl. cbn [pl_ser_impl all_first].
    replace (8 * capB <? bmax t) with false by (symmetry; apply Nat.ltb_ge; exact Hge). rewrite Bool.andb_false_r.
    destruct (ws_body_sound c Hpl Hc t Hwf o (8 * capB) 0) as (_ & [_ Hn] & _); [rewrite Ha; reflexivity | lia|].
    destruct (ws_body c t o (8 * capB) 0) as [[off|e] l]; unfold bindM, ret; cbn [fst snd] in *; [discriminate | exact Hn].
Qed.

(* the cursor never passes the capacity: the reported size fits the buffer (so W-bit cursor arithmetic cannot wrap when 8*capB < 2^W) *)
Theorem ser_size_le c t o capB n : plan_ok c -> cap_sound c -> wf_ty t = true -> align t = 8 -> bmax t <= 8 * capB ->
  fst (walk_ser_safe c t o capB) = Ok n -> n <= capB.
Proof.
  intros Hpl Hc Hwf Ha Hcap. unfold walk_ser_safe, ordered. rewrite Hpl. cbn [pl_ser_impl all_first].
  replace (8 * capB <? bmax t) with false by (symmetry; apply Nat.ltb_ge; exact Hcap). rewrite Bool.andb_false_r.
  destruct (ws_body_sound c Hpl Hc t Hwf o (8 * capB) 0) as (_ & _ & H3); [rewrite Ha; reflexivity | lia|].
  destruct (ws_body c t o (8 * capB) 0) as [[off|e] l]; unfold bindM, ret; cbn [fst snd]; intros H; [|discriminate H].
  destruct (H3 off eq_refl) as [Hle _]. assert (Hn : n = off / 8) by (injection H as H; symmetry; exact H). subst n.
  apply Nat.div_le_upper_bound; lia.
Qed.

(* the rendering with the up-front test compiled in (always the case without the override option): in bounds for EVERY buffer size -
   too small a buffer is refused before anything is touched, any other passes the test the invariant starts from *)
Theorem ser_in_bounds_checked c t o capB : plan_ok c -> up_front c = true -> cap_sound c -> wf_ty t = true -> align t = 8 ->
  log_all (acc_ok capB) (walk_ser_safe c t o capB).
Proof.
  intros Hpl Hu Hc Hwf Ha. destruct (Nat.ltb_spec (8 * capB) (bmax t)) as [Hlt|Hge].
  - rewrite (too_small_no_write c t o capB Hpl Hu Hlt). reflexivity.
  - apply (ser_in_bounds c Hpl Hc t o capB Hwf Ha Hge).
Qed.

(* =====================================================  deserialization: the prior contents do not matter  ===================================================== *)
Lemma fst_bindM {A B} (m : M A) (f : A -> M B) : fst (bindM m f) = bind (fst m) (fun a => fst (f a)).
Proof. destruct m as [[a|e] l]; reflexivity. Qed.

(* the instrumented walker's result, seen through `obs`, against the prior-free walker of Codec/Walker.v *)
Definition R {A B} (f : A -> B) (m : res (A * nat)) (w : res (B * nat)) : Prop :=
  match m with Ok (a, o) => w = Ok (f a, o) | Err e => w = Err e end.

Section ObsEq.
  Variable c : cfg.
  Hypothesis Hpl : plan_ok c.
  (* the rendering compares array lengths against the DSDL capacity (or the storage is not reduced) *)
  Hypothesis Hk : forall e n, chk_cap c e n = n.
  Notation WB := (Walker.wd_body ref_prims).
  Notation WF := (Walker.wd_field ref_prims WB).

  Definition Pob (t : ty) : Prop := forall p buf cap off, R (obs t) (fst (wd_body c t p buf cap off)) (WB t buf cap off).
  Definition Pof (t : ty) : Prop := forall p buf cap off, R (obs t) (fst (wd_field c (wd_body c) t p buf cap off)) (WF t buf cap off).

  Lemma obs_field_of_body t : Pob t -> Pof t.
  Proof.
    intros Hb p buf cap off. unfold wd_field, Walker.wd_field.
    destruct t as [q|e n|e cp|u fs [x|]]; try apply Hb.
    - rewrite fst_bindM. unfold rd_uint at 1. cbn [fst bind].
      unfold ordered; rewrite Hpl; cbn [pl_ser_impl pl_ser_vla pl_des_vla pl_des_hdr all_first]. destruct (N.of_nat _ <? _)%N; [reflexivity|].
      rewrite fst_bindM. cbn [tell fst bind]. rewrite fst_bindM.
      specialize (Hb p buf (Nat.min cap (off + header_bits + 8 * N.to_nat (N_of_bits (get_bits ref_prims buf cap off header_bits))))
                     (off + header_bits)).
      destruct (fst (wd_body c _ p buf _ _)) as [[v o]|er]; cbn [R bind] in *; rewrite Hb; reflexivity.
    - rewrite fst_bindM. cbn [tell fst bind]. rewrite fst_bindM.
      specialize (Hb p buf cap off).
      destruct (fst (wd_body c _ p buf _ _)) as [[v o]|er]; cbn [R bind] in *; rewrite Hb; reflexivity.
  Qed.

  Lemma wd_list_obs e : Pof e -> forall n ps buf cap off,
    R (fun vs => map (obs e) (firstn n vs)) (fst (wd_list (wd_field c (wd_body c) e) n ps buf cap off))
      (Walker.wd_list (WF e) n buf cap off).
  Proof.
    intros He. induction n as [|n IH]; intros ps buf cap off; cbn [wd_list Walker.wd_list]; [reflexivity|].
    rewrite fst_bindM. specialize (He (hd dflt ps) buf cap off).
    destruct (fst (wd_field c (wd_body c) e (hd dflt ps) buf cap off)) as [[v o]|er]; cbn [R bind] in *; rewrite He; [|reflexivity].
    cbn [bind]. rewrite fst_bindM. specialize (IH (tl ps) buf cap o).
    destruct (fst (wd_list _ n (tl ps) buf cap o)) as [[vs o']|er]; cbn [R bind] in *; rewrite IH; reflexivity.
  Qed.

  Lemma arm_fst (e : ty) n ps buf cap off o1 :
    fst (match bulk c e with
         | Some w => bindM (tell (rd_log cap o1 (n * w))) (fun _ => silence (wd_list (wd_field c (wd_body c) e) n ps buf cap off))
         | None => wd_list (wd_field c (wd_body c) e) n ps buf cap off
         end) = fst (wd_list (wd_field c (wd_body c) e) n ps buf cap off).
  Proof. destruct (bulk c e); [|reflexivity]. rewrite fst_bindM. reflexivity. Qed.

  Lemma wd_fields_obs fs : Forall Pof fs -> forall ps buf cap off,
    R (obs_fields obs fs) (fst (wd_fields (wd_field c (wd_body c)) fs ps buf cap off)) (Walker.wd_fields WF fs buf cap off).
  Proof.
    induction 1 as [|f fs Hf _ IH]; intros ps buf cap off; cbn [wd_fields Walker.wd_fields]; [reflexivity|].
    rewrite fst_bindM. specialize (Hf (hd dflt ps) buf cap (off + padn off (align f))).
    destruct (fst (wd_field c (wd_body c) f (hd dflt ps) buf cap _)) as [[v o]|er]; cbn [R bind] in *; rewrite Hf; [|reflexivity].
    cbn [bind]. rewrite fst_bindM. specialize (IH (tl ps) buf cap o).
    destruct (fst (wd_fields _ fs (tl ps) buf cap o)) as [[vs o']|er]; cbn [R bind] in *; rewrite IH; reflexivity.
  Qed.

  Lemma wd_sel_obs fs : Forall Pof fs -> forall k p buf cap off,
    R (obs_sel obs fs k) (fst (wd_sel (wd_field c (wd_body c)) fs k p buf cap off)) (Walker.wd_sel WF fs k buf cap off).
  Proof.
    induction 1 as [|f fs Hf _ IH]; intros k p buf cap off; cbn [wd_sel Walker.wd_sel]; [destruct k; reflexivity|].
    destruct k as [|k]; [|apply IH]. specialize (Hf p buf cap off).
    destruct (fst (wd_field c (wd_body c) f p buf cap off)) as [[v o]|er]; cbn [R obs_sel] in *; exact Hf.
  Qed.

  Theorem wd_obs_eq_walker : forall t, Pob t.
  Proof.
    induction t as [q|e n IH|e cp IH|u fs ext IH] using ty_nested_ind; intros p buf cap off.
    - reflexivity.
    - cbn [wd_body Walker.wd_body]. rewrite fst_bindM. cbn [tell fst bind]. rewrite fst_bindM, arm_fst.
      pose proof (wd_list_obs e (obs_field_of_body e IH) n (o_elems p) buf cap off) as H.
      destruct (fst (wd_list _ n (o_elems p) buf cap off)) as [[vs o]|er]; cbn [R bind] in *; rewrite H; reflexivity.
    - cbn [wd_body Walker.wd_body]. rewrite fst_bindM. unfold rd_uint at 1. cbn [fst bind]. rewrite Hk.
      unfold ordered; rewrite Hpl; cbn [pl_ser_impl pl_ser_vla pl_des_vla pl_des_hdr all_first]. destruct (N.of_nat cp <? _)%N; [reflexivity|].
      rewrite fst_bindM. cbn [tell fst bind]. rewrite fst_bindM, arm_fst.
      set (n := N.to_nat _).
      pose proof (wd_list_obs e (obs_field_of_body e IH) n (o_elems p) buf cap (off + prefix_bits cp)) as H.
      destruct (fst (wd_list _ n (o_elems p) buf cap _)) as [[vs o]|er]; cbn [R bind] in *; rewrite H; reflexivity.
    - assert (HF : Forall Pof fs) by (eapply Forall_impl; [|exact IH]; intros f Hf; apply obs_field_of_body; exact Hf).
      destruct u; cbn [wd_body Walker.wd_body].
      + rewrite fst_bindM. unfold rd_uint at 1. cbn [fst bind].
        destruct (N.of_nat (length fs) <=? _)%N; [reflexivity|].
        rewrite fst_bindM. set (k := N.to_nat _).
        pose proof (wd_sel_obs fs HF k (o_cell p) buf cap (off + tag_bits (length fs))) as H.
        destruct (fst (wd_sel _ fs k (o_cell p) buf cap _)) as [[v o]|er]; cbn [R bind] in *; rewrite H; reflexivity.
      + rewrite fst_bindM.
        pose proof (wd_fields_obs fs HF (o_elems p) buf cap off) as H.
        destruct (fst (wd_fields _ fs (o_elems p) buf cap off)) as [[vs o]|er]; cbn [R bind] in *; rewrite H; reflexivity.
  Qed.

  (* the decoded observable, the consumed size and the error are those of Codec/Walker.v's walk_des - a function of the bytes only *)
  Theorem des_obs_eq_walker t prior buf :
    obs_res t (fst (walk_des_safe c t prior buf)) = walk_des ref_prims t buf.
  Proof.
    unfold walk_des_safe, walk_des. rewrite fst_bindM. pose proof (wd_obs_eq_walker t prior buf (length buf) 0) as H.
    destruct (fst (wd_body c t prior buf (length buf) 0)) as [[v o]|er]; cbn [R bind] in *; rewrite H; reflexivity.
  Qed.

End ObsEq.

(* =====================================================  totality: only documented errors  ===================================================== *)
(* the walkers are total functions (structural recursion on the type and on the element count, no fuel): they return Ok or Err;
   the error is always one of the documented ones *)
Definition errs_in {A} (S : derr -> bool) (m : M A) : Prop := forall e, fst m = Err e -> S e = true.

Lemma errs_bind {A B} S (m : M A) (f : A -> M B) : errs_in S m -> (forall a, errs_in S (f a)) -> errs_in S (bindM m f).
Proof.
  intros H1 H2 e He. apply bind_err in He. destruct He as [He|(a & _ & He)]; [apply H1; exact He | eapply H2; exact He].
Qed.
Lemma errs_ok {A} S (a : A) l : errs_in S (Ok a, l).
Proof. intros e He. discriminate He. Qed.
Lemma errs_fail {A} (S : derr -> bool) e : S e = true -> errs_in S (@fail A e).
Proof. intros H e' He. cbn in He. injection He as <-. exact H. Qed.
Lemma errs_silence {A} S (m : M A) : errs_in S m -> errs_in S (silence m).
Proof. intros H e He. apply H. exact He. Qed.

Section Errs.
  Variable c : cfg.
  Hypothesis Hpl : plan_ok c.
  Let Sd := des_err_documented.
  (* documented, or the abort of a failed NUNAVUT_ASSERT (excluded separately: ser_asserts_never_fire) *)
  Let Ss := fun e => ser_err_documented e || (asserts c && assert_max c && match e with EAssert => true | _ => false end).

  Lemma wd_list_errs De : (forall p buf cap off, errs_in Sd (De p buf cap off)) -> forall n ps buf cap off, errs_in Sd (wd_list De n ps buf cap off).
  Proof.
    intros H. induction n as [|n IH]; intros ps buf cap off; cbn [wd_list]; [apply errs_ok|].
    apply errs_bind; [apply H|]. intros [v o]. apply errs_bind; [apply IH|]. intros [vs o']. apply errs_ok.
  Qed.
  Lemma wd_fields_errs D fs : Forall (fun f => forall p buf cap off, errs_in Sd (D f p buf cap off)) fs ->
    forall ps buf cap off, errs_in Sd (wd_fields D fs ps buf cap off).
  Proof.
    induction 1 as [|f fs Hf _ IH]; intros ps buf cap off; cbn [wd_fields]; [apply errs_ok|].
    apply errs_bind; [apply Hf|]. intros [v o]. apply errs_bind; [apply IH|]. intros [vs o']. apply errs_ok.
  Qed.
  Lemma wd_sel_errs D fs : Forall (fun f => forall p buf cap off, errs_in Sd (D f p buf cap off)) fs ->
    forall k p buf cap off, errs_in Sd (wd_sel D fs k p buf cap off).
  Proof.
    induction 1 as [|f fs Hf _ IH]; intros k p buf cap off; cbn [wd_sel]; [destruct k; apply errs_fail; reflexivity|].
    destruct k; [apply Hf | apply IH].
  Qed.
  Lemma wd_field_errs D t : (forall p buf cap off, errs_in Sd (D t p buf cap off)) -> forall p buf cap off, errs_in Sd (wd_field c D t p buf cap off).
  Proof.
    intros H p buf cap off. unfold wd_field. destruct t as [q|e n|e cp|u fs [x|]]; try apply H.
    - apply errs_bind; [apply errs_ok|]. intros hN. unfold ordered; rewrite Hpl; cbn [pl_ser_impl pl_ser_vla pl_des_vla pl_des_hdr all_first]. destruct (N.of_nat _ <? hN)%N; [apply errs_fail; reflexivity|].
      apply errs_bind; [apply errs_ok|]. intros _. apply errs_bind; [apply H|]. intros [v o]. apply errs_ok.
    - apply errs_bind; [apply errs_ok|]. intros _. apply errs_bind; [apply H|]. intros [v o]. apply errs_ok.
  Qed.
  Lemma arm_errs (D : cobj -> list bool -> nat -> nat -> rres cobj) e n ps buf cap off o1 :
    (forall p buf cap off, errs_in Sd (D p buf cap off)) ->
    errs_in Sd (match bulk c e with
                | Some w => bindM (tell (rd_log cap o1 (n * w))) (fun _ => silence (wd_list D n ps buf cap off))
                | None => wd_list D n ps buf cap off
                end).
  Proof.
    intros H. destruct (bulk c e); [|apply wd_list_errs; exact H].
    apply errs_bind; [apply errs_ok|]. intros _. apply errs_silence, wd_list_errs. exact H.
  Qed.

  Theorem wd_body_errs : forall t p buf cap off, errs_in Sd (wd_body c t p buf cap off).
  Proof.
    induction t as [q|e n IH|e cp IH|u fs ext IH] using ty_nested_ind; intros p buf cap off; cbn [wd_body].
    - apply errs_ok.
    - apply errs_bind; [apply errs_ok|]. intros _. apply errs_bind; [apply arm_errs, wd_field_errs, IH|]. intros [vs o]. apply errs_ok.
    - apply errs_bind; [apply errs_ok|]. intros nN. unfold ordered; rewrite Hpl; cbn [pl_ser_impl pl_ser_vla pl_des_vla pl_des_hdr all_first]. destruct (N.of_nat (chk_cap c e cp) <? nN)%N; [apply errs_fail; reflexivity|].
      apply errs_bind; [apply errs_ok|]. intros _. apply errs_bind; [apply arm_errs, wd_field_errs, IH|]. intros [vs o]. apply errs_ok.
    - assert (HF : Forall (fun f => forall p buf cap off, errs_in Sd (wd_field c (wd_body c) f p buf cap off)) fs)
        by (eapply Forall_impl; [|exact IH]; intros f Hf; apply wd_field_errs; exact Hf).
      destruct u.
      + apply errs_bind; [apply errs_ok|]. intros kN. destruct (N.of_nat (length fs) <=? kN)%N; [apply errs_fail; reflexivity|].
        apply errs_bind; [apply wd_sel_errs; exact HF|]. intros [v o]. apply errs_ok.
      + apply errs_bind; [apply wd_fields_errs; exact HF|]. intros [vs o]. apply errs_ok.
  Qed.

  (* deserialization returns Ok or one of BAD_ARRAY_LENGTH / BAD_UNION_TAG / BAD_DELIMITER_HEADER *)
  Theorem des_total t prior buf :
    (exists v k, fst (walk_des_safe c t prior buf) = Ok (v, k)) \/
    (exists e, fst (walk_des_safe c t prior buf) = Err e /\ des_err_documented e = true).
  Proof.
    assert (H : errs_in Sd (walk_des_safe c t prior buf)).
    { unfold walk_des_safe. apply errs_bind; [apply wd_body_errs|]. intros [v o]. apply errs_ok. }
    destruct (fst (walk_des_safe c t prior buf)) as [[v k]|e] eqn:E; [left; eauto | right; exists e; split; [reflexivity | apply H; exact E]].
  Qed.

  (* ---- serialization ---- *)
  Lemma w_checked_errs lim off w : errs_in Ss (w_checked lim off w).
  Proof. unfold w_checked. destruct (lim <? off + w); [apply errs_fail; reflexivity | apply errs_ok]. Qed.
  Lemma w_store_errs lim off w : errs_in Ss (w_store c lim off w).
  Proof. unfold w_store. destruct (guarded c); [apply w_checked_errs | apply errs_ok]. Qed.
  Lemma w_guard_errs lim off w : errs_in Ss (w_guard c lim off w).
  Proof. unfold w_guard. destruct (guarded c && _); [apply errs_fail; reflexivity | apply errs_ok]. Qed.
  Lemma w_nest_errs lim o1 sz : errs_in Ss (w_nest c lim o1 sz).
  Proof. unfold w_nest. destruct (_ || _); [apply errs_fail; reflexivity | apply errs_ok]. Qed.
  Lemma ws_pad_errs lim off a : errs_in Ss (ws_pad lim off a).
  Proof. unfold ws_pad. destruct (off mod a =? 0); [apply errs_ok | apply w_checked_errs]. Qed.
  Lemma ws_prim_errs p lim off : errs_in Ss (ws_prim c p lim off).
  Proof.
    destruct p; cbn [ws_prim]; repeat match goal with |- context [if ?b then _ else _] => destruct b end;
      first [apply w_store_errs | apply w_checked_errs].
  Qed.
  Lemma ws_list_errs Se : (forall x off, errs_in Ss (Se x off)) -> forall n l off, errs_in Ss (ws_list Se n l off).
  Proof. intros H. induction n as [|n IH]; intros l off; cbn [ws_list]; [apply errs_ok|]. apply errs_bind; [apply H|]. intros o. apply IH. Qed.
  Lemma ws_fields_errs Sr fs : Forall (fun f => forall o lim off, errs_in Ss (Sr f o lim off)) fs ->
    forall os lim off, errs_in Ss (ws_fields Sr fs os lim off).
  Proof.
    induction 1 as [|f fs Hf _ IH]; intros os lim off; cbn [ws_fields]; [apply ws_pad_errs|].
    apply errs_bind; [apply ws_pad_errs|]. intros o. apply errs_bind; [apply Hf|]. intros o'. apply IH.
  Qed.
  Lemma ws_sel_errs Sr fs : Forall (fun f => forall o lim off, errs_in Ss (Sr f o lim off)) fs ->
    forall k o lim off, errs_in Ss (ws_sel Sr fs k o lim off).
  Proof.
    induction 1 as [|f fs Hf _ IH]; intros k o lim off; cbn [ws_sel]; [destruct k; apply errs_fail; reflexivity|].
    destruct k; [apply Hf | apply IH].
  Qed.
  Lemma ws_field_errs Sr t : (forall o lim off, errs_in Ss (Sr t o lim off)) -> forall o lim off, errs_in Ss (ws_field c Sr t o lim off).
  Proof.
    intros H o lim off. unfold ws_field. destruct t as [q|e n|e cp|u fs [x|]]; try apply H.
    - destruct (bmin _ =? bmax _).
      + apply errs_bind; [apply ws_prim_errs|]. intros o1. apply errs_bind; [apply w_nest_errs|]. intros _.
        apply errs_bind; [apply errs_ok|]. intros _. apply H.
      + apply errs_bind; [apply w_guard_errs|]. intros o1. apply errs_bind; [apply w_nest_errs|]. intros _.
        apply errs_bind; [apply errs_ok|]. intros _. apply errs_bind; [apply H|]. intros o2.
        apply errs_bind; [destruct (little c); [apply w_store_errs | apply w_checked_errs]|]. intros _. apply errs_ok.
    - apply errs_bind; [apply w_nest_errs|]. intros _. apply errs_bind; [apply errs_ok|]. intros _. apply H.
  Qed.

  Lemma ws_any_errs Sr t : (forall o lim off, errs_in Ss (Sr t o lim off)) -> forall o lim off, errs_in Ss (ws_any c Sr t o lim off).
  Proof.
    intros H o lim off. unfold ws_any. apply errs_bind; [|intros _; apply ws_field_errs; exact H].
    unfold w_assert. destruct (asserts c && assert_max c) eqn:E; cbn [andb]; [|apply errs_ok].
    destruct (negb _); [apply errs_fail; unfold Ss; reflexivity | apply errs_ok].
  Qed.

  Theorem ws_body_errs : forall t o lim off, errs_in Ss (ws_body c t o lim off).
  Proof.
    induction t as [q|e n IH|e cp IH|u fs ext IH] using ty_nested_ind; intros o lim off; cbn [ws_body].
    - apply ws_prim_errs.
    - apply errs_bind; [apply errs_ok|]. intros _. destruct (bulk c e); [apply w_store_errs|].
      apply ws_list_errs. intros x off'. apply ws_any_errs, IH.
    - unfold ordered; rewrite Hpl; cbn [pl_ser_impl pl_ser_vla pl_des_vla pl_des_hdr all_first]. destruct (chk_cap c e cp <? o_count o); [apply errs_fail; reflexivity|].
      apply errs_bind; [apply errs_ok|]. intros _. apply errs_bind; [apply ws_prim_errs|]. intros o1.
      destruct (bulk c e); [apply w_store_errs|]. apply ws_list_errs. intros x off'. apply ws_any_errs, IH.
    - assert (HF : Forall (fun f => forall o lim off, errs_in Ss (ws_any c (ws_body c) f o lim off)) fs)
        by (eapply Forall_impl; [|exact IH]; intros f Hf; apply ws_any_errs; exact Hf).
      destruct u.
      + apply errs_bind; [apply ws_prim_errs|]. intros o1. apply errs_bind; [apply ws_sel_errs; exact HF|]. intros o2. apply ws_pad_errs.
      + apply ws_fields_errs. exact HF.
  Qed.

  (* serialization returns Ok or one of BUFFER_TOO_SMALL / BAD_ARRAY_LENGTH / BAD_UNION_TAG *)
  Theorem ser_total t o capB :
    (exists n, fst (walk_ser_safe c t o capB) = Ok n) \/
    (exists e, fst (walk_ser_safe c t o capB) = Err e /\ (ser_err_documented e = true \/ (e = EAssert /\ asserts c && assert_max c = true))).
  Proof.
    assert (H : errs_in Ss (walk_ser_safe c t o capB)).
    { unfold walk_ser_safe. unfold ordered; rewrite Hpl; cbn [pl_ser_impl pl_ser_vla pl_des_vla pl_des_hdr all_first]. destruct (up_front c && _); [apply errs_fail; reflexivity|].
      apply errs_bind; [apply ws_body_errs|]. intros off. apply errs_ok. }
    destruct (fst (walk_ser_safe c t o capB)) as [n|e] eqn:E; [left; eauto | right; exists e; split; [reflexivity|]].
    specialize (H e E). unfold Ss in H. apply Bool.orb_true_iff in H. destruct H as [H|H]; [left; exact H | right].
    apply andb_prop in H. destruct H as [H1 H2]. split; [destruct e; try discriminate; reflexivity | exact H1].
  Qed.
End Errs.

(* =====================================================  prior independence, every rendering  ===================================================== *)
(* two runs of the instrumented walker on the same bytes with different destination contents agree on everything observable;
   no hypothesis on the configuration (holds for the DSDL-capacity and the storage-capacity length checks alike) *)
Definition map_res {A B} (f : A -> B) (m : res (A * nat)) : res (B * nat) :=
  match m with Ok (a, o) => Ok (f a, o) | Err e => Err e end.

Lemma ok_pair_inj {A} (a b : A) (o o' : nat) : @Ok (A * nat) (a, o) = Ok (b, o') -> a = b /\ o = o'.
Proof. intros H. injection H. auto. Qed.
Lemma err_inj {A} (e e' : derr) : @Err A e = Err e' -> e = e'.
Proof. intros H. injection H. auto. Qed.

Ltac two_runs H :=
  match type of H with
  | map_res _ ?a = map_res _ ?b =>
      destruct a as [[? ?]|?]; destruct b as [[? ?]|?]; cbn [map_res] in H; try discriminate H;
      [apply ok_pair_inj in H; destruct H as [H ?] | apply err_inj in H]; subst; cbn [bind map_res ret fst]; try reflexivity; try congruence
  end.

Section PriorIndep.
  Variable c : cfg.
  Hypothesis Hpl : plan_ok c.
  Definition Pob2 (t : ty) : Prop := forall p1 p2 buf cap off,
    map_res (obs t) (fst (wd_body c t p1 buf cap off)) = map_res (obs t) (fst (wd_body c t p2 buf cap off)).
  Definition Pof2 (t : ty) : Prop := forall p1 p2 buf cap off,
    map_res (obs t) (fst (wd_field c (wd_body c) t p1 buf cap off)) = map_res (obs t) (fst (wd_field c (wd_body c) t p2 buf cap off)).

  Lemma field_of_body2 t : Pob2 t -> Pof2 t.
  Proof.
    intros Hb p1 p2 buf cap off. unfold wd_field.
    destruct t as [q|e n|e cp|u fs [x|]]; try apply Hb.
    - rewrite ?fst_bindM. unfold rd_uint. cbn [fst bind].
      unfold ordered; rewrite Hpl; cbn [pl_ser_impl pl_ser_vla pl_des_vla pl_des_hdr all_first]. destruct (N.of_nat _ <? _)%N; [reflexivity|].
      rewrite ?fst_bindM. cbn [tell fst bind]. rewrite ?fst_bindM.
      match goal with |- context [wd_body c ?t p1 buf ?cp ?o] => pose proof (Hb p1 p2 buf cp o) as H end.
      two_runs H.
    - rewrite ?fst_bindM. cbn [tell fst bind]. rewrite ?fst_bindM. pose proof (Hb p1 p2 buf cap off) as H. two_runs H.
  Qed.

  Lemma wd_list2 e : Pof2 e -> forall n ps1 ps2 buf cap off,
    map_res (fun vs => map (obs e) (firstn n vs)) (fst (wd_list (wd_field c (wd_body c) e) n ps1 buf cap off)) =
    map_res (fun vs => map (obs e) (firstn n vs)) (fst (wd_list (wd_field c (wd_body c) e) n ps2 buf cap off)).
  Proof.
    intros He. induction n as [|n IH]; intros ps1 ps2 buf cap off; cbn [wd_list]; [reflexivity|].
    rewrite ?fst_bindM. pose proof (He (hd dflt ps1) (hd dflt ps2) buf cap off) as H. two_runs H.
    rewrite ?fst_bindM. match goal with |- context [wd_list _ n (tl ps1) buf cap ?o] => pose proof (IH (tl ps1) (tl ps2) buf cap o) as H2 end.
    two_runs H2. cbn [firstn map]. congruence.
  Qed.

  Lemma wd_fields2 fs : Forall Pof2 fs -> forall ps1 ps2 buf cap off,
    map_res (obs_fields obs fs) (fst (wd_fields (wd_field c (wd_body c)) fs ps1 buf cap off)) =
    map_res (obs_fields obs fs) (fst (wd_fields (wd_field c (wd_body c)) fs ps2 buf cap off)).
  Proof.
    induction 1 as [|f fs Hf _ IH]; intros ps1 ps2 buf cap off; cbn [wd_fields]; [reflexivity|].
    rewrite ?fst_bindM. pose proof (Hf (hd dflt ps1) (hd dflt ps2) buf cap (off + padn off (align f))) as H. two_runs H.
    rewrite ?fst_bindM. match goal with |- context [wd_fields _ fs (tl ps1) buf cap ?o] => pose proof (IH (tl ps1) (tl ps2) buf cap o) as H2 end.
    two_runs H2. cbn [obs_fields hd tl]. congruence.
  Qed.

  Lemma wd_sel2 fs : Forall Pof2 fs -> forall k p1 p2 buf cap off,
    map_res (obs_sel obs fs k) (fst (wd_sel (wd_field c (wd_body c)) fs k p1 buf cap off)) =
    map_res (obs_sel obs fs k) (fst (wd_sel (wd_field c (wd_body c)) fs k p2 buf cap off)).
  Proof.
    induction 1 as [|f fs Hf _ IH]; intros k p1 p2 buf cap off; cbn [wd_sel]; [destruct k; reflexivity|].
    destruct k as [|k]; [|apply IH]. pose proof (Hf p1 p2 buf cap off) as H. two_runs H. cbn [obs_sel]. congruence.
  Qed.

  Theorem wd_body2 : forall t, Pob2 t.
  Proof.
    induction t as [q|e n IH|e cp IH|u fs ext IH] using ty_nested_ind; intros p1 p2 buf cap off.
    - reflexivity.
    - cbn [wd_body]. rewrite ?fst_bindM. cbn [tell fst bind]. rewrite ?fst_bindM, ?arm_fst.
      pose proof (wd_list2 e (field_of_body2 e IH) n (o_elems p1) (o_elems p2) buf cap off) as H. two_runs H.
      cbn [obs o_elems]. congruence.
    - cbn [wd_body]. rewrite ?fst_bindM. unfold rd_uint. cbn [fst bind].
      unfold ordered; rewrite Hpl; cbn [pl_ser_impl pl_ser_vla pl_des_vla pl_des_hdr all_first]. destruct (N.of_nat _ <? _)%N; [reflexivity|].
      rewrite ?fst_bindM. cbn [tell fst bind]. rewrite ?fst_bindM, ?arm_fst.
      match goal with |- context [wd_list _ ?n (o_elems p1) buf cap ?o] =>
        pose proof (wd_list2 e (field_of_body2 e IH) n (o_elems p1) (o_elems p2) buf cap o) as H end.
      two_runs H. cbn [obs o_elems o_count]. congruence.
    - assert (HF : Forall Pof2 fs) by (eapply Forall_impl; [|exact IH]; intros f Hf; apply field_of_body2; exact Hf).
      destruct u; cbn [wd_body].
      + rewrite ?fst_bindM. unfold rd_uint. cbn [fst bind].
        destruct (N.of_nat (length fs) <=? _)%N; [reflexivity|].
        rewrite ?fst_bindM.
        match goal with |- context [wd_sel _ fs ?k (o_cell p1) buf cap ?o] => pose proof (wd_sel2 fs HF k (o_cell p1) (o_cell p2) buf cap o) as H end.
        two_runs H. cbn [obs o_tag o_cell]. congruence.
      + rewrite ?fst_bindM. pose proof (wd_fields2 fs HF (o_elems p1) (o_elems p2) buf cap off) as H. two_runs H.
        cbn [obs o_elems]. congruence.
  Qed.

  Theorem des_prior_indep t prior1 prior2 buf :
    obs_res t (fst (walk_des_safe c t prior1 buf)) = obs_res t (fst (walk_des_safe c t prior2 buf)).
  Proof.
    unfold walk_des_safe. rewrite ?fst_bindM. pose proof (wd_body2 t prior1 prior2 buf (length buf) 0) as H.
    destruct (fst (wd_body c t prior1 buf (length buf) 0)) as [[v1 o1]|e1]; destruct (fst (wd_body c t prior2 buf (length buf) 0)) as [[v2 o2]|e2];
      cbn [map_res] in H; try discriminate H; cbn [bind fst ret obs_res]; congruence.
  Qed.
End PriorIndep.

(* =====================================================  serialization: the guarded rendering  ===================================================== *)
(* with a run-time bound in front of every store (C04_ovrcap_fix.patch: emitted under enable_override_variable_array_capacity) and the
   length checks against the storage capacity, serialization stays inside ANY buffer and ANY storage: no up-front check, no
   assumption on the capacities *)
Lemma bw_le_acc_ok capB l : forallb (bw_le (8 * capB)) l = true -> forallb (acc_ok capB) l = true.
Proof.
  induction l as [|a r IH]; [reflexivity|]. cbn [forallb]. intros H. apply andb_prop in H. destruct H as [Ha Hr].
  rewrite (IH Hr), Bool.andb_true_r. destruct a; cbn [bw_le acc_ok] in *; auto;
    apply Bool.orb_true_iff; left; apply Nat.leb_le in Ha; apply Nat.leb_le; unfold bytes_hi in Ha; lia.
Qed.

Section SerGuarded.
  Variable c : cfg.
  Hypothesis Hpl : plan_ok c.
  Hypothesis Hg : guarded c = true.
  Hypothesis Hs : len_chk_storage c = true.
  Variable L : nat.
  Let okg := bw_le L.

  Lemma checked_g lim off w : lim <= L -> log_all okg (w_checked lim off w).
  Proof.
    intros H. unfold w_checked. destruct (lim <? off + w) eqn:E; [reflexivity|]. apply Nat.ltb_ge in E.
    unfold w_raw, log_all. cbn [snd forallb okg bw_le]. rewrite Bool.andb_true_r. apply Nat.leb_le. unfold bytes_hi. lia.
  Qed.
  Lemma store_g lim off w : lim <= L -> log_all okg (w_store c lim off w).
  Proof. intros H. unfold w_store. rewrite Hg. apply checked_g. exact H. Qed.
  Lemma guard_g lim off w : log_all okg (w_guard c lim off w).
  Proof. unfold w_guard. destruct (guarded c && _); reflexivity. Qed.
  Lemma nest_g lim o1 sz : log_all okg (w_nest c lim o1 sz).
  Proof. unfold w_nest. destruct (_ || _); reflexivity. Qed.
  Lemma pad_g lim off a : lim <= L -> log_all okg (ws_pad lim off a).
  Proof. intros H. unfold ws_pad. destruct (off mod a =? 0); [reflexivity | apply checked_g; exact H]. Qed.
  Lemma prim_g p lim off : lim <= L -> log_all okg (ws_prim c p lim off).
  Proof.
    intros H. destruct p; cbn [ws_prim]; repeat match goal with |- context [if ?b then _ else _] => destruct b end;
      first [apply store_g | apply checked_g]; exact H.
  Qed.

  Definition Sok (S : cobj -> nat -> nat -> M nat) : Prop := forall o lim off, lim <= L -> log_all okg (S o lim off).

  Lemma list_g Se : (forall x lim off, lim <= L -> log_all okg (Se x lim off)) ->
    forall lim, lim <= L -> forall n l off, log_all okg (ws_list (fun x off' => Se x lim off') n l off).
  Proof.
    intros H lim Hl. induction n as [|n IH]; intros l off; cbn [ws_list]; [reflexivity|].
    apply log_bind; [apply H; exact Hl|]. intros o _. apply IH.
  Qed.
  Lemma fields_g Sr fs : Forall (fun f => Sok (Sr f)) fs -> forall os lim off, lim <= L -> log_all okg (ws_fields Sr fs os lim off).
  Proof.
    induction 1 as [|f fs Hf _ IH]; intros os lim off Hl; cbn [ws_fields]; [apply pad_g; exact Hl|].
    apply log_bind; [apply pad_g; exact Hl|]. intros o _. apply log_bind; [apply Hf; exact Hl|]. intros o' _. apply IH. exact Hl.
  Qed.
  Lemma sel_g Sr fs : Forall (fun f => Sok (Sr f)) fs -> forall k o lim off, lim <= L -> log_all okg (ws_sel Sr fs k o lim off).
  Proof.
    induction 1 as [|f fs Hf _ IH]; intros k o lim off Hl; cbn [ws_sel]; [destruct k; reflexivity|].
    destruct k; [apply Hf | apply IH]; exact Hl.
  Qed.
  Lemma field_g Sr t : Sok (Sr t) -> Sok (ws_field c Sr t).
  Proof.
    intros H o lim off Hl. unfold ws_field. rewrite Hg. destruct t as [q|e n|e cp|u fs [x|]]; try (apply H; exact Hl).
    - destruct (bmin _ =? bmax _).
      + apply log_bind; [apply prim_g; exact Hl|]. intros o1 _. apply log_bind; [apply nest_g|]. intros _ _.
        apply log_bind; [reflexivity|]. intros _ _. apply H. lia.
      + apply log_bind; [apply guard_g|]. intros o1 _. apply log_bind; [apply nest_g|]. intros _ _.
        apply log_bind; [reflexivity|]. intros _ _. apply log_bind; [apply H; lia|]. intros o2 _.
        apply log_bind; [destruct (little c); [apply store_g | apply checked_g]; exact Hl|]. intros _ _. reflexivity.
    - apply log_bind; [apply nest_g|]. intros _ _. apply log_bind; [reflexivity|]. intros _ _. apply H. lia.
  Qed.

  Lemma any_g Sr t : Sok (Sr t) -> Sok (ws_any c Sr t).
  Proof.
    intros H o lim off Hl. unfold ws_any. apply log_bind; [unfold w_assert; destruct (_ && _); reflexivity|].
    intros _ _. apply field_g; [exact H | exact Hl].
  Qed.

  Theorem body_g : forall t, Sok (ws_body c t).
  Proof.
    induction t as [q|e n IH|e cp IH|u fs ext IH] using ty_nested_ind; intros o lim off Hl; cbn [ws_body].
    - apply prim_g. exact Hl.
    - apply log_bind; [apply log_tell; cbn [forallb okg bw_le]; rewrite Nat.leb_refl; reflexivity|]. intros _ _.
      destruct (bulk c e); [apply store_g; exact Hl|].
      apply (list_g (fun x lim off' => ws_any c (ws_body c) e x lim off')); [intros x lim' off' Hl'; apply any_g; [exact IH | exact Hl'] | exact Hl].
    - unfold ordered; rewrite Hpl; cbn [pl_ser_impl pl_ser_vla pl_des_vla pl_des_hdr all_first]. destruct (chk_cap c e cp <? o_count o) eqn:En; [reflexivity|]. apply Nat.ltb_ge in En.
      apply log_bind.
      { apply log_tell. cbn [forallb okg bw_le]. rewrite Bool.andb_true_r. apply Nat.leb_le. unfold chk_cap in En. rewrite Hs in En. lia. }
      intros _ _. apply log_bind; [apply prim_g; exact Hl|]. intros o1 _.
      destruct (bulk c e); [apply store_g; exact Hl|].
      apply (list_g (fun x lim off' => ws_any c (ws_body c) e x lim off')); [intros x lim' off' Hl'; apply any_g; [exact IH | exact Hl'] | exact Hl].
    - assert (HF : Forall (fun f => Sok (ws_any c (ws_body c) f)) fs)
        by (eapply Forall_impl; [|exact IH]; intros f Hf; apply any_g; exact Hf).
      destruct u.
      + apply log_bind; [apply prim_g; exact Hl|]. intros o1 _. apply log_bind; [apply sel_g; [exact HF | exact Hl]|]. intros o2 _.
        apply pad_g. exact Hl.
      + apply fields_g; [exact HF | exact Hl].
  Qed.
End SerGuarded.

Theorem ser_in_bounds_guarded c t o capB : plan_ok c -> guarded c = true -> len_chk_storage c = true ->
  log_all (acc_ok capB) (walk_ser_safe c t o capB).
Proof.
  intros Hpl Hg Hs. unfold walk_ser_safe, log_all. unfold ordered; rewrite Hpl; cbn [pl_ser_impl pl_ser_vla pl_des_vla pl_des_hdr all_first]. destruct (up_front c && _); [reflexivity|].
  apply bw_le_acc_ok. apply (log_bind (bw_le (8 * capB))); [apply body_g; [exact Hpl | exact Hg | exact Hs | lia]|]. intros off _. reflexivity.
Qed.

(* bytes_hi is the TRANSLATED bits2bytes_ceil filter (Generated/Gen_C01.v) *)
Theorem bytes_hi_translated n : filter_bits2bytes_ceil (Z.of_nat n) = Some (Z.of_nat (bytes_hi n)).
Proof. unfold filter_bits2bytes_ceil, bytes_hi. replace (Z.of_nat n <? 0)%Z with false by lia. f_equal. lia. Qed.
