(* C04: the access log of Codec/WalkerSafe.v against the PARTIAL semantics of the support primitives (Prims/CPrims.v, Prims/CppPrims.v,
   where an access outside the allocation, or a bit loop that runs out of fuel, is `None`).

   Every log entry of the walkers is emitted by exactly one of the following primitive calls on the buffer; for each of them:
   if the entry is in bounds (`acc_ok (length buf)`), the primitive - as modelled in CPrims/CppPrims, for ANY value / source
   arguments - is defined (returns Some), and the checked setters report TOO_SMALL exactly when the model says so.

     BW  checked store      w_checked          nunavutSetUxx / SetIxx / SetF*          checked_store_agrees
     BW  byte store         w_store (w <= 8)   buffer[off/8] = v                        byte_store_defined
     BW  aligned memmove    w_store            memmove(&buffer[off/8], &v, ceil(w/8))   memmove_store_defined
     BW  bulk copy          w_store (n*w)      nunavutCopyBits(buffer, off, len, src, 0) copybits_store_defined
     BR  guarded byte load  rp_log             buffer[off/8]                            byte_load_defined
     BR  saturating getter  rd_log             nunavutGetU8..64 / GetI* / GetF* (C), const_bitspan::getU8..64 (C++)
                                                                                         getter_defined, cpp_getter_defined
     BR+OA bulk read        rd_log, OA         nunavutGetBits(out, buffer, size, off, len)  getbits_defined
     BW  zero run (C++)     void fields        bitspan::setZeros(length)                 cpp_zero_run_defined (+ the scanned byte accesses:
                                                                                         Properties/C04.c04_cpp_setzeros_footprint)
   Sizes are those of an LP64 target: the buffer and every offset stay below 2^64 bits (`fits`). *)
From Verif Require Import Wire Walker WalkerSafe CPrims CPrimsThm CppPrims CppPrimsThm CppPrimsMoreThm.
From Coq Require Import Lia ZifyBool ZifyNat ZifyN.
Ltac Zify.zify_post_hook ::= Z.div_mod_to_equations.

Definition fits (b : bytes) : Prop := (8 * blen b < two64)%N.
(* the same for a cursor type of W bits (W is regenerated from lang/properties.yaml named_types: Gen_C04, the tpl_width definitions); the instance
   lemmas below are proved against Prims/CPrims.v, whose size_t is 64 bits: Properties/C04.c04_width_is_model_width pins W = 64 *)
Definition wfits (W : nat) (b : bytes) : Prop := (8 * blen b < 2 ^ N.of_nat W)%N.

Lemma acc_bw_bound capB lo hi : acc_ok capB (BW lo hi) = true -> (lo < hi)%nat -> (hi <= capB)%nat.
Proof. cbn [acc_ok]. intros H Hl. apply Bool.orb_true_iff in H. destruct H as [H|H]; apply Nat.leb_le in H; lia. Qed.
Lemma acc_br_bound capB lo hi : acc_ok capB (BR lo hi) = true -> (lo < hi)%nat -> (hi <= capB)%nat.
Proof. cbn [acc_ok]. intros H Hl. apply Bool.orb_true_iff in H. destruct H as [H|H]; apply Nat.leb_le in H; lia. Qed.

(* nunavutSetUxx on the whole buffer: defined for every argument, and refuses exactly when the model's w_checked does *)
Theorem checked_store_agrees little buf (off w : nat) v : fits buf -> (N.of_nat off + N.of_nat w < two64)%N ->
  match fst (w_checked (8 * length buf) off w) with
  | Ok _ => exists r, set_uxx little buf (blen buf) (N.of_nat off) v (N.of_nat w) = Some (inl r)
  | Err _ => set_uxx little buf (blen buf) (N.of_nat off) v (N.of_nat w) = Some (inr TooSmall)
  end.
Proof.
  intros Hf Hw. destruct (set_uxx_exact little buf (blen buf) (N.of_nat off) v (N.of_nat w)) as [H1 H2]; [lia | exact Hf | exact Hw|].
  unfold w_checked. destruct (Nat.ltb_spec (8 * length buf) (off + w)) as [Hlt|Hge]; cbn [fst fail w_raw].
  - apply H1. unfold blen. lia.
  - destruct H2 as (r & Hr & _); [unfold blen; lia|]. exists r. exact Hr.
Qed.

Theorem byte_store_defined buf (i : nat) v : acc_ok (length buf) (BW i (i + 1)) = true -> wr buf (N.of_nat i) v <> None.
Proof.
  intros H. apply acc_bw_bound in H; [|lia]. unfold wr. replace (N.of_nat i <? blen buf)%N with true; [discriminate|].
  symmetry. apply N.ltb_lt. unfold blen. lia.
Qed.

Theorem byte_load_defined buf (i : nat) : acc_ok (length buf) (BR i (i + 1)) = true -> rd buf (N.of_nat i) <> None.
Proof.
  intros H. apply acc_br_bound in H; [|lia]. unfold rd. rewrite Nnat.Nat2N.id. apply nth_error_Some. lia.
Qed.

(* memmove(&buffer[off/8], &value, ceil(w/8)) of the aligned little-endian paths *)
Theorem memmove_store_defined buf (off w : nat) src : (off mod 8 = 0)%nat -> (1 <= w)%nat ->
  acc_ok (length buf) (BW (off / 8) (bytes_hi (off + w))) = true -> (bytes_hi w <= length src)%nat ->
  memmove buf (N.of_nat (off / 8)) src 0 (N.of_nat (bytes_hi w)) <> None.
Proof.
  intros Ha Hw H Hs. unfold bytes_hi in *. apply acc_bw_bound in H; [|lia].
  unfold memmove. replace ((0 + N.of_nat ((w + 7) / 8) <=? blen src) && (N.of_nat (off / 8) + N.of_nat ((w + 7) / 8) <=? blen buf))%N with true;
    [discriminate|].
  symmetry. apply andb_true_intro. unfold blen. split; apply N.leb_le; lia.
Qed.

(* nunavutCopyBits(buffer, off, len, src, 0) of the bulk array paths: no out-of-range access, bit loop terminates within its fuel *)
Theorem copybits_store_defined buf (off len : nat) src : fits buf -> fits src ->
  acc_ok (length buf) (BW (off / 8) (bytes_hi (off + len))) = true -> (len <= 8 * length src)%nat ->
  copy_bits buf (N.of_nat off) (N.of_nat len) src 0 <> None.
Proof.
  intros Hb Hs H Hl. destruct (Nat.eq_dec len 0) as [->|Hn].
  - rewrite copy_bits_zero. discriminate.
  - unfold bytes_hi in H. apply acc_bw_bound in H; [|lia].
    destruct (copy_bits_exact buf (N.of_nat off) (N.of_nat len) src 0) as (r & Hr & _); try assumption; unfold blen; try lia.
    rewrite Hr. discriminate.
Qed.

(* the saturating getters never leave the buffer, whatever the offset (that is what nunavutSaturateBufferFragmentBitLength is for) *)
Theorem getter_defined little (w : N) buf off len : (w mod 8 = 0)%N -> (w <= 64)%N -> bytes_ok buf -> fits buf -> (off < two64)%N ->
  get_uxx little w buf (blen buf) off len <> None.
Proof.
  intros Hw8 Hw Hok Hf Ho. destruct (get_uxx_spec little w buf (blen buf) off len) as (v & Hv & _); try assumption; [lia|].
  rewrite Hv. discriminate.
Qed.

Theorem cpp_getter_defined (w : N) s len : (w mod 8 = 0)%N -> (w <= 64)%N -> span_ok s -> bytes_ok (sp_data s) ->
  cpp_get_uxx w s len <> None.
Proof.
  intros Hw8 Hw Hs Hok. rewrite cpp_get_uxx_is_c by assumption. destruct Hs as (S1 & S2 & S3).
  destruct (get_uxx_spec false w (sp_data s) (sp_size s) (sp_off s) len) as (v & Hv & _); try assumption.
  rewrite Hv. discriminate.
Qed.

(* nunavutGetBits into an object array: the destination holds the bytes the OA entry promises *)
Theorem getbits_defined output buf off (len : nat) : fits buf -> fits output -> (off < two64)%N -> (N.of_nat len + 7 < two64)%N ->
  (bytes_hi len <= length output)%nat ->
  get_bits output buf (blen buf) off (N.of_nat len) <> None.
Proof.
  intros Hb Ho Hoff Hl Hout. unfold bytes_hi in Hout.
  destruct (get_bits_zero_ext output buf (blen buf) off (N.of_nat len)) as (r & Hr & _); try assumption; try lia.
  - unfold blen. lia.
  - rewrite Hr. discriminate.
Qed.

(* bitspan::setZeros on ANY span that holds the range - in particular one whose allocation ends exactly where the range ends - is
   defined: no byte outside [off/8, ceil((off+len)/8)) is read or written (Prims/CppPrimsThm.setZeros_exact, C14) *)
Theorem cpp_zero_run_defined s (len : N) : span_ok s -> bytes_ok (sp_data s) -> (len < two64)%N -> (len <= sp_bits s)%N ->
  exists r, setZeros s len = Some (inl r).
Proof.
  intros Hs Hok Hl Hle. destruct (setZeros_exact s len Hs Hok Hl) as [_ H]. destruct (H Hle) as (r & Hr & _). exists r. exact Hr.
Qed.

(* the tight case spelled out: a buffer of exactly ceil((off+len)/8) bytes *)
Theorem cpp_zero_run_tight (data : bytes) (off len : nat) : bytes_ok data -> fits data -> (1 <= len)%nat ->
  length data = bytes_hi (off + len) ->
  exists r, setZeros (mkspan data (blen data) (N.of_nat off)) (N.of_nat len) = Some (inl r).
Proof.
  intros Hok Hf Hl Hlen. unfold fits in Hf. unfold bytes_hi in Hlen.
  assert (Hs : span_ok (mkspan data (blen data) (N.of_nat off))).
  { unfold span_ok. cbn [sp_size sp_data sp_off]. unfold blen in *. repeat split; lia. }
  apply cpp_zero_run_defined; [exact Hs | exact Hok | unfold blen in *; lia|].
  rewrite (sp_bits_spec _ Hs). cbn [sp_size sp_off]. unfold blen. lia.
Qed.
