(* The decision structure of the code-shaped walker (Codec/Walker.v) and of the support-call sequences it abstracts,
   written in the vocabulary of TplTieBase.v, per target and direction.  HAND-OWNED: this file is the reviewed
   counterpart of what tools/translators/gen_codec_tpl.py regenerates from the templates on every run
   (Generated/Gen_CodecTpl.v); Codec/TplTie.v proves the two equal, so any edit of a template branch breaks an
   obligation of C01/C02.  Refresh deliberately with
   `python -m tools.translators.gen_codec_tpl --emit-expected` after reviewing a template change against Walker.v.
   REVIEW CRITERION for option-only template fixes (e.g. 2e84c7a, enable_override_variable_array_capacity): the
   `walker_c_*_macros_default` tables (= the projection on opt_override_capacity = false, which is what Walker.v
   models; guard / storage-capacity helper macros dropped or inlined) must stay byte-identical to the previously
   reviewed tables, i.e. the full tables may differ from them ONLY under the static atom `opt_override_capacity`;
   the C++ / Python tables must not change at all.  `--review` checks exactly this against `git show HEAD:`. *)
From Coq Require Import List String.
From Verif Require Import TplTieBase.
Import ListNotations.
Local Open Scope string_scope.

Definition walker_c_ser_dispatch : list (string * list string) :=
  [("t is VoidType", ["_serialize_void"]);
   ("t is BooleanType", ["_serialize_boolean"]);
   ("t is IntegerType", ["_serialize_integer"]);
   ("t is FloatType", ["_serialize_float"]);
   ("t is FixedLengthArrayType", ["_serialize_fixed_length_array"]);
   ("t is VariableLengthArrayType", ["_serialize_variable_length_array"]);
   ("t is CompositeType", ["_serialize_composite"]);
   ("<else>", ["assert False"])].

Definition walker_c_ser_macros : list (string * string * list tnode) :=
  [("serialize", "t",
    [NAct KGuard "if ((obj == {{ valuetoken_null }}) || (buffer == {{ valuetoken_null }}) || (inout_buffer_size_bytes == {{ valuetoken_null }}))";
     NAct KOpen "";
     NAct KReturn "return -NUNAVUT_ERROR_INVALID_ARGUMENT;";
     NAct KClose "";
     NIf [
       ((CAtom "t.inner_type.bit_length_set.max > 0"),
        [NAct KMacro "_serialize_impl(t)"])]
      [NAct KStore "*inout_buffer_size_bytes = 0U;"];
     NAct KReturn "return NUNAVUT_SUCCESS;"]);

   ("_serialize_impl", "t",
    [NAct KStore "const {{ typename_unsigned_length }} capacity_bytes = *inout_buffer_size_bytes;";
     NIf [
       ((CAtom "opt_override_capacity"),
        [NAct KPre "#ifndef {{ t | full_reference_name }}_DISABLE_SERIALIZATION_BUFFER_CHECK_"])]
      [];
     NAct KGuard "if ((8U * ({{ typename_unsigned_bit_length }}) capacity_bytes) < {{ t.inner_type.bit_length_set.max }}UL)";
     NAct KOpen "";
     NAct KReturn "return -NUNAVUT_ERROR_SERIALIZATION_BUFFER_TOO_SMALL;";
     NAct KClose "";
     NIf [
       ((CAtom "opt_override_capacity"),
        [NAct KPre "#endif"])]
      [];
     NAct KStore "{{ typename_unsigned_bit_length }} offset_bits = 0U;";
     NIf [
       ((CAtom "t.inner_type is StructureType"),
        [NFor "f, offset in t.inner_type.iterate_fields_with_offsets()"
          [NIf [
             ((CAtom "loop.first"),
              [NJAssert (CAtom "f.data_type.alignment_requirement <= t.inner_type.alignment_requirement")])]
            [NAct KMacro "_pad_to_alignment(f.data_type.alignment_requirement)"];
           NAct KOpen "";
           NAct KMacro "_serialize_any(f.data_type, 'obj->' + (f|id), offset)";
           NAct KClose ""]]);
       ((CAtom "t.inner_type is UnionType"),
        [NAct KOpen "";
         NAct KMacro "_serialize_integer(t.inner_type.tag_field_type, 'obj->_tag_', 0|bit_length_set)";
         NAct KClose "";
         NFor "f, offset in t.inner_type.iterate_fields_with_offsets()"
          [NAct KGuard "{{ 'if' if loop.first else 'else if' }} ({{ loop.index0 }}U == obj->_tag_)";
           NAct KOpen "";
           NJAssert (CAtom "f.data_type.alignment_requirement <= (offset.min)");
           NAct KMacro "_serialize_any(f.data_type, 'obj->' + (f|id), offset)";
           NAct KClose ""];
         NAct KElse "else";
         NAct KOpen "";
         NAct KReturn "return -NUNAVUT_ERROR_REPRESENTATION_BAD_UNION_TAG;";
         NAct KClose ""])]
      [NJAssert (CAtom "False")];
     NAct KMacro "_pad_to_alignment(t.inner_type.alignment_requirement)";
     NIf [
       ((CNot (CAtom "t.inner_type.bit_length_set.fixed_length")),
        [NAct KRAssert "'offset_bits >= %sULL'|format(t.inner_type.bit_length_set.min)";
         NAct KRAssert "'offset_bits <= %sULL'|format(t.inner_type.bit_length_set.max)"])]
      [NAct KRAssert "'offset_bits == %sULL'|format(t.inner_type.bit_length_set.max)"];
     NAct KRAssert "'offset_bits % 8U == 0U'";
     NAct KStore "*inout_buffer_size_bytes = ({{ typename_unsigned_length }}) (offset_bits / 8U);"]);

   ("_guard", "n_bits",
    [NIf [
       ((CAtom "opt_override_capacity"),
        [NAct KGuard "if ((offset_bits + {{ n_bits }}) > (capacity_bytes * 8U))";
         NAct KOpen "";
         NAct KReturn "return -NUNAVUT_ERROR_SERIALIZATION_BUFFER_TOO_SMALL;";
         NAct KClose ""])]
      []]);

   ("_storage_capacity", "t, reference",
    [NIf [
       ((CAnd (CAtom "opt_override_capacity") (CAtom "t.element_type is not BooleanType")),
        [NAct KExpr "(sizeof({{ reference }}.elements) / sizeof({{ reference }}.elements[0]))"])]
      [NAct KExpr "{{ t.capacity }}"]]);

   ("_pad_to_alignment", "n_bits",
    [NIf [
       ((CAtom "n_bits > 1"),
        [NAct KGuard "if (offset_bits % {{ n_bits }}U != 0U)";
         NAct KOpen "";
         NAct KStore "const uint8_t {{ <pad> }} = (uint8_t)({{ n_bits }}U - offset_bits % {{ n_bits }}U);";
         NAct KRAssert "'%s > 0'|format(<pad>)";
         NAct KCall "const {{ typename_error_type }} {{ <err> }} = nunavutSetUxx(&buffer[0], capacity_bytes, offset_bits, 0U, {{ <pad> }});";
         NAct KGuard "if ({{ <err> }} < 0)";
         NAct KOpen "";
         NAct KReturn "return {{ <err> }};";
         NAct KClose "";
         NAct KCursor "offset_bits += {{ <pad> }};";
         NAct KRAssert "'offset_bits %% %dU == 0U'|format(n_bits)";
         NAct KClose ""])]
      []]);

   ("_serialize_any", "t, reference, offset",
    [NIf [
       ((CAtom "t.alignment_requirement > 1"),
        [NAct KRAssert "'offset_bits %% %dU == 0U'|format(t.alignment_requirement)"])]
      [];
     NIf [
       ((CAtom "offset.is_aligned_at_byte()"),
        [NAct KRAssert "'offset_bits % 8U == 0U'"])]
      [];
     NIf [
       ((CNot (CAtom "opt_override_capacity")),
        [NAct KRAssert "'(offset_bits + %dULL) <= (capacity_bytes * 8U)'|format(t.bit_length_set.max)"])]
      [];
     NIf [
       ((CAtom "t is VoidType"),
        [NAct KMacro "_serialize_void(t, offset)"]);
       ((CAtom "t is BooleanType"),
        [NAct KMacro "_serialize_boolean(t, reference, offset)"]);
       ((CAtom "t is IntegerType"),
        [NAct KMacro "_serialize_integer(t, reference, offset)"]);
       ((CAtom "t is FloatType"),
        [NAct KMacro "_serialize_float(t, reference, offset)"]);
       ((CAtom "t is FixedLengthArrayType"),
        [NAct KMacro "_serialize_fixed_length_array(t, reference, offset)"]);
       ((CAtom "t is VariableLengthArrayType"),
        [NAct KMacro "_serialize_variable_length_array(t, reference, offset)"]);
       ((CAtom "t is CompositeType"),
        [NAct KMacro "_serialize_composite(t, reference, offset)"])]
      [NJAssert (CAtom "False")]]);

   ("_serialize_void", "t, offset",
    [NAct KMacro "_guard('%dULL'|format(t.bit_length))";
     NIf [
       ((CAtom "offset.is_aligned_at_byte()"),
        [NIf [
           ((CAtom "t.bit_length <= 8"),
            [NAct KStore "buffer[offset_bits / 8U] = 0U;"])]
          [NAct KCall "(void) memset(&buffer[offset_bits / 8U], 0, {{ t.bit_length|bits2bytes_ceil }});"]])]
      [NAct KCall "const {{ typename_error_type }} {{ <err> }} = nunavutSetUxx(&buffer[0], capacity_bytes, offset_bits, 0U, {{ t.bit_length }}U);";
       NAct KGuard "if ({{ <err> }} < 0)";
       NAct KOpen "";
       NAct KReturn "return {{ <err> }};";
       NAct KClose ""];
     NAct KCursor "offset_bits += {{ t.bit_length }}UL;"]);

   ("_serialize_boolean", "t, reference, offset",
    [NAct KMacro "_guard('1ULL')";
     NIf [
       ((CAtom "offset.is_aligned_at_byte()"),
        [NAct KStore "buffer[offset_bits / 8U] = {{ reference }} ? 1U : 0U;"])]
      [NAct KGuard "if ({{ reference }})";
       NAct KOpen "";
       NAct KStore "buffer[offset_bits / 8U] = ({{ typename_byte }})(buffer[offset_bits / 8U] | (1U << (offset_bits % 8U)));";
       NAct KClose "";
       NAct KElse "else";
       NAct KOpen "";
       NAct KStore "buffer[offset_bits / 8U] = ({{ typename_byte }})(buffer[offset_bits / 8U] & ~(1U << (offset_bits % 8U)));";
       NAct KClose ""];
     NAct KCursor "offset_bits += 1U;"]);

   ("_serialize_integer", "t, reference, offset",
    [NAct KMacro "_guard('%dULL'|format(t.bit_length))";
     NIf [
       ((CAtom "t is saturated"),
        [NIf [
           ((CNot (CAtom "t.standard_bit_length")),
            [NAct KStore "{{ t|type_from_primitive }} {{ <sat> }} = {{ reference }};";
             NIf [
               ((CAtom "t is UnsignedIntegerType"),
                [NJAssert (CAtom "t.inclusive_value_range[0] == 0")])]
              [NAct KGuard "if ({{ <sat> }} < {{ t.inclusive_value_range[0]|literal(t) }})";
               NAct KOpen "";
               NAct KStore "{{ <sat> }} = {{ t.inclusive_value_range[0]|literal(t) }};";
               NAct KClose ""];
             NAct KGuard "if ({{ <sat> }} > {{ t.inclusive_value_range[1]|literal(t) }})";
             NAct KOpen "";
             NAct KStore "{{ <sat> }} = {{ t.inclusive_value_range[1]|literal(t) }};";
             NAct KClose ""])]
          [NSet "ref_value" "reference"]])]
      [NSet "ref_value" "reference"];
     NIf [
       ((CAnd (CAtom "offset.is_aligned_at_byte()") (CAtom "t.bit_length <= 8")),
        [NAct KStore "buffer[offset_bits / 8U] = ({{ typename_byte }})({{ <sat> }});"]);
       ((CAnd (CAtom "offset.is_aligned_at_byte()") (CAtom "LITTLE_ENDIAN")),
        [NAct KCall "(void) memmove(&buffer[offset_bits / 8U], &{{ <sat> }}, {{ t.bit_length|bits2bytes_ceil }}U);"])]
      [NAct KCall "const {{ typename_error_type }} {{ <err> }} = nunavutSet{{ 'U' if t is UnsignedIntegerType else 'I' }}xx(&buffer[0], capacity_bytes, offset_bits, {{ <sat> }}, {{ t.bit_length }}U);";
       NAct KGuard "if ({{ <err> }} < 0)";
       NAct KOpen "";
       NAct KReturn "return {{ <err> }};";
       NAct KClose ""];
     NAct KCursor "offset_bits += {{ t.bit_length }}U;"]);

   ("_serialize_float", "t, reference, offset",
    [NAct KMacro "_guard('%dULL'|format(t.bit_length))";
     NIf [
       ((CAtom "t is saturated"),
        [NIf [
           ((CAtom "t.bit_length not in (32, 64)"),
            [NAct KStore "{{ t|type_from_primitive }} {{ <sat> }} = {{ reference }};";
             NAct KGuard "if (isfinite({{ <sat> }}))";
             NAct KOpen "";
             NAct KGuard "if ({{ <sat> }} < {{ t.inclusive_value_range[0]|literal(t) }})";
             NAct KOpen "";
             NAct KStore "{{ <sat> }} = {{ t.inclusive_value_range[0]|literal(t) }};";
             NAct KClose "";
             NAct KGuard "if ({{ <sat> }} > {{ t.inclusive_value_range[1]|literal(t) }})";
             NAct KOpen "";
             NAct KStore "{{ <sat> }} = {{ t.inclusive_value_range[1]|literal(t) }};";
             NAct KClose "";
             NAct KClose ""]);
           ((CAtom "t.bit_length == 32"),
            [NSet "ref_value" "reference";
             NAct KSAssert "static_assert(NUNAVUT_PLATFORM_IEEE754_FLOAT, ""Native IEEE754 binary32 required. TODO: relax constraint"");"]);
           ((CAtom "t.bit_length == 64"),
            [NSet "ref_value" "reference";
             NAct KSAssert "static_assert(NUNAVUT_PLATFORM_IEEE754_DOUBLE, ""Native IEEE754 binary64 required. TODO: relax constraint"");"])]
          [NJAssert (CAtom "False")]])]
      [NSet "ref_value" "reference"];
     NIf [
       ((CAnd (CAtom "offset.is_aligned_at_byte()") (CAtom "LITTLE_ENDIAN")),
        [NIf [
           ((CAtom "t.bit_length == 16"),
            [NAct KCall "const uint16_t {{ <half> }} = nunavutFloat16Pack({{ <sat> }});";
             NAct KCall "(void) memmove(&buffer[offset_bits / 8U], &{{ <half> }}, 2U);"]);
           ((CAtom "t.bit_length == 32"),
            [NAct KSAssert "static_assert(NUNAVUT_PLATFORM_IEEE754_FLOAT, ""Native IEEE754 binary32 required. TODO: relax constraint"");";
             NAct KCall "(void) memmove(&buffer[offset_bits / 8U], &{{ <sat> }}, 4U);"]);
           ((CAtom "t.bit_length == 64"),
            [NAct KSAssert "static_assert(NUNAVUT_PLATFORM_IEEE754_DOUBLE, ""Native IEEE754 binary64 required. TODO: relax constraint"");";
             NAct KCall "(void) memmove(&buffer[offset_bits / 8U], &{{ <sat> }}, 8U);"])]
          [NJAssert (CAtom "False")]])]
      [NAct KCall "const {{ typename_error_type }} {{ <err> }} = nunavutSetF{{ t.bit_length }}(&buffer[0], capacity_bytes, offset_bits, {{ <sat> }});";
       NAct KGuard "if ({{ <err> }} < 0)";
       NAct KOpen "";
       NAct KReturn "return {{ <err> }};";
       NAct KClose ""];
     NAct KCursor "offset_bits += {{ t.bit_length }}U;"]);

   ("_serialize_fixed_length_array", "t, reference, offset",
    [NIf [
       ((CAtom "t.element_type is BooleanType"),
        [NIf [
           ((CAtom "offset.is_aligned_at_byte()"),
            [])]
          [];
         NAct KMacro "_guard('%dULL'|format(t.capacity))";
         NAct KCall "nunavutCopyBits(&buffer[0], offset_bits, {{ t.capacity }}UL, &{{ reference }}_bitpacked_[0], 0U);";
         NAct KCursor "offset_bits += {{ t.capacity }}UL;"]);
       ((CAnd (CAnd (CAtom "t.element_type is PrimitiveType") (CAtom "t.element_type.bit_length == 8")) (CAtom "t.element_type is zero_cost_primitive")),
        [NIf [
           ((CAtom "offset.is_aligned_at_byte()"),
            [])]
          [];
         NAct KMacro "_guard('%dULL'|format(t.capacity * 8))";
         NAct KCall "nunavutCopyBits(&buffer[0], offset_bits, {{ t.capacity }}UL * 8U, &{{ reference }}[0], 0U);";
         NAct KCursor "offset_bits += {{ t.capacity }}UL * 8U;"]);
       ((CAnd (CAtom "t.element_type is PrimitiveType") (CAtom "t.element_type is zero_cost_primitive")),
        [NIf [
           ((CAtom "t.element_type is FloatType"),
            [NAct KSAssert "static_assert(NUNAVUT_PLATFORM_IEEE754_FLOAT, ""Native IEEE754 binary32 required. TODO: relax constraint"");";
             NIf [
               ((CAtom "t.element_type.bit_length > 32"),
                [NAct KSAssert "static_assert(NUNAVUT_PLATFORM_IEEE754_DOUBLE, ""Native IEEE754 binary64 required. TODO: relax constraint"");"])]
              []])]
          [];
         NIf [
           ((CAtom "offset.is_aligned_at_byte()"),
            [])]
          [];
         NAct KMacro "_guard('%dULL'|format(t.capacity * t.element_type.bit_length))";
         NAct KCall "nunavutCopyBits(&buffer[0], offset_bits, {{ t.capacity }}UL * {{ t.element_type.bit_length }}UL, &{{ reference }}[0], 0U);";
         NAct KCursor "offset_bits += {{ t.capacity }}UL * {{ t.element_type.bit_length }}UL;"])]
      [NAct KStore "const {{ typename_unsigned_bit_length }} {{ <origin> }} = offset_bits;";
       NSet "element_offset" "offset + t.element_type.bit_length_set.repeat_range(t.capacity - 1)";
       NAct KLoop "for (size_t {{ <index> }} = 0U; {{ <index> }} < {{ t.capacity }}UL; ++{{ <index> }})";
       NAct KOpen "";
       NAct KMacro "_serialize_any(t.element_type, reference + ('[%s]'|format(<index>)), element_offset)";
       NAct KClose "";
       NIf [
         ((CNot (CAtom "t.bit_length_set.fixed_length")),
          [NAct KRAssert "'(offset_bits - %s) >= %sULL'|format(<origin>, t.bit_length_set.min)";
           NAct KRAssert "'(offset_bits - %s) <= %sULL'|format(<origin>, t.bit_length_set.max)"])]
        [NAct KRAssert "'(offset_bits - %s) == %sULL'|format(<origin>, t.bit_length_set.max)"];
       NAct KCall "(void) {{ <origin> }};"]]);

   ("_serialize_variable_length_array", "t, reference, offset",
    [NAct KGuard "if ({{ reference }}.count > {{ _storage_capacity(t, reference) }})";
     NAct KOpen "";
     NAct KReturn "return -NUNAVUT_ERROR_REPRESENTATION_BAD_ARRAY_LENGTH;";
     NAct KClose "";
     NAct KMacro "_serialize_integer(t.length_field_type, reference + '.count', offset)";
     NSet "element_offset" "offset + t.bit_length_set";
     NSet "first_element_offset" "offset + t.length_field_type.bit_length";
     NJAssert (CAtom "(element_offset.min) == (first_element_offset.min)");
     NIf [
       ((CAtom "first_element_offset.is_aligned_at_byte()"),
        [NAct KRAssert "'offset_bits % 8U == 0U'"])]
      [];
     NIf [
       ((CAtom "t.element_type is BooleanType"),
        [NIf [
           ((CAtom "first_element_offset.is_aligned_at_byte()"),
            [])]
          [];
         NAct KMacro "_guard('%s.count'|format(reference))";
         NAct KCall "nunavutCopyBits(&buffer[0], offset_bits, {{ reference }}.count, &{{ reference }}.bitpacked[0], 0U);";
         NAct KCursor "offset_bits += {{ reference }}.count;"]);
       ((CAnd (CAnd (CAtom "t.element_type is PrimitiveType") (CAtom "t.element_type.bit_length == 8")) (CAtom "t.element_type is zero_cost_primitive")),
        [NIf [
           ((CAtom "element_offset.is_aligned_at_byte()"),
            [])]
          [];
         NAct KMacro "_guard('(%s.count * 8U)'|format(reference))";
         NAct KCall "nunavutCopyBits(&buffer[0], offset_bits, {{ reference }}.count * 8U, &{{ reference }}.elements[0], 0U);";
         NAct KCursor "offset_bits += {{ reference }}.count * 8U;"]);
       ((CAnd (CAtom "t.element_type is PrimitiveType") (CAtom "t.element_type is zero_cost_primitive")),
        [NIf [
           ((CAtom "t.element_type is FloatType"),
            [NAct KSAssert "static_assert(NUNAVUT_PLATFORM_IEEE754_FLOAT, ""Native IEEE754 binary32 required. TODO: relax constraint"");";
             NIf [
               ((CAtom "t.element_type.bit_length > 32"),
                [NAct KSAssert "static_assert(NUNAVUT_PLATFORM_IEEE754_DOUBLE, ""Native IEEE754 binary64 required. TODO: relax constraint"");"])]
              []])]
          [];
         NIf [
           ((CAtom "element_offset.is_aligned_at_byte()"),
            [])]
          [];
         NAct KMacro "_guard('(%s.count * %dUL)'|format(reference, t.element_type.bit_length))";
         NAct KCall "nunavutCopyBits(&buffer[0], offset_bits, {{ reference }}.count * {{ t.element_type.bit_length }}UL, &{{ reference }}.elements[0], 0U);";
         NAct KCursor "offset_bits += {{ reference }}.count * {{ t.element_type.bit_length }}UL;"])]
      [NAct KLoop "for (size_t {{ <index> }} = 0U; {{ <index> }} < {{ reference }}.count; ++{{ <index> }})";
       NAct KOpen "";
       NAct KMacro "_serialize_any(t.element_type, reference + ('.elements[%s]'|format(<index>)), element_offset)";
       NAct KClose ""]]);

   ("_serialize_composite", "t, reference, offset",
    [NSet "is_variable_size" "not t.inner_type.bit_length_set.fixed_length";
     NSet "size_bytes" "t.inner_type.bit_length_set.max|bits2bytes_ceil";
     NAct KStore "{{ typename_unsigned_length }} {{ <size_bytes> }} = {{ size_bytes }}UL;";
     NIf [
       ((CAtom "t is DelimitedType"),
        [NIf [
           ((CAtom "is_variable_size"),
            [NAct KMacro "_guard('%dULL'|format(t.delimiter_header_type.bit_length))";
             NAct KCursor "offset_bits += {{ t.delimiter_header_type.bit_length }}U;"])]
          [NJAssert (CAtom "size_bytes * 8 == (t.inner_type.bit_length_set.min) == (t.inner_type.bit_length_set.max)");
           NAct KMacro "_serialize_integer(t.delimiter_header_type, <size_bytes>, offset)"]])]
      [];
     NIf [
       ((CAtom "opt_override_capacity"),
        [NAct KMacro "_guard('0ULL')";
         NAct KGuard "if ({{ <size_bytes> }} > (capacity_bytes - (offset_bits / 8U)))";
         NAct KOpen "";
         NAct KStore "{{ <size_bytes> }} = capacity_bytes - (offset_bits / 8U);";
         NAct KClose ""])]
      [];
     NAct KRAssert "'offset_bits % 8U == 0U'";
     NAct KRAssert "'(offset_bits / 8U + %s) <= capacity_bytes'|format(<size_bytes>)";
     NAct KCall "{{ typename_error_type }} {{ <err> }} = {{ t|full_reference_name }}_serialize_( &{{ reference }}, &buffer[offset_bits / 8U], &{{ <size_bytes> }});";
     NAct KGuard "if ({{ <err> }} < 0)";
     NAct KOpen "";
     NAct KReturn "return {{ <err> }};";
     NAct KClose "";
     NIf [
       ((CNot (CAtom "t.inner_type.bit_length_set.fixed_length")),
        [NAct KRAssert "'(%s * 8U) >= %sULL'|format(<size_bytes>, t.inner_type.bit_length_set.min)";
         NAct KRAssert "'(%s * 8U) <= %sULL'|format(<size_bytes>, t.inner_type.bit_length_set.max)"])]
      [NAct KRAssert "'(%s * 8U) == %sULL'|format(<size_bytes>, t.inner_type.bit_length_set.max)"];
     NIf [
       ((CAnd (CAtom "t is DelimitedType") (CAtom "is_variable_size")),
        [NIf [
           ((CAtom "LITTLE_ENDIAN"),
            [NAct KCall "(void) memmove(&buffer[(offset_bits - {{ t.delimiter_header_type.bit_length }}) / 8U], &{{ <size_bytes> }}, {{ t.delimiter_header_type.bit_length|bits2bytes_ceil }}U);"])]
          [NAct KCall "{{ <err> }} = nunavutSetUxx(&buffer[0], capacity_bytes, offset_bits - {{ t.delimiter_header_type.bit_length }}, {{ <size_bytes> }}, {{ t.delimiter_header_type.bit_length }}U);";
           NAct KGuard "if ({{ <err> }} < 0)";
           NAct KOpen "";
           NAct KReturn "return {{ <err> }};";
           NAct KClose ""]])]
      [];
     NAct KCursor "offset_bits += {{ <size_bytes> }} * 8U;";
     NAct KRAssert "'offset_bits <= (capacity_bytes * 8U)'"])].

Definition walker_c_ser_macros_default : list (string * string * list tnode) :=
  [("serialize", "t",
    [NAct KGuard "if ((obj == {{ valuetoken_null }}) || (buffer == {{ valuetoken_null }}) || (inout_buffer_size_bytes == {{ valuetoken_null }}))";
     NAct KOpen "";
     NAct KReturn "return -NUNAVUT_ERROR_INVALID_ARGUMENT;";
     NAct KClose "";
     NIf [
       ((CAtom "t.inner_type.bit_length_set.max > 0"),
        [NAct KMacro "_serialize_impl(t)"])]
      [NAct KStore "*inout_buffer_size_bytes = 0U;"];
     NAct KReturn "return NUNAVUT_SUCCESS;"]);

   ("_serialize_impl", "t",
    [NAct KStore "const {{ typename_unsigned_length }} capacity_bytes = *inout_buffer_size_bytes;";
     NAct KGuard "if ((8U * ({{ typename_unsigned_bit_length }}) capacity_bytes) < {{ t.inner_type.bit_length_set.max }}UL)";
     NAct KOpen "";
     NAct KReturn "return -NUNAVUT_ERROR_SERIALIZATION_BUFFER_TOO_SMALL;";
     NAct KClose "";
     NAct KStore "{{ typename_unsigned_bit_length }} offset_bits = 0U;";
     NIf [
       ((CAtom "t.inner_type is StructureType"),
        [NFor "f, offset in t.inner_type.iterate_fields_with_offsets()"
          [NIf [
             ((CAtom "loop.first"),
              [NJAssert (CAtom "f.data_type.alignment_requirement <= t.inner_type.alignment_requirement")])]
            [NAct KMacro "_pad_to_alignment(f.data_type.alignment_requirement)"];
           NAct KOpen "";
           NAct KMacro "_serialize_any(f.data_type, 'obj->' + (f|id), offset)";
           NAct KClose ""]]);
       ((CAtom "t.inner_type is UnionType"),
        [NAct KOpen "";
         NAct KMacro "_serialize_integer(t.inner_type.tag_field_type, 'obj->_tag_', 0|bit_length_set)";
         NAct KClose "";
         NFor "f, offset in t.inner_type.iterate_fields_with_offsets()"
          [NAct KGuard "{{ 'if' if loop.first else 'else if' }} ({{ loop.index0 }}U == obj->_tag_)";
           NAct KOpen "";
           NJAssert (CAtom "f.data_type.alignment_requirement <= (offset.min)");
           NAct KMacro "_serialize_any(f.data_type, 'obj->' + (f|id), offset)";
           NAct KClose ""];
         NAct KElse "else";
         NAct KOpen "";
         NAct KReturn "return -NUNAVUT_ERROR_REPRESENTATION_BAD_UNION_TAG;";
         NAct KClose ""])]
      [NJAssert (CAtom "False")];
     NAct KMacro "_pad_to_alignment(t.inner_type.alignment_requirement)";
     NIf [
       ((CNot (CAtom "t.inner_type.bit_length_set.fixed_length")),
        [NAct KRAssert "'offset_bits >= %sULL'|format(t.inner_type.bit_length_set.min)";
         NAct KRAssert "'offset_bits <= %sULL'|format(t.inner_type.bit_length_set.max)"])]
      [NAct KRAssert "'offset_bits == %sULL'|format(t.inner_type.bit_length_set.max)"];
     NAct KRAssert "'offset_bits % 8U == 0U'";
     NAct KStore "*inout_buffer_size_bytes = ({{ typename_unsigned_length }}) (offset_bits / 8U);"]);

   ("_pad_to_alignment", "n_bits",
    [NIf [
       ((CAtom "n_bits > 1"),
        [NAct KGuard "if (offset_bits % {{ n_bits }}U != 0U)";
         NAct KOpen "";
         NAct KStore "const uint8_t {{ <pad> }} = (uint8_t)({{ n_bits }}U - offset_bits % {{ n_bits }}U);";
         NAct KRAssert "'%s > 0'|format(<pad>)";
         NAct KCall "const {{ typename_error_type }} {{ <err> }} = nunavutSetUxx(&buffer[0], capacity_bytes, offset_bits, 0U, {{ <pad> }});";
         NAct KGuard "if ({{ <err> }} < 0)";
         NAct KOpen "";
         NAct KReturn "return {{ <err> }};";
         NAct KClose "";
         NAct KCursor "offset_bits += {{ <pad> }};";
         NAct KRAssert "'offset_bits %% %dU == 0U'|format(n_bits)";
         NAct KClose ""])]
      []]);

   ("_serialize_any", "t, reference, offset",
    [NIf [
       ((CAtom "t.alignment_requirement > 1"),
        [NAct KRAssert "'offset_bits %% %dU == 0U'|format(t.alignment_requirement)"])]
      [];
     NIf [
       ((CAtom "offset.is_aligned_at_byte()"),
        [NAct KRAssert "'offset_bits % 8U == 0U'"])]
      [];
     NAct KRAssert "'(offset_bits + %dULL) <= (capacity_bytes * 8U)'|format(t.bit_length_set.max)";
     NIf [
       ((CAtom "t is VoidType"),
        [NAct KMacro "_serialize_void(t, offset)"]);
       ((CAtom "t is BooleanType"),
        [NAct KMacro "_serialize_boolean(t, reference, offset)"]);
       ((CAtom "t is IntegerType"),
        [NAct KMacro "_serialize_integer(t, reference, offset)"]);
       ((CAtom "t is FloatType"),
        [NAct KMacro "_serialize_float(t, reference, offset)"]);
       ((CAtom "t is FixedLengthArrayType"),
        [NAct KMacro "_serialize_fixed_length_array(t, reference, offset)"]);
       ((CAtom "t is VariableLengthArrayType"),
        [NAct KMacro "_serialize_variable_length_array(t, reference, offset)"]);
       ((CAtom "t is CompositeType"),
        [NAct KMacro "_serialize_composite(t, reference, offset)"])]
      [NJAssert (CAtom "False")]]);

   ("_serialize_void", "t, offset",
    [NIf [
       ((CAtom "offset.is_aligned_at_byte()"),
        [NIf [
           ((CAtom "t.bit_length <= 8"),
            [NAct KStore "buffer[offset_bits / 8U] = 0U;"])]
          [NAct KCall "(void) memset(&buffer[offset_bits / 8U], 0, {{ t.bit_length|bits2bytes_ceil }});"]])]
      [NAct KCall "const {{ typename_error_type }} {{ <err> }} = nunavutSetUxx(&buffer[0], capacity_bytes, offset_bits, 0U, {{ t.bit_length }}U);";
       NAct KGuard "if ({{ <err> }} < 0)";
       NAct KOpen "";
       NAct KReturn "return {{ <err> }};";
       NAct KClose ""];
     NAct KCursor "offset_bits += {{ t.bit_length }}UL;"]);

   ("_serialize_boolean", "t, reference, offset",
    [NIf [
       ((CAtom "offset.is_aligned_at_byte()"),
        [NAct KStore "buffer[offset_bits / 8U] = {{ reference }} ? 1U : 0U;"])]
      [NAct KGuard "if ({{ reference }})";
       NAct KOpen "";
       NAct KStore "buffer[offset_bits / 8U] = ({{ typename_byte }})(buffer[offset_bits / 8U] | (1U << (offset_bits % 8U)));";
       NAct KClose "";
       NAct KElse "else";
       NAct KOpen "";
       NAct KStore "buffer[offset_bits / 8U] = ({{ typename_byte }})(buffer[offset_bits / 8U] & ~(1U << (offset_bits % 8U)));";
       NAct KClose ""];
     NAct KCursor "offset_bits += 1U;"]);

   ("_serialize_integer", "t, reference, offset",
    [NIf [
       ((CAtom "t is saturated"),
        [NIf [
           ((CNot (CAtom "t.standard_bit_length")),
            [NAct KStore "{{ t|type_from_primitive }} {{ <sat> }} = {{ reference }};";
             NIf [
               ((CAtom "t is UnsignedIntegerType"),
                [NJAssert (CAtom "t.inclusive_value_range[0] == 0")])]
              [NAct KGuard "if ({{ <sat> }} < {{ t.inclusive_value_range[0]|literal(t) }})";
               NAct KOpen "";
               NAct KStore "{{ <sat> }} = {{ t.inclusive_value_range[0]|literal(t) }};";
               NAct KClose ""];
             NAct KGuard "if ({{ <sat> }} > {{ t.inclusive_value_range[1]|literal(t) }})";
             NAct KOpen "";
             NAct KStore "{{ <sat> }} = {{ t.inclusive_value_range[1]|literal(t) }};";
             NAct KClose ""])]
          [NSet "ref_value" "reference"]])]
      [NSet "ref_value" "reference"];
     NIf [
       ((CAnd (CAtom "offset.is_aligned_at_byte()") (CAtom "t.bit_length <= 8")),
        [NAct KStore "buffer[offset_bits / 8U] = ({{ typename_byte }})({{ <sat> }});"]);
       ((CAnd (CAtom "offset.is_aligned_at_byte()") (CAtom "LITTLE_ENDIAN")),
        [NAct KCall "(void) memmove(&buffer[offset_bits / 8U], &{{ <sat> }}, {{ t.bit_length|bits2bytes_ceil }}U);"])]
      [NAct KCall "const {{ typename_error_type }} {{ <err> }} = nunavutSet{{ 'U' if t is UnsignedIntegerType else 'I' }}xx(&buffer[0], capacity_bytes, offset_bits, {{ <sat> }}, {{ t.bit_length }}U);";
       NAct KGuard "if ({{ <err> }} < 0)";
       NAct KOpen "";
       NAct KReturn "return {{ <err> }};";
       NAct KClose ""];
     NAct KCursor "offset_bits += {{ t.bit_length }}U;"]);

   ("_serialize_float", "t, reference, offset",
    [NIf [
       ((CAtom "t is saturated"),
        [NIf [
           ((CAtom "t.bit_length not in (32, 64)"),
            [NAct KStore "{{ t|type_from_primitive }} {{ <sat> }} = {{ reference }};";
             NAct KGuard "if (isfinite({{ <sat> }}))";
             NAct KOpen "";
             NAct KGuard "if ({{ <sat> }} < {{ t.inclusive_value_range[0]|literal(t) }})";
             NAct KOpen "";
             NAct KStore "{{ <sat> }} = {{ t.inclusive_value_range[0]|literal(t) }};";
             NAct KClose "";
             NAct KGuard "if ({{ <sat> }} > {{ t.inclusive_value_range[1]|literal(t) }})";
             NAct KOpen "";
             NAct KStore "{{ <sat> }} = {{ t.inclusive_value_range[1]|literal(t) }};";
             NAct KClose "";
             NAct KClose ""]);
           ((CAtom "t.bit_length == 32"),
            [NSet "ref_value" "reference";
             NAct KSAssert "static_assert(NUNAVUT_PLATFORM_IEEE754_FLOAT, ""Native IEEE754 binary32 required. TODO: relax constraint"");"]);
           ((CAtom "t.bit_length == 64"),
            [NSet "ref_value" "reference";
             NAct KSAssert "static_assert(NUNAVUT_PLATFORM_IEEE754_DOUBLE, ""Native IEEE754 binary64 required. TODO: relax constraint"");"])]
          [NJAssert (CAtom "False")]])]
      [NSet "ref_value" "reference"];
     NIf [
       ((CAnd (CAtom "offset.is_aligned_at_byte()") (CAtom "LITTLE_ENDIAN")),
        [NIf [
           ((CAtom "t.bit_length == 16"),
            [NAct KCall "const uint16_t {{ <half> }} = nunavutFloat16Pack({{ <sat> }});";
             NAct KCall "(void) memmove(&buffer[offset_bits / 8U], &{{ <half> }}, 2U);"]);
           ((CAtom "t.bit_length == 32"),
            [NAct KSAssert "static_assert(NUNAVUT_PLATFORM_IEEE754_FLOAT, ""Native IEEE754 binary32 required. TODO: relax constraint"");";
             NAct KCall "(void) memmove(&buffer[offset_bits / 8U], &{{ <sat> }}, 4U);"]);
           ((CAtom "t.bit_length == 64"),
            [NAct KSAssert "static_assert(NUNAVUT_PLATFORM_IEEE754_DOUBLE, ""Native IEEE754 binary64 required. TODO: relax constraint"");";
             NAct KCall "(void) memmove(&buffer[offset_bits / 8U], &{{ <sat> }}, 8U);"])]
          [NJAssert (CAtom "False")]])]
      [NAct KCall "const {{ typename_error_type }} {{ <err> }} = nunavutSetF{{ t.bit_length }}(&buffer[0], capacity_bytes, offset_bits, {{ <sat> }});";
       NAct KGuard "if ({{ <err> }} < 0)";
       NAct KOpen "";
       NAct KReturn "return {{ <err> }};";
       NAct KClose ""];
     NAct KCursor "offset_bits += {{ t.bit_length }}U;"]);

   ("_serialize_fixed_length_array", "t, reference, offset",
    [NIf [
       ((CAtom "t.element_type is BooleanType"),
        [NIf [
           ((CAtom "offset.is_aligned_at_byte()"),
            [])]
          [];
         NAct KCall "nunavutCopyBits(&buffer[0], offset_bits, {{ t.capacity }}UL, &{{ reference }}_bitpacked_[0], 0U);";
         NAct KCursor "offset_bits += {{ t.capacity }}UL;"]);
       ((CAnd (CAnd (CAtom "t.element_type is PrimitiveType") (CAtom "t.element_type.bit_length == 8")) (CAtom "t.element_type is zero_cost_primitive")),
        [NIf [
           ((CAtom "offset.is_aligned_at_byte()"),
            [])]
          [];
         NAct KCall "nunavutCopyBits(&buffer[0], offset_bits, {{ t.capacity }}UL * 8U, &{{ reference }}[0], 0U);";
         NAct KCursor "offset_bits += {{ t.capacity }}UL * 8U;"]);
       ((CAnd (CAtom "t.element_type is PrimitiveType") (CAtom "t.element_type is zero_cost_primitive")),
        [NIf [
           ((CAtom "t.element_type is FloatType"),
            [NAct KSAssert "static_assert(NUNAVUT_PLATFORM_IEEE754_FLOAT, ""Native IEEE754 binary32 required. TODO: relax constraint"");";
             NIf [
               ((CAtom "t.element_type.bit_length > 32"),
                [NAct KSAssert "static_assert(NUNAVUT_PLATFORM_IEEE754_DOUBLE, ""Native IEEE754 binary64 required. TODO: relax constraint"");"])]
              []])]
          [];
         NIf [
           ((CAtom "offset.is_aligned_at_byte()"),
            [])]
          [];
         NAct KCall "nunavutCopyBits(&buffer[0], offset_bits, {{ t.capacity }}UL * {{ t.element_type.bit_length }}UL, &{{ reference }}[0], 0U);";
         NAct KCursor "offset_bits += {{ t.capacity }}UL * {{ t.element_type.bit_length }}UL;"])]
      [NAct KStore "const {{ typename_unsigned_bit_length }} {{ <origin> }} = offset_bits;";
       NSet "element_offset" "offset + t.element_type.bit_length_set.repeat_range(t.capacity - 1)";
       NAct KLoop "for (size_t {{ <index> }} = 0U; {{ <index> }} < {{ t.capacity }}UL; ++{{ <index> }})";
       NAct KOpen "";
       NAct KMacro "_serialize_any(t.element_type, reference + ('[%s]'|format(<index>)), element_offset)";
       NAct KClose "";
       NIf [
         ((CNot (CAtom "t.bit_length_set.fixed_length")),
          [NAct KRAssert "'(offset_bits - %s) >= %sULL'|format(<origin>, t.bit_length_set.min)";
           NAct KRAssert "'(offset_bits - %s) <= %sULL'|format(<origin>, t.bit_length_set.max)"])]
        [NAct KRAssert "'(offset_bits - %s) == %sULL'|format(<origin>, t.bit_length_set.max)"];
       NAct KCall "(void) {{ <origin> }};"]]);

   ("_serialize_variable_length_array", "t, reference, offset",
    [NAct KGuard "if ({{ reference }}.count > {{ t.capacity }})";
     NAct KOpen "";
     NAct KReturn "return -NUNAVUT_ERROR_REPRESENTATION_BAD_ARRAY_LENGTH;";
     NAct KClose "";
     NAct KMacro "_serialize_integer(t.length_field_type, reference + '.count', offset)";
     NSet "element_offset" "offset + t.bit_length_set";
     NSet "first_element_offset" "offset + t.length_field_type.bit_length";
     NJAssert (CAtom "(element_offset.min) == (first_element_offset.min)");
     NIf [
       ((CAtom "first_element_offset.is_aligned_at_byte()"),
        [NAct KRAssert "'offset_bits % 8U == 0U'"])]
      [];
     NIf [
       ((CAtom "t.element_type is BooleanType"),
        [NIf [
           ((CAtom "first_element_offset.is_aligned_at_byte()"),
            [])]
          [];
         NAct KCall "nunavutCopyBits(&buffer[0], offset_bits, {{ reference }}.count, &{{ reference }}.bitpacked[0], 0U);";
         NAct KCursor "offset_bits += {{ reference }}.count;"]);
       ((CAnd (CAnd (CAtom "t.element_type is PrimitiveType") (CAtom "t.element_type.bit_length == 8")) (CAtom "t.element_type is zero_cost_primitive")),
        [NIf [
           ((CAtom "element_offset.is_aligned_at_byte()"),
            [])]
          [];
         NAct KCall "nunavutCopyBits(&buffer[0], offset_bits, {{ reference }}.count * 8U, &{{ reference }}.elements[0], 0U);";
         NAct KCursor "offset_bits += {{ reference }}.count * 8U;"]);
       ((CAnd (CAtom "t.element_type is PrimitiveType") (CAtom "t.element_type is zero_cost_primitive")),
        [NIf [
           ((CAtom "t.element_type is FloatType"),
            [NAct KSAssert "static_assert(NUNAVUT_PLATFORM_IEEE754_FLOAT, ""Native IEEE754 binary32 required. TODO: relax constraint"");";
             NIf [
               ((CAtom "t.element_type.bit_length > 32"),
                [NAct KSAssert "static_assert(NUNAVUT_PLATFORM_IEEE754_DOUBLE, ""Native IEEE754 binary64 required. TODO: relax constraint"");"])]
              []])]
          [];
         NIf [
           ((CAtom "element_offset.is_aligned_at_byte()"),
            [])]
          [];
         NAct KCall "nunavutCopyBits(&buffer[0], offset_bits, {{ reference }}.count * {{ t.element_type.bit_length }}UL, &{{ reference }}.elements[0], 0U);";
         NAct KCursor "offset_bits += {{ reference }}.count * {{ t.element_type.bit_length }}UL;"])]
      [NAct KLoop "for (size_t {{ <index> }} = 0U; {{ <index> }} < {{ reference }}.count; ++{{ <index> }})";
       NAct KOpen "";
       NAct KMacro "_serialize_any(t.element_type, reference + ('.elements[%s]'|format(<index>)), element_offset)";
       NAct KClose ""]]);

   ("_serialize_composite", "t, reference, offset",
    [NSet "is_variable_size" "not t.inner_type.bit_length_set.fixed_length";
     NSet "size_bytes" "t.inner_type.bit_length_set.max|bits2bytes_ceil";
     NAct KStore "{{ typename_unsigned_length }} {{ <size_bytes> }} = {{ size_bytes }}UL;";
     NIf [
       ((CAtom "t is DelimitedType"),
        [NIf [
           ((CAtom "is_variable_size"),
            [NAct KCursor "offset_bits += {{ t.delimiter_header_type.bit_length }}U;"])]
          [NJAssert (CAtom "size_bytes * 8 == (t.inner_type.bit_length_set.min) == (t.inner_type.bit_length_set.max)");
           NAct KMacro "_serialize_integer(t.delimiter_header_type, <size_bytes>, offset)"]])]
      [];
     NAct KRAssert "'offset_bits % 8U == 0U'";
     NAct KRAssert "'(offset_bits / 8U + %s) <= capacity_bytes'|format(<size_bytes>)";
     NAct KCall "{{ typename_error_type }} {{ <err> }} = {{ t|full_reference_name }}_serialize_( &{{ reference }}, &buffer[offset_bits / 8U], &{{ <size_bytes> }});";
     NAct KGuard "if ({{ <err> }} < 0)";
     NAct KOpen "";
     NAct KReturn "return {{ <err> }};";
     NAct KClose "";
     NIf [
       ((CNot (CAtom "t.inner_type.bit_length_set.fixed_length")),
        [NAct KRAssert "'(%s * 8U) >= %sULL'|format(<size_bytes>, t.inner_type.bit_length_set.min)";
         NAct KRAssert "'(%s * 8U) <= %sULL'|format(<size_bytes>, t.inner_type.bit_length_set.max)"])]
      [NAct KRAssert "'(%s * 8U) == %sULL'|format(<size_bytes>, t.inner_type.bit_length_set.max)"];
     NIf [
       ((CAnd (CAtom "t is DelimitedType") (CAtom "is_variable_size")),
        [NIf [
           ((CAtom "LITTLE_ENDIAN"),
            [NAct KCall "(void) memmove(&buffer[(offset_bits - {{ t.delimiter_header_type.bit_length }}) / 8U], &{{ <size_bytes> }}, {{ t.delimiter_header_type.bit_length|bits2bytes_ceil }}U);"])]
          [NAct KCall "{{ <err> }} = nunavutSetUxx(&buffer[0], capacity_bytes, offset_bits - {{ t.delimiter_header_type.bit_length }}, {{ <size_bytes> }}, {{ t.delimiter_header_type.bit_length }}U);";
           NAct KGuard "if ({{ <err> }} < 0)";
           NAct KOpen "";
           NAct KReturn "return {{ <err> }};";
           NAct KClose ""]])]
      [];
     NAct KCursor "offset_bits += {{ <size_bytes> }} * 8U;";
     NAct KRAssert "'offset_bits <= (capacity_bytes * 8U)'"])].

Definition walker_c_des_dispatch : list (string * list string) :=
  [("t is VoidType", ["_deserialize_void"]);
   ("t is BooleanType", ["_deserialize_boolean"]);
   ("t is IntegerType", ["_deserialize_integer"]);
   ("t is FloatType", ["_deserialize_float"]);
   ("t is FixedLengthArrayType", ["_deserialize_fixed_length_array"]);
   ("t is VariableLengthArrayType", ["_deserialize_variable_length_array"]);
   ("t is CompositeType", ["_deserialize_composite"]);
   ("<else>", ["assert False"])].

Definition walker_c_des_macros : list (string * string * list tnode) :=
  [("deserialize", "t",
    [NAct KGuard "if ((out_obj == {{ valuetoken_null }}) || (inout_buffer_size_bytes == {{ valuetoken_null }}) || ((buffer == {{ valuetoken_null }}) && (0 != *inout_buffer_size_bytes)))";
     NAct KOpen "";
     NAct KReturn "return -NUNAVUT_ERROR_INVALID_ARGUMENT;";
     NAct KClose "";
     NAct KGuard "if (buffer == {{ valuetoken_null }})";
     NAct KOpen "";
     NAct KStore "buffer = (const {{ typename_byte }}*)"""";";
     NAct KClose "";
     NIf [
       ((CAtom "t.inner_type.bit_length_set.max > 0"),
        [NAct KMacro "_deserialize_impl(t)"])]
      [NAct KStore "*inout_buffer_size_bytes = 0U;"];
     NAct KReturn "return NUNAVUT_SUCCESS;"]);

   ("_deserialize_impl", "t",
    [NAct KStore "const {{ typename_unsigned_length }} capacity_bytes = *inout_buffer_size_bytes;";
     NAct KStore "const {{ typename_unsigned_bit_length }} capacity_bits = capacity_bytes * ({{ typename_unsigned_bit_length }}) 8U;";
     NAct KStore "{{ typename_unsigned_bit_length }} offset_bits = 0U;";
     NIf [
       ((CAtom "t.inner_type is StructureType"),
        [NFor "f, offset in t.inner_type.iterate_fields_with_offsets()"
          [NIf [
             ((CAtom "loop.first"),
              [NJAssert (CAtom "f.data_type.alignment_requirement <= t.inner_type.alignment_requirement")])]
            [NAct KMacro "_pad_to_alignment(f.data_type.alignment_requirement)"];
           NAct KMacro "_deserialize_any(f.data_type, 'out_obj->' + (f|id), offset)"]]);
       ((CAtom "t.inner_type is UnionType"),
        [NAct KMacro "_deserialize_integer(t.inner_type.tag_field_type, 'out_obj->_tag_', 0|bit_length_set)";
         NFor "f, offset in t.inner_type.iterate_fields_with_offsets()"
          [NAct KGuard "{{ 'if' if loop.first else 'else if' }} ({{ loop.index0 }}U == out_obj->_tag_)";
           NAct KOpen "";
           NJAssert (CAtom "f.data_type.alignment_requirement <= (offset.min)");
           NAct KMacro "_deserialize_any(f.data_type, 'out_obj->' + (f|id), offset)";
           NAct KClose ""];
         NAct KElse "else";
         NAct KOpen "";
         NAct KReturn "return -NUNAVUT_ERROR_REPRESENTATION_BAD_UNION_TAG;";
         NAct KClose ""])]
      [NJAssert (CAtom "False")];
     NAct KMacro "_pad_to_alignment(t.inner_type.alignment_requirement)";
     NAct KRAssert "'offset_bits % 8U == 0U'";
     NAct KCall "*inout_buffer_size_bytes = ({{ typename_unsigned_length }}) (nunavutChooseMin(offset_bits, capacity_bits) / 8U);";
     NAct KRAssert "'capacity_bytes >= *inout_buffer_size_bytes'"]);

   ("_pad_to_alignment", "n_bits",
    [NIf [
       ((CAtom "n_bits > 1"),
        [NJAssert (CAtom "n_bits in (8, 16, 32, 64)");
         NAct KCursor "offset_bits = (offset_bits + {{ n_bits - 1 }}U) & ~({{ typename_unsigned_bit_length }}) {{ n_bits - 1 }}U;"])]
      []]);

   ("_deserialize_any", "t, reference, offset",
    [NIf [
       ((CAtom "t.alignment_requirement > 1"),
        [NAct KRAssert "'offset_bits %% %dU == 0U'|format(t.alignment_requirement)"])]
      [];
     NIf [
       ((CAtom "offset.is_aligned_at_byte()"),
        [NAct KRAssert "'offset_bits % 8U == 0U'"])]
      [];
     NIf [
       ((CAtom "t is VoidType"),
        [NAct KMacro "_deserialize_void(t, offset)"]);
       ((CAtom "t is BooleanType"),
        [NAct KMacro "_deserialize_boolean(t, reference, offset)"]);
       ((CAtom "t is IntegerType"),
        [NAct KMacro "_deserialize_integer(t, reference, offset)"]);
       ((CAtom "t is FloatType"),
        [NAct KMacro "_deserialize_float(t, reference, offset)"]);
       ((CAtom "t is FixedLengthArrayType"),
        [NAct KMacro "_deserialize_fixed_length_array(t, reference, offset)"]);
       ((CAtom "t is VariableLengthArrayType"),
        [NAct KMacro "_deserialize_variable_length_array(t, reference, offset)"]);
       ((CAtom "t is CompositeType"),
        [NAct KMacro "_deserialize_composite(t, reference, offset)"])]
      [NJAssert (CAtom "False")]]);

   ("_deserialize_void", "t, offset",
    [NAct KCursor "offset_bits += {{ t.bit_length }};"]);

   ("_deserialize_boolean", "t, reference, offset",
    [NAct KGuard "if (offset_bits < capacity_bits)";
     NAct KOpen "";
     NIf [
       ((CAtom "offset.is_aligned_at_byte()"),
        [NAct KStore "{{ reference }} = (buffer[offset_bits / 8U] & 1U) != 0U;"])]
      [NAct KStore "{{ reference }} = (buffer[offset_bits / 8U] & (1U << (offset_bits % 8U))) != 0U;"];
     NAct KClose "";
     NAct KElse "else";
     NAct KOpen "";
     NAct KStore "{{ reference }} = {{ valuetoken_false }};";
     NAct KClose "";
     NAct KCursor "offset_bits += 1U;"]);

   ("_deserialize_integer", "t, reference, offset",
    [NSet "getter" "'nunavutGet%s%d'|format('U' if t is UnsignedIntegerType else 'I', t|to_standard_bit_length)";
     NIf [
       ((CAnd (CAnd (CAtom "offset.is_aligned_at_byte()") (CAtom "t is UnsignedIntegerType")) (CAtom "t.bit_length <= 8")),
        [NAct KGuard "if ((offset_bits + {{ t.bit_length }}U) <= capacity_bits)";
         NAct KOpen "";
         NAct KStore "{{ reference }} = buffer[offset_bits / 8U] & {{ 2 ** t.bit_length - 1 }}U;";
         NAct KClose "";
         NAct KElse "else";
         NAct KOpen "";
         NAct KStore "{{ reference }} = 0U;";
         NAct KClose ""])]
      [NAct KCall "{{ reference }} = {{ getter }}(&buffer[0], capacity_bytes, offset_bits, {{ t.bit_length }});"];
     NAct KCursor "offset_bits += {{ t.bit_length }}U;"]);

   ("_deserialize_float", "t, reference, offset",
    [NAct KCall "{{ reference }} = nunavutGetF{{ t.bit_length }}(&buffer[0], capacity_bytes, offset_bits);";
     NAct KCursor "offset_bits += {{ t.bit_length }}U;"]);

   ("_deserialize_fixed_length_array", "t, reference, offset",
    [NIf [
       ((CAtom "t.element_type is BooleanType"),
        [NAct KCall "nunavutGetBits(&{{ reference }}_bitpacked_[0], &buffer[0], capacity_bytes, offset_bits, {{ t.capacity }}UL);";
         NAct KCursor "offset_bits += {{ t.capacity }}UL;"]);
       ((CAnd (CAnd (CAtom "t.element_type is PrimitiveType") (CAtom "t.element_type.bit_length == 8")) (CAtom "t.element_type is zero_cost_primitive")),
        [NAct KCall "nunavutGetBits(&{{ reference }}[0], &buffer[0], capacity_bytes, offset_bits, {{ t.capacity }}UL * 8U);";
         NAct KCursor "offset_bits += {{ t.capacity }}UL * 8U;"]);
       ((CAnd (CAtom "t.element_type is PrimitiveType") (CAtom "t.element_type is zero_cost_primitive")),
        [NIf [
           ((CAtom "t.element_type is FloatType"),
            [NAct KSAssert "static_assert(NUNAVUT_PLATFORM_IEEE754_FLOAT, ""Native IEEE754 binary32 required. TODO: relax constraint"");";
             NIf [
               ((CAtom "t.element_type.bit_length > 32"),
                [NAct KSAssert "static_assert(NUNAVUT_PLATFORM_IEEE754_DOUBLE, ""Native IEEE754 binary64 required. TODO: relax constraint"");"])]
              []])]
          [];
         NAct KCall "nunavutGetBits(&{{ reference }}[0], &buffer[0], capacity_bytes, offset_bits, {{ t.capacity }}UL * {{ t.element_type.bit_length }}U);";
         NAct KCursor "offset_bits += {{ t.capacity }}UL * {{ t.element_type.bit_length }}U;"])]
      [NSet "element_offset" "offset + t.element_type.bit_length_set.repeat_range(t.capacity - 1)";
       NAct KLoop "for (size_t {{ <index> }} = 0U; {{ <index> }} < {{ t.capacity }}UL; ++{{ <index> }})";
       NAct KOpen "";
       NAct KMacro "_deserialize_any(t.element_type, reference + ('[%s]'|format(<index>)), element_offset)";
       NAct KClose ""]]);

   ("_deserialize_variable_length_array", "t, reference, offset",
    [NAct KMacro "_deserialize_integer(t.length_field_type, reference + '.count', offset)";
     NIf [
       ((CAnd (CAtom "opt_override_capacity") (CAtom "t.element_type is not BooleanType")),
        [NAct KGuard "if ({{ reference }}.count > (sizeof({{ reference }}.elements) / sizeof({{ reference }}.elements[0])))"])]
      [NAct KGuard "if ({{ reference }}.count > {{ t.capacity }}U)"];
     NAct KOpen "";
     NAct KReturn "return -NUNAVUT_ERROR_REPRESENTATION_BAD_ARRAY_LENGTH;";
     NAct KClose "";
     NSet "element_offset" "offset + t.bit_length_set";
     NSet "first_element_offset" "offset + t.length_field_type.bit_length";
     NJAssert (CAtom "(element_offset.min) == (first_element_offset.min)");
     NIf [
       ((CAtom "first_element_offset.is_aligned_at_byte()"),
        [NAct KRAssert "'offset_bits % 8U == 0U'"])]
      [];
     NIf [
       ((CAtom "t.element_type is BooleanType"),
        [NAct KCall "nunavutGetBits(&{{ reference }}.bitpacked[0], &buffer[0], capacity_bytes, offset_bits, {{ reference }}.count);";
         NAct KCursor "offset_bits += {{ reference }}.count;"]);
       ((CAnd (CAnd (CAtom "t.element_type is PrimitiveType") (CAtom "t.element_type.bit_length == 8")) (CAtom "t.element_type is zero_cost_primitive")),
        [NAct KCall "nunavutGetBits(&{{ reference }}.elements[0], &buffer[0], capacity_bytes, offset_bits, {{ reference }}.count * 8U);";
         NAct KCursor "offset_bits += {{ reference }}.count * 8U;"]);
       ((CAnd (CAtom "t.element_type is PrimitiveType") (CAtom "t.element_type is zero_cost_primitive")),
        [NIf [
           ((CAtom "t.element_type is FloatType"),
            [NAct KSAssert "static_assert(NUNAVUT_PLATFORM_IEEE754_FLOAT, ""Native IEEE754 binary32 required. TODO: relax constraint"");";
             NIf [
               ((CAtom "t.element_type.bit_length > 32"),
                [NAct KSAssert "static_assert(NUNAVUT_PLATFORM_IEEE754_DOUBLE, ""Native IEEE754 binary64 required. TODO: relax constraint"");"])]
              []])]
          [];
         NAct KCall "nunavutGetBits(&{{ reference }}.elements[0], &buffer[0], capacity_bytes, offset_bits, {{ reference }}.count * {{ t.element_type.bit_length }}U);";
         NAct KCursor "offset_bits += {{ reference }}.count * {{ t.element_type.bit_length }}U;"])]
      [NAct KLoop "for (size_t {{ <index> }} = 0U; {{ <index> }} < {{ reference }}.count; ++{{ <index> }})";
       NAct KOpen "";
       NAct KMacro "_deserialize_any(t.element_type, reference + ('.elements[%s]'|format(<index>)), element_offset)";
       NAct KClose ""]]);

   ("_deserialize_composite", "t, reference, offset",
    [NSet "remaining_bytes" "(capacity_bytes - nunavutChooseMin((offset_bits / 8U), capacity_bytes))";
     NAct KOpen "";
     NIf [
       ((CAtom "t is DelimitedType"),
        [NAct KStore "{{ typename_unsigned_length }} {{ <size_bytes> }} = 0U;";
         NAct KMacro "_deserialize_integer(t.delimiter_header_type, <size_bytes>, offset)";
         NAct KGuard "if ({{ <size_bytes> }} > {{ remaining_bytes }})";
         NAct KOpen "";
         NAct KReturn "return -NUNAVUT_ERROR_REPRESENTATION_BAD_DELIMITER_HEADER;";
         NAct KClose "";
         NAct KStore "const {{ typename_unsigned_length }} {{ <dh> }} = {{ <size_bytes> }};"])]
      [NAct KStore "{{ typename_unsigned_length }} {{ <size_bytes> }} = ({{ typename_unsigned_length }}){{ remaining_bytes }};"];
     NAct KRAssert "'offset_bits % 8U == 0U'";
     NAct KCall "const {{ typename_error_type }} {{ <err> }} = {{ t|full_reference_name }}_deserialize_( &{{ reference }}, &buffer[nunavutChooseMin(offset_bits / 8U, capacity_bytes)], &{{ <size_bytes> }});";
     NAct KGuard "if ({{ <err> }} < 0)";
     NAct KOpen "";
     NAct KReturn "return {{ <err> }};";
     NAct KClose "";
     NIf [
       ((CAtom "t is DelimitedType"),
        [NAct KCursor "offset_bits += {{ <dh> }} * 8U;"])]
      [NAct KCursor "offset_bits += {{ <size_bytes> }} * 8U;"];
     NAct KClose ""])].

Definition walker_c_des_macros_default : list (string * string * list tnode) :=
  [("deserialize", "t",
    [NAct KGuard "if ((out_obj == {{ valuetoken_null }}) || (inout_buffer_size_bytes == {{ valuetoken_null }}) || ((buffer == {{ valuetoken_null }}) && (0 != *inout_buffer_size_bytes)))";
     NAct KOpen "";
     NAct KReturn "return -NUNAVUT_ERROR_INVALID_ARGUMENT;";
     NAct KClose "";
     NAct KGuard "if (buffer == {{ valuetoken_null }})";
     NAct KOpen "";
     NAct KStore "buffer = (const {{ typename_byte }}*)"""";";
     NAct KClose "";
     NIf [
       ((CAtom "t.inner_type.bit_length_set.max > 0"),
        [NAct KMacro "_deserialize_impl(t)"])]
      [NAct KStore "*inout_buffer_size_bytes = 0U;"];
     NAct KReturn "return NUNAVUT_SUCCESS;"]);

   ("_deserialize_impl", "t",
    [NAct KStore "const {{ typename_unsigned_length }} capacity_bytes = *inout_buffer_size_bytes;";
     NAct KStore "const {{ typename_unsigned_bit_length }} capacity_bits = capacity_bytes * ({{ typename_unsigned_bit_length }}) 8U;";
     NAct KStore "{{ typename_unsigned_bit_length }} offset_bits = 0U;";
     NIf [
       ((CAtom "t.inner_type is StructureType"),
        [NFor "f, offset in t.inner_type.iterate_fields_with_offsets()"
          [NIf [
             ((CAtom "loop.first"),
              [NJAssert (CAtom "f.data_type.alignment_requirement <= t.inner_type.alignment_requirement")])]
            [NAct KMacro "_pad_to_alignment(f.data_type.alignment_requirement)"];
           NAct KMacro "_deserialize_any(f.data_type, 'out_obj->' + (f|id), offset)"]]);
       ((CAtom "t.inner_type is UnionType"),
        [NAct KMacro "_deserialize_integer(t.inner_type.tag_field_type, 'out_obj->_tag_', 0|bit_length_set)";
         NFor "f, offset in t.inner_type.iterate_fields_with_offsets()"
          [NAct KGuard "{{ 'if' if loop.first else 'else if' }} ({{ loop.index0 }}U == out_obj->_tag_)";
           NAct KOpen "";
           NJAssert (CAtom "f.data_type.alignment_requirement <= (offset.min)");
           NAct KMacro "_deserialize_any(f.data_type, 'out_obj->' + (f|id), offset)";
           NAct KClose ""];
         NAct KElse "else";
         NAct KOpen "";
         NAct KReturn "return -NUNAVUT_ERROR_REPRESENTATION_BAD_UNION_TAG;";
         NAct KClose ""])]
      [NJAssert (CAtom "False")];
     NAct KMacro "_pad_to_alignment(t.inner_type.alignment_requirement)";
     NAct KRAssert "'offset_bits % 8U == 0U'";
     NAct KCall "*inout_buffer_size_bytes = ({{ typename_unsigned_length }}) (nunavutChooseMin(offset_bits, capacity_bits) / 8U);";
     NAct KRAssert "'capacity_bytes >= *inout_buffer_size_bytes'"]);

   ("_pad_to_alignment", "n_bits",
    [NIf [
       ((CAtom "n_bits > 1"),
        [NJAssert (CAtom "n_bits in (8, 16, 32, 64)");
         NAct KCursor "offset_bits = (offset_bits + {{ n_bits - 1 }}U) & ~({{ typename_unsigned_bit_length }}) {{ n_bits - 1 }}U;"])]
      []]);

   ("_deserialize_any", "t, reference, offset",
    [NIf [
       ((CAtom "t.alignment_requirement > 1"),
        [NAct KRAssert "'offset_bits %% %dU == 0U'|format(t.alignment_requirement)"])]
      [];
     NIf [
       ((CAtom "offset.is_aligned_at_byte()"),
        [NAct KRAssert "'offset_bits % 8U == 0U'"])]
      [];
     NIf [
       ((CAtom "t is VoidType"),
        [NAct KMacro "_deserialize_void(t, offset)"]);
       ((CAtom "t is BooleanType"),
        [NAct KMacro "_deserialize_boolean(t, reference, offset)"]);
       ((CAtom "t is IntegerType"),
        [NAct KMacro "_deserialize_integer(t, reference, offset)"]);
       ((CAtom "t is FloatType"),
        [NAct KMacro "_deserialize_float(t, reference, offset)"]);
       ((CAtom "t is FixedLengthArrayType"),
        [NAct KMacro "_deserialize_fixed_length_array(t, reference, offset)"]);
       ((CAtom "t is VariableLengthArrayType"),
        [NAct KMacro "_deserialize_variable_length_array(t, reference, offset)"]);
       ((CAtom "t is CompositeType"),
        [NAct KMacro "_deserialize_composite(t, reference, offset)"])]
      [NJAssert (CAtom "False")]]);

   ("_deserialize_void", "t, offset",
    [NAct KCursor "offset_bits += {{ t.bit_length }};"]);

   ("_deserialize_boolean", "t, reference, offset",
    [NAct KGuard "if (offset_bits < capacity_bits)";
     NAct KOpen "";
     NIf [
       ((CAtom "offset.is_aligned_at_byte()"),
        [NAct KStore "{{ reference }} = (buffer[offset_bits / 8U] & 1U) != 0U;"])]
      [NAct KStore "{{ reference }} = (buffer[offset_bits / 8U] & (1U << (offset_bits % 8U))) != 0U;"];
     NAct KClose "";
     NAct KElse "else";
     NAct KOpen "";
     NAct KStore "{{ reference }} = {{ valuetoken_false }};";
     NAct KClose "";
     NAct KCursor "offset_bits += 1U;"]);

   ("_deserialize_integer", "t, reference, offset",
    [NSet "getter" "'nunavutGet%s%d'|format('U' if t is UnsignedIntegerType else 'I', t|to_standard_bit_length)";
     NIf [
       ((CAnd (CAnd (CAtom "offset.is_aligned_at_byte()") (CAtom "t is UnsignedIntegerType")) (CAtom "t.bit_length <= 8")),
        [NAct KGuard "if ((offset_bits + {{ t.bit_length }}U) <= capacity_bits)";
         NAct KOpen "";
         NAct KStore "{{ reference }} = buffer[offset_bits / 8U] & {{ 2 ** t.bit_length - 1 }}U;";
         NAct KClose "";
         NAct KElse "else";
         NAct KOpen "";
         NAct KStore "{{ reference }} = 0U;";
         NAct KClose ""])]
      [NAct KCall "{{ reference }} = {{ getter }}(&buffer[0], capacity_bytes, offset_bits, {{ t.bit_length }});"];
     NAct KCursor "offset_bits += {{ t.bit_length }}U;"]);

   ("_deserialize_float", "t, reference, offset",
    [NAct KCall "{{ reference }} = nunavutGetF{{ t.bit_length }}(&buffer[0], capacity_bytes, offset_bits);";
     NAct KCursor "offset_bits += {{ t.bit_length }}U;"]);

   ("_deserialize_fixed_length_array", "t, reference, offset",
    [NIf [
       ((CAtom "t.element_type is BooleanType"),
        [NAct KCall "nunavutGetBits(&{{ reference }}_bitpacked_[0], &buffer[0], capacity_bytes, offset_bits, {{ t.capacity }}UL);";
         NAct KCursor "offset_bits += {{ t.capacity }}UL;"]);
       ((CAnd (CAnd (CAtom "t.element_type is PrimitiveType") (CAtom "t.element_type.bit_length == 8")) (CAtom "t.element_type is zero_cost_primitive")),
        [NAct KCall "nunavutGetBits(&{{ reference }}[0], &buffer[0], capacity_bytes, offset_bits, {{ t.capacity }}UL * 8U);";
         NAct KCursor "offset_bits += {{ t.capacity }}UL * 8U;"]);
       ((CAnd (CAtom "t.element_type is PrimitiveType") (CAtom "t.element_type is zero_cost_primitive")),
        [NIf [
           ((CAtom "t.element_type is FloatType"),
            [NAct KSAssert "static_assert(NUNAVUT_PLATFORM_IEEE754_FLOAT, ""Native IEEE754 binary32 required. TODO: relax constraint"");";
             NIf [
               ((CAtom "t.element_type.bit_length > 32"),
                [NAct KSAssert "static_assert(NUNAVUT_PLATFORM_IEEE754_DOUBLE, ""Native IEEE754 binary64 required. TODO: relax constraint"");"])]
              []])]
          [];
         NAct KCall "nunavutGetBits(&{{ reference }}[0], &buffer[0], capacity_bytes, offset_bits, {{ t.capacity }}UL * {{ t.element_type.bit_length }}U);";
         NAct KCursor "offset_bits += {{ t.capacity }}UL * {{ t.element_type.bit_length }}U;"])]
      [NSet "element_offset" "offset + t.element_type.bit_length_set.repeat_range(t.capacity - 1)";
       NAct KLoop "for (size_t {{ <index> }} = 0U; {{ <index> }} < {{ t.capacity }}UL; ++{{ <index> }})";
       NAct KOpen "";
       NAct KMacro "_deserialize_any(t.element_type, reference + ('[%s]'|format(<index>)), element_offset)";
       NAct KClose ""]]);

   ("_deserialize_variable_length_array", "t, reference, offset",
    [NAct KMacro "_deserialize_integer(t.length_field_type, reference + '.count', offset)";
     NAct KGuard "if ({{ reference }}.count > {{ t.capacity }}U)";
     NAct KOpen "";
     NAct KReturn "return -NUNAVUT_ERROR_REPRESENTATION_BAD_ARRAY_LENGTH;";
     NAct KClose "";
     NSet "element_offset" "offset + t.bit_length_set";
     NSet "first_element_offset" "offset + t.length_field_type.bit_length";
     NJAssert (CAtom "(element_offset.min) == (first_element_offset.min)");
     NIf [
       ((CAtom "first_element_offset.is_aligned_at_byte()"),
        [NAct KRAssert "'offset_bits % 8U == 0U'"])]
      [];
     NIf [
       ((CAtom "t.element_type is BooleanType"),
        [NAct KCall "nunavutGetBits(&{{ reference }}.bitpacked[0], &buffer[0], capacity_bytes, offset_bits, {{ reference }}.count);";
         NAct KCursor "offset_bits += {{ reference }}.count;"]);
       ((CAnd (CAnd (CAtom "t.element_type is PrimitiveType") (CAtom "t.element_type.bit_length == 8")) (CAtom "t.element_type is zero_cost_primitive")),
        [NAct KCall "nunavutGetBits(&{{ reference }}.elements[0], &buffer[0], capacity_bytes, offset_bits, {{ reference }}.count * 8U);";
         NAct KCursor "offset_bits += {{ reference }}.count * 8U;"]);
       ((CAnd (CAtom "t.element_type is PrimitiveType") (CAtom "t.element_type is zero_cost_primitive")),
        [NIf [
           ((CAtom "t.element_type is FloatType"),
            [NAct KSAssert "static_assert(NUNAVUT_PLATFORM_IEEE754_FLOAT, ""Native IEEE754 binary32 required. TODO: relax constraint"");";
             NIf [
               ((CAtom "t.element_type.bit_length > 32"),
                [NAct KSAssert "static_assert(NUNAVUT_PLATFORM_IEEE754_DOUBLE, ""Native IEEE754 binary64 required. TODO: relax constraint"");"])]
              []])]
          [];
         NAct KCall "nunavutGetBits(&{{ reference }}.elements[0], &buffer[0], capacity_bytes, offset_bits, {{ reference }}.count * {{ t.element_type.bit_length }}U);";
         NAct KCursor "offset_bits += {{ reference }}.count * {{ t.element_type.bit_length }}U;"])]
      [NAct KLoop "for (size_t {{ <index> }} = 0U; {{ <index> }} < {{ reference }}.count; ++{{ <index> }})";
       NAct KOpen "";
       NAct KMacro "_deserialize_any(t.element_type, reference + ('.elements[%s]'|format(<index>)), element_offset)";
       NAct KClose ""]]);

   ("_deserialize_composite", "t, reference, offset",
    [NSet "remaining_bytes" "(capacity_bytes - nunavutChooseMin((offset_bits / 8U), capacity_bytes))";
     NAct KOpen "";
     NIf [
       ((CAtom "t is DelimitedType"),
        [NAct KStore "{{ typename_unsigned_length }} {{ <size_bytes> }} = 0U;";
         NAct KMacro "_deserialize_integer(t.delimiter_header_type, <size_bytes>, offset)";
         NAct KGuard "if ({{ <size_bytes> }} > {{ remaining_bytes }})";
         NAct KOpen "";
         NAct KReturn "return -NUNAVUT_ERROR_REPRESENTATION_BAD_DELIMITER_HEADER;";
         NAct KClose "";
         NAct KStore "const {{ typename_unsigned_length }} {{ <dh> }} = {{ <size_bytes> }};"])]
      [NAct KStore "{{ typename_unsigned_length }} {{ <size_bytes> }} = ({{ typename_unsigned_length }}){{ remaining_bytes }};"];
     NAct KRAssert "'offset_bits % 8U == 0U'";
     NAct KCall "const {{ typename_error_type }} {{ <err> }} = {{ t|full_reference_name }}_deserialize_( &{{ reference }}, &buffer[nunavutChooseMin(offset_bits / 8U, capacity_bytes)], &{{ <size_bytes> }});";
     NAct KGuard "if ({{ <err> }} < 0)";
     NAct KOpen "";
     NAct KReturn "return {{ <err> }};";
     NAct KClose "";
     NIf [
       ((CAtom "t is DelimitedType"),
        [NAct KCursor "offset_bits += {{ <dh> }} * 8U;"])]
      [NAct KCursor "offset_bits += {{ <size_bytes> }} * 8U;"];
     NAct KClose ""])].

Definition walker_cpp_ser_dispatch : list (string * list string) :=
  [("t is VoidType", ["_serialize_void"]);
   ("t is BooleanType", ["_serialize_boolean"]);
   ("t is IntegerType", ["_serialize_integer"]);
   ("t is FloatType", ["_serialize_float"]);
   ("t is FixedLengthArrayType", ["_serialize_fixed_length_array"]);
   ("t is VariableLengthArrayType", ["_serialize_variable_length_array"]);
   ("t is CompositeType", ["_serialize_composite"]);
   ("<else>", ["nothing"])].

Definition walker_cpp_ser_macros : list (string * string * list tnode) :=
  [("serialize", "t",
    [NIf [
       ((CAtom "t.inner_type.bit_length_set.max > 0"),
        [NIf [
           ((CNot (CAtom "t.inner_type.fields_except_padding")),
            [NAct KCall "(void)(obj);"])]
          [];
         NAct KMacro "_serialize_impl(t)"])]
      [NAct KCall "(void)(out_buffer);";
       NAct KCall "(void)(obj);";
       NAct KReturn "return 0U;"]]);

   ("_serialize_impl", "t",
    [NAct KCall "const {{ typename_unsigned_length }} capacity_bits = out_buffer.size();";
     NIf [
       ((CAtom "opt_override_capacity"),
        [NAct KPre "#ifndef {{ t | full_macro_name }}_DISABLE_SERIALIZATION_BUFFER_CHECK_"])]
      [];
     NAct KGuard "if ((static_cast<{{ typename_unsigned_bit_length }}>(capacity_bits)) < {{ t.inner_type.bit_length_set.max }}UL)";
     NAct KOpen "";
     NAct KReturn "return -nunavut::support::Error::SerializationBufferTooSmall;";
     NAct KClose "";
     NIf [
       ((CAtom "opt_override_capacity"),
        [NAct KPre "#endif // ndef {{ t | full_macro_name }}_DISABLE_SERIALIZATION_BUFFER_CHECK_"])]
      [];
     NAct KRAssert "'out_buffer.offset_alings_to_byte()'";
     NIf [
       ((CAtom "t.inner_type is StructureType"),
        [NFor "f, offset in t.inner_type.iterate_fields_with_offsets()"
          [NIf [
             ((CAtom "loop.first"),
              [NJAssert (CAtom "f.data_type.alignment_requirement <= t.inner_type.alignment_requirement")])]
            [NAct KMacro "_pad_to_alignment(f.data_type.alignment_requirement)"];
           NAct KOpen "";
           NAct KMacro "_serialize_any(f.data_type, ""obj.%s""|format(f|id), offset)";
           NAct KClose ""]]);
       ((CAtom "t.inner_type is UnionType"),
        [NAct KStore "using VariantType = {{ t|short_reference_name }}::VariantType;";
         NAct KCall "const auto {{ <index> }} = obj.union_value.index();";
         NAct KOpen "";
         NAct KMacro "_serialize_integer(t.inner_type.tag_field_type, <index>, 0|bit_length_set)";
         NAct KClose "";
         NFor "f, offset in t.inner_type.iterate_fields_with_offsets()"
          [NAct KGuard "{{ 'if' if loop.first else 'else if' }} (VariantType::IndexOf::{{ f| id }} == {{ <index> }})";
           NAct KOpen "";
           NAct KCall "auto {{ <ptr> }} = obj.get_{{ f|id }}_if();";
           NJAssert (CAtom "f.data_type.alignment_requirement <= (offset.min)");
           NAct KMacro "_serialize_any(f.data_type, '(*%s)' | format(<ptr>), offset)";
           NAct KClose ""];
         NAct KElse "else";
         NAct KOpen "";
         NAct KReturn "return -nunavut::support::Error::RepresentationBadUnionTag;";
         NAct KClose ""])]
      [NJAssert (CAtom "False")];
     NAct KMacro "_pad_to_alignment(t.inner_type.alignment_requirement)";
     NIf [
       ((CNot (CAtom "t.inner_type.bit_length_set.fixed_length")),
        [NAct KRAssert "'out_buffer.offset() >= %sULL'|format(t.inner_type.bit_length_set.min)";
         NAct KRAssert "'out_buffer.offset() <= %sULL'|format(t.inner_type.bit_length_set.max)"])]
      [NAct KRAssert "'out_buffer.offset() == %sULL'|format(t.inner_type.bit_length_set.max)"];
     NAct KRAssert "'out_buffer.offset_alings_to_byte()'";
     NAct KReturn "return out_buffer.offset_bytes_ceil();"]);

   ("_pad_to_alignment", "n_bits",
    [NIf [
       ((CAtom "n_bits > 1"),
        [NAct KOpen "";
         NAct KCall "const auto {{ <result> }} = out_buffer.padAndMoveToAlignment({{ n_bits }}U);";
         NAct KGuard "if(not {{ <result> }}){";
         NAct KReturn "return -{{ <result> }}.error();";
         NAct KClose "";
         NAct KClose ""])]
      []]);

   ("_serialize_any", "t, reference, offset",
    [NIf [
       ((CAtom "t.alignment_requirement > 1"),
        [NAct KRAssert "'out_buffer.offset_alings_to(%dU)'|format(t.alignment_requirement)"])]
      [];
     NIf [
       ((CAtom "offset.is_aligned_at_byte()"),
        [NAct KRAssert "'out_buffer.offset_alings_to_byte()'"])]
      [];
     NIf [
       ((CAtom "t.bit_length_set.max > 0"),
        [NIf [
           ((CNot (CAtom "opt_override_capacity")),
            [NAct KRAssert "'%dULL <= out_buffer.size()'|format(t.bit_length_set.max)"])]
          []])]
      [];
     NIf [
       ((CAtom "t is VoidType"),
        [NAct KMacro "_serialize_void(t, offset)"]);
       ((CAtom "t is BooleanType"),
        [NAct KMacro "_serialize_boolean(t, reference, offset)"]);
       ((CAtom "t is IntegerType"),
        [NAct KMacro "_serialize_integer(t, reference, offset)"]);
       ((CAtom "t is FloatType"),
        [NAct KMacro "_serialize_float(t, reference, offset)"]);
       ((CAtom "t is FixedLengthArrayType"),
        [NAct KMacro "_serialize_fixed_length_array(t, reference, offset)"]);
       ((CAtom "t is VariableLengthArrayType"),
        [NAct KMacro "_serialize_variable_length_array(t, reference, offset)"]);
       ((CAtom "t is CompositeType"),
        [NAct KMacro "_serialize_composite(t, reference, offset)"])]
      []]);

   ("_serialize_void", "t, offset",
    [NAct KCall "auto {{ <result> }} = out_buffer.setZeros({{ t.bit_length }}UL);";
     NAct KGuard "if(not {{ <result> }}){";
     NAct KReturn "return -{{ <result> }}.error();";
     NAct KClose "";
     NAct KCall "out_buffer.add_offset({{ t.bit_length }}UL);"]);

   ("_serialize_boolean", "t, reference, offset",
    [NAct KCall "auto {{ <result> }} = out_buffer.setBit({{ reference }});";
     NAct KGuard "if(not {{ <result> }}){";
     NAct KReturn "return -{{ <result> }}.error();";
     NAct KClose "";
     NAct KCall "out_buffer.add_offset(1UL);"]);

   ("_serialize_integer", "t, reference, offset",
    [NIf [
       ((CAtom "t is saturated"),
        [NIf [
           ((CNot (CAtom "t.standard_bit_length")),
            [NAct KStore "{{ t|type_from_primitive }} {{ <sat> }} = {{ reference }};";
             NIf [
               ((CAtom "t is UnsignedIntegerType"),
                [NJAssert (CAtom "t.inclusive_value_range[0] == 0")])]
              [NAct KGuard "if ({{ <sat> }} < {{ t.inclusive_value_range[0]|literal(t) }})";
               NAct KOpen "";
               NAct KStore "{{ <sat> }} = {{ t.inclusive_value_range[0]|literal(t) }};";
               NAct KClose ""];
             NAct KGuard "if ({{ <sat> }} > {{ t.inclusive_value_range[1]|literal(t) }})";
             NAct KOpen "";
             NAct KStore "{{ <sat> }} = {{ t.inclusive_value_range[1]|literal(t) }};";
             NAct KClose ""])]
          [NSet "ref_value" "reference"]])]
      [NSet "ref_value" "reference"];
     NAct KCall "const auto {{ <result> }} = out_buffer.set{{ 'U' if t is UnsignedIntegerType else 'I' }}xx({{ <sat> }}, {{ t.bit_length }}U);";
     NAct KGuard "if(not {{ <result> }}){";
     NAct KReturn "return -{{ <result> }}.error();";
     NAct KClose "";
     NAct KCall "out_buffer.add_offset({{ t.bit_length }}U);"]);

   ("_serialize_float", "t, reference, offset",
    [NIf [
       ((CAtom "t is saturated"),
        [NIf [
           ((CAtom "t.bit_length not in (32, 64)"),
            [NAct KStore "{{ t|type_from_primitive }} {{ <sat> }} = {{ reference }};";
             NAct KGuard "if (std::isfinite({{ <sat> }}))";
             NAct KOpen "";
             NAct KGuard "if ({{ <sat> }} < {{ t.inclusive_value_range[0]|literal(t) }})";
             NAct KOpen "";
             NAct KStore "{{ <sat> }} = {{ t.inclusive_value_range[0]|literal(t) }};";
             NAct KClose "";
             NAct KGuard "if ({{ <sat> }} > {{ t.inclusive_value_range[1]|literal(t) }})";
             NAct KOpen "";
             NAct KStore "{{ <sat> }} = {{ t.inclusive_value_range[1]|literal(t) }};";
             NAct KClose "";
             NAct KClose ""]);
           ((CAtom "t.bit_length == 32"),
            [NSet "ref_value" "reference";
             NAct KSAssert "static_assert(NUNAVUT_PLATFORM_IEEE754_FLOAT, ""Native IEEE754 binary32 required. TODO: relax constraint"");"]);
           ((CAtom "t.bit_length == 64"),
            [NSet "ref_value" "reference";
             NAct KSAssert "static_assert(NUNAVUT_PLATFORM_IEEE754_DOUBLE, ""Native IEEE754 binary64 required. TODO: relax constraint"");"])]
          [NJAssert (CAtom "False")]])]
      [NSet "ref_value" "reference"];
     NAct KCall "auto {{ <result> }} = out_buffer.setF{{ t.bit_length }}({{ <sat> }});";
     NAct KGuard "if(not {{ <result> }}){";
     NAct KReturn "return -{{ <result> }}.error();";
     NAct KClose "";
     NAct KCall "out_buffer.add_offset({{ t.bit_length }}U);"]);

   ("_serialize_fixed_length_array", "t, reference, offset",
    [NAct KCall "const {{ typename_unsigned_bit_length }} {{ <origin> }} = out_buffer.offset();";
     NSet "element_offset" "offset + t.element_type.bit_length_set.repeat_range(t.capacity - 1)";
     NAct KLoop "for ({{ typename_unsigned_length }} {{ <index> }} = 0U; {{ <index> }} < {{ t.capacity }}UL; ++{{ <index> }})";
     NAct KOpen "";
     NAct KMacro "_serialize_any(t.element_type, reference + ('[%s]'|format(<index>)), element_offset)";
     NAct KClose "";
     NIf [
       ((CNot (CAtom "t.bit_length_set.fixed_length")),
        [NAct KRAssert "'(out_buffer.offset() - %s) >= %sULL'|format(<origin>, t.bit_length_set.min)";
         NAct KRAssert "'(out_buffer.offset() - %s) <= %sULL'|format(<origin>, t.bit_length_set.max)"])]
      [NAct KRAssert "'(out_buffer.offset() - %s) == %sULL'|format(<origin>, t.bit_length_set.max)"];
     NAct KCall "(void) {{ <origin> }};"]);

   ("_serialize_variable_length_array", "t, reference, offset",
    [NAct KGuard "if ({{ reference }}.size() > {{ t.capacity }})";
     NAct KOpen "";
     NAct KReturn "return -nunavut::support::Error::SerializationBadArrayLength;";
     NAct KClose "";
     NAct KMacro "_serialize_integer(t.length_field_type, reference + '.size()', offset)";
     NSet "element_offset" "offset + t.bit_length_set";
     NSet "first_element_offset" "offset + t.length_field_type.bit_length";
     NJAssert (CAtom "(element_offset.min) == (first_element_offset.min)");
     NIf [
       ((CAtom "first_element_offset.is_aligned_at_byte()"),
        [NAct KRAssert "'out_buffer.offset_alings_to_byte()'"])]
      [];
     NAct KLoop "for ({{ typename_unsigned_length }} {{ <index> }} = 0U; {{ <index> }} < {{ reference }}.size(); ++{{ <index> }})";
     NAct KOpen "";
     NAct KMacro "_serialize_any(t.element_type, reference + ('[%s]'|format(<index>)), element_offset)";
     NAct KClose ""]);

   ("_serialize_composite", "t, reference, offset",
    [NSet "is_variable_size" "not t.inner_type.bit_length_set.fixed_length";
     NSet "size_bytes" "t.inner_type.bit_length_set.max|bits2bytes_ceil";
     NAct KStore "{{ typename_unsigned_length }} {{ <size_bytes> }} = {{ size_bytes }}UL;";
     NIf [
       ((CAtom "t is DelimitedType"),
        [NAct KCall "auto {{ <subspan> }} = out_buffer.subspan({{ t.delimiter_header_type.bit_length }}U, {{ <size_bytes> }} * 8U);";
         NIf [
           ((CNot (CAtom "is_variable_size")),
            [NJAssert (CAtom "size_bytes * 8 == (t.inner_type.bit_length_set.min) == (t.inner_type.bit_length_set.max)")])]
          []])]
      [NAct KCall "auto {{ <subspan> }} = out_buffer.subspan(0U, {{ <size_bytes> }} * 8U);"];
     NAct KGuard "if(not {{ <subspan> }}){";
     NAct KReturn "return -{{ <subspan> }}.error();";
     NAct KClose "";
     NAct KRAssert "'%s->offset_alings_to_byte()' | format(<subspan>)";
     NAct KCall "auto {{ <err> }} = serialize({{ reference }}, {{ <subspan> }}.value());";
     NAct KGuard "if (not {{ <err> }})";
     NAct KOpen "";
     NAct KReturn "return {{ <err> }};";
     NAct KClose "";
     NAct KCall "{{ <size_bytes> }} = {{ <err> }}.value();";
     NIf [
       ((CNot (CAtom "t.inner_type.bit_length_set.fixed_length")),
        [NAct KRAssert "'(%s * 8U) >= %sULL'|format(<size_bytes>, t.inner_type.bit_length_set.min)";
         NAct KRAssert "'(%s * 8U) <= %sULL'|format(<size_bytes>, t.inner_type.bit_length_set.max)"])]
      [NAct KRAssert "'(%s * 8U) == %sULL'|format(<size_bytes>, t.inner_type.bit_length_set.max)"];
     NIf [
       ((CAtom "t is DelimitedType"),
        [NAct KMacro "_serialize_integer(t.delimiter_header_type, <size_bytes>, offset)"])]
      [];
     NAct KCall "out_buffer.add_offset({{ <size_bytes> }} * 8U);"])].

Definition walker_cpp_des_dispatch : list (string * list string) :=
  [("t is VoidType", ["_deserialize_void"]);
   ("t is BooleanType", ["_deserialize_boolean"]);
   ("t is IntegerType", ["_deserialize_integer"]);
   ("t is FloatType", ["_deserialize_float"]);
   ("t is FixedLengthArrayType", ["_deserialize_fixed_length_array"]);
   ("t is VariableLengthArrayType", ["_deserialize_variable_length_array"]);
   ("t is CompositeType", ["_deserialize_composite"]);
   ("<else>", ["assert False"])].

Definition walker_cpp_des_macros : list (string * string * list tnode) :=
  [("deserialize", "t",
    [NIf [
       ((CAtom "t.inner_type.bit_length_set.max > 0"),
        [NIf [
           ((CNot (CAtom "t.inner_type.fields_except_padding")),
            [NAct KCall "(void)(obj);"])]
          [];
         NAct KMacro "_deserialize_impl(t)"])]
      [NAct KCall "(void)(in_buffer);";
       NAct KCall "(void)(obj);";
       NAct KReturn "return 0;"]]);

   ("_deserialize_impl", "t",
    [NAct KCall "const auto capacity_bits = in_buffer.size();";
     NIf [
       ((CAtom "t.inner_type is StructureType"),
        [NFor "f, offset in t.inner_type.iterate_fields_with_offsets()"
          [NIf [
             ((CAtom "loop.first"),
              [NJAssert (CAtom "f.data_type.alignment_requirement <= t.inner_type.alignment_requirement")])]
            [NAct KMacro "_pad_to_alignment(f.data_type.alignment_requirement)"];
           NAct KMacro "_deserialize_any(f.data_type, ""obj.%s""|format(f|id), offset)"]]);
       ((CAtom "t.inner_type is UnionType"),
        [NAct KStore "using VariantType = {{ t|short_reference_name }}::VariantType;";
         NAct KCall "auto {{ <index> }} = obj.union_value.index();";
         NAct KMacro "_deserialize_integer(t.inner_type.tag_field_type, <index>, 0|bit_length_set)";
         NFor "f, offset in t.inner_type.iterate_fields_with_offsets()"
          [NAct KGuard "{{ 'if' if loop.first else 'else if' }} (VariantType::IndexOf::{{ f| id }} == {{ <index> }})";
           NAct KOpen "";
           NAct KCall "obj.set_{{ f|id }}();";
           NAct KCall "auto {{ <ptr> }} = obj.get_{{ f|id }}_if();";
           NJAssert (CAtom "f.data_type.alignment_requirement <= (offset.min)");
           NAct KMacro "_deserialize_any(f.data_type, '(*%s)' | format(<ptr>), offset)";
           NAct KClose ""];
         NAct KElse "else";
         NAct KOpen "";
         NAct KReturn "return -nunavut::support::Error::RepresentationBadUnionTag;";
         NAct KClose ""])]
      [NJAssert (CAtom "False")];
     NAct KMacro "_pad_to_alignment(t.inner_type.alignment_requirement)";
     NAct KRAssert "'in_buffer.offset_alings_to_byte()'";
     NAct KCall "auto _bits_got_ = std::min<{{ typename_unsigned_bit_length }}>(in_buffer.offset(), capacity_bits);";
     NAct KRAssert "'capacity_bits >= _bits_got_'";
     NAct KReturn "return { static_cast<{{ typename_unsigned_length }}>(_bits_got_ / 8U) };"]);

   ("_pad_to_alignment", "n_bits",
    [NIf [
       ((CAtom "n_bits > 1"),
        [NJAssert (CAtom "n_bits in (8, 16, 32, 64)");
         NAct KCall "in_buffer.align_offset_to<{{ n_bits }}U>();"])]
      []]);

   ("_deserialize_any", "t, reference, offset",
    [NIf [
       ((CAtom "t.alignment_requirement > 1"),
        [NAct KRAssert "'in_buffer.offset_alings_to(%dU)'|format(t.alignment_requirement)"])]
      [];
     NIf [
       ((CAtom "offset.is_aligned_at_byte()"),
        [NAct KRAssert "'in_buffer.offset_alings_to_byte()'"])]
      [];
     NIf [
       ((CAtom "t is VoidType"),
        [NAct KMacro "_deserialize_void(t, offset)"]);
       ((CAtom "t is BooleanType"),
        [NAct KMacro "_deserialize_boolean(t, reference, offset)"]);
       ((CAtom "t is IntegerType"),
        [NAct KMacro "_deserialize_integer(t, reference, offset)"]);
       ((CAtom "t is FloatType"),
        [NAct KMacro "_deserialize_float(t, reference, offset)"]);
       ((CAtom "t is FixedLengthArrayType"),
        [NAct KMacro "_deserialize_fixed_length_array(t, reference, offset)"]);
       ((CAtom "t is VariableLengthArrayType"),
        [NAct KMacro "_deserialize_variable_length_array(t, reference, offset)"]);
       ((CAtom "t is CompositeType"),
        [NAct KMacro "_deserialize_composite(t, reference, offset)"])]
      [NJAssert (CAtom "False")]]);

   ("_deserialize_void", "t, offset",
    [NAct KCall "in_buffer.add_offset({{ t.bit_length }});"]);

   ("_deserialize_boolean", "t, reference, offset",
    [NAct KCall "{{ reference }} = in_buffer.getBit();";
     NAct KCall "in_buffer.add_offset(1U);"]);

   ("_deserialize_integer", "t, reference, offset",
    [NSet "getter" "'get%s%d'|format('U' if t is UnsignedIntegerType else 'I', t|to_standard_bit_length)";
     NAct KCall "{{ reference }} = in_buffer.{{ getter }}({{ t.bit_length }}U);";
     NAct KCall "in_buffer.add_offset({{ t.bit_length }}U);"]);

   ("_deserialize_float", "t, reference, offset",
    [NAct KCall "{{ reference }} = in_buffer.getF{{ t.bit_length }}();";
     NAct KCall "in_buffer.add_offset({{ t.bit_length }}U);"]);

   ("_deserialize_fixed_length_array", "t, reference, offset",
    [NSet "element_offset" "offset + t.element_type.bit_length_set.repeat_range(t.capacity - 1)";
     NAct KLoop "for ({{ typename_unsigned_length }} {{ <index> }} = 0U; {{ <index> }} < {{ t.capacity }}UL; ++{{ <index> }})";
     NAct KOpen "";
     NAct KMacro "_deserialize_any(t.element_type, reference + ('[%s]'|format(<index>)), element_offset)";
     NAct KClose ""]);

   ("_deserialize_variable_length_array", "t, reference, offset",
    [NAct KOpen "";
     NAct KMacro "_deserialize_integer(t.length_field_type, ('const %s %s'|format( typename_unsigned_length, <size>)) , offset)";
     NAct KGuard "if ( {{ <size> }} > {{ t.capacity }}U)";
     NAct KOpen "";
     NAct KReturn "return -nunavut::support::Error::SerializationBadArrayLength;";
     NAct KClose "";
     NAct KCall "{{ reference }}.clear();";
     NAct KCall "{{ reference }}.reserve({{ <size> }});";
     NSet "element_offset" "offset + t.bit_length_set";
     NSet "first_element_offset" "offset + t.length_field_type.bit_length";
     NJAssert (CAtom "(element_offset.min) == (first_element_offset.min)");
     NIf [
       ((CAtom "first_element_offset.is_aligned_at_byte()"),
        [NAct KRAssert "'in_buffer.offset_alings_to_byte()'"])]
      [];
     NAct KLoop "for ({{ typename_unsigned_length }} {{ <index> }} = 0U; {{ <index> }} < {{ <size> }}; ++{{ <index> }})";
     NAct KOpen "";
     NAct KCall "{{ t.element_type | declaration }} {{ <tmp> }} = {{ t.element_type | declaration }}({{ t.element_type | default_construction(reference) }});";
     NAct KMacro "_deserialize_any(t.element_type, <tmp>, element_offset)";
     NAct KCall "{{ reference }}.push_back(std::move({{ <tmp> }}));";
     NAct KClose "";
     NAct KClose ""]);

   ("_deserialize_composite", "t, reference, offset",
    [NAct KOpen "";
     NAct KCall "{{ typename_unsigned_length }} {{ <size_bytes> }} = in_buffer.size() / 8U;";
     NIf [
       ((CAtom "t is DelimitedType"),
        [NAct KMacro "_deserialize_integer(t.delimiter_header_type, <size_bytes>, offset)";
         NAct KGuard "if ({{ <size_bytes> }} > (in_buffer.size() / 8U))";
         NAct KOpen "";
         NAct KReturn "return -nunavut::support::Error::RepresentationBadDelimiterHeader;";
         NAct KClose "";
         NAct KStore "const {{ typename_unsigned_length }} {{ <dh> }} = {{ <size_bytes> }};"])]
      [];
     NAct KRAssert "'in_buffer.offset_alings_to_byte()'";
     NAct KOpen "";
     NIf [
       ((CAtom "t is DelimitedType"),
        [NAct KCall "const auto {{ <err> }} = deserialize({{ reference }}, in_buffer.subspan_bytes({{ <dh> }}));"])]
      [NAct KCall "const auto {{ <err> }} = deserialize({{ reference }}, in_buffer.subspan());"];
     NAct KGuard "if({{ <err> }}){";
     NAct KCall "{{ <size_bytes> }} = {{ <err> }}.value();";
     NAct KElse "}else{";
     NAct KReturn "return -{{ <err> }}.error();";
     NAct KClose "";
     NAct KClose "";
     NIf [
       ((CAtom "t is DelimitedType"),
        [NAct KRAssert "'in_buffer.offset_alings_to_byte()'";
         NAct KCall "in_buffer.add_offset({{ <dh> }} * 8U);"])]
      [NAct KCall "in_buffer.add_offset({{ <size_bytes> }} * 8U);"];
     NAct KClose ""])].

Definition walker_py_ser_dispatch : list (string * list string) :=
  [("t is VoidType", ["inline"]);
   ("t is BooleanType", ["inline"]);
   ("t is IntegerType", ["_serialize_integer"]);
   ("t is FloatType", ["_serialize_float"]);
   ("t is FixedLengthArrayType", ["_serialize_fixed_length_array"]);
   ("t is VariableLengthArrayType", ["_serialize_variable_length_array"]);
   ("t is CompositeType", ["inline"]);
   ("<else>", ["assert False"])].

Definition walker_py_ser_macros : list (string * string * list tnode) :=
  [("serialize", "self",
    [NAct KRAssert "1:assert _ser_.current_bit_length % 8 == 0, 'Serializer is not aligned'";
     NAct KStore "1:_base_offset_ = _ser_.current_bit_length";
     NSet "t" "self.inner_type";
     NIf [
       ((CAtom "t is StructureType"),
        [NFor "f, offset in t.iterate_fields_with_offsets()"
          [NAct KMacro "1:_serialize_any(f.data_type, 'self.' + (f|id), offset)"]]);
       ((CAtom "t is UnionType"),
        [NFor "f, offset in t.iterate_fields_with_offsets()"
          [NSet "field_ref" "'self.' + (f|id)";
           NAct KGuard "1:{{ 'if' if loop.first else 'elif' }} {{ field_ref }} is not None:";
           NAct KMacro "2:_serialize_integer(t.tag_field_type, loop.index0|string, 0|bit_length_set)";
           NAct KMacro "2:_serialize_any(f.data_type, field_ref, offset)"];
         NAct KElse "1:else:";
         NAct KReturn "2:raise RuntimeError('Malformed union {{ t }}')"])]
      [NJAssert (CAtom "False")];
     NAct KCall "1:_ser_.pad_to_alignment({{ self.alignment_requirement }})";
     NAct KRAssert "1:assert {{ t.bit_length_set.min }} <= (_ser_.current_bit_length - _base_offset_) <= {{ t.bit_length_set.max }}, \ 'Bad serialization of {{ self }}'"]);

   ("_serialize_integer", "t, ref, offset",
    [NIf [
       ((CAtom "t is saturated"),
        [NSet "ref" "'max(min(%s, %s), %s)'|format(ref, t.inclusive_value_range.max, t.inclusive_value_range.min)"])]
      [];
     NIf [
       ((CAnd (CAtom "t.standard_bit_length") (CAtom "offset.is_aligned_at_byte()")),
        [NAct KCall "1:_ser_.add_aligned_{{ 'i' if t is SignedIntegerType else 'u' }}{{ t.bit_length }}({{ ref }})"])]
      [NSet "signedness" "'signed' if t is SignedIntegerType else 'unsigned'";
       NAct KCall "1:_ser_.add_{{ offset|alignment_prefix }}_{{ signedness }}({{ ref }}, {{ t.bit_length }})"]]);

   ("_serialize_float", "t, ref, offset",
    [NSet "fun" "_ser_.add_{{ offset|alignment_prefix }}_f{{ t.bit_length }}";
     NIf [
       ((CAtom "t is saturated"),
        [NIf [
           ((CAtom "t.bit_length < 64"),
            [NAct KGuard "1:if _np_.isfinite({{ ref }}):";
             NAct KGuard "2:if {{ ref }} > {{ t.inclusive_value_range.max }}.0:";
             NAct KCall "3:{{ fun }}({{ t.inclusive_value_range.max }}.0)";
             NAct KElse "2:elif {{ ref }} < {{ t.inclusive_value_range.min }}.0:";
             NAct KCall "3:{{ fun }}({{ t.inclusive_value_range.min }}.0)";
             NAct KElse "2:else:";
             NAct KCall "3:{{ fun }}({{ ref }})";
             NAct KElse "1:else:";
             NAct KCall "2:{{ fun }}({{ ref }})"])]
          [NAct KCall "1:{{ fun }}({{ ref }})"]])]
      [NAct KCall "1:{{ fun }}({{ ref }})"]]);

   ("_serialize_fixed_length_array", "t, ref, offset",
    [NAct KRAssert "1:assert len({{ ref }}) == {{ t.capacity }}, '{{ ref }}: {{ t }}'";
     NIf [
       ((CAtom "t.element_type is BooleanType"),
        [NAct KCall "1:_ser_.add_{{ offset|alignment_prefix }}_array_of_bits({{ ref }})"]);
       ((CAnd (CAtom "t.element_type is PrimitiveType") (CAtom "t.element_type.standard_bit_length")),
        [NAct KCall "1:_ser_.add_{{ offset|alignment_prefix }}_array_of_standard_bit_length_primitives({{ ref }})"])]
      [NSet "element_offset" "offset + t.element_type.bit_length_set.repeat_range(t.capacity - 1)";
       NAct KLoop "1:for {{ <elem> }} in {{ ref }}:";
       NAct KMacro "2:_serialize_any(t.element_type, <elem>, element_offset)"]]);

   ("_serialize_variable_length_array", "t, ref, offset",
    [NAct KRAssert "1:assert len({{ ref }}) <= {{ t.capacity }}, '{{ ref }}: {{ t }}'";
     NAct KMacro "1:_serialize_integer(t.length_field_type, 'len(%s)'|format(ref), offset)";
     NIf [
       ((CAtom "t.element_type is BooleanType"),
        [NAct KCall "1:_ser_.add_{{ (offset + t.length_field_type.bit_length)|alignment_prefix }}_array_of_bits({{ ref }})"]);
       ((CAnd (CAtom "t.element_type is PrimitiveType") (CAtom "t.element_type.standard_bit_length")),
        [NAct KCall "1:_ser_.add_{{ (offset + t.length_field_type.bit_length)|alignment_prefix }}";
         NAct KCall "2:_array_of_standard_bit_length_primitives({{ ref }})"])]
      [NAct KLoop "1:for {{ <elem> }} in {{ ref }}:";
       NAct KMacro "2:_serialize_any(t.element_type, <elem>, offset + t.bit_length_set)"]]);

   ("_serialize_any", "t, ref, offset",
    [NIf [
       ((CAtom "t.alignment_requirement > 1"),
        [NAct KCall "1:_ser_.pad_to_alignment({{ t.alignment_requirement }})"])]
      [];
     NIf [
       ((CAtom "t is VoidType"),
        [NAct KCall "5:_ser_.skip_bits({{ t.bit_length }})"]);
       ((CAtom "t is BooleanType"),
        [NAct KCall "3:_ser_.add_unaligned_bit({{ ref }})"]);
       ((CAtom "t is IntegerType"),
        [NAct KMacro "3:_serialize_integer(t, ref, offset)"]);
       ((CAtom "t is FloatType"),
        [NAct KMacro "4:_serialize_float(t, ref, offset)"]);
       ((CAtom "t is FixedLengthArrayType"),
        [NAct KMacro "1:_serialize_fixed_length_array(t, ref, offset)"]);
       ((CAtom "t is VariableLengthArrayType"),
        [NAct KMacro "0:_serialize_variable_length_array(t, ref, offset)"]);
       ((CAtom "t is CompositeType"),
        [NIf [
           ((CAtom "t is DelimitedType"),
            [NIf [
               ((CNot (CAtom "t.inner_type.bit_length_set.fixed_length")),
                [NSet "nested_capacity_bits" "t.inner_type.extent + t.delimiter_header_type.bit_length";
                 NJAssert (CAtom "nested_capacity_bits % 8 == 0");
                 NSet "nested_capacity_bytes" "nested_capacity_bits // 8";
                 NAct KCall "1:_nested_ = _ser_.fork_bytes({{ nested_capacity_bytes }})";
                 NAct KCall "1:_nested_.skip_bits({{ t.delimiter_header_type.bit_length }})";
                 NAct KRAssert "1:assert _nested_.current_bit_length == {{ t.delimiter_header_type.bit_length }}";
                 NAct KCall "1:{{ ref }}._serialize_(_nested_)";
                 NAct KStore "1:_nested_length_ = _nested_.current_bit_length - {{ t.delimiter_header_type.bit_length }}";
                 NAct KDecl "1:del _nested_";
                 NAct KRAssert "1:assert {{ t.inner_type.bit_length_set.min }} <= _nested_length_ <= {{ t.inner_type.bit_length_set.max }}";
                 NAct KRAssert "1:assert _nested_length_ % 8 == 0";
                 NAct KCall "1:_ser_.add_aligned_u32(_nested_length_ // 8)";
                 NAct KCall "1:_ser_.skip_bits(_nested_length_)"])]
              [NSet "length_bits" "t.inner_type.bit_length_set.max";
               NJAssert (CAtom "length_bits == t.inner_type.bit_length_set.min");
               NJAssert (CAtom "length_bits % 8 == 0");
               NSet "length_bytes" "length_bits // 8";
               NAct KCall "1:_ser_.add_aligned_u32({{ length_bytes }})";
               NAct KStore "1:_ser_base_offset_ = _ser_.current_bit_length";
               NAct KCall "1:{{ ref }}._serialize_(_ser_)";
               NAct KRAssert "1:assert _ser_.current_bit_length - _ser_base_offset_ == {{ length_bits }}"]])]
          [NAct KCall "1:{{ ref }}._serialize_(_ser_)"]])]
      [NJAssert (CAtom "False")];
     NIf [
       ((CAtom "t is CompositeType"),
        [NAct KRAssert "1:assert _ser_.current_bit_length % {{ t.alignment_requirement }} == 0, 'Nested object alignment error'"])]
      [];
     NIf [
       ((CAnd (CAtom "t is not CompositeType") (CAtom "t.alignment_requirement > 1")),
        [NAct KCall "1:_ser_.pad_to_alignment({{ t.alignment_requirement }})"])]
      []])].

Definition walker_py_des_dispatch : list (string * list string) :=
  [("t is VoidType", ["inline"]);
   ("t is BooleanType", ["inline"]);
   ("t is IntegerType", ["_deserialize_integer"]);
   ("t is FloatType", ["inline"]);
   ("t is FixedLengthArrayType", ["_deserialize_fixed_length_array"]);
   ("t is VariableLengthArrayType", ["_deserialize_variable_length_array"]);
   ("t is CompositeType", ["inline"]);
   ("<else>", ["assert False"])].

Definition walker_py_des_macros : list (string * string * list tnode) :=
  [("deserialize", "self, self_type_name",
    [NAct KRAssert "1:assert _des_.consumed_bit_length % 8 == 0, 'Deserializer is not aligned'";
     NAct KStore "1:_base_offset_ = _des_.consumed_bit_length";
     NSet "t" "self.inner_type";
     NIf [
       ((CAtom "t is StructureType"),
        [NSet "field_ref_map" "{}";
         NFor "f, offset in t.iterate_fields_with_offsets()"
          [NIf [
             ((CAtom "f is not padding"),
              [NSet "do" "field_ref_map.update({f: <f>})";
               NAct KMacro "1:_deserialize_any(f.data_type, <f>, offset)"])]
            [NAct KMacro "1:_deserialize_any(f.data_type, '[void field does not require a reference]', offset)"]];
         NSet "assignment_root" "self = {{ self_type_name }}(";
         NAct KMacro "1:assignment_root";
         NFor "f in t.fields_except_padding"
          [NAct KStore "2:{{ f|id }}={{ field_ref_map[f] }}";
           NAct KMacro "2:')' if loop.last else (',\n' + ' ' * (4 + assignment_root|length))"];
         NIf [
           ((CAtom "<empty> f in t.fields_except_padding"),
            [NAct KClose "3:)"])]
          []]);
       ((CAtom "t is UnionType"),
        [NAct KMacro "1:_deserialize_integer(t.tag_field_type, <tag>, 0|bit_length_set)";
         NFor "f, offset in t.iterate_fields_with_offsets()"
          [NAct KGuard "1:{{ 'if' if loop.first else 'elif' }} {{ <tag> }} == {{ loop.index0 }}:";
           NAct KMacro "2:_deserialize_any(f.data_type, <uni>, offset)";
           NAct KCall "2:self = {{ self_type_name }}({{ f|id }}={{ <uni> }})"];
         NAct KElse "1:else:";
         NAct KReturn "2:raise _des_.FormatError(f'{{ t }}: Union tag value { {{ <tag> }} } is invalid')"])]
      [NJAssert (CAtom "False")];
     NAct KCall "1:_des_.pad_to_alignment({{ self.alignment_requirement }})";
     NAct KRAssert "1:assert {{ t.bit_length_set.min }} <= (_des_.consumed_bit_length - _base_offset_), \ 'Bad deserialization of {{ self }}'"]);

   ("_deserialize_integer", "t, ref, offset",
    [NIf [
       ((CAnd (CAtom "t.standard_bit_length") (CAtom "offset.is_aligned_at_byte()")),
        [NAct KCall "1:{{ ref }} = _des_.fetch_aligned_{{ 'i' if t is SignedIntegerType else 'u' }}{{ t.bit_length }}()"])]
      [NSet "signedness" "'signed' if t is SignedIntegerType else 'unsigned'";
       NAct KCall "1:{{ ref }} = _des_.fetch_{{ offset|alignment_prefix }}_{{ signedness }}({{ t.bit_length }})"]]);

   ("_deserialize_fixed_length_array", "t, ref, offset",
    [NIf [
       ((CAtom "t.element_type is BooleanType"),
        [NAct KCall "1:{{ ref }} = _des_.fetch_{{ offset|alignment_prefix }}_array_of_bits({{ t.capacity }})"]);
       ((CAnd (CAtom "t.element_type is PrimitiveType") (CAtom "t.element_type.standard_bit_length")),
        [NAct KStore "1:{{ ref }} = _des_.fetch_{{ offset|alignment_prefix }}";
         NAct KCall "5:_array_of_standard_bit_length_primitives({{ t.element_type|numpy_scalar_type }}, {{ t.capacity }})"])]
      [NSet "element_offset" "offset + t.element_type.bit_length_set.repeat_range(t.capacity - 1)";
       NAct KCall "1:{{ ref }} = _np_.empty({{ t.capacity }}, {{ t.element_type|numpy_scalar_type }})";
       NAct KLoop "1:for {{ <i> }} in range({{ t.capacity }}):";
       NAct KMacro "2:_deserialize_any(t.element_type, <e>, element_offset)";
       NAct KStore "2:{{ ref }}[{{ <i> }}] = {{ <e> }}"];
     NAct KRAssert "1:assert len({{ ref }}) == {{ t.capacity }}, '{{ t }}'"]);

   ("_deserialize_variable_length_array", "t, ref, offset",
    [NAct KMacro "1:_deserialize_integer(t.length_field_type, <len>, offset)";
     NAct KRAssert "1:assert {{ <len> }} >= 0";
     NAct KGuard "1:if {{ <len> }} > {{ t.capacity }}:";
     NAct KReturn "2:raise _des_.FormatError(f'Variable array length prefix { {{ <len> }} } > {{ t.capacity }}')";
     NIf [
       ((CAtom "t.element_type is BooleanType"),
        [NAct KCall "1:{{ ref }} = _des_.fetch_{{ (offset + t.length_field_type.bit_length)|alignment_prefix }}";
         NAct KCall "5:_array_of_bits({{ <len> }})"]);
       ((CAnd (CAtom "t.element_type is PrimitiveType") (CAtom "t.element_type.standard_bit_length")),
        [NAct KCall "1:{{ ref }} = _des_.fetch_{{ (offset + t.length_field_type.bit_length)|alignment_prefix }}";
         NAct KCall "5:_array_of_standard_bit_length_primitives({{ t.element_type|numpy_scalar_type }}, {{ <len> }})"])]
      [NAct KCall "1:{{ ref }} = _np_.empty({{ <len> }}, {{ t.element_type|numpy_scalar_type }})";
       NAct KLoop "1:for {{ <i> }} in range({{ <len> }}):";
       NAct KMacro "2:_deserialize_any(t.element_type, <e>, offset + t.bit_length_set)";
       NAct KStore "2:{{ ref }}[{{ <i> }}] = {{ <e> }}"];
     NAct KRAssert "1:assert len({{ ref }}) <= {{ t.capacity }}, '{{ t }}'"]);

   ("_deserialize_any", "t, ref, offset",
    [NIf [
       ((CAtom "t.alignment_requirement > 1"),
        [NAct KCall "1:_des_.pad_to_alignment({{ t.alignment_requirement }})"])]
      [];
     NIf [
       ((CAtom "t is VoidType"),
        [NAct KCall "4:_des_.skip_bits({{ t.bit_length }})"]);
       ((CAtom "t is BooleanType"),
        [NAct KCall "3:{{ ref }} = _des_.fetch_unaligned_bit()"]);
       ((CAtom "t is IntegerType"),
        [NAct KMacro "3:_deserialize_integer(t, ref, offset)"]);
       ((CAtom "t is FloatType"),
        [NAct KCall "3:{{ ref }} = _des_.fetch_{{ offset|alignment_prefix }}_f{{ t.bit_length }}()"]);
       ((CAtom "t is FixedLengthArrayType"),
        [NAct KMacro "0:_deserialize_fixed_length_array(t, ref, offset)"]);
       ((CAtom "t is VariableLengthArrayType"),
        [NAct KMacro "0:_deserialize_variable_length_array(t, ref, offset)"]);
       ((CAtom "t is CompositeType"),
        [NIf [
           ((CAtom "t is DelimitedType"),
            [NAct KCall "1:_dh_ = _des_.fetch_aligned_u32()";
             NAct KGuard "1:if _dh_ * 8 > max(_des_.remaining_bit_length, 0):";
             NAct KReturn "2:raise _des_.FormatError(f'Delimiter header specifies {_dh_ * 8} bits, ' f'but the remaining length is only {_des_.remaining_bit_length} bits')";
             NAct KCall "1:_nested_ = _des_.fork_bytes(_dh_)";
             NAct KCall "1:_des_.skip_bits(_dh_ * 8)";
             NAct KCall "1:{{ ref }} = {{ t|full_reference_name }}._deserialize_(_nested_)";
             NAct KDecl "1:del _nested_"])]
          [NAct KCall "1:{{ ref }} = {{ t|full_reference_name }}._deserialize_(_des_)"]])]
      [NJAssert (CAtom "False")];
     NIf [
       ((CAtom "t is CompositeType"),
        [NAct KRAssert "1:assert _des_.consumed_bit_length % {{ t.alignment_requirement }} == 0, 'Nested object alignment error'"])]
      [];
     NIf [
       ((CAnd (CAtom "t is not CompositeType") (CAtom "t.alignment_requirement > 1")),
        [NAct KCall "1:_des_.pad_to_alignment({{ t.alignment_requirement }})"])]
      []])].

Definition walker_c_decl_definitions : list tnode :=
  [NIf [
     ((CAtom "options.target_endianness == 'little'"),
      [NSet "LITTLE_ENDIAN" "True"]);
     ((CAtom "options.target_endianness in ('any', 'big')"),
      [NSet "LITTLE_ENDIAN" "False"])]
    [NJAssert (CAtom "False")];
   NIf [
     ((CAtom "<macro> generate_metadata(t)"),
      [NSet "ref" "t|full_reference_name";
       NAct KRaw "#define {{ ref }}_FULL_NAME_ ""{{ t.full_name }}""";
       NAct KRaw "#define {{ ref }}_FULL_NAME_AND_VERSION_ ""{{ t.full_name }}.{{ t.version.major }}.{{ t.version.minor }}""";
       NIf [
         ((CAtom "t is not ServiceType"),
          [NJAssert (CAtom "t.extent % 8 == 0");
           NJAssert (CAtom "t.inner_type.extent % 8 == 0");
           NAct KRaw "#define {{ ref }}_EXTENT_BYTES_ {{ t.extent // 8 }}UL";
           NAct KRaw "#define {{ ref }}_SERIALIZATION_BUFFER_SIZE_BYTES_ {{ t.inner_type.extent // 8 }}UL";
           NAct KRaw "static_assert({{ ref }}_EXTENT_BYTES_ >= {{ ref }}_SERIALIZATION_BUFFER_SIZE_BYTES_,";
           NAct KRaw """Internal constraint violation"");"])]
        []])]
    [];
   NIf [
     ((CAtom "<macro> generate_composite(t)"),
      [NAct KRaw "{{ generate_metadata(t) }}";
       NFor "constant in t.constants"
        [NAct KRaw "#define {{ t | full_reference_name }}_{{ constant.name }} ({{ constant | constant_value }})"];
       NFor "f in t.fields_except_padding if f.data_type is ArrayType"
        [NIf [
           ((CAnd (CAtom "opt_override_capacity") (CAtom "f.data_type is VariableLengthArrayType")),
            [NAct KRaw "#ifndef {{ t | full_reference_name }}_{{ f.name }}_ARRAY_CAPACITY_"])]
          [];
         NAct KRaw "#define {{ t | full_reference_name }}_{{ f.name }}_ARRAY_CAPACITY_ {{ f.data_type.capacity }}U";
         NIf [
           ((CAnd (CAtom "opt_override_capacity") (CAtom "f.data_type is VariableLengthArrayType")),
            [NAct KRaw "#elif !defined({{ t | full_reference_name }}_DISABLE_SERIALIZATION_BUFFER_CHECK_)";
             NAct KRaw "# define {{ t | full_reference_name }}_DISABLE_SERIALIZATION_BUFFER_CHECK_";
             NAct KRaw "#endif";
             NAct KRaw "#if {{ t | full_reference_name }}_{{ f.name }}_ARRAY_CAPACITY_ > {{ f.data_type.capacity }}U";
             NAct KRaw "# error {{ t | full_reference_name }}_{{ f.name }}_ARRAY_CAPACITY_ > {{ f.data_type.capacity }}U";
             NAct KRaw "#endif"])]
          [];
         NAct KRaw "#define {{ t | full_reference_name }}_{{ f.name }}_ARRAY_IS_VARIABLE_LENGTH_ {{ valuetoken_true if f.data_type is VariableLengthArrayType else valuetoken_false }}"];
       NIf [
         ((CAtom "t.inner_type is StructureType"),
          [NAct KRaw "{{ _define_structure(t.inner_type) }}"]);
         ((CAtom "t.inner_type is UnionType"),
          [NAct KRaw "{{ _define_union(t.inner_type) }}"])]
        [NJAssert (CAtom "False")];
       NAct KRaw "{{ _define_functions(t) }}"])]
    [];
   NIf [
     ((CAtom "<macro> assert(expression)"),
      [NIf [
         ((CAtom "options.enable_serialization_asserts"),
          [NAct KRaw "NUNAVUT_ASSERT({{ expression }});"])]
        []])]
    [];
   NIf [
     ((CAtom "<macro> _define_structure(t)"),
      [NJAssert (CAtom "t is StructureType");
       NAct KRaw "typedef struct";
       NAct KRaw "{";
       NFor "f in t.fields_except_padding"
        [NIf [
           ((CNot (CAtom "loop.first")),
            [])]
          [];
         NAct KRaw "{{ _define_field(t, f.data_type, f.name) | indent }};"];
       NIf [
         ((CAtom "<empty> f in t.fields_except_padding"),
          [NAct KRaw "{{ typename_byte }} _dummy_;"])]
        [];
       NAct KRaw "} {{ t | full_reference_name }};"])]
    [];
   NIf [
     ((CAtom "<macro> _define_union(t)"),
      [NJAssert (CAtom "t is UnionType");
       NAct KRaw "typedef struct";
       NAct KRaw "{";
       NAct KRaw "union";
       NAct KRaw "{";
       NFor "f in t.fields_except_padding"
        [NIf [
           ((CNot (CAtom "loop.first")),
            [])]
          [];
         NAct KRaw "{{ _define_field(t, f.data_type, f.name) | indent | indent }};"];
       NAct KRaw "};";
       NAct KRaw "{{ t.tag_field_type | type_from_primitive }} _tag_;";
       NAct KRaw "} {{ t | full_reference_name }};";
       NAct KRaw "#define {{ t | full_reference_name }}_UNION_OPTION_COUNT_ {{ t.fields | length }}U"])]
    [];
   NIf [
     ((CAtom "<macro> _define_field(t, f, name, suffix='')"),
      [NIf [
         ((CAtom "f is PrimitiveType"),
          [NAct KRaw "{{ f | type_from_primitive }} {{ name | id }}{{ suffix }}"]);
         ((CAtom "f is CompositeType"),
          [NAct KRaw "{{ f | full_reference_name }} {{ name | id }}{{ suffix }}"]);
         ((CAtom "f is FixedLengthArrayType"),
          [NIf [
             ((CAtom "f.element_type is BooleanType"),
              [NAct KRaw "{{ _define_bitpacked_array_field((name | id) + '_bitpacked_', f.capacity) }}{{ suffix }}"])]
            [NAct KRaw "{{ _define_field(t, f.element_type, name, '[%s]'|format(f.capacity)) }}{{ suffix }}"]]);
         ((CAtom "f is VariableLengthArrayType"),
          [NAct KRaw "struct";
           NAct KRaw "{";
           NIf [
             ((CAtom "f.element_type is BooleanType"),
              [NAct KRaw "{{ _define_bitpacked_array_field('bitpacked', f.capacity) | indent }};"])]
            [NAct KRaw "{{ _define_field(t, f.element_type, 'elements', '[%s_%s_ARRAY_CAPACITY_]'|format(t|full_reference_name, name)) }};"];
           NAct KRaw "{{ typename_unsigned_length }} count;";
           NAct KRaw "} {{ name | id }}{{ suffix }}"])]
        [NJAssert (CAtom "False")]])]
    [];
   NIf [
     ((CAtom "<macro> _define_bitpacked_array_field(name, capacity)"),
      [NAct KRaw "{{ typename_byte }} {{ name | id }}[{{ capacity | bits2bytes_ceil }}]"])]
    [];
   NIf [
     ((CAtom "<macro> _define_functions(t)"),
      [NIf [
         ((CNot (CAtom "nunavut.support.omit")),
          [NAct KRaw "static inline {{ typename_error_type }} {{ t | full_reference_name }}_serialize_(";
           NAct KRaw "const {{ t | full_reference_name }}* const obj, {{ typename_byte }}* const buffer, {{ typename_unsigned_length }}* const inout_buffer_size_bytes)";
           NAct KRaw "{";
           NSet "from" "'serialization.j2' import serialize";
           NAct KRaw "{{ serialize(t)|trim|remove_blank_lines }}";
           NAct KRaw "}";
           NAct KRaw "static inline {{ typename_error_type }} {{ t | full_reference_name }}_deserialize_(";
           NAct KRaw "{{ t | full_reference_name }}* const out_obj, const {{ typename_byte }}* buffer, {{ typename_unsigned_length }}* const inout_buffer_size_bytes)";
           NAct KRaw "{";
           NSet "from" "'deserialization.j2' import deserialize";
           NAct KRaw "{{ deserialize(t)|trim|remove_blank_lines }}";
           NAct KRaw "}";
           NAct KRaw "static inline void {{ t | full_reference_name }}_initialize_({{ t | full_reference_name }}* const out_obj)";
           NAct KRaw "{";
           NAct KRaw "if (out_obj != {{ valuetoken_null }})";
           NAct KRaw "{";
           NAct KRaw "{{ typename_unsigned_length }} size_bytes = 0;";
           NAct KRaw "const {{ typename_byte }} buf = 0;";
           NAct KRaw "const {{ typename_error_type }} err = {{ t | full_reference_name }}_deserialize_(out_obj, &buf, &size_bytes);";
           NAct KRaw "{{ assert('err >= 0') }}";
           NAct KRaw "(void) err;";
           NAct KRaw "}";
           NAct KRaw "}"])]
        [];
       NFor "f in t.fields_except_padding"
        [NIf [
           ((CAtom "t.inner_type is UnionType"),
            [NAct KRaw "static inline void {{ t | full_reference_name }}_select_{{ f.name }}_({{ t | full_reference_name }}* const obj)";
             NAct KRaw "{";
             NAct KRaw "if (obj != {{ valuetoken_null }})";
             NAct KRaw "{";
             NAct KRaw "obj->_tag_ = {{ loop.index0 }};";
             NAct KRaw "}";
             NAct KRaw "}";
             NAct KRaw "static inline {{ typename_boolean }} {{ t | full_reference_name }}_is_{{ f.name }}_(const {{ t | full_reference_name }}* const obj)";
             NAct KRaw "{";
             NAct KRaw "return ((obj != {{ valuetoken_null }}) && (obj->_tag_ == {{ loop.index0 }}));";
             NAct KRaw "}"])]
          []]])]
    []].

Definition walker_c_decl_base : list tnode :=
  [NIf [
     ((CAtom "nunavut.embed_auditing_info"),
      [])]
    [];
   NIf [
     ((CAtom "nunavut.embed_auditing_info"),
      [])]
    [];
   NFor "key, value in nunavut.platform_version.items()"
    [];
   NFor "key, value in options.items()"
    [];
   NIf [
     ((CAtom "T.deprecated"),
      [])]
    [];
   NSet "include_guard" "{{ T.full_name | ln.c.macrofy }}_{{ T.version.major }}_{{ T.version.minor }}_INCLUDED_";
   NAct KRaw "#ifndef {{ include_guard }}";
   NAct KRaw "#define {{ include_guard }}";
   NFor "n in T | includes"
    [NAct KRaw "#include {{ n }}"];
   NIf [
     ((CAtom "nunavut.support.omit"),
      [NAct KRaw "#include <assert.h>";
       NAct KRaw "#include <stdbool.h>";
       NAct KRaw "#include <stdint.h>"])]
    [NAct KRaw "static_assert( NUNAVUT_SUPPORT_LANGUAGE_OPTIONS_KEY_SET == {{ options.keys() | sort(case_sensitive=true) | join("","") | to_static_assertion_value }},";
     NAct KRaw """{{ (T.source_file_path.as_posix() | replace(""\\"", ""\\\\"") | replace('""', '\\""') | replace(""?"", ""\\?"")) if nunavut.embed_auditing_info else T.source_file_path.name }} is trying to use a serialization library that was compiled with """;
     NAct KRaw """different language options. This is dangerous and therefore not allowed."" );";
     NFor "key, value in options.items()"
      [NAct KRaw "static_assert( {{ ""NUNAVUT_SUPPORT_LANGUAGE_OPTION_{}"".format(key) | ln.c.macrofy }} == {{ value | to_static_assertion_value }},";
       NAct KRaw """{{ (T.source_file_path.as_posix() | replace(""\\"", ""\\\\"") | replace('""', '\\""') | replace(""?"", ""\\?"")) if nunavut.embed_auditing_info else T.source_file_path.name }} is trying to use a serialization library that was compiled with """;
       NAct KRaw """different language options. This is dangerous and therefore not allowed."" );"]];
   NAct KRaw "#ifdef __cplusplus";
   NAct KRaw "extern ""C"" {";
   NAct KRaw "#endif";
   NIf [
     ((CAtom "T.has_fixed_port_id"),
      [NAct KRaw "#define {{ T | full_reference_name }}_HAS_FIXED_PORT_ID_ true";
       NAct KRaw "#define {{ T | full_reference_name }}_FIXED_PORT_ID_ {{ T.fixed_port_id }}U"])]
    [NAct KRaw "#define {{ T | full_reference_name }}_HAS_FIXED_PORT_ID_ false"];
   NIf [
     ((CAtom "<block> contents"),
      [])]
    [];
   NAct KRaw "#ifdef __cplusplus";
   NAct KRaw "}";
   NAct KRaw "#endif";
   NAct KRaw "#endif"].

Definition walker_cpp_decl_base : list tnode :=
  [NIf [
     ((CAtom "nunavut.embed_auditing_info"),
      [])]
    [];
   NIf [
     ((CAtom "nunavut.embed_auditing_info"),
      [])]
    [];
   NIf [
     ((CAtom "nunavut.support.omit"),
      [])]
    [];
   NFor "template_set in nunavut.template_sets"
    [];
   NAct KRaw "{{ nunavut.platform_version | text_table(""// "") }}";
   NAct KRaw "{{ options | text_table(""// "") }}";
   NIf [
     ((CAtom "<ifuses> ""std_variant"""),
      [NAct KRaw "yes"])]
    [NAct KRaw "no"];
   NIf [
     ((CAnd (CAtom "T.deprecated") (CAtom "options.std | int < 14")),
      [])]
    [];
   NAct KRaw "#ifndef {{ T.full_name | ln.c.macrofy }}_{{ T.version.major }}_{{ T.version.minor }}_HPP_INCLUDED";
   NAct KRaw "#define {{ T.full_name | ln.c.macrofy }}_{{ T.version.major }}_{{ T.version.minor }}_HPP_INCLUDED";
   NIf [
     ((CAtom "T.deprecated"),
      [NAct KRaw "#if defined(__GNUC__) || defined(__clang__)";
       NAct KRaw "# pragma GCC diagnostic push";
       NAct KRaw "# pragma GCC diagnostic ignored ""-Wdeprecated-declarations""";
       NAct KRaw "#endif"])]
    [];
   NFor "n in T | includes"
    [NIf [
       ((CAtom "loop.first"),
        [])]
      [];
     NAct KRaw "#include {{ n }}"];
   NIf [
     ((CAtom "nunavut.support.omit"),
      [NAct KRaw "#include <cstddef>";
       NAct KRaw "#include <cstdint>";
       NAct KRaw "#include <memory>";
       NAct KRaw "#include <new>";
       NAct KRaw "#include <type_traits>";
       NAct KRaw "#include <utility>"])]
    [];
   NAct KRaw "{{ T.full_namespace | open_namespace }}";
   NIf [
     ((CNot (CAtom "nunavut.support.omit")),
      [NFor "key, value in options.items()"
        [NIf [
           ((CAtom "loop.first"),
            [])]
          [];
         NIf [
           ((CAtom "loop.first"),
            [NAct KRaw "static_assert( nunavut::support::language_options_key_set == {{ options.keys() | sort(case_sensitive=true) | join("","") | ln.c.to_static_assertion_value }},";
             NAct KRaw """{{ (T.source_file_path.as_posix() | replace(""\\"", ""\\\\"") | replace('""', '\\""') | replace(""?"", ""\\?"")) if nunavut.embed_auditing_info else T.source_file_path.name }} """;
             NAct KRaw """is trying to use a serialization library that was compiled with """;
             NAct KRaw """different language options. This is dangerous and therefore not """;
             NAct KRaw """allowed."" );"])]
          [];
         NAct KRaw "static_assert( nunavut::support::options::{{ key | id }} == {{ value | ln.c.to_static_assertion_value }},";
         NAct KRaw """{{ (T.source_file_path.as_posix() | replace(""\\"", ""\\\\"") | replace('""', '\\""') | replace(""?"", ""\\?"")) if nunavut.embed_auditing_info else T.source_file_path.name }} """;
         NAct KRaw """is trying to use a serialization library that was compiled with """;
         NAct KRaw """different language options. This is dangerous and therefore not """;
         NAct KRaw """allowed."" );"]])]
    [];
   NIf [
     ((CAtom "<block> object"),
      [])]
    [];
   NAct KRaw "{{ T.full_namespace | close_namespace }}";
   NIf [
     ((CAtom "T.deprecated"),
      [NAct KRaw "#if defined(__GNUC__) || defined(__clang__)";
       NAct KRaw "# pragma GCC diagnostic pop";
       NAct KRaw "#endif"])]
    [];
   NAct KRaw "#endif"].

Definition walker_cpp_decl_composite_type : list tnode :=
  [NSet "from" "'_definitions.j2' import assert";
   NIf [
     ((CAtom "<ifuses> ""std_variant"""),
      [])]
    [];
   NAct KRaw "{{ composite_type.doc | block_comment('cpp-doxygen', 0, 120) }}";
   NAct KRaw "struct";
   NIf [
     ((CAtom "composite_type.deprecated"),
      [NAct KRaw "[[deprecated(""{{ composite_type }} is reaching the end of its life; there may be a newer version available"")]]"])]
    [];
   NAct KRaw "{{ composite_type|short_reference_name }} final";
   NAct KRaw "{";
   NIf [
     ((CAtom "options.ctor_convention != ConstructorConvention.DEFAULT"),
      [NAct KRaw "using allocator_type = {{ options.allocator_type }}<void>;"])]
    [];
   NAct KRaw "struct _traits_";
   NAct KRaw "{";
   NAct KRaw "_traits_() = delete;";
   NIf [
     ((CAtom "T.has_fixed_port_id"),
      [NAct KRaw "static constexpr bool HasFixedPortID = true;";
       NAct KRaw "static constexpr {{ typename_unsigned_port }} FixedPortId = {{ T.fixed_port_id }}U;"])]
    [NAct KRaw "static constexpr bool HasFixedPortID = false;"];
   NIf [
     ((CAtom "T is ServiceType"),
      [NAct KRaw "static constexpr bool IsServiceType = true;";
       NAct KRaw "static constexpr bool IsService = false;";
       NAct KRaw "static constexpr bool IsRequest = {{ (composite_type == T.request_type) | string | lower }};";
       NAct KRaw "static constexpr bool IsResponse = {{ (composite_type == T.response_type) | string | lower }};"])]
    [NAct KRaw "static constexpr bool IsServiceType = false;"];
   NJAssert (CAtom "composite_type.extent % 8 == 0");
   NJAssert (CAtom "composite_type.inner_type.extent % 8 == 0");
   NAct KRaw "static constexpr {{ typename_unsigned_length }} ExtentBytes = {{ composite_type.extent // 8 }}UL;";
   NAct KRaw "static constexpr {{ typename_unsigned_length }} SerializationBufferSizeBytes = {{ composite_type.inner_type.extent // 8 }}UL;";
   NAct KRaw "static_assert(ExtentBytes >= SerializationBufferSizeBytes, ""Internal constraint violation"");";
   NAct KRaw "static_assert(ExtentBytes < (std::numeric_limits<{{ typename_unsigned_bit_length }}>::max() / 8U), ""This message is too large to be handled by the selected types"");";
   NFor "field in composite_type.fields_except_padding"
    [NIf [
       ((CAtom "loop.first"),
        [NAct KRaw "struct TypeOf";
         NAct KRaw "{";
         NAct KRaw "TypeOf() = delete;"])]
      [];
     NAct KRaw "using {{ field.name|id }} = {{ field.data_type | declaration }};";
     NIf [
       ((CAtom "loop.last"),
        [NAct KRaw "};"])]
      []];
   NAct KRaw "};";
   NIf [
     ((CAtom "options.ctor_convention != ConstructorConvention.DEFAULT"),
      [NIf [
         ((CAtom "options.allocator_is_default_constructible"),
          [NIf [
             ((CAtom "composite_type.inner_type is UnionType"),
              [NAct KRaw "{{ composite_type|short_reference_name }}() = default;"])]
            [NAct KRaw "{{ composite_type|short_reference_name }}()";
             NIf [
               ((CAtom "composite_type.fields_except_padding"),
                [NAct KRaw ":"])]
              [];
             NFor "field in composite_type.fields_except_padding"
              [NAct KRaw "{{ field | id }}{{ field.data_type | default_value_initializer }}";
               NIf [
                 ((CNot (CAtom "loop.last")),
                  [NAct KRaw ","])]
                []];
             NAct KRaw "{";
             NAct KRaw "}"]])]
        [];
       NAct KRaw "explicit {{ composite_type|short_reference_name }}(const allocator_type& allocator)";
       NIf [
         ((CAtom "composite_type.fields_except_padding"),
          [NAct KRaw ":"])]
        [];
       NIf [
         ((CAtom "composite_type.inner_type is UnionType"),
          [NAct KRaw "union_value{}"])]
        [NFor "field in composite_type.fields_except_padding"
          [NAct KRaw "{{ field | id }}{{ field | value_initializer(SpecialMethod.ALLOCATOR_CONSTRUCTOR) }}";
           NIf [
             ((CNot (CAtom "loop.last")),
              [NAct KRaw ","])]
            []]];
       NAct KRaw "{";
       NAct KRaw "(void)allocator;";
       NAct KRaw "}";
       NIf [
         ((CAtom "composite_type.inner_type is not UnionType"),
          [NIf [
             ((CAtom "composite_type.fields_except_padding"),
              [NAct KRaw "{{ composite_type | explicit_decorator(SpecialMethod.INITIALIZING_CONSTRUCTOR_WITH_ALLOCATOR) }}(";
               NFor "field in composite_type.fields_except_padding"
                [NAct KRaw "const _traits_::TypeOf::{{ field | id }}& {{ field | id }},"];
               NAct KRaw "const allocator_type& allocator";
               NIf [
                 ((CAtom "options.allocator_is_default_constructible"),
                  [NAct KRaw "= allocator_type()"])]
                [];
               NAct KRaw ")";
               NIf [
                 ((CAtom "composite_type.fields_except_padding"),
                  [NAct KRaw ":"])]
                [];
               NFor "field in composite_type.fields_except_padding"
                [NAct KRaw "{{ field | id }}{{ field | value_initializer(SpecialMethod.INITIALIZING_CONSTRUCTOR_WITH_ALLOCATOR) }}";
                 NIf [
                   ((CNot (CAtom "loop.last")),
                    [NAct KRaw ","])]
                  []];
               NAct KRaw "{";
               NAct KRaw "(void)allocator;";
               NAct KRaw "}"])]
            []])]
        [];
       NAct KRaw "{{ composite_type|short_reference_name }}(const {{ composite_type|short_reference_name }}&) = default;";
       NAct KRaw "{{ composite_type|short_reference_name }}(const {{ composite_type|short_reference_name }}& rhs, const allocator_type& allocator)";
       NIf [
         ((CAtom "composite_type.fields_except_padding"),
          [NAct KRaw ":"])]
        [];
       NIf [
         ((CAtom "composite_type.inner_type is UnionType"),
          [NAct KRaw "union_value{rhs.union_value}"])]
        [NFor "field in composite_type.fields_except_padding"
          [NAct KRaw "{{ field | id }}{{ field | value_initializer(SpecialMethod.COPY_CONSTRUCTOR_WITH_ALLOCATOR) }}";
           NIf [
             ((CNot (CAtom "loop.last")),
              [NAct KRaw ","])]
            []]];
       NAct KRaw "{";
       NAct KRaw "(void)rhs;";
       NAct KRaw "(void)allocator;";
       NAct KRaw "}";
       NAct KRaw "{{ composite_type|short_reference_name }}({{ composite_type|short_reference_name }}&&) = default;";
       NAct KRaw "{{ composite_type|short_reference_name }}({{ composite_type|short_reference_name }}&& rhs, const allocator_type& allocator)";
       NIf [
         ((CAtom "composite_type.fields_except_padding"),
          [NAct KRaw ":"])]
        [];
       NIf [
         ((CAtom "composite_type.inner_type is UnionType"),
          [NAct KRaw "union_value{std::move(rhs.union_value)}"])]
        [NFor "field in composite_type.fields_except_padding"
          [NAct KRaw "{{ field | id }}{{ field | value_initializer(SpecialMethod.MOVE_CONSTRUCTOR_WITH_ALLOCATOR) }}";
           NIf [
             ((CNot (CAtom "loop.last")),
              [NAct KRaw ","])]
            []]];
       NAct KRaw "{";
       NAct KRaw "(void)rhs;";
       NAct KRaw "(void)allocator;";
       NAct KRaw "}";
       NAct KRaw "{{ composite_type|short_reference_name }}& operator=(const {{ composite_type|short_reference_name }}&) = default;";
       NAct KRaw "{{ composite_type|short_reference_name }}& operator=({{ composite_type|short_reference_name }}&&) = default;";
       NAct KRaw "~{{ composite_type|short_reference_name }}() = default;"])]
    [];
   NFor "constant in composite_type.constants"
    [NIf [
       ((CAtom "loop.first"),
        [])]
      [];
     NAct KRaw "{{ constant.doc | block_comment('cpp-doxygen', 4, 120) }}";
     NAct KRaw "static constexpr {{ constant.data_type | declaration }} {{ constant.name | id }} = {{ constant | constant_value }};"];
   NIf [
     ((CAtom "composite_type.inner_type is UnionType"),
      [NIf [
         ((CAtom "<ifuses> ""std_variant"""),
          [NSet "include" "'_fields_as_variant.j2'"])]
        [NSet "include" "'_fields_as_union.j2'"];
       NFor "field in composite_type.fields_except_padding"
        [NAct KRaw "bool is_{{ field.name|id }}() const {";
         NAct KRaw "return VariantType::IndexOf::{{ field.name|id }} == union_value.index();";
         NAct KRaw "}";
         NAct KRaw "typename std::add_pointer<_traits_::TypeOf::{{ field.name|id }}>::type get_{{ field.name|id }}_if(){";
         NAct KRaw "return VariantType::get_if<VariantType::IndexOf::{{ field.name|id }}>(&union_value);";
         NAct KRaw "}";
         NAct KRaw "typename std::add_pointer<const _traits_::TypeOf::{{ field.name|id }}>::type get_{{ field.name|id }}_if() const{";
         NAct KRaw "return VariantType::get_if<VariantType::IndexOf::{{ field.name|id }}>(&union_value);";
         NAct KRaw "}";
         NAct KRaw "typename std::add_lvalue_reference<_traits_::TypeOf::{{ field.name|id }}>::type get_{{ field.name|id }}(){";
         NAct KRaw "{{ assert('is_%s()' | format(field.name | id)) }}";
         NAct KRaw "return *VariantType::get_if<VariantType::IndexOf::{{ field.name|id }}>(&union_value);";
         NAct KRaw "}";
         NAct KRaw "typename std::add_lvalue_reference<const _traits_::TypeOf::{{ field.name|id }}>::type get_{{ field.name|id }}() const{";
         NAct KRaw "{{ assert('is_%s()' | format(field.name | id)) }}";
         NAct KRaw "return *VariantType::get_if<VariantType::IndexOf::{{ field.name|id }}>(&union_value);";
         NAct KRaw "}";
         NAct KRaw "template<class... Args> typename std::add_lvalue_reference<_traits_::TypeOf::{{ field.name|id }}>::type";
         NAct KRaw "set_{{ field.name|id }}(Args&&...v){";
         NAct KRaw "return union_value.emplace<VariantType::IndexOf::{{ field.name|id }}>(v...);";
         NAct KRaw "}"]])]
    [NSet "include" "'_fields.j2'"];
   NAct KRaw "};";
   NIf [
     ((CNot (CAtom "nunavut.support.omit")),
      [NAct KRaw "inline nunavut::support::SerializeResult serialize(const {{ composite_type|short_reference_name }}& obj,";
       NAct KRaw "nunavut::support::bitspan out_buffer)";
       NAct KRaw "{";
       NSet "from" "'serialization.j2' import serialize";
       NAct KRaw "{{ serialize(composite_type) | trim | remove_blank_lines }}";
       NAct KRaw "}";
       NAct KRaw "inline nunavut::support::SerializeResult deserialize({{ composite_type|short_reference_name }}& obj,";
       NAct KRaw "nunavut::support::const_bitspan in_buffer)";
       NAct KRaw "{";
       NSet "from" "'deserialization.j2' import deserialize";
       NAct KRaw "{{ deserialize(composite_type) | trim | remove_blank_lines }}";
       NAct KRaw "}"])]
    []].

Definition walker_cpp_decl_fields : list tnode :=
  [NFor "field in composite_type.fields_except_padding"
    [NIf [
       ((CAtom "loop.first"),
        [])]
      [];
     NAct KRaw "{{ field.doc | block_comment('cpp-doxygen', 4, 120) }}";
     NIf [
       ((CAtom "options.ctor_convention != ConstructorConvention.DEFAULT"),
        [NAct KRaw "_traits_::TypeOf::{{ field.name|id }} {{ field | id }};"])]
      [NAct KRaw "_traits_::TypeOf::{{ field.name|id }} {{ field | id }}{{ field.data_type | default_value_initializer }};"]]].

Definition walker_cpp_decl_fields_as_union : list tnode :=
  [NAct KRaw "class VariantType final";
   NAct KRaw "{";
   NAct KRaw "std::size_t tag_;";
   NAct KRaw "union internal_union_t";
   NAct KRaw "{";
   NFor "field in composite_type.fields_except_padding"
    [NAct KRaw "{{ field.doc | block_comment('cpp-doxygen', 12, 120) }}";
     NAct KRaw "std::aligned_storage<sizeof({{ field.data_type | declaration }}), alignof({{ field.data_type | declaration }})>::type {{ field.name | id }};"];
   NAct KRaw "} internal_union_value_;";
   NAct KRaw "public:";
   NAct KRaw "static const constexpr std::size_t variant_npos = std::numeric_limits<std::size_t>::max();";
   NAct KRaw "VariantType()";
   NAct KRaw ": tag_(0)";
   NAct KRaw ", internal_union_value_()";
   NAct KRaw "{";
   NAct KRaw "emplace<0>();";
   NAct KRaw "}";
   NAct KRaw "VariantType(const VariantType& rhs)";
   NAct KRaw ": tag_(variant_npos)";
   NAct KRaw ", internal_union_value_()";
   NAct KRaw "{";
   NFor "field in composite_type.fields_except_padding"
    [NIf [
       ((CNot (CAtom "loop.first")),
        [NAct KRaw "else"])]
      [];
     NAct KRaw "if(rhs.tag_ == {{ loop.index0 }})";
     NAct KRaw "{";
     NAct KRaw "do_copy<{{ loop.index0 }}>(";
     NAct KRaw "*reinterpret_cast<std::add_pointer<const {{ field.data_type | declaration }}>::type>(&rhs.internal_union_value_.{{ field.name | id }})";
     NAct KRaw ");";
     NAct KRaw "}"];
   NAct KRaw "tag_ = rhs.tag_;";
   NAct KRaw "}";
   NAct KRaw "VariantType(VariantType&& rhs)";
   NAct KRaw ": tag_(variant_npos)";
   NAct KRaw ", internal_union_value_()";
   NAct KRaw "{";
   NFor "field in composite_type.fields_except_padding"
    [NIf [
       ((CNot (CAtom "loop.first")),
        [NAct KRaw "else"])]
      [];
     NAct KRaw "if(rhs.tag_ == {{ loop.index0 }})";
     NAct KRaw "{";
     NAct KRaw "do_emplace<{{ loop.index0 }}>(";
     NAct KRaw "std::forward<{{ field.data_type | declaration }}>(";
     NAct KRaw "*reinterpret_cast<std::add_pointer<{{ field.data_type | declaration }}>::type>(&rhs.internal_union_value_.{{ field.name | id }})";
     NAct KRaw ")";
     NAct KRaw ");";
     NAct KRaw "}"];
   NAct KRaw "tag_ = rhs.tag_;";
   NAct KRaw "}";
   NAct KRaw "VariantType& operator=(const VariantType& rhs)";
   NAct KRaw "{";
   NAct KRaw "destroy_current();";
   NFor "field in composite_type.fields_except_padding"
    [NIf [
       ((CNot (CAtom "loop.first")),
        [NAct KRaw "else"])]
      [];
     NAct KRaw "if(rhs.tag_ == {{ loop.index0 }})";
     NAct KRaw "{";
     NAct KRaw "do_copy<{{ loop.index0 }}>(";
     NAct KRaw "*reinterpret_cast<std::add_pointer<const {{ field.data_type | declaration }}>::type>(&rhs.internal_union_value_.{{ field.name | id }})";
     NAct KRaw ");";
     NAct KRaw "}"];
   NAct KRaw "tag_ = rhs.tag_;";
   NAct KRaw "return *this;";
   NAct KRaw "}";
   NAct KRaw "VariantType& operator=(VariantType&& rhs)";
   NAct KRaw "{";
   NAct KRaw "destroy_current();";
   NFor "field in composite_type.fields_except_padding"
    [NIf [
       ((CNot (CAtom "loop.first")),
        [NAct KRaw "else"])]
      [];
     NAct KRaw "if(rhs.tag_ == {{ loop.index0 }})";
     NAct KRaw "{";
     NAct KRaw "do_emplace<{{ loop.index0 }}>(";
     NAct KRaw "std::forward<{{ field.data_type | declaration }}>(";
     NAct KRaw "*reinterpret_cast<std::add_pointer<{{ field.data_type | declaration }}>::type>(&rhs.internal_union_value_.{{ field.name | id }})";
     NAct KRaw ")";
     NAct KRaw ");";
     NAct KRaw "}"];
   NAct KRaw "tag_ = rhs.tag_;";
   NAct KRaw "return *this;";
   NAct KRaw "}";
   NAct KRaw "~VariantType()";
   NAct KRaw "{";
   NAct KRaw "destroy_current();";
   NAct KRaw "}";
   NAct KRaw "size_t index() const{";
   NAct KRaw "return tag_;";
   NAct KRaw "}";
   NAct KRaw "struct IndexOf final";
   NAct KRaw "{";
   NAct KRaw "IndexOf() = delete;";
   NFor "field in composite_type.fields_except_padding"
    [NAct KRaw "static constexpr const std::size_t {{ field.name | id }} = {{ loop.index0 }}U;"];
   NAct KRaw "};";
   NAct KRaw "static constexpr const std::size_t MAX_INDEX = {{ composite_type.fields_except_padding | length }}U;";
   NAct KRaw "template<std::size_t I, class...Types> struct alternative;";
   NFor "field in composite_type.fields_except_padding"
    [NAct KRaw "template<class...Types> struct alternative<{{ loop.index0 }}U, Types...>";
     NAct KRaw "{";
     NAct KRaw "using type = {{ field.data_type | declaration }};";
     NAct KRaw "static constexpr auto pointer = &VariantType::internal_union_t::{{ field.name | id }};";
     NAct KRaw "};"];
   NAct KRaw "template<std::size_t I, class... Args> typename VariantType::alternative<I, VariantType>::type& emplace(Args&&... v)";
   NAct KRaw "{";
   NAct KRaw "destroy_current();";
   NAct KRaw "typename alternative<I>::type& result = do_emplace<I>(v...);";
   NAct KRaw "tag_ = I;";
   NAct KRaw "return result;";
   NAct KRaw "}";
   NAct KRaw "template<std::size_t I, class... Types>";
   NAct KRaw "static constexpr typename alternative<I, VariantType>::type* get_if(VariantType* v) noexcept";
   NAct KRaw "{";
   NAct KRaw "return (v) ? v->do_get_if<I>() : nullptr;";
   NAct KRaw "}";
   NAct KRaw "template<std::size_t I, class... Types>";
   NAct KRaw "static constexpr const typename alternative<I, VariantType>::type* get_if(const VariantType* v) noexcept";
   NAct KRaw "{";
   NAct KRaw "return (v) ? v->do_get_if_const<I>() : nullptr;";
   NAct KRaw "}";
   NAct KRaw "private:";
   NAct KRaw "template<std::size_t I, class... Args> typename VariantType::alternative<I, VariantType>::type& do_emplace(Args&&... v)";
   NAct KRaw "{";
   NAct KRaw "return *(new (&(internal_union_value_.*(alternative<I>::pointer)) ) typename alternative<I>::type(std::forward<Args>(v)...));";
   NAct KRaw "}";
   NAct KRaw "template<std::size_t I, class... Args> typename VariantType::alternative<I, VariantType>::type& do_copy(const Args&... v)";
   NAct KRaw "{";
   NAct KRaw "return *(new (&(internal_union_value_.*(alternative<I>::pointer)) ) typename alternative<I>::type(typename alternative<I>::type(v...)));";
   NAct KRaw "}";
   NAct KRaw "template<std::size_t I, class... Types>";
   NAct KRaw "constexpr typename VariantType::alternative<I, VariantType>::type* do_get_if() noexcept";
   NAct KRaw "{";
   NAct KRaw "return (tag_ == I) ? reinterpret_cast<typename std::add_pointer<typename VariantType::alternative<I>::type>::type>(&(internal_union_value_.*(alternative<I>::pointer))) : nullptr;";
   NAct KRaw "}";
   NAct KRaw "template<std::size_t I, class... Types>";
   NAct KRaw "constexpr const typename VariantType::alternative<I, VariantType>::type* do_get_if_const() const noexcept";
   NAct KRaw "{";
   NAct KRaw "return (tag_ == I) ? reinterpret_cast<typename std::add_pointer<const typename VariantType::alternative<I>::type>::type>(&(internal_union_value_.*(alternative<I>::pointer))) : nullptr;";
   NAct KRaw "}";
   NAct KRaw "void destroy_current()";
   NAct KRaw "{";
   NFor "field in composite_type.fields_except_padding"
    [NIf [
       ((CAtom "field is not PrimitiveType"),
        [NAct KRaw "if (tag_ == {{ loop.index0 }})";
         NAct KRaw "{";
         NAct KRaw "reinterpret_cast<{{ field.data_type | declaration }}*>(std::addressof(internal_union_value_.{{ field.name | id }}))->{{ field.data_type | destructor_name }}();";
         NAct KRaw "}"])]
      []];
   NAct KRaw "}";
   NAct KRaw "};";
   NAct KRaw "VariantType union_value;"].

Definition walker_cpp_decl_fields_as_variant : list tnode :=
  [NAct KRaw "class VariantType final : public std::variant<";
   NFor "field in composite_type.fields_except_padding"
    [NAct KRaw "{{ field.doc | block_comment('cpp-doxygen', 8, 120) }}";
     NAct KRaw "_traits_::TypeOf::{{ field.name|id }}";
     NIf [
       ((CNot (CAtom "loop.last")),
        [NAct KRaw ","])]
      []];
   NAct KRaw ">";
   NAct KRaw "{";
   NAct KRaw "public:";
   NAct KRaw "static const constexpr std::size_t variant_npos = std::variant_npos;";
   NAct KRaw "struct IndexOf final";
   NAct KRaw "{";
   NAct KRaw "IndexOf() = delete;";
   NFor "field in composite_type.fields_except_padding"
    [NAct KRaw "static constexpr const std::size_t {{ field.name | id }} = {{ loop.index0 }}U;"];
   NAct KRaw "};";
   NAct KRaw "static constexpr const std::size_t MAX_INDEX = {{ composite_type.fields_except_padding | length }}U;";
   NAct KRaw "template<size_t I, typename T>";
   NAct KRaw "struct alternative;";
   NAct KRaw "template<size_t I, typename... Types>";
   NAct KRaw "struct alternative<I, std::variant<Types...>> final";
   NAct KRaw "{";
   NAct KRaw "using type = typename std::variant_alternative<I, std::variant<Types...>>::type;";
   NAct KRaw "};";
   NAct KRaw "template<size_t I, typename T>";
   NAct KRaw "struct alternative<I, const T> final";
   NAct KRaw "{";
   NAct KRaw "using type = std::add_const_t<typename std::variant_alternative<I, T>::type>;";
   NAct KRaw "};";
   NAct KRaw "template<std::size_t I, class... Types>";
   NAct KRaw "static constexpr typename alternative<I, std::variant<Types...>>::type* get_if(std::variant<Types...>* v) noexcept";
   NAct KRaw "{";
   NAct KRaw "return std::get_if<I, Types...>(v);";
   NAct KRaw "}";
   NAct KRaw "template<std::size_t I, class... Types>";
   NAct KRaw "static constexpr const typename alternative<I, std::variant<Types...>>::type* get_if(const std::variant<Types...>* v) noexcept";
   NAct KRaw "{";
   NAct KRaw "return std::get_if<I, Types...>(v);";
   NAct KRaw "}";
   NAct KRaw "};";
   NAct KRaw "VariantType union_value;"].

Definition walker_py_decl_base : list tnode :=
  [NIf [
     ((CAtom "nunavut.embed_auditing_info"),
      [])]
    [];
   NJAssert (CAtom "options.enable_serialization_asserts");
   NSet "ARRAY_PRINT_SUMMARIZATION_THRESHOLD" "100";
   NAct KRaw "from __future__ import annotations";
   NAct KRaw "from nunavut_support import Serializer as _Serializer_, Deserializer as _Deserializer_, API_VERSION as _NSAPIV_";
   NAct KRaw "import numpy as _np_";
   NAct KRaw "from numpy.typing import NDArray as _NDArray_";
   NAct KRaw "import pydsdl as _pydsdl_";
   NIf [
     ((CAtom "T.deprecated"),
      [NAct KRaw "import warnings as _warnings_"])]
    [];
   NFor "n in T|imports"
    [NAct KRaw "import {{ n }}"];
   NAct KRaw "if _NSAPIV_[0] != {{ nunavut.support.version[0] }}:";
   NAct KRaw "raise RuntimeError(";
   NAct KRaw "f""Incompatible Nunavut support API version: support { _NSAPIV_ }, package {{ nunavut.support.version }}""";
   NAct KRaw ")";
   NSet "from" "'serialization.j2' import serialize";
   NSet "from" "'deserialization.j2' import deserialize";
   NIf [
     ((CAtom "<macro> strict_type_annotation(t)"),
      [NIf [
         ((CAtom "t is BooleanType"),
          [NAct KRaw "bool"]);
         ((CAtom "t is IntegerType"),
          [NAct KRaw "int"]);
         ((CAtom "t is FloatType"),
          [NAct KRaw "float"]);
         ((CAtom "t is ArrayType"),
          [NAct KRaw "_NDArray_[{{ t.element_type|numpy_scalar_type }}]"]);
         ((CAtom "t is CompositeType"),
          [NAct KRaw "{{ t|full_reference_name }}"])]
        [NJAssert (CAtom "False")]])]
    [];
   NIf [
     ((CAtom "<macro> relaxed_type_annotation(t)"),
      [NIf [
         ((CAtom "t is BooleanType"),
          [NAct KRaw "bool"]);
         ((CAtom "t is IntegerType"),
          [NAct KRaw "int | {{ t|numpy_scalar_type }}"]);
         ((CAtom "t is FloatType"),
          [NAct KRaw "int | float | {{ t|numpy_scalar_type }}"]);
         ((CAtom "t is CompositeType"),
          [NAct KRaw "{{ t|full_reference_name }}"]);
         ((CAtom "t is ArrayType"),
          [NIf [
             ((CAnd (CAtom "t.element_type is UnsignedIntegerType") (CAtom "t.element_type.bit_length <= 8")),
              [NAct KRaw "_NDArray_[{{ t.element_type|numpy_scalar_type }}] | list[int] | memoryview | bytes | bytearray";
               NIf [
                 ((CAtom "t.string_like"),
                  [NAct KRaw "| str"])]
                []])]
            [NAct KRaw "_NDArray_[{{ t.element_type|numpy_scalar_type }}] | list[{{ strict_type_annotation(t.element_type) }}]"]])]
        [NJAssert (CAtom "False")]])]
    [];
   NIf [
     ((CAtom "<macro> assign_array(f, src)"),
      [NSet "t" "f.data_type";
       NIf [
         ((CAtom "t is FixedLengthArrayType"),
          [NSet "cmp" "'=='"]);
         ((CAtom "t is VariableLengthArrayType"),
          [NSet "cmp" "'<='"])]
        [NJAssert (CAtom "False")];
       NIf [
         ((CAtom "t.string_like"),
          [NAct KRaw "{{ src }} = {{ src }}.encode() if isinstance({{ src }}, str) else {{ src }}"])]
        [];
       NIf [
         ((CAnd (CAtom "t.element_type is UnsignedIntegerType") (CAtom "t.element_type.bit_length <= 8")),
          [NAct KRaw "if isinstance({{ src }}, (bytes, bytearray)):";
           NAct KRaw "if not len({{ src }}) {{ cmp }} {{ t.capacity }}:";
           NAct KRaw "raise ValueError(f'{{ f.name }}: invalid array length: not {len({{ src }})} {{ cmp }} {{ t.capacity }}')";
           NAct KRaw "_a_ = _np_.frombuffer({{ src }}, {{ t.element_type|numpy_scalar_type }})";
           NAct KRaw "el"])]
        [];
       NAct KRaw "if isinstance({{ src }}, _np_.ndarray) and {{ src }}.dtype == {{ t.element_type|numpy_scalar_type }} and {{ src }}.ndim == 1 and {{ src }}.size {{ cmp }} {{ t.capacity }}:";
       NAct KRaw "_a_ = {{ src }}";
       NAct KRaw "else:";
       NAct KRaw "if isinstance({{ src }}, (bytes, bytearray, str)):";
       NAct KRaw "raise ValueError(f'{{ f.name }}: expected an array, got {type({{ src }}).__name__}')";
       NIf [
         ((CAtom "t.element_type is IntegerType"),
          [NAct KRaw "if not _int_elements_ok_({{ src }}, {{ t.element_type.inclusive_value_range.min }}, {{ t.element_type.inclusive_value_range.max }}):";
           NAct KRaw "raise ValueError(f'{{ f.name }}: array element is not an integer in [{{ t.element_type.inclusive_value_range.min }}, {{ t.element_type.inclusive_value_range.max }}]')"])]
        [];
       NAct KRaw "try:";
       NAct KRaw "_a_ = _np_.array({{ src }}, {{ t.element_type|numpy_scalar_type }}).flatten()";
       NAct KRaw "except OverflowError as _ex_:";
       NAct KRaw "raise ValueError(f'{{ f.name }}: {_ex_}') from None";
       NAct KRaw "if not _a_.size {{ cmp }} {{ t.capacity }}:";
       NAct KRaw "raise ValueError(f'{{ f.name }}: invalid array length: not {_a_.size} {{ cmp }} {{ t.capacity }}')";
       NIf [
         ((CAnd (CAtom "t.element_type is FloatType") (CAtom "t.element_type.bit_length < 64")),
          [NAct KRaw "_x_ = _np_.abs(_np_.asarray({{ src }}, _np_.float64))";
           NAct KRaw "if (_np_.isfinite(_x_) & (_x_ > {{ t.element_type.inclusive_value_range.max }}.0)).any():";
           NAct KRaw "raise ValueError(f'{{ f.name }}: finite array element is not in [{{ t.element_type.inclusive_value_range.min }}, {{ t.element_type.inclusive_value_range.max }}]')"])]
        [];
       NIf [
         ((CAnd (CAtom "t.element_type is IntegerType") (CAtom "t.element_type.bit_length not in (8, 16, 32, 64)")),
          [NAct KRaw "if _a_.size and not ({{ t.element_type.inclusive_value_range.min }} <= int(_a_.min()) and int(_a_.max()) <= {{ t.element_type.inclusive_value_range.max }}):";
           NAct KRaw "raise ValueError(f'{{ f.name }}: array element is not in [{{ t.element_type.inclusive_value_range.min }}, {{ t.element_type.inclusive_value_range.max }}]')"])]
        [];
       NAct KRaw "self._{{ f|id }} = _a_";
       NAct KRaw "assert isinstance(self._{{ f|id }}, _np_.ndarray)";
       NAct KRaw "assert self._{{ f|id }}.dtype == {{ t.element_type|numpy_scalar_type }}";
       NAct KRaw "assert self._{{ f|id }}.ndim == 1";
       NAct KRaw "assert len(self._{{ f|id }}) {{ cmp }} {{ t.capacity }}"])]
    [];
   NIf [
     ((CAtom "<macro> printable_field_representation(f)"),
      [NIf [
         ((CAtom "f.data_type is ArrayType"),
          [NIf [
             ((CAtom "f.data_type.string_like"),
              [NAct KRaw "repr(bytes(self.{{ f|id }}))[1:]"])]
            [NAct KRaw "_np_.array2string(self.{{ f|id }}, separator=',', edgeitems=10, threshold={{ ARRAY_PRINT_SUMMARIZATION_THRESHOLD }}, max_line_width={{ ARRAY_PRINT_SUMMARIZATION_THRESHOLD * 10000 }})"]])]
        [NAct KRaw "self.{{ f|id }}"]])]
    [];
   NIf [
     ((CAtom "<macro> data_schema(name, type, parent_class_name=None)"),
      [NSet "full_class_name" "((parent_class_name + '.') if parent_class_name else '') + name";
       NAct KRaw "class {{ name }}:";
       NAct KRaw """""""";
       NAct KRaw "Generated property settings use relaxed type signatures, accepting a large variety of";
       NAct KRaw "possible representations of the value, which are automatically converted to a well-defined";
       NAct KRaw "internal representation. When accessing a property, this strict well-defined internal";
       NAct KRaw "representation is always returned. The implicit strictification enables more precise static";
       NAct KRaw "type analysis.";
       NAct KRaw "The value returned by the __repr__() method may be invariant to some of the field values,";
       NAct KRaw "and its format is not guaranteed to be stable. Therefore, the returned string representation";
       NAct KRaw "can be used only for displaying purposes; any kind of automation build on top of that will";
       NAct KRaw "be fragile and prone to mismaintenance.";
       NAct KRaw """""""";
       NFor "c in type.constants"
        [NSet "target" "{{ c|id }}: {{ ''.ljust(type.constants|longest_id_length - c|id|length) }}{{ strict_type_annotation(c.data_type) }}";
         NIf [
           ((CAtom "c.data_type is BooleanType"),
            [NAct KRaw "{{ target }} = {{ c.value.native_value }}"]);
           ((CAtom "c.data_type is IntegerType"),
            [NAct KRaw "{{ target }} = {{ c.value.as_native_integer() }}"]);
           ((CAtom "c.data_type is FloatType"),
            [NAct KRaw "{{ target }} = {{ c.value.native_value.numerator }} / {{ c.value.native_value.denominator }}"])]
          [NJAssert (CAtom "False")];
         NAct KRaw "{{ '\n' if loop.last else '' }}"];
       NAct KRaw "def __init__(self";
       NIf [
         ((CAtom "type.inner_type is UnionType"),
          [NAct KRaw ", *"])]
        [];
       NFor "f in type.fields_except_padding"
        [NAct KRaw ",";
         NAct KRaw "{{ f|id }}: {{ ''.ljust(type.fields|longest_id_length - f|id|length) }}";
         NAct KRaw "None | {{ relaxed_type_annotation(f.data_type) }} = None"];
       NAct KRaw ") -> None:";
       NAct KRaw """""""";
       NAct KRaw "{{ type.full_name }}.{{ type.version.major }}.{{ type.version.minor }}";
       NAct KRaw "Raises ValueError if any of the primitive values are outside the permitted range, regardless of the cast mode.";
       NIf [
         ((CAtom "type.inner_type is UnionType"),
          [NAct KRaw "If no parameters are provided, the first field will be default-initialized and selected.";
           NAct KRaw "If one parameter is provided, it will be used to initialize and select the field under the same name.";
           NAct KRaw "If more than one parameter is provided, a ValueError will be raised."])]
        [];
       NFor "f in type.fields_except_padding"
        [NAct KRaw ":param {{ f|id }}: {{ ''.ljust(type.fields|longest_id_length - f|id|length) }}{{ f }}"];
       NAct KRaw """""""";
       NIf [
         ((CAtom "type.deprecated"),
          [NAct KRaw "_warnings_.warn('Data type {{ type }} is deprecated', DeprecationWarning)"])]
        [];
       NIf [
         ((CAtom "type.inner_type is not UnionType"),
          [NFor "f in type.fields_except_padding"
            [NAct KRaw "self._{{ f|id }}: {{ ''.ljust(type.fields|longest_id_length - f|id|length) }}";
             NAct KRaw "{{ strict_type_annotation(f.data_type) }}";
             NAct KRaw "{{ '\n' if loop.last else '' }}"];
           NFor "f in type.fields_except_padding"
            [NIf [
               ((CAtom "f.data_type is BooleanType"),
                [NAct KRaw "self.{{ f|id }} = {{ f|id }} if {{ f|id }} is not None else False"]);
               ((CAtom "f.data_type is IntegerType"),
                [NAct KRaw "self.{{ f|id }} = {{ f|id }} if {{ f|id }} is not None else 0"]);
               ((CAtom "f.data_type is FloatType"),
                [NAct KRaw "self.{{ f|id }} = {{ f|id }} if {{ f|id }} is not None else 0.0"]);
               ((CAtom "f.data_type is FixedLengthArrayType"),
                [NAct KRaw "if {{ f|id }} is None:";
                 NIf [
                   ((CAtom "f.data_type.element_type is CompositeType"),
                    [NAct KRaw "self.{{ f|id }} = _np_.array([{{ f.data_type.element_type|full_reference_name }}() for _ in range({{ f.data_type.capacity }})], {{ f.data_type.element_type|numpy_scalar_type }})"])]
                  [NAct KRaw "self.{{ f|id }} = _np_.zeros({{ f.data_type.capacity }}, {{ f.data_type.element_type|numpy_scalar_type }})"];
                 NAct KRaw "else:";
                 NAct KRaw "{{ assign_array(f, f|id) | indent(8) }}"]);
               ((CAtom "f.data_type is VariableLengthArrayType"),
                [NAct KRaw "if {{ f|id }} is None:";
                 NAct KRaw "self.{{ f|id }} = _np_.array([], {{ f.data_type.element_type|numpy_scalar_type }})";
                 NAct KRaw "else:";
                 NAct KRaw "{{ assign_array(f, f|id) | indent(8) }}"]);
               ((CAtom "f.data_type is CompositeType"),
                [NAct KRaw "if {{ f|id }} is None:";
                 NAct KRaw "self.{{ f|id }} = {{ f.data_type|full_reference_name }}()";
                 NAct KRaw "elif isinstance({{ f|id }}, {{ f.data_type|full_reference_name }}):";
                 NAct KRaw "self.{{ f|id }} = {{ f|id }}";
                 NAct KRaw "else:";
                 NAct KRaw "raise ValueError(f'{{ f|id }}: expected {{ f.data_type|full_reference_name }} '";
                 NAct KRaw "f'got {type({{ f|id }}).__name__}')"])]
              [NJAssert (CAtom "False")]];
           NIf [
             ((CAtom "<empty> f in type.fields_except_padding"),
              [NAct KRaw "pass"])]
            []])]
        [NFor "f in type.fields"
          [NAct KRaw "self._{{ f|id }}: {{ ''.ljust(type.fields|longest_id_length - f|id|length) }}";
           NAct KRaw "None | {{ strict_type_annotation(f.data_type) }} = None"];
         NAct KRaw "_init_cnt_: int = 0";
         NFor "f in type.fields"
          [NAct KRaw "if {{ f|id }} is not None:";
           NAct KRaw "_init_cnt_ += 1";
           NAct KRaw "self.{{ f|id }} = {{ f|id }}"];
         NAct KRaw "if _init_cnt_ == 0:";
         NSet "f" "type.fields[0]";
         NIf [
           ((CAtom "f.data_type is BooleanType"),
            [NAct KRaw "self.{{ f|id }} = False"]);
           ((CAtom "f.data_type is IntegerType"),
            [NAct KRaw "self.{{ f|id }} = 0"]);
           ((CAtom "f.data_type is FloatType"),
            [NAct KRaw "self.{{ f|id }} = 0.0"]);
           ((CAtom "f.data_type is FixedLengthArrayType"),
            [NIf [
               ((CAtom "f.data_type.element_type is CompositeType"),
                [NAct KRaw "self.{{ f|id }} = _np_.array([{{ f.data_type.element_type|full_reference_name }}() for _ in range({{ f.data_type.capacity }})], {{ f.data_type.element_type|numpy_scalar_type }})"])]
              [NAct KRaw "self.{{ f|id }} = _np_.zeros({{ f.data_type.capacity }}, {{ f.data_type.element_type|numpy_scalar_type }})"]]);
           ((CAtom "f.data_type is VariableLengthArrayType"),
            [NAct KRaw "self.{{ f|id }} = _np_.array([], {{ f.data_type.element_type|numpy_scalar_type }})"]);
           ((CAtom "f.data_type is CompositeType"),
            [NAct KRaw "self.{{ f|id }} = {{ f.data_type|full_reference_name }}()"])]
          [NJAssert (CAtom "False")];
         NAct KRaw "elif _init_cnt_ == 1:";
         NAct KRaw "pass";
         NAct KRaw "else:";
         NAct KRaw "raise ValueError(f'Union cannot hold values of more than one field')"];
       NFor "f in type.fields_except_padding"
        [NAct KRaw "@property";
         NAct KRaw "def {{ f|id }}(self) -> {{ ""None | "" * (type.inner_type is UnionType) }}{{ strict_type_annotation(f.data_type) }}:";
         NAct KRaw """""""";
         NAct KRaw "{{ f }}";
         NIf [
           ((CAnd (CAtom "f.data_type is VariableLengthArrayType") (CAtom "f.data_type.string_like")),
            [NAct KRaw "DSDL does not support strings natively yet. To interpret this array as a string,";
             NAct KRaw "use tobytes() to convert the NumPy array to bytes, and then decode() to convert bytes to string:";
             NAct KRaw ".{{ f|id }}.tobytes().decode()";
             NAct KRaw "When assigning a string to this property, no manual conversion is necessary (it will happen automatically)."])]
          [];
         NAct KRaw "The setter raises ValueError if the supplied value exceeds the valid range or otherwise inapplicable.";
         NAct KRaw """""""";
         NAct KRaw "return self._{{ f|id }}";
         NAct KRaw "@{{ f|id }}.setter";
         NAct KRaw "def {{ f|id }}(self, x: {{ relaxed_type_annotation(f.data_type) }}) -> None:";
         NIf [
           ((CAtom "f.data_type is BooleanType"),
            [NAct KRaw "self._{{ f|id }} = bool(x)"]);
           ((CAtom "f.data_type is IntegerType"),
            [NAct KRaw """""""Raises ValueError if the value is outside of the permitted range, regardless of the cast mode.""""""";
             NAct KRaw "try:";
             NAct KRaw "x = int(x)";
             NAct KRaw "except OverflowError:";
             NAct KRaw "raise ValueError(f'{{ f|id }}: value {x} is not in [{{ f.data_type.inclusive_value_range.min }}, {{ f.data_type.inclusive_value_range.max }}]') from None";
             NAct KRaw "if {{ f.data_type.inclusive_value_range.min }} <= x <= {{ f.data_type.inclusive_value_range.max }}:";
             NAct KRaw "self._{{ f|id }} = x";
             NAct KRaw "else:";
             NAct KRaw "raise ValueError(f'{{ f|id }}: value {x} is not in [{{ f.data_type.inclusive_value_range.min }}, {{ f.data_type.inclusive_value_range.max }}]')"]);
           ((CAtom "f.data_type is FloatType"),
            [NAct KRaw """""""Raises ValueError if the value is finite and outside of the permitted range, regardless of the cast mode.""""""";
             NIf [
               ((CAtom "f.data_type.bit_length < 64"),
                [NAct KRaw "try:";
                 NAct KRaw "x = float(x)";
                 NAct KRaw "except OverflowError:";
                 NAct KRaw "raise ValueError(f'{{ f|id }}: value {x} is not in [{{ f.data_type.inclusive_value_range.min }}, {{ f.data_type.inclusive_value_range.max }}]') from None";
                 NAct KRaw "in_range = {{ f.data_type.inclusive_value_range.min }}.0 <= x <= {{ f.data_type.inclusive_value_range.max }}.0";
                 NAct KRaw "if in_range or not _np_.isfinite(x):";
                 NAct KRaw "self._{{ f|id }} = x";
                 NAct KRaw "else:";
                 NAct KRaw "raise ValueError(f'{{ f|id }}: value {x} is not in [{{ f.data_type.inclusive_value_range.min }}, {{ f.data_type.inclusive_value_range.max }}]')"])]
              [NAct KRaw "try:";
               NAct KRaw "self._{{ f|id }} = float(x)";
               NAct KRaw "except OverflowError:";
               NAct KRaw "raise ValueError(f'{{ f|id }}: value {x} is not in [{{ f.data_type.inclusive_value_range.min }}, {{ f.data_type.inclusive_value_range.max }}]') from None"]]);
           ((CAtom "f.data_type is ArrayType"),
            [NAct KRaw "{{ assign_array(f, 'x') | indent(4) }}"]);
           ((CAtom "f.data_type is CompositeType"),
            [NAct KRaw "if isinstance(x, {{ f.data_type|full_reference_name }}):";
             NAct KRaw "self._{{ f|id }} = x";
             NAct KRaw "else:";
             NAct KRaw "raise ValueError(f'{{ f|id }}: expected {{ f.data_type|full_reference_name }} got {type(x).__name__}')"])]
          [NJAssert (CAtom "False")];
         NIf [
           ((CAtom "type.inner_type is UnionType"),
            [NFor "z in type.fields if z.name != f.name"
              [NAct KRaw "self._{{ z|id }} = None"]])]
          []];
       NAct KRaw "def _serialize_(self, _ser_: _Serializer_) -> None:";
       NAct KRaw "{{ serialize(type) | remove_blank_lines | indent }}";
       NAct KRaw "@staticmethod";
       NAct KRaw "def _deserialize_(_des_: _Deserializer_) -> {{ full_class_name }}:";
       NAct KRaw "{{ deserialize(type, full_class_name) | remove_blank_lines | indent }}";
       NAct KRaw "assert isinstance(self, {{ full_class_name }})";
       NAct KRaw "return self";
       NAct KRaw "def __repr__(self) -> str:";
       NIf [
         ((CAtom "type.inner_type is not UnionType"),
          [NAct KRaw "_o_0_ = ', '.join([";
           NFor "f in type.fields_except_padding"
            [NAct KRaw "'{{ f.name }}=%s' % {{ printable_field_representation(f) }},"];
           NAct KRaw "])"])]
        [NAct KRaw "_o_0_ = '(MALFORMED UNION)'";
         NFor "f in type.fields"
          [NAct KRaw "if self.{{ f|id }} is not None:";
           NAct KRaw "_o_0_ = '{{ f.name }}=%s' % {{ printable_field_representation(f) }}"]];
       NAct KRaw "return f'{{ type.full_name }}.{{ type.version.major }}.{{ type.version.minor }}({_o_0_})'";
       NIf [
         ((CAtom "T.has_fixed_port_id"),
          [NAct KRaw "_FIXED_PORT_ID_ = {{ T.fixed_port_id|int }}"])]
        [];
       NJAssert (CAtom "type.extent % 8 == 0");
       NAct KRaw "_EXTENT_BYTES_ = {{ type.extent // 8 }}";
       NSet "meta_type" "type.__class__.__name__";
       NAct KRaw "_MODEL_: _pydsdl_.{{ meta_type }} = _restore_constant_(";
       NAct KRaw "{{ type | pickle | indent(8) }}";
       NAct KRaw ")";
       NAct KRaw "assert isinstance(_MODEL_, _pydsdl_.{{ meta_type }})"])]
    [];
   NAct KRaw "def _int_elements_ok_(src: object, lo: int, hi: int) -> bool:";
   NAct KRaw """""""";
   NAct KRaw "Whether every numeric element of the value about to be converted into an array of integers is an integer within [lo, hi].";
   NAct KRaw "NumPy range-checks Python ints only: NumPy scalars, nested arrays and arrays of another type are cast like in C (they wrap around),";
   NAct KRaw "so they are looked at here, as exact Python numbers. Elements that are not numbers (text, None) are left to the conversion.";
   NAct KRaw """""""";
   NAct KRaw "s = _np_.asarray(src)";
   NAct KRaw "if s.size == 0 or s.dtype.kind == 'b':";
   NAct KRaw "return True";
   NAct KRaw "if s.dtype.kind in 'iu':";
   NAct KRaw "return bool(lo <= s.min().item() and s.max().item() <= hi)";
   NAct KRaw "if isinstance(src, _np_.ndarray) and s.dtype.kind == 'f':";
   NAct KRaw "return bool(_np_.all(s == _np_.trunc(s))) and bool(lo <= s.min().item() and s.max().item() <= hi)";
   NAct KRaw "if isinstance(src, _np_.ndarray) and s.dtype.kind not in 'OUS':";
   NAct KRaw "return False";
   NAct KRaw "for e in _np_.asarray(src, dtype=object).flat:";
   NAct KRaw "e = e.item() if isinstance(e, (_np_.generic, _np_.ndarray)) and _np_.ndim(e) == 0 else e";
   NAct KRaw "if isinstance(e, complex) or (isinstance(e, (int, float)) and not (lo <= e <= hi and e == int(e))):";
   NAct KRaw "return False";
   NAct KRaw "return True";
   NAct KRaw "def _restore_constant_(encoded_string: str) -> object:";
   NAct KRaw "import pickle, gzip, base64";
   NAct KRaw "return pickle.loads(gzip.decompress(base64.b85decode(encoded_string)))";
   NIf [
     ((CAtom "<block> contents"),
      [])]
    []].
