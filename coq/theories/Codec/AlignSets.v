(* The static alignment analysis the templates rely on (`offset.is_aligned_at_byte()` / the `alignment_prefix` filter over pydsdl's
   offset BitLengthSet), as a Coq abstract interpretation with a soundness proof against the wire specification's cursor
   (audit 2, C02 #2: `sa_sound` was discharged by trust in BitLengthSet only).
   Abstract domain: the set of possible residues (mod 8) of the bit offset, as a list.  `aft t s` = the residues possible after a
   value of type t that starts at a residue in s (`aftf` for t as a field / element: composites are byte-aligned, 32-bit header + whole
   bytes).  `aft_sound`: if decoding succeeds with k bits consumed from an offset whose residue is in s, the residue of the new offset
   is in `aft t s` - for every input, every array length within the capacity.  `rs_aligned s` (every residue 0) is pydsdl's
   `is_aligned_at_byte()`; `aligned_after_sound`: when the analysis says "aligned" the actual cursor IS a multiple of 8.
   The Python-shaped walker's cursor equals the specification's (PyDesWalkerThm), so an annotation `sa` computed with `aft` along the
   field path is sound; the instantiation of `PyDesWalker`'s `sa : path -> nat -> bool` by a path lookup is not done here. *)
From Verif Require Import Wire WireThm WireThmExt RefineDesBase.
From Coq Require Import Lia ZifyBool ZifyNat ZifyN.
Local Open Scope nat_scope.
Ltac Zify.zify_post_hook ::= Z.div_mod_to_equations.

Definition rs := list nat.
Definition rs_shift (k : nat) (s : rs) : rs := map (fun r => (r + k) mod 8) s.
Definition rs_aligned (s : rs) : bool := forallb (fun r => r =? 0) s.

Fixpoint iter_union (f : rs -> rs) (c : nat) (s : rs) : rs :=
  match c with O => s | S c' => s ++ iter_union f c' (f s) end.

Fixpoint aft (t : ty) (s : rs) : rs :=
  match t with
  | TPrim p => rs_shift (prim_bits p) s
  | TFix e n => Nat.iter n (match e with TComp _ _ _ => fun _ => [0] | _ => aft e end) s
  | TVar e c => iter_union (match e with TComp _ _ _ => fun _ => [0] | _ => aft e end) c (rs_shift (prefix_bits c) s)
  | TComp _ _ _ => [0]
  end.

Definition aftf (e : ty) : rs -> rs := match e with TComp _ _ _ => fun _ => [0] | _ => aft e end.

Lemma rs_shift_in r k s : In (r mod 8) s -> In ((r + k) mod 8) (rs_shift k s).
Proof.
  intros H. unfold rs_shift. apply in_map_iff. exists (r mod 8). split; [|exact H].
  rewrite Nat.add_mod_idemp_l by lia. reflexivity.
Qed.

Lemma iter_succ_r {A} (f : A -> A) n : forall x, Nat.iter (S n) f x = Nat.iter n f (f x).
Proof.
  induction n as [|n IH]; intros x; [reflexivity|].
  change (Nat.iter (S (S n)) f x) with (f (Nat.iter (S n) f x)). rewrite IH. reflexivity.
Qed.

Lemma iter_union_in f x : forall c n s, n <= c -> In x (Nat.iter n f s) -> In x (iter_union f c s).
Proof.
  induction c as [|c IH]; intros n s Hn Hx.
  - assert (n = 0) by lia. subst n. exact Hx.
  - cbn [iter_union]. apply in_or_app. destruct n as [|n]; [left; exact Hx|].
    right. apply (IH n); [lia|]. rewrite <- iter_succ_r. exact Hx.
Qed.

Definition P_al (t : ty) : Prop := forall bs v k s r, dec_body t bs = Ok (v, k) -> r mod align t = 0 -> In (r mod 8) s ->
  In ((r + k) mod 8) (aft t s).
Definition P_alf (t : ty) : Prop := forall bs v k s r, dec_field t bs = Ok (v, k) -> r mod align t = 0 -> In (r mod 8) s ->
  In ((r + k) mod 8) (aftf t s).

Lemma al_body_to_field t : P_al t -> P_alf t.
Proof.
  intros H bs v k s r Hd Ha Hin. destruct t as [p|e n|e c|u fs ext]; try (apply (H bs v k s r); assumption).
  cbn [aftf]. cbn [align] in Ha.
  pose proof (dec_field_aligned (TComp u fs ext) eq_refl _ _ _ Hd) as Hk. left. lia.
Qed.

Lemma al_list e : P_alf e -> forall n bs vs k s r, dec_list (dec_field e) n bs = Ok (vs, k) -> r mod align e = 0 ->
  In (r mod 8) s -> In ((r + k) mod 8) (Nat.iter n (aftf e) s).
Proof.
  intros He. induction n as [|n IH]; intros bs vs k s r Hd Ha Hin; cbn [dec_list] in Hd.
  - apply Ok_inj in Hd. injection Hd as _ <-. rewrite Nat.add_0_r. exact Hin.
  - destruct (dec_field e bs) as [[v0 k0]|] eqn:E0; cbn [bind] in Hd; [|discriminate Hd].
    destruct (dec_list (dec_field e) n (skipn k0 bs)) as [[vs0 m]|] eqn:E1; cbn [bind] in Hd; [|discriminate Hd].
    apply Ok_inj in Hd. injection Hd as _ <-. rewrite iter_succ_r, Nat.add_assoc.
    apply (IH _ _ _ _ (r + k0) E1); [|apply (He bs v0 k0 s r E0 Ha Hin)].
    destruct (align_cases e) as [A|A]; rewrite A in *; [apply Nat.mod_1_r|].
    pose proof (dec_field_aligned e A _ _ _ E0). lia.
Qed.

Theorem aft_sound_all : forall t, P_al t.
Proof.
  induction t as [p|e IHe n|e IHe c|u fs ext]; unfold P_al; intros bs v k s r Hd Ha Hin.
  - cbn [dec_body] in Hd. apply Ok_inj in Hd. injection Hd as _ <-. cbn [aft]. apply rs_shift_in. exact Hin.
  - cbn [dec_body] in Hd. change (as_field_dec dec_body) with dec_field in Hd.
    destruct (dec_list (dec_field e) n bs) as [[vs m]|] eqn:E; cbn [bind] in Hd; [|discriminate Hd].
    apply Ok_inj in Hd. injection Hd as _ <-. cbn [aft align] in *. fold (aftf e).
    apply (al_list e (al_body_to_field e IHe) n bs vs m s r E Ha Hin).
  - cbn [dec_body] in Hd. change (as_field_dec dec_body) with dec_field in Hd.
    destruct (N.ltb_spec (N.of_nat c) (read_N (prefix_bits c) bs)) as [|Hle]; [discriminate Hd|].
    destruct (dec_list (dec_field e) _ (skipn (prefix_bits c) bs)) as [[vs m]|] eqn:E; cbn [bind] in Hd; [|discriminate Hd].
    apply Ok_inj in Hd. injection Hd as _ <-. cbn [aft align] in *. fold (aftf e).
    apply (iter_union_in _ _ c (N.to_nat (read_N (prefix_bits c) bs))); [lia|].
    rewrite Nat.add_assoc.
    apply (al_list e (al_body_to_field e IHe) _ _ vs m _ (r + prefix_bits c) E); [|apply rs_shift_in; exact Hin].
    pose proof (len_width_mod8 c) as Hw. unfold prefix_bits.
    destruct (align_cases e) as [A|A]; rewrite A in *; [apply Nat.mod_1_r | lia].
  - cbn [aft]. cbn [align] in Ha. pose proof (dec_body_aligned (TComp u fs ext) eq_refl _ _ _ Hd) as Hk. left. lia.
Qed.

Theorem aft_sound : forall t bs v k s r, dec_body t bs = Ok (v, k) -> r mod align t = 0 -> In (r mod 8) s ->
  In ((r + k) mod 8) (aft t s).
Proof. intros t. exact (aft_sound_all t). Qed.

(* when the analysis says "aligned at byte", the cursor after the value is a multiple of 8 *)
Theorem aligned_after_sound : forall t bs v k s r, dec_body t bs = Ok (v, k) -> r mod align t = 0 -> In (r mod 8) s ->
  rs_aligned (aft t s) = true -> (r + k) mod 8 = 0.
Proof.
  intros t bs v k s r Hd Ha Hin Hal. pose proof (aft_sound t bs v k s r Hd Ha Hin) as H.
  unfold rs_aligned in Hal. rewrite forallb_forall in Hal. apply Nat.eqb_eq. apply Hal. exact H.
Qed.

(* pydsdl's examples: after uint8[<=2] at a byte boundary every offset is aligned; after bool[<=3] it is not; after a uint13 the
   residue is 5 *)
Example aft_examples :
  rs_aligned (aft (TVar (TPrim (PU 8 true)) 2) [0]) = true /\
  rs_aligned (aft (TVar (TPrim PBool) 3) [0]) = false /\
  aft (TPrim (PU 13 false)) [0] = [5] /\
  rs_aligned (aft (TFix (TPrim (PU 4 true)) 2) [0]) = true.
Proof. vm_compute. repeat split; reflexivity. Qed.
