(* C03 source tie of the option model: the classification table of Spec/TargetsC03.v lists EXACTLY the language options that
   lang/properties.yaml declares for nunavut.lang.c / nunavut.lang.cpp, in file order (Generated/Gen_OptGuard.v is regenerated from
   properties.yaml on every run by the `optguard` translator): an added, removed or renamed option breaks these theorems until it is
   classified (Proved / ProvedGate / PairwiseOnly / NotExercised / NotCodec). *)
From Verif Require Import TargetsC03 OptGuard Gen_OptGuard Gen_C03Opt.
From Verif Require TplTieBase TplTie.
From Coq Require Import List String.

Theorem c_options_classified : map (fun x => s2n (fst x)) c_option_coverage = map fst c_defaults.
Proof. vm_compute. reflexivity. Qed.

Theorem cpp_options_classified : map (fun x => s2n (fst x)) cpp_option_coverage = map fst cpp_defaults.
Proof. vm_compute. reflexivity. Qed.

(* WHETHER an option reaches the (de)serialization code is DERIVED from the regenerated scan of the codec templates
   (Generated/Gen_C03Opt.v, translator `c03opt`: direct `options.<key>` mentions in the (de)serialization / definitions / support
   templates, and filters / tests applied there whose implementation reads the option with get_option): every row of the
   classification says `reaches_codec` exactly when the scan found a use - so "no codec influence" is never a hand claim, and
   e.g. cast_format (through the `literal` filter that renders the saturation bounds) and ctor_convention (through
   `default_construction` in the C++ deserializer) cannot be labelled declaration-only *)
Definition rows_agree (tbl : list (string * coverage)) (uses : list (string * list string)) : bool :=
  Nat.eqb (List.length tbl) (List.length uses) &&
  forallb (fun p => String.eqb (fst (fst p)) (fst (snd p)) &&
                    Bool.eqb (reaches_codec (snd (fst p))) (negb (match snd (snd p) with [] => true | _ => false end)))
          (combine tbl uses).

Theorem c_coverage_matches_scan : rows_agree c_option_coverage c_codec_option_uses = true.
Proof. vm_compute. reflexivity. Qed.

Theorem cpp_coverage_matches_scan : rows_agree cpp_option_coverage cpp_codec_option_uses = true.
Proof. vm_compute. reflexivity. Qed.

(* the values the modelled option can take are the documented ones: target_endianness in {any, big, little} *)
Theorem endianness_domain :
  lookup_key (s2n "target_endianness") c_domain = Some (map (fun s => VStr (s2n s)) ["any"; "big"; "little"]%string).
Proof. vm_compute. reflexivity. Qed.

(* statement of TplTie.c_array_paths (regenerated C array templates): with b = element is bool, p = element is a primitive,
   z = `t.element_type is zero_cost_primitive`, the fixed-length array macros emit the ONE-call bulk copy exactly when b || (p && z)
   and the per-element macro exactly otherwise - the case split of WalkerSafe.bulk used by the C observable *)
Local Open Scope string_scope.
Definition c_array_paths_statement : Prop := forall b p w z,
  let f := TplTie.Build_aflags b p w z in
  TplTie.emits TplTieBase.KCall "nunavutCopyBits(&buffer[0], offset_bits," (TplTie.c_farr_ser f) = (b || (p && z))%bool /\
  TplTie.emits TplTieBase.KMacro "_serialize_any(t.element_type" (TplTie.c_farr_ser f) = negb (b || (p && z)) /\
  TplTie.emits TplTieBase.KMacro "_deserialize_any(t.element_type" (TplTie.c_farr_des f) = negb (b || (p && z)) /\
  TplTie.emits TplTieBase.KCall "nunavutGetBits(&{{ reference }}" (TplTie.c_farr_des f) = (b || (p && z))%bool.
