(* Deserialization refinement, part 1: the simulation relation between the walker's cursor and the specification's cursor and
   the specification-side facts it needs.

   The generated C code clamps the size a nested sealed routine reports (`size_bytes` is at most what it was handed), so after a
   nested object that ran past the end of the data the walker's cursor stands AT the capacity while the specification's stands
   beyond it.  From there on both read zeros only.  `near cap ow os` = "same cursor, or both at/past the capacity", always with
   the same residue modulo 8 (the padding decisions coincide); `sim` lifts it to results. *)
From Verif Require Import Wire WireThm WireThmExt Walker Refine.
From Coq Require Import Lia ZifyBool ZifyNat ZifyN.
Local Open Scope nat_scope.
Ltac Zify.zify_post_hook ::= Z.div_mod_to_equations.

Definition near (cap ow os : nat) : Prop := ow mod 8 = os mod 8 /\ (ow = os \/ (cap <= ow /\ cap <= os)).

Definition sim {A} (cap : nat) (rw rs : res (A * nat)) : Prop :=
  match rw, rs with
  | Ok (v, o), Ok (v', o') => v = v' /\ near cap o o'
  | Err e, Err e' => e = e'
  | _, _ => False
  end.

Lemma near_refl cap o : near cap o o.
Proof. unfold near. auto. Qed.

Lemma sim_refl {A} cap (r : res (A * nat)) : sim cap r r.
Proof. destruct r as [[v o]|e]; cbn [sim]; auto using near_refl. Qed.

(* ---------- padding depends on the residue only ---------- *)
Lemma padn_cong x y t : x mod 8 = y mod 8 -> padn x (align t) = padn y (align t).
Proof.
  intros H. destruct (align_cases t) as [-> | ->]; rewrite ?padn_1, ?padn_8; [reflexivity|]. unfold pad8. lia.
Qed.

Lemma mod_align off t : off mod 8 = 0 -> off mod align t = 0.
Proof. intros H. destruct (align_cases t) as [-> | ->]; [apply Nat.mod_1_r | exact H]. Qed.

Lemma rupn_aligned off t : (off + padn off (align t)) mod align t = 0.
Proof.
  destruct (align_cases t) as [E | E]; [rewrite E; apply Nat.mod_1_r|].
  pose proof (rupn_mod off t E) as H. rewrite E in *. exact H.
Qed.

(* ---------- the specification's cursor after an 8-aligned type is a multiple of 8 ---------- *)
Lemma dec_fields_end_aligned D fs : forall bs off vs o, dec_fields D fs bs off = Ok (vs, o) -> o mod 8 = 0.
Proof.
  induction fs as [|f fs IH]; intros bs off vs o Hd; cbn [dec_fields] in Hd.
  - apply Ok_inj in Hd. injection Hd as _ <-. apply pad8_spec.
  - destruct (D f _) as [[v k]|]; cbn [bind] in Hd; [|discriminate].
    destruct (dec_fields D fs _ _) as [[vs0 o0]|] eqn:E; cbn [bind] in Hd; [|discriminate].
    apply Ok_inj in Hd. injection Hd as _ <-. eapply IH. exact E.
Qed.

Lemma dec_list_aligned De : (forall bs v k, De bs = Ok (v, k) -> k mod 8 = 0) ->
  forall n bs vs k, dec_list De n bs = Ok (vs, k) -> k mod 8 = 0.
Proof.
  intros H. induction n as [|n IH]; intros bs vs k Hd; cbn [dec_list] in Hd.
  - apply Ok_inj in Hd. injection Hd as _ <-. reflexivity.
  - destruct (De bs) as [[v0 k0]|] eqn:E0; cbn [bind] in Hd; [|discriminate].
    destruct (dec_list De n _) as [[vs0 m]|] eqn:E1; cbn [bind] in Hd; [|discriminate].
    apply Ok_inj in Hd. injection Hd as _ <-. apply H in E0. apply IH in E1. lia.
Qed.

Lemma dec_field_aligned_of_body t :
  (align t = 8 -> forall bs v k, dec_body t bs = Ok (v, k) -> k mod 8 = 0) ->
  align t = 8 -> forall bs v k, dec_field t bs = Ok (v, k) -> k mod 8 = 0.
Proof.
  intros H Ha bs v k. unfold dec_field, as_field_dec.
  destruct t as [p|e n|e c|u fs [x|]]; try (apply H; exact Ha).
  destruct (_ <? _)%N; [discriminate|].
  destruct (dec_body _ _) as [[v0 k0]|]; cbn [bind]; [|discriminate].
  intros Hd. apply Ok_inj in Hd. injection Hd as _ <-. unfold header_bits. lia.
Qed.

Lemma dec_body_aligned : forall t, align t = 8 -> forall bs v k, dec_body t bs = Ok (v, k) -> k mod 8 = 0.
Proof.
  induction t as [p|e IHe n|e IHe c|u fs ext]; intros Ha bs v k Hd; cbn [align] in Ha.
  - discriminate.
  - cbn [dec_body] in Hd. change (as_field_dec dec_body) with dec_field in Hd.
    destruct (dec_list _ n bs) as [[vs m]|] eqn:E; cbn [bind] in Hd; [|discriminate].
    apply Ok_inj in Hd. injection Hd as _ <-.
    eapply (dec_list_aligned (dec_field e)); [|exact E]. apply dec_field_aligned_of_body; assumption.
  - cbn [dec_body] in Hd. change (as_field_dec dec_body) with dec_field in Hd.
    destruct (_ <? _)%N; [discriminate|].
    destruct (dec_list _ _ _) as [[vs m]|] eqn:E; cbn [bind] in Hd; [|discriminate].
    apply Ok_inj in Hd. injection Hd as _ <-.
    assert (Hm : m mod 8 = 0).
    { eapply (dec_list_aligned (dec_field e)); [|exact E]. apply dec_field_aligned_of_body; assumption. }
    pose proof (len_width_mod8 c). unfold prefix_bits. lia.
  - destruct u; cbn [dec_body] in Hd.
    + destruct (_ <=? _)%N; [discriminate|].
      destruct (dec_sel _ _ _ _) as [[v0 m]|]; cbn [bind] in Hd; [|discriminate].
      apply Ok_inj in Hd. injection Hd as _ <-. apply pad8_spec.
    + destruct (dec_fields _ fs bs 0) as [[vs m]|] eqn:E; cbn [bind] in Hd; [|discriminate].
      apply Ok_inj in Hd. injection Hd as _ <-. eapply dec_fields_end_aligned. exact E.
Qed.

Lemma dec_field_aligned t : align t = 8 -> forall bs v k, dec_field t bs = Ok (v, k) -> k mod 8 = 0.
Proof. apply dec_field_aligned_of_body. apply dec_body_aligned. Qed.

(* ---------- a structure that starts at a multiple of 8 may count its offsets from anywhere ---------- *)
Lemma dec_fields_shift D fs a : a mod 8 = 0 -> forall bs off,
  dec_fields D fs bs (a + off) = shift a (dec_fields D fs bs off).
Proof.
  intros Ha. induction fs as [|f fs IH]; intros bs off; cbn [dec_fields].
  - cbn [shift]. f_equal. f_equal. unfold pad8. lia.
  - assert (Hp : padn (a + off) (align f) = padn off (align f)) by (apply padn_cong; lia).
    rewrite Hp. destruct (D f _) as [[v k]|]; cbn [bind shift]; [|reflexivity].
    replace (a + off + padn off (align f) + k) with (a + (off + padn off (align f) + k)) by lia.
    rewrite IH. destruct (dec_fields D fs _ _) as [[vs o]|]; reflexivity.
Qed.

Lemma dec_fields_from D fs off bs : off mod 8 = 0 ->
  dec_fields D fs bs off = shift off (dec_fields D fs bs 0).
Proof. intros H. rewrite <- (dec_fields_shift D fs off H bs 0), Nat.add_0_r. reflexivity. Qed.
