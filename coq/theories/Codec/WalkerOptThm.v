(* Every primitive read the deserialization walker issues is DEFINED: if the option-valued reads agree with a total record P
   (`o_get = Some (get_bits P ...)`) for every capacity within the buffer and every offset with off + w <= B, and
   |buffer| + tsz t <= B (Codec/WalkerBound.v: the cursor never leaves that range), then the option-valued walker never meets a
   `None`: `walk_des_o O t bits = walk_des P t bits` - whose errors are only EBadLen / EBadTag / EBadHdr, never the `EAssert` that a
   `None` produces.  Instantiated in Codec/InstancesOpt.v with the C / C++ / Python primitive models. *)
From Verif Require Import Wire WireThm Walker WalkerBound WalkerOpt.
From Coq Require Import Lia ZifyBool ZifyNat ZifyN.
Local Open Scope nat_scope.
Ltac Zify.zify_post_hook ::= Z.div_mod_to_equations.

Section OptBound.
  Variable O : oprims.
  Variable P : prims.
  Variable B : nat.
  Variable buf : list bool.
  Hypothesis Hdef : forall cap off w, cap <= length buf -> off + w <= B -> 1 <= w ->
    o_get O buf cap off w = Some (get_bits P buf cap off w).

  Lemma o_read_eq {A} cap off w (k : list bool -> res A) : cap <= length buf -> off + w <= B -> 1 <= w ->
    o_read O buf cap off w k = k (get_bits P buf cap off w).
  Proof. intros Hc Hb Hw. unfold o_read. rewrite Hdef by assumption. reflexivity. Qed.

  Lemma r_prim_o_eq p cap off : prim_wf p = true -> cap <= length buf -> off + prim_bits p <= B ->
    r_prim_o O p buf cap off = Ok (r_prim P p buf cap off).
  Proof.
    intros Hwf Hc Hb. destruct p as [|w s|w s|w s|w]; cbn [r_prim_o r_prim prim_bits prim_wf] in *.
    - destruct (off <? cap); [rewrite o_read_eq by (try assumption; lia)|]; reflexivity.
    - destruct ((off mod 8 =? 0) && (w <=? 8)); [destruct (off + w <=? cap)|]; rewrite ?o_read_eq by (try assumption; lia); reflexivity.
    - rewrite o_read_eq by (try assumption; lia). reflexivity.
    - rewrite o_read_eq by (try assumption; lia). reflexivity.
    - reflexivity.
  Qed.

  Lemma len_width_ge1 m : 1 <= len_width m.
  Proof. destruct (len_width_cases m) as [-> | [-> | [-> | ->]]]; lia. Qed.

  Definition Qo (t : ty) : Prop := wf_ty t = true -> forall cap off, cap <= length buf -> Nat.max cap off + tsz t <= B ->
    wd_body_o O t buf cap off = wd_body P t buf cap off.
  Definition Qof (t : ty) : Prop := wf_ty t = true -> forall cap off, cap <= length buf -> Nat.max cap off + (32 + tsz t) <= B ->
    wd_field_o O (wd_body_o O) t buf cap off = wd_field P (wd_body P) t buf cap off.

  Lemma qo_body_to_field t : Qo t -> Qof t.
  Proof.
    intros H Hwf cap off Hc Hb.
    destruct t as [p|e n|e c|u fs [x|]]; try (apply H; [assumption | assumption | lia]).
    - cbn [wd_field_o wd_field]. unfold header_bits in *. rewrite o_read_eq by (try assumption; lia).
      set (hN := N_of_bits (get_bits P buf cap off 32)).
      destruct (N.ltb_spec (N.of_nat (cap / 8 - Nat.min ((off + 32) / 8) (cap / 8))) hN) as [Hlt|Hge]; [reflexivity|].
      rewrite (H Hwf (Nat.min cap (off + 32 + 8 * N.to_nat hN)) (off + 32)) by lia. reflexivity.
    - cbn [wd_field_o wd_field]. rewrite (H Hwf cap off Hc) by lia. reflexivity.
  Qed.

  Lemma qo_list e : wf_ty e = true -> Qof e -> forall n cap off, cap <= length buf -> Nat.max cap off + n * (32 + tsz e) <= B ->
    wd_list (wd_field_o O (wd_body_o O) e) n buf cap off = wd_list (wd_field P (wd_body P) e) n buf cap off.
  Proof.
    intros Hwf He. induction n as [|n IH]; intros cap off Hc Hb; cbn [wd_list]; [reflexivity|].
    rewrite Nat.mul_succ_l in Hb. rewrite (He Hwf cap off Hc) by lia.
    destruct (q_body_to_field P B buf e (q_all P B buf e) cap off ltac:(lia)) as [_ Hn].
    destruct (wd_field P (wd_body P) e buf cap off) as [[v o]|err]; cbn [bind bnd] in *; [|reflexivity].
    rewrite (IH cap o Hc) by lia. reflexivity.
  Qed.

  Lemma qo_fields fs : Forall Qof fs -> forallb wf_ty fs = true -> forall cap off, cap <= length buf -> Nat.max cap off + tsz_sum tsz fs + 7 <= B ->
    wd_fields (wd_field_o O (wd_body_o O)) fs buf cap off = wd_fields (wd_field P (wd_body P)) fs buf cap off.
  Proof.
    induction 1 as [|f fs Hf Hfs IH]; intros Hwf cap off Hc Hb; cbn [wd_fields tsz_sum] in *; [reflexivity|].
    cbn [forallb] in Hwf. apply andb_prop in Hwf. destruct Hwf as [Hwf1 Hwf2].
    pose proof (padn_le7 off f) as Hp.
    rewrite (Hf Hwf1 cap (off + padn off (align f)) Hc) by lia.
    destruct (q_body_to_field P B buf f (q_all P B buf f) cap (off + padn off (align f)) ltac:(lia)) as [_ Hn].
    destruct (wd_field P (wd_body P) f buf cap (off + padn off (align f))) as [[v o]|err]; cbn [bind bnd] in *; [|reflexivity].
    rewrite (IH Hwf2 cap o Hc) by lia. reflexivity.
  Qed.

  Lemma qo_sel fs : Forall Qof fs -> forallb wf_ty fs = true -> forall k cap off, cap <= length buf -> Nat.max cap off + tsz_sum tsz fs <= B ->
    wd_sel (wd_field_o O (wd_body_o O)) fs k buf cap off = wd_sel (wd_field P (wd_body P)) fs k buf cap off.
  Proof.
    induction 1 as [|f fs Hf Hfs IH]; intros Hwf k cap off Hc Hb; [destruct k; reflexivity|].
    cbn [forallb] in Hwf. apply andb_prop in Hwf. destruct Hwf as [Hwf1 Hwf2].
    cbn [tsz_sum] in Hb. destruct k as [|k]; cbn [wd_sel]; [apply Hf | apply IH]; try assumption; lia.
  Qed.

  Theorem qo_all : forall t, Qo t.
  Proof.
    induction t as [p|e n IHe|e c IHe|u fs ext H] using ty_nested_ind; unfold Qo; intros Hwf cap off Hc Hb; cbn [tsz] in Hb.
    - cbn [wd_body_o wd_body]. rewrite r_prim_o_eq by (try assumption; lia). reflexivity.
    - cbn [wd_body_o wd_body]. cbn [wf_ty] in Hwf. rewrite (qo_list e Hwf (qo_body_to_field e IHe) n cap off Hc Hb). reflexivity.
    - cbn [wd_body_o wd_body]. pose proof (len_width_le64 c) as Hw. pose proof (len_width_ge1 c) as Hw1. unfold prefix_bits in *.
      cbn [wf_ty] in Hwf. apply andb_prop in Hwf. destruct Hwf as [Hwf _].
      rewrite o_read_eq by (try assumption; lia).
      set (nN := N_of_bits (get_bits P buf cap off (len_width c))).
      destruct (N.ltb_spec (N.of_nat c) nN) as [Hlt|Hge]; [reflexivity|].
      assert (Hn : N.to_nat nN * (32 + tsz e) <= c * (32 + tsz e)) by (apply Nat.mul_le_mono_r; lia).
      rewrite (qo_list e Hwf (qo_body_to_field e IHe) (N.to_nat nN) cap (off + len_width c) Hc) by lia. reflexivity.
    - assert (Hf : Forall Qof fs).
      { rewrite Forall_forall in *. intros f Hin. apply qo_body_to_field. apply H. exact Hin. }
      assert (Hwfs : forallb wf_ty fs = true).
      { cbn [wf_ty] in Hwf. apply andb_prop in Hwf. destruct Hwf as [Hwf _]. apply andb_prop in Hwf. destruct Hwf as [Hwf _]. exact Hwf. }
      destruct u; cbn [wd_body_o wd_body].
      + pose proof (len_width_le64 (length fs - 1)) as Hw. pose proof (len_width_ge1 (length fs - 1)) as Hw1. unfold tag_bits in *.
        rewrite o_read_eq by (try assumption; lia).
        set (kN := N_of_bits (get_bits P buf cap off (len_width (length fs - 1)))).
        destruct (N.leb_spec (N.of_nat (length fs)) kN) as [Hle|Hgt]; [reflexivity|].
        rewrite (qo_sel fs Hf Hwfs (N.to_nat kN) cap (off + len_width (length fs - 1)) Hc) by lia. reflexivity.
      + rewrite (qo_fields fs Hf Hwfs cap off Hc) by lia. reflexivity.
  Qed.
End OptBound.

Theorem walk_des_o_defined : forall O P B t bits,
  (forall cap off w, cap <= length bits -> off + w <= B -> 1 <= w -> o_get O bits cap off w = Some (get_bits P bits cap off w)) ->
  wf_ty t = true -> length bits + tsz t <= B -> walk_des_o O t bits = walk_des P t bits.
Proof.
  intros O P B t bits Hdef Hwf Hb. unfold walk_des_o, walk_des.
  rewrite (qo_all O P B bits Hdef t Hwf (length bits) 0 (le_n _)) by lia. reflexivity.
Qed.
