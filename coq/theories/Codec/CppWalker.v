(* A model of what the generated C++ code does (lang/cpp/templates/serialization.j2 = "S", deserialization.j2 = "D", support
   lang/cpp/support/serialization.j2 = "B" for bitspan), SHAPED AFTER THOSE TEMPLATES - which differ from the C ones
   (Codec/Walker.v) in the points (i)-(v) below.  Model only; the refinement proofs are in CppWalkerThm.v, the instance with the
   shipped bitspan members (Prims/CppPrims.v) in CppWalkerInst.v.

   STATE.  All memory is one bit list `buf`.  A bitspan is the triple (base, cap, off):
       base = bit index in `buf` of data_.data()        (a multiple of 8),
       cap  = 8 * data_.size()                          (bits of the span's byte window),
       off  = offset_bits_                              (the cursor, relative to base).
   A sub-span is the same bit list with a new base / capacity / cursor: `cw_subspan` = bitspan::subspan(bits_at, size_bits)
   (B 623-639), `cd_subspan` = any_bitspan::subspan() (B 246-254), `cd_subspan_bytes` = any_bitspan::subspan_bytes (B 257-261).

   PRIMITIVES (record `cppprims`, at the bit-list level):
       c_set  buf base cap off bits   setUxx / setIxx / setBit / setF16 / setF32 / setF64 of bitspan{data@base, cap/8, off}
                                      (B 751-798): None = the member returned -Error::SerializationBufferTooSmall
       c_zero buf base cap off n      setZeros(n) (B 586-605); None = SerializationBufferTooSmall
       c_get  buf base cap off w      getU8..getU64(w) / getI*(w) / getBit / getF* of const_bitspan{data@base, cap/8, off}: the raw
                                      field, zero-extended by the member itself (saturateBufferFragmentBitLength, B 514-519)

   SERIALIZATION, template construct -> model:
     S 26-34   capacity_bits = out_buffer.size(); if (capacity_bits < max) return TooSmall        cw_routine (size() = cap - off, B 286-294)
     S 43-52   structure: for each field but the FIRST `_pad_to_alignment(align f)`, then the field    cw_fields (flag `first`)
     S 56-75   union: tag = variant.index() written with setUxx FIRST, then the if/else-if chain,      cw_body (TComp true), cw_sel
               `else return RepresentationBadUnionTag`
     S 79      final `_pad_to_alignment(8)`                                                         cw_pad .. 8
     S 88      return out_buffer.offset_bytes_ceil()  = (off + 7) / 8                               cw_routine
     S 94-104  _pad_to_alignment(n): emitted only if n > 1; padAndMoveToAlignment (B 607-620):      cw_pad
               padding = n - off % n; if (padding != n) { setZeros(padding); add_offset(padding) }
     S 134-141 void: setZeros(w); add_offset(w)                                                     cw_prim (PVoid)
     S 145-152 bool: setBit(value); add_offset(1)                                                   cw_prim
     S 156-187 integer: saturation code ONLY for saturated non-standard widths (S 157-158), then    cw_prim (Walker.storage_bits has the
               setUxx/setIxx(value, w); add_offset(w).  (i) there is NO aligned whole-byte fast      same saturation case split)
               path: every width at every offset goes through the member
     S 191-226 float: isfinite clamp only for saturated float16, setF16/32/64; add_offset           cw_prim (cast_f inside storage_bits)
     S 230-288 fixed array: element loop (the special cases are commented out in the template)      cw_list
     S 292-318 variable array: size > capacity -> SerializationBadArrayLength; prefix setUxx; loop   cw_body (TVar)
     S 322-366 nested composite: size_bytes = ceil(max/8); sealed: subspan(0, size_bytes*8),        cw_field
               delimited: subspan(32, size_bytes*8) (cursor NOT moved); error of subspan returned;
               nested serialize() on the sub-span (with its own capacity check and its own cursor
               counted from the sub-span's start); size_bytes = its result; delimited: header
               setUxx(size_bytes, 32) at the saved cursor + add_offset(32); add_offset(size_bytes*8)
   DESERIALIZATION:
     D 25      capacity_bits = in_buffer.size()                                                     cd_routine
     D 26-35   structure fields, `align_offset_to<n>` before each but the first (D 67-72, B 498-501) cd_fields (flag `first`)
     D 37-55   union: tag getU<N>(w); add_offset; if/else-if chain; else RepresentationBadUnionTag    cd_body (TComp true), cd_sel
     D 58-62   final align_offset_to<8>; return min(in_buffer.offset(), capacity_bits) / 8           cd_routine
     D 96-98   void: add_offset(w)                                                                  cd_prim
     D 102-137 bool getBit(), integer getU<N>/getI<N>(w) ((v) NO guarded byte load: the aligned     cd_prim
               special case is commented out, D 116-125), float getF16/32/64; add_offset(w)
     D 141-178 fixed array: element loop                                                            cd_list
     D 182-217 variable array: prefix getU<N>(w); add_offset; size > capacity -> BadArrayLength;     cd_body (TVar)
               loop
     D 221-261 nested composite: delimited: header getU32(32); add_offset(32);                      cd_field
               if (size_bytes*8 > in_buffer.size()) return BadDelimiterHeader;
               deserialize(obj, in_buffer.subspan_bytes(dh)); add_offset(dh*8)
               sealed: deserialize(obj, in_buffer.subspan()); add_offset(result*8) - the result is
               the nested routine's min(cursor, capacity)/8, i.e. CLAMPED to what the sub-span holds, as in C

   ABSTRACTIONS (everything not listed is modelled one-to-one):
     a. memory = one bit list; pointer data_.data() = bit index `base`.  A sub-span whose byte offset lies beyond the parent
        (deserialization only: B 252 newSize = 0, pointer data + offset_bytes past the end) is a span of capacity 0 at a base
        beyond |buf|: its reads are all zero, it is never written.
     b. std::size_t arithmetic is unbounded here; the instance (CppWalkerInst.v) runs the shipped 64-bit models and carries the
        side conditions (8*cap < 2^64, |bits| + tsz t < 2^64).
     c. typed members: c_set is handed the low `w` bits of the storage object (Walker.storage_bits: two's complement image at the
        storage width, `value ? 1 : 0`, float16Pack / the isfinite clamp via Wire.cast_f); c_get returns the raw field and the
        walker applies signed_of / f16_unpack.  Codec/InstancesTyped.v proves setIxx/setBit/setF*/getI*/getBit/getF* are exactly
        these raw operations.
     d. serialization asserts are not modelled (`enable_serialization_asserts` is off by default); the
        `..._DISABLE_SERIALIZATION_BUFFER_CHECK_` override (S 28-37) is not modelled (check always compiled in).
     e. S 13-19 / D 13-19 (max bit length 0: `return 0`): the general path gives the same result (no field moves the cursor).
     f. align_offset_to<n> is `(off + n-1) & ~(n-1)` in the source; modelled as off + padn off n (Prims/PrimsExtThm.v
        align_offset_to_spec proves them equal for n = 2^k).
     g. values: a std::variant index that selects no alternative is a tag >= number of fields (cw_sel answers EBadTag, S 72-75). *)
From Verif Require Import Wire Walker.
Local Open Scope nat_scope.

Record cppprims : Type := {
  c_set  : list bool -> nat -> nat -> nat -> list bool -> option (list bool);   (* buf base cap off bits *)
  c_zero : list bool -> nat -> nat -> nat -> nat -> option (list bool);         (* buf base cap off n *)
  c_get  : list bool -> nat -> nat -> nat -> nat -> list bool;                  (* buf base cap off w *)
}.

(* reference record: what the laws of CppWalkerThm.v describe, with the members' own capacity checks *)
Definition ref_cppprims : cppprims := {|
  c_set := fun buf base cap off v =>
    if off + length v <=? cap then Some (firstn (base + off) buf ++ v ++ skipn (base + off + length v) buf) else None;
  c_zero := fun buf base cap off n =>
    if n <=? cap - off then Some (firstn (base + off) buf ++ repeat false n ++ skipn (base + off + n) buf) else None;
  c_get := fun buf base cap off w => take_ze w (skipn off (firstn cap (skipn base buf)));
|}.

(* bitspan::subspan(bits_at, size_bits) (B 623-639): Some (base', cap', off') or None = SerializationBufferTooSmall *)
Definition cw_subspan (base cap off bits_at size_bits : nat) : option (nat * nat * nat) :=
  let offset_bits := off + bits_at in
  let offset_bytes := offset_bits / 8 in
  let new_offset_bits := offset_bits mod 8 in
  if cap / 8 <? offset_bytes then None
  else
    let new_size_bits := new_offset_bits + size_bits in
    let size_available_bits := (cap / 8 - offset_bytes) * 8 in
    if size_available_bits <? new_size_bits then None
    else Some (base + 8 * offset_bytes, 8 * (new_size_bits / 8), new_offset_bits).

(* any_bitspan::subspan() (B 246-254, bits = 0) *)
Definition cd_subspan (base cap off : nat) : nat * nat * nat :=
  let offset_bytes := off / 8 in
  let new_size := if offset_bytes <? cap / 8 then cap / 8 - offset_bytes else 0 in
  (* current source (/repo 939fc9d): the pointer advances by data_.size() - newSize = min(offset_bytes, size), so it never passes
     one past the end of the data *)
  (base + 8 * (cap / 8 - new_size), 8 * new_size, off mod 8).

(* any_bitspan::subspan_bytes(size_bytes) (B 257-261) *)
Definition cd_subspan_bytes (base cap off size_bytes : nat) : nat * nat * nat :=
  let '(b, c, o) := cd_subspan base cap off in
  let available := c / 8 in
  (b, 8 * (if size_bytes <? available then size_bytes else available), o).

Section CppWalk.
  Variable Q : cppprims.

  (* ================= serialization ================= state: memory, span (base, cap), cursor *)
  Definition cres := res (list bool * nat).

  Definition cw_set (buf : list bool) (base cap off : nat) (v : list bool) : cres :=
    match c_set Q buf base cap off v with Some b => Ok (b, off + length v) | None => Err ETooSmall end.

  Definition cw_zero (buf : list bool) (base cap off n : nat) : cres :=
    match c_zero Q buf base cap off n with Some b => Ok (b, off + n) | None => Err ETooSmall end.

  (* _pad_to_alignment(a) (S 94-104) with bitspan::padAndMoveToAlignment (B 607-620) *)
  Definition cw_pad (buf : list bool) (base cap off a : nat) : cres :=
    if a <=? 1 then Ok (buf, off)
    else let padding := a - off mod a in
         if padding =? a then Ok (buf, off) else cw_zero buf base cap off padding.

  (* _serialize_void / _boolean / _integer / _float (S 134-226) *)
  Definition cw_prim (p : prim) (v : val) (buf : list bool) (base cap off : nat) : cres :=
    match storage_bits p v with
    | None => Err EShape
    | Some sb =>
        match p with
        | PVoid w => cw_zero buf base cap off w
        | _ => cw_set buf base cap off (firstn (prim_bits p) sb)
        end
    end.

  Section SerList.
    Variable Se : val -> list bool -> nat -> cres.
    Fixpoint cw_list (l : list val) (buf : list bool) (off : nat) : cres :=
      match l with
      | [] => Ok (buf, off)
      | x :: r => bind (Se x buf off) (fun '(b, o) => cw_list r b o)
      end.
  End SerList.

  Section SerComb.
    Variable Sr : ty -> val -> list bool -> nat -> nat -> nat -> cres.
    (* S 43-52: no padding call in front of the first field *)
    Fixpoint cw_fields (first : bool) (fs : list ty) (vs : list val) (buf : list bool) (base cap off : nat) : cres :=
      match fs, vs with
      | [], [] => Ok (buf, off)
      | f :: fs', v :: vs' =>
          bind (if first then Ok (buf, off) else cw_pad buf base cap off (align f)) (fun '(b, o) =>
            bind (Sr f v b base cap o) (fun '(b', o') => cw_fields false fs' vs' b' base cap o'))
      | _, _ => Err EShape
      end.
    (* S 63-75: the if / else-if chain over the variant index *)
    Fixpoint cw_sel (fs : list ty) (k : nat) (v : val) (buf : list bool) (base cap off : nat) : cres :=
      match fs, k with
      | [], _ => Err EBadTag
      | f :: _, O => Sr f v buf base cap off
      | _ :: r, S k' => cw_sel r k' v buf base cap off
      end.
  End SerComb.

  (* the body of `serialize(obj, out_buffer)` given the code for the fields: S 26-34 in front, S 88 behind; result = bytes *)
  Definition cw_routine (Sr : ty -> val -> list bool -> nat -> nat -> nat -> cres)
      (t : ty) (v : val) (buf : list bool) (base cap off : nat) : cres :=
    if cap - off <? bmax t then Err ETooSmall
    else bind (Sr t v buf base cap off) (fun '(b, o) => Ok (b, (o + 7) / 8)).

  (* _serialize_any on a field / element: composites go through _serialize_composite (S 322-366) *)
  Definition cw_field (Sr : ty -> val -> list bool -> nat -> nat -> nat -> cres)
      (t : ty) (v : val) (buf : list bool) (base cap off : nat) : cres :=
    match t with
    | TComp _ _ ext =>
        let size_bytes := (bmax t + 7) / 8 in
        let hb := match ext with Some _ => header_bits | None => 0 end in
        match cw_subspan base cap off hb (size_bytes * 8) with
        | None => Err ETooSmall
        | Some (base', cap', off') =>
            bind (cw_routine Sr t v buf base' cap' off') (fun '(b, nbytes) =>
              match ext with
              | Some _ =>
                  bind (cw_set b base cap off (bits_of_N header_bits (N.of_nat nbytes))) (fun '(b', o) => Ok (b', o + nbytes * 8))
              | None => Ok (b, off + nbytes * 8)
              end)
        end
    | _ => Sr t v buf base cap off
    end.

  Fixpoint cw_body (t : ty) (v : val) (buf : list bool) (base cap off : nat) : cres :=
    match t with
    | TPrim p => cw_prim p v buf base cap off
    | TFix e n =>
        match v with
        | VArr l => if length l =? n then cw_list (fun x b o => cw_field cw_body e x b base cap o) l buf off else Err EShape
        | _ => Err EShape
        end
    | TVar e c =>
        match v with
        | VArr l =>
            if c <? length l then Err EBadLen
            else bind (cw_set buf base cap off (bits_of_N (prefix_bits c) (N.of_nat (length l)))) (fun '(b, o) =>
                   cw_list (fun x b o => cw_field cw_body e x b base cap o) l b o)
        | _ => Err EShape
        end
    | TComp false fs _ =>
        match v with
        | VStruct vs => bind (cw_fields (cw_field cw_body) true fs vs buf base cap off) (fun '(b, o) => cw_pad b base cap o 8)
        | _ => Err EShape
        end
    | TComp true fs _ =>
        match v with
        | VUnion k x =>
            bind (cw_set buf base cap off (bits_of_N (tag_bits (length fs)) (N.of_nat k))) (fun '(b, o) =>
              bind (cw_sel (cw_field cw_body) fs k x b base cap o) (fun '(b', o') => cw_pad b' base cap o' 8))
        | _ => Err EShape
        end
    end.

  (* serialize(obj, bitspan{buffer, cap_bytes}) on a buffer of cap_bytes bytes: Ok = the first `result` bytes *)
  Definition cpp_walk_ser (t : ty) (v : val) (buf : list bool) (cap_bytes : nat) : res (list bool) :=
    bind (cw_routine cw_body t v buf 0 (8 * cap_bytes) 0) (fun '(b, n) => Ok (firstn (8 * n) b)).

  (* ================= deserialization ================= state: memory (never changed), span (base, cap), cursor *)
  Definition cd_prim (p : prim) (buf : list bool) (base cap off : nat) : val :=
    let w := prim_bits p in
    match p with
    | PBool => VBool (N.eqb (N_of_bits (c_get Q buf base cap off 1)) 1)                      (* getBit(): getU8(1) == 1 *)
    | PU _ _ => VInt (Z.of_N (N_of_bits (c_get Q buf base cap off w)))
    | PS _ _ => VInt (signed_of w (N_of_bits (c_get Q buf base cap off w)))
    | PF _ _ => VFlt (if w =? 16 then f16_unpack (N_of_bits (c_get Q buf base cap off w)) else N_of_bits (c_get Q buf base cap off w))
    | PVoid _ => VVoid
    end.

  Section DesList.
    Variable De : nat -> rres val.
    Fixpoint cd_list (n : nat) (off : nat) : rres (list val) :=
      match n with
      | O => Ok ([], off)
      | S n' => bind (De off) (fun '(v, o) => bind (cd_list n' o) (fun '(vs, o') => Ok (v :: vs, o')))
      end.
  End DesList.

  Section DesComb.
    Variable D : ty -> list bool -> nat -> nat -> nat -> rres val.
    Fixpoint cd_fields (first : bool) (fs : list ty) (buf : list bool) (base cap off : nat) : rres (list val) :=
      match fs with
      | [] => Ok ([], off)
      | f :: fs' =>
          let o := if first then off else if align f <=? 1 then off else off + padn off (align f) in   (* align_offset_to<n> *)
          bind (D f buf base cap o) (fun '(v, o') =>
            bind (cd_fields false fs' buf base cap o') (fun '(vs, o'') => Ok (v :: vs, o'')))
      end.
    Fixpoint cd_sel (fs : list ty) (k : nat) (buf : list bool) (base cap off : nat) : rres val :=
      match fs, k with
      | [], _ => Err EBadTag
      | f :: _, O => D f buf base cap off
      | _ :: r, S k' => cd_sel r k' buf base cap off
      end.
  End DesComb.

  (* the body of `deserialize(obj, in_buffer)`: D 25 in front, D 58-62 behind; result = bytes *)
  Definition cd_routine (D : ty -> list bool -> nat -> nat -> nat -> rres val)
      (t : ty) (buf : list bool) (base cap off : nat) : rres val :=
    let capacity_bits := cap - off in
    bind (D t buf base cap off) (fun '(v, o) => Ok (v, Nat.min o capacity_bits / 8)).

  (* _deserialize_any on a field / element: composites go through _deserialize_composite (D 221-261) *)
  Definition cd_field (D : ty -> list bool -> nat -> nat -> nat -> rres val)
      (t : ty) (buf : list bool) (base cap off : nat) : rres val :=
    match t with
    | TComp _ _ (Some _) =>
        let hN := N_of_bits (c_get Q buf base cap off header_bits) in                 (* getU32(32) *)
        let o := off + header_bits in
        if (N.of_nat (cap - o) <? hN * 8)%N then Err EBadHdr                          (* size_bytes * 8U > in_buffer.size() *)
        else let dh := N.to_nat hN in
             let '(base', cap', off') := cd_subspan_bytes base cap o dh in
             bind (cd_routine D t buf base' cap' off') (fun '(v, _) => Ok (v, o + dh * 8))
    | TComp _ _ None =>
        let '(base', cap', off') := cd_subspan base cap off in
        bind (cd_routine D t buf base' cap' off') (fun '(v, nbytes) => Ok (v, off + nbytes * 8))
    | _ => D t buf base cap off
    end.

  Fixpoint cd_body (t : ty) (buf : list bool) (base cap off : nat) : rres val :=
    match t with
    | TPrim p => Ok (cd_prim p buf base cap off, off + prim_bits p)
    | TFix e n => bind (cd_list (fun o => cd_field cd_body e buf base cap o) n off) (fun '(vs, o) => Ok (VArr vs, o))
    | TVar e c =>
        let pw := prefix_bits c in
        let nN := N_of_bits (c_get Q buf base cap off pw) in
        if (N.of_nat c <? nN)%N then Err EBadLen
        else bind (cd_list (fun o => cd_field cd_body e buf base cap o) (N.to_nat nN) (off + pw)) (fun '(vs, o) => Ok (VArr vs, o))
    | TComp false fs _ =>
        bind (cd_fields (cd_field cd_body) true fs buf base cap off) (fun '(vs, o) => Ok (VStruct vs, o + pad8 o))
    | TComp true fs _ =>
        let tw := tag_bits (length fs) in
        let kN := N_of_bits (c_get Q buf base cap off tw) in
        if (N.of_nat (length fs) <=? kN)%N then Err EBadTag
        else bind (cd_sel (cd_field cd_body) fs (N.to_nat kN) buf base cap (off + tw)) (fun '(v, o) =>
               Ok (VUnion (N.to_nat kN) v, o + pad8 o))
    end.

  (* deserialize(obj, const_bitspan{bytes}) *)
  Definition cpp_walk_des (t : ty) (buf : list bool) : res (val * nat) :=
    cd_routine cd_body t buf 0 (length buf) 0.
End CppWalk.
