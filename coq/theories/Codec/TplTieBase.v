(* Data types for the source tie of the codec template bodies (tools/translators/gen_codec_tpl.py). *)
From Coq Require Import List String Bool.
Import ListNotations.

(* Jinja-level (static) conditions: and/or/not over atomic tests kept verbatim *)
Inductive cexp : Type :=
| CAtom (s : string)
| CNot (c : cexp)
| CAnd (a b : cexp)
| COr (a b : cexp).

(* classification of one emitted target-language statement *)
Inductive akind : Type :=
| KGuard | KElse | KLoop | KReturn | KCursor | KStore | KCall | KDecl | KOpen | KClose | KPre | KSAssert | KRAssert | KMacro
| KRaw       (* declaration templates: one emitted line verbatim, not classified *)
| KExpr.     (* an expression fragment: the body of a macro / block set that yields a value *)

Inductive tnode : Type :=
| NIf (branches : list (cexp * list tnode)) (els : list tnode)
| NFor (hdr : string) (body : list tnode)
| NSet (name expr : string)
| NJAssert (c : cexp)
| NAct (k : akind) (payload : string).

(* evaluation of the static decisions under an assignment of the atoms: the statements one instantiation emits *)
Fixpoint ceval (rho : string -> bool) (c : cexp) : bool :=
  match c with
  | CAtom s => rho s
  | CNot a => negb (ceval rho a)
  | CAnd a b => ceval rho a && ceval rho b
  | COr a b => ceval rho a || ceval rho b
  end.

Fixpoint flatten (rho : string -> bool) (n : tnode) : list (akind * string) :=
  match n with
  | NAct k p => [(k, p)]
  | NSet _ _ | NJAssert _ => []
  | NFor _ body => (fix go (l : list tnode) := match l with [] => [] | x :: r => flatten rho x ++ go r end) body
  | NIf brs els =>
      (fix pick (l : list (cexp * list tnode)) : list (akind * string) :=
         match l with
         | [] => (fix go (l : list tnode) := match l with [] => [] | x :: r => flatten rho x ++ go r end) els
         | (c, body) :: r =>
             if ceval rho c
             then (fix go (l : list tnode) := match l with [] => [] | x :: r => flatten rho x ++ go r end) body
             else pick r
         end) brs
  end.

Definition flatten_all (rho : string -> bool) (l : list tnode) : list (akind * string) :=
  flat_map (flatten rho) l.

Fixpoint find_macro (name : string) (ms : list (string * string * list tnode)) : list tnode :=
  match ms with
  | [] => []
  | (n, _, b) :: r => if String.eqb n name then b else find_macro name r
  end.

(* ---- "every otherwise unchecked store is preceded by a guard" (enable_override_variable_array_capacity = true) ----
   Static scan of a macro tree: `seen` = a call of the guard macro has been emitted on every path reaching this point.  Branches
   whose condition is exactly the option atom are taken; any other static decision may go either way, so a guard only counts
   after an NIf when every branch (and the else) emitted one; a loop body may run zero times. *)
Section Guarded.
  Variable is_guard : akind -> string -> bool.        (* a call of the guard macro *)
  Variable is_unchecked : akind -> string -> bool.    (* a store that no support primitive bounds-checks *)
  Variable opt_atom : string.

  Fixpoint guarded_node (n : tnode) (seen : bool) : option bool :=
    match n with
    | NAct k p => if is_guard k p then Some true else if is_unchecked k p then (if seen then Some seen else None) else Some seen
    | NSet _ _ | NJAssert _ => Some seen
    | NFor _ body =>
        match (fix go (l : list tnode) (s : bool) : option bool :=
                 match l with [] => Some s | x :: r => match guarded_node x s with Some s' => go r s' | None => None end end) body seen with
        | Some _ => Some seen
        | None => None
        end
    | NIf brs els =>
        let run := fix go (l : list tnode) (s : bool) : option bool :=
                     match l with [] => Some s | x :: r => match guarded_node x s with Some s' => go r s' | None => None end end in
        match brs with
        | [(CAtom a, body)] => if String.eqb a opt_atom then run body seen else
            match run body seen, run els seen with Some a1, Some a2 => Some (a1 && a2) | _, _ => None end
        | _ =>
            (fix all (l : list (cexp * list tnode)) (acc : bool) : option bool :=
               match l with
               | [] => match run els seen with Some a2 => Some (acc && a2) | None => None end
               | (_, body) :: r => match run body seen with Some a1 => all r (acc && a1) | None => None end
               end) brs true
        end
    end.

  Definition guarded_macro (body : list tnode) : bool :=
    match (fix go (l : list tnode) (s : bool) : option bool :=
             match l with [] => Some s | x :: r => match guarded_node x s with Some s' => go r s' | None => None end end) body false with
    | Some _ => true
    | None => false
    end.
End Guarded.
