(* Data types for the source tie of the codec template bodies (tools/translators/gen_codec_tpl.py). *)
From Coq Require Import List String Bool.
Import ListNotations.

(* Jinja-level (static) conditions: and/or/not over atomic tests kept verbatim *)
Inductive cexp : Type :=
| CAtom (s : string)
| CNot (c : cexp)
| CAnd (a b : cexp)
| COr (a b : cexp).

(* classification of one emitted target-language statement *)
Inductive akind : Type :=
| KGuard | KElse | KLoop | KReturn | KCursor | KStore | KCall | KDecl | KOpen | KClose | KPre | KSAssert | KRAssert | KMacro.

Inductive tnode : Type :=
| NIf (branches : list (cexp * list tnode)) (els : list tnode)
| NFor (hdr : string) (body : list tnode)
| NSet (name expr : string)
| NJAssert (c : cexp)
| NAct (k : akind) (payload : string).

(* evaluation of the static decisions under an assignment of the atoms: the statements one instantiation emits *)
Fixpoint ceval (rho : string -> bool) (c : cexp) : bool :=
  match c with
  | CAtom s => rho s
  | CNot a => negb (ceval rho a)
  | CAnd a b => ceval rho a && ceval rho b
  | COr a b => ceval rho a || ceval rho b
  end.

Fixpoint flatten (rho : string -> bool) (n : tnode) : list (akind * string) :=
  match n with
  | NAct k p => [(k, p)]
  | NSet _ _ | NJAssert _ => []
  | NFor _ body => (fix go (l : list tnode) := match l with [] => [] | x :: r => flatten rho x ++ go r end) body
  | NIf brs els =>
      (fix pick (l : list (cexp * list tnode)) : list (akind * string) :=
         match l with
         | [] => (fix go (l : list tnode) := match l with [] => [] | x :: r => flatten rho x ++ go r end) els
         | (c, body) :: r =>
             if ceval rho c
             then (fix go (l : list tnode) := match l with [] => [] | x :: r => flatten rho x ++ go r end) body
             else pick r
         end) brs
  end.

Definition flatten_all (rho : string -> bool) (l : list tnode) : list (akind * string) :=
  flat_map (flatten rho) l.

Fixpoint find_macro (name : string) (ms : list (string * string * list tnode)) : list tnode :=
  match ms with
  | [] => []
  | (n, _, b) :: r => if String.eqb n name then b else find_macro name r
  end.
