(* Translator tie for C01: facts about the GENERATED Gallina images (Generated/Gen_C01.v, rewritten from /repo's source on
   every run by tools/translators/gen_c01.py) of the small Python helpers the serialization templates call, connecting them
   to the arithmetic the code-shaped walker (Codec/Walker.v) and the layout metadata (Spec/Meta.v) assume:

     filter_bits2bytes_ceil            ceil(n/8); equals the walker's `o / 8` on byte-aligned cursors, inverse of `8 * cap_bytes`
     _CFit / _CFit.get_best_fit        least of 8/16/32/64 that holds the width
     filter_to_standard_bit_length     = Walker.std_width ; fixed points = Walker.is_std
     is_zero_cost_primitive            exact characterisation; with pydsdl's standard_bit_length = little && Walker.is_std
     filter_alignment_prefix           "aligned" iff is_aligned_at_byte()

   An edit of those functions in /repo changes Gen_C01.v and re-runs (breaks) these proofs. *)
From Coq Require Import ZArith String Bool List Lia ZifyBool.
From Verif Require Import Gen_C01 Wire Walker Meta.
Import ListNotations.
Local Open Scope Z_scope.

(* ------------------------------------------------------------------------------------------------------------------ *)
(* hand-written vocabulary (specification side)                                                                       *)
(* ------------------------------------------------------------------------------------------------------------------ *)

(* pydsdl 1.25 PrimitiveType.__init__:  _standard_bit_length = bit_length >= 8 and 2 ** round(log2(bit_length)) == bit_length,
   with 1 <= bit_length <= MAX_BIT_LENGTH = 64, i.e. bit_length in {8, 16, 32, 64} *)
Definition pydsdl_standard_bit_length (bit_length : Z) : bool :=
  (bit_length =? 8) || (bit_length =? 16) || (bit_length =? 32) || (bit_length =? 64).

(* the abstract view (Gen_C01.PrimDesc) that pydsdl gives of a primitive of the specification (Spec/Dsdl.v) *)
Definition desc_of_prim (p : prim) : PrimDesc :=
  match p with
  | PBool => {| pd_kind := KBoolean; pd_bit_length := 1; pd_standard_bit_length := pydsdl_standard_bit_length 1 |}
  | PU w _ | PS w _ =>
      {| pd_kind := KInteger; pd_bit_length := Z.of_nat w; pd_standard_bit_length := pydsdl_standard_bit_length (Z.of_nat w) |}
  | PF w _ =>
      {| pd_kind := KFloat; pd_bit_length := Z.of_nat w; pd_standard_bit_length := pydsdl_standard_bit_length (Z.of_nat w) |}
  | PVoid w =>
      {| pd_kind := KOther; pd_bit_length := Z.of_nat w; pd_standard_bit_length := pydsdl_standard_bit_length (Z.of_nat w) |}
  end.

(* value of the member chosen by _CFit.get_best_fit *)
Definition best_fit_value (w : Z) : option Z := option_map CFit_value (CFit_get_best_fit w).

Definition std_lengths : list Z := [8; 16; 32; 64].

(* reference form of is_zero_cost_primitive *)
Definition zero_cost_ref (endianness : string) (t : PrimDesc) : option bool :=
  if String.eqb endianness "little" then
    match pd_kind t with
    | KInteger => Some (pd_standard_bit_length t)
    | KFloat => Some ((pd_bit_length t =? 32) || (pd_bit_length t =? 64))
    | KBoolean => Some false
    | KOther => None
    end
  else Some false.

(* ------------------------------------------------------------------------------------------------------------------ *)
(* filter_bits2bytes_ceil                                                                                             *)
(* ------------------------------------------------------------------------------------------------------------------ *)

Theorem bits2bytes_ceil_spec : forall n,
  (0 <= n -> exists c, filter_bits2bytes_ceil n = Some c /\ n <= 8 * c /\ 8 * (c - 1) < n) /\
  (n < 0 -> filter_bits2bytes_ceil n = None).
Proof.
  intros n. unfold filter_bits2bytes_ceil.
  destruct (Z.ltb_spec n 0) as [Hn | Hn]; split; intros H; try lia; try reflexivity.
  exists ((n + 7) / 8). split; [reflexivity |].
  pose proof (Z.div_mod (n + 7) 8 ltac:(lia)) as E.
  pose proof (Z.mod_pos_bound (n + 7) 8 ltac:(lia)) as B.
  lia.
Qed.

(* the two inequalities determine the result: it IS ceil(n/8) *)
Lemma bits2bytes_ceil_unique : forall n c c',
  n <= 8 * c -> 8 * (c - 1) < n -> n <= 8 * c' -> 8 * (c' - 1) < n -> c = c'.
Proof. intros. lia. Qed.

Lemma bits2bytes_ceil_defined_iff : forall n, filter_bits2bytes_ceil n = None <-> n < 0.
Proof.
  intros n. unfold filter_bits2bytes_ceil.
  destruct (Z.ltb_spec n 0); split; intros H'; try reflexivity; try lia; discriminate.
Qed.

(* the nat arithmetic of the specification / walker *)
Lemma bits2bytes_ceil_nat : forall n : nat,
  filter_bits2bytes_ceil (Z.of_nat n) = Some (Z.of_nat ((n + 7) / 8)).
Proof.
  intros n. unfold filter_bits2bytes_ceil.
  destruct (Z.ltb_spec (Z.of_nat n) 0); [lia |].
  f_equal. rewrite Nat2Z.inj_div, Nat2Z.inj_add. reflexivity.
Qed.

Lemma nat_ceil_aligned : forall n : nat, (n mod 8 = 0 -> (n + 7) / 8 = n / 8)%nat.
Proof.
  intros n H.
  pose proof (Nat.div_mod n 8 ltac:(lia)) as E. rewrite H in E.
  symmetry. apply (Nat.div_unique (n + 7) 8 (n / 8) 7); lia.
Qed.

(* on a byte-aligned cursor the filter is the walker's `o / 8` *)
Lemma bits2bytes_ceil_nat_aligned : forall n : nat,
  (n mod 8 = 0)%nat -> filter_bits2bytes_ceil (Z.of_nat n) = Some (Z.of_nat (n / 8)).
Proof. intros n H. rewrite bits2bytes_ceil_nat, nat_ceil_aligned by exact H. reflexivity. Qed.

(* and the inverse of the walker's capacity `8 * cap_bytes` *)
Lemma bits2bytes_ceil_capacity : forall c : nat,
  filter_bits2bytes_ceil (Z.of_nat (8 * c)) = Some (Z.of_nat c).
Proof.
  intros c. rewrite bits2bytes_ceil_nat_aligned.
  - rewrite Nat.mul_comm, Nat.div_mul by lia. reflexivity.
  - rewrite Nat.mul_comm. apply Nat.mod_mul. lia.
Qed.

(* for any cursor: the byte count covers the bits and wastes less than a byte (Meta.pad8 is what is wasted) *)
Lemma bits2bytes_ceil_pad8 : forall n : nat,
  filter_bits2bytes_ceil (Z.of_nat n) = Some (Z.of_nat ((n + pad8 n) / 8)).
Proof.
  intros n. rewrite bits2bytes_ceil_nat. do 2 f_equal. unfold pad8.
  pose proof (Nat.div_mod n 8 ltac:(lia)) as E.
  pose proof (Nat.mod_upper_bound n 8 ltac:(lia)) as B.
  destruct (Nat.eq_dec (n mod 8) 0) as [Z0 | NZ].
  - rewrite Z0. cbn [Nat.sub]. rewrite Nat.mod_same by lia. rewrite Nat.add_0_r. apply nat_ceil_aligned. exact Z0.
  - rewrite (Nat.mod_small (8 - n mod 8) 8) by lia.
    rewrite <- (Nat.div_unique (n + 7) 8 (n / 8 + 1) (n mod 8 - 1)) by lia.
    rewrite <- (Nat.div_unique (n + (8 - n mod 8)) 8 (n / 8 + 1) 0) by lia.
    reflexivity.
Qed.

(* ------------------------------------------------------------------------------------------------------------------ *)
(* _CFit.get_best_fit                                                                                                 *)
(* ------------------------------------------------------------------------------------------------------------------ *)

Lemma CFit_values_are_std_lengths : map CFit_value CFit_members = std_lengths.
Proof. reflexivity. Qed.

Lemma CFit_members_complete : forall m, In m CFit_members.
Proof. intros m. destruct m; cbn; tauto. Qed.

(* NB the code accepts every bit_length <= 8 (also 0 and negative ones) as an 8-bit fit; only > 64 raises *)
Theorem get_best_fit_spec : forall w,
  (w <= 64 -> exists s, best_fit_value w = Some s /\ In s std_lengths /\ w <= s /\
                        forall s', In s' std_lengths -> w <= s' -> s <= s') /\
  (64 < w -> best_fit_value w = None).
Proof.
  intros w. unfold best_fit_value, CFit_get_best_fit, std_lengths.
  destruct (Z.leb_spec w 8); [| destruct (Z.leb_spec w 16); [| destruct (Z.leb_spec w 32); [| destruct (Z.leb_spec w 64)]]];
    cbn [option_map CFit_value]; (split; intros H'; [| try lia; try reflexivity]); try lia;
    (eexists; split; [reflexivity |]; split; [cbn [In]; tauto |]; split; [lia |];
     intros s' [<- | [<- | [<- | [<- | []]]]] Hs; lia).
Qed.

Lemma get_best_fit_defined_iff : forall w, CFit_get_best_fit w = None <-> 64 < w.
Proof.
  intros w. unfold CFit_get_best_fit.
  destruct (Z.leb_spec w 8); [| destruct (Z.leb_spec w 16); [| destruct (Z.leb_spec w 32); [| destruct (Z.leb_spec w 64)]]];
    split; intros H'; try reflexivity; try lia; discriminate.
Qed.

(* ------------------------------------------------------------------------------------------------------------------ *)
(* filter_to_standard_bit_length vs. Walker.std_width / Walker.is_std                                                 *)
(* ------------------------------------------------------------------------------------------------------------------ *)

Lemma to_standard_bit_length_is_best_fit : forall w, filter_to_standard_bit_length w = best_fit_value w.
Proof. intros w. unfold filter_to_standard_bit_length, best_fit_value. destruct (CFit_get_best_fit w); reflexivity. Qed.

Theorem to_standard_bit_length_is_std_width : forall w : nat,
  (w <= 64)%nat -> filter_to_standard_bit_length (Z.of_nat w) = Some (Z.of_nat (std_width w)).
Proof.
  intros w Hw. unfold filter_to_standard_bit_length, CFit_get_best_fit, std_width.
  destruct (Z.leb_spec (Z.of_nat w) 8), (Nat.leb_spec w 8); try lia; [reflexivity |].
  destruct (Z.leb_spec (Z.of_nat w) 16), (Nat.leb_spec w 16); try lia; [reflexivity |].
  destruct (Z.leb_spec (Z.of_nat w) 32), (Nat.leb_spec w 32); try lia; [reflexivity |].
  destruct (Z.leb_spec (Z.of_nat w) 64); try lia. reflexivity.
Qed.

Lemma to_standard_bit_length_above_64 : forall w : nat,
  (64 < w)%nat -> filter_to_standard_bit_length (Z.of_nat w) = None.
Proof.
  intros w Hw. rewrite to_standard_bit_length_is_best_fit.
  apply (proj2 (get_best_fit_spec (Z.of_nat w))). lia.
Qed.

Lemma is_std_fixes_std_width : forall w : nat, is_std w = (std_width w =? w)%nat.
Proof.
  intros w. unfold is_std, std_width.
  destruct (Nat.leb_spec w 8); [| destruct (Nat.leb_spec w 16); [| destruct (Nat.leb_spec w 32)]];
    destruct (Nat.eqb_spec w 8), (Nat.eqb_spec w 16), (Nat.eqb_spec w 32), (Nat.eqb_spec w 64); try lia;
    cbn [orb]; symmetry;
    first [ apply Nat.eqb_eq; lia | apply Nat.eqb_neq; lia ].
Qed.

(* the boolean the walker branches on is literally determined by the translated filter (no width bound needed) *)
Definition translated_is_std (w : nat) : bool :=
  match filter_to_standard_bit_length (Z.of_nat w) with
  | Some s => s =? Z.of_nat w
  | None => false
  end.

Theorem is_std_eq_translated : forall w : nat, is_std w = translated_is_std w.
Proof.
  intros w. unfold translated_is_std.
  destruct (Nat.leb_spec w 64) as [Hw | Hw].
  - rewrite to_standard_bit_length_is_std_width by exact Hw.
    rewrite is_std_fixes_std_width.
    destruct (Nat.eqb_spec (std_width w) w), (Z.eqb_spec (Z.of_nat (std_width w)) (Z.of_nat w)); try reflexivity; lia.
  - rewrite to_standard_bit_length_above_64 by exact Hw.
    unfold is_std.
    destruct (Nat.eqb_spec w 8), (Nat.eqb_spec w 16), (Nat.eqb_spec w 32), (Nat.eqb_spec w 64); first [reflexivity | lia].
Qed.

Theorem is_std_iff_fixed_point : forall w : nat,
  is_std w = true <-> filter_to_standard_bit_length (Z.of_nat w) = Some (Z.of_nat w).
Proof.
  intros w. rewrite is_std_eq_translated. unfold translated_is_std.
  destruct (filter_to_standard_bit_length (Z.of_nat w)) as [s |].
  - destruct (Z.eqb_spec s (Z.of_nat w)); split; intros H'; try reflexivity; try discriminate; try congruence.
  - split; discriminate.
Qed.

(* Walker.storage_bits emits saturation code iff `sat && negb (is_std w)` *)
Theorem saturation_code_iff_not_std : forall (sat : bool) (w : nat),
  sat && negb (is_std w) = sat && negb (translated_is_std w).
Proof. intros. rewrite is_std_eq_translated. reflexivity. Qed.

(* the same facts for the widths DSDL admits, re-checked by plain evaluation of the generated code over 1..64 *)
Lemma std_width_table_1_64 :
  forallb (fun w => match filter_to_standard_bit_length (Z.of_nat w) with
                    | Some s => (s =? Z.of_nat (std_width w)) && Bool.eqb (is_std w) (s =? Z.of_nat w)
                    | None => false
                    end) (seq 1 64) = true.
Proof. vm_compute. reflexivity. Qed.

(* ------------------------------------------------------------------------------------------------------------------ *)
(* is_zero_cost_primitive                                                                                             *)
(* ------------------------------------------------------------------------------------------------------------------ *)

Theorem zero_cost_exact : forall e t, is_zero_cost_primitive e t = zero_cost_ref e t.
Proof.
  intros e t. unfold is_zero_cost_primitive, zero_cost_ref.
  destruct (String.eqb e "little"); cbn [negb]; [| reflexivity].
  destruct (pd_kind t); reflexivity.
Qed.

Theorem zero_cost_spec : forall e t,
  is_zero_cost_primitive e t = Some true <->
  e = "little"%string /\
  ((pd_kind t = KInteger /\ pd_standard_bit_length t = true) \/
   (pd_kind t = KFloat /\ (pd_bit_length t = 32 \/ pd_bit_length t = 64))).
Proof.
  intros e t. rewrite zero_cost_exact. unfold zero_cost_ref.
  destruct (String.eqb_spec e "little") as [-> | Hne].
  - destruct (pd_kind t) eqn:K.
    + split.
      * intros H. injection H as H. split; [reflexivity |]. left. split; [reflexivity | exact H].
      * intros [_ [[_ H] | [H _]]]; [rewrite H; reflexivity | discriminate].
    + split.
      * intros H. injection H as H. split; [reflexivity |]. right. split; [reflexivity | lia].
      * intros [_ [[H _] | [_ H]]]; [discriminate |]. f_equal. lia.
    + split; [discriminate |]. intros [_ [[H _] | [H _]]]; discriminate.
    + split; [discriminate |]. intros [_ [[H _] | [H _]]]; discriminate.
  - split; [discriminate |]. intros [H _]. contradiction.
Qed.

Lemma zero_cost_not_little : forall e t, e <> "little"%string -> is_zero_cost_primitive e t = Some false.
Proof.
  intros e t H. rewrite zero_cost_exact. unfold zero_cost_ref.
  destruct (String.eqb_spec e "little"); [contradiction | reflexivity].
Qed.

Lemma zero_cost_boolean : forall e t, pd_kind t = KBoolean -> is_zero_cost_primitive e t = Some false.
Proof.
  intros e t H. rewrite zero_cost_exact. unfold zero_cost_ref. rewrite H.
  destruct (String.eqb e "little"); reflexivity.
Qed.

Lemma zero_cost_raises_iff : forall e t,
  is_zero_cost_primitive e t = None <-> e = "little"%string /\ pd_kind t = KOther.
Proof.
  intros e t. rewrite zero_cost_exact. unfold zero_cost_ref.
  destruct (String.eqb_spec e "little") as [-> | Hne].
  - destruct (pd_kind t); split; intros H; try discriminate; try tauto; destruct H; discriminate.
  - split; [discriminate | tauto].
Qed.

(* pydsdl's standard_bit_length is the walker's is_std *)
Lemma pydsdl_standard_bit_length_is_std : forall w : nat, pydsdl_standard_bit_length (Z.of_nat w) = is_std w.
Proof.
  intros w. unfold pydsdl_standard_bit_length, is_std.
  destruct (Nat.eqb_spec w 8), (Nat.eqb_spec w 16), (Nat.eqb_spec w 32), (Nat.eqb_spec w 64);
    destruct (Z.eqb_spec (Z.of_nat w) 8), (Z.eqb_spec (Z.of_nat w) 16), (Z.eqb_spec (Z.of_nat w) 32),
             (Z.eqb_spec (Z.of_nat w) 64); try lia; reflexivity.
Qed.

(* integers: zero cost = little && is_std w, i.e. exactly the widths for which the walker emits no saturation code and
   whose storage pattern is the wire pattern *)
Theorem zero_cost_integer_walker : forall e w sat,
  is_zero_cost_primitive e (desc_of_prim (PU w sat)) = Some (String.eqb e "little" && is_std w) /\
  is_zero_cost_primitive e (desc_of_prim (PS w sat)) = Some (String.eqb e "little" && is_std w).
Proof.
  intros e w sat. rewrite !zero_cost_exact. unfold zero_cost_ref, desc_of_prim.
  cbn [pd_kind pd_standard_bit_length]. rewrite pydsdl_standard_bit_length_is_std.
  destruct (String.eqb e "little"); split; reflexivity.
Qed.

Theorem zero_cost_float_walker : forall e w sat,
  is_zero_cost_primitive e (desc_of_prim (PF w sat)) = Some (String.eqb e "little" && ((w =? 32) || (w =? 64))%nat).
Proof.
  intros e w sat. rewrite zero_cost_exact. unfold zero_cost_ref, desc_of_prim. cbn [pd_kind pd_bit_length].
  destruct (String.eqb e "little"); [| reflexivity]. cbn [andb]. f_equal.
  destruct (Nat.eqb_spec w 32), (Nat.eqb_spec w 64), (Z.eqb_spec (Z.of_nat w) 32), (Z.eqb_spec (Z.of_nat w) 64);
    try lia; reflexivity.
Qed.

Theorem zero_cost_bool_walker : forall e, is_zero_cost_primitive e (desc_of_prim PBool) = Some false.
Proof. intros e. apply zero_cost_boolean. reflexivity. Qed.

(* ------------------------------------------------------------------------------------------------------------------ *)
(* filter_alignment_prefix                                                                                            *)
(* ------------------------------------------------------------------------------------------------------------------ *)

Theorem alignment_prefix_spec : forall b,
  filter_alignment_prefix b = Some (if b then "aligned" else "unaligned")%string /\
  (filter_alignment_prefix b = Some "aligned"%string <-> b = true).
Proof. intros b. destruct b; cbn; split; try reflexivity; split; intros H; try reflexivity; discriminate. Qed.

(* non-vacuity / documentation examples straight from the docstrings *)
Example bits2bytes_examples :
  map filter_bits2bytes_ceil [50; 8; 7; 1; 0; -1] = [Some 7; Some 1; Some 1; Some 1; Some 0; None].
Proof. vm_compute. reflexivity. Qed.

Example zero_cost_examples :
  map (is_zero_cost_primitive "little") (map desc_of_prim [PS 7 true; PU 32 false; PF 16 false; PF 32 true; PBool; PVoid 3])
  = [Some false; Some true; Some false; Some true; Some false; None] /\
  map (is_zero_cost_primitive "big") (map desc_of_prim [PS 7 true; PU 32 false; PF 16 false; PF 32 true; PBool; PVoid 3])
  = [Some false; Some false; Some false; Some false; Some false; Some false].
Proof. vm_compute. split; reflexivity. Qed.


(* ------------------------------------------------------------------------------------------------------------------ *)
(* the walker's decisions, re-expressed through the translated functions                                              *)
(* ------------------------------------------------------------------------------------------------------------------ *)

(* what Walker.storage_bits hands to the store primitive for an integer field: the storage width is the translated
   filter_to_standard_bit_length, and the saturation clamp is applied iff the field is saturated and the translated standard
   length differs from the width (the `{% if t is saturated and not t.standard_bit_length %}` style decision) *)
(* the literal the code compares target_endianness with (so that files that do not import String can state the results) *)
Definition endian_little : string := "little"%string.

Theorem walker_storage_decision_unsigned : forall (w : nat) (sat : bool) (z : Z), (w <= 64)%nat ->
  filter_to_standard_bit_length (Z.of_nat w) = Some (Z.of_nat (std_width w)) /\
  storage_bits (PU w sat) (VInt z) =
    Some (bits_of_N (std_width w)
            (Z.to_N ((if sat && negb (translated_is_std w) then clampZ 0 (pow2 w - 1) z else z) mod pow2 (std_width w)))).
Proof.
  intros w sat z Hw. split; [apply to_standard_bit_length_is_std_width; exact Hw|].
  cbn [storage_bits]. rewrite <- is_std_eq_translated. reflexivity.
Qed.

Theorem walker_storage_decision_signed : forall (w : nat) (sat : bool) (z : Z), (w <= 64)%nat ->
  filter_to_standard_bit_length (Z.of_nat w) = Some (Z.of_nat (std_width w)) /\
  storage_bits (PS w sat) (VInt z) =
    Some (bits_of_N (std_width w)
            (Z.to_N ((if sat && negb (translated_is_std w) then clampZ (- pow2 (w - 1)) (pow2 (w - 1) - 1) z else z)
                     mod pow2 (std_width w)))).
Proof.
  intros w sat z Hw. split; [apply to_standard_bit_length_is_std_width; exact Hw|].
  cbn [storage_bits]. rewrite <- is_std_eq_translated. reflexivity.
Qed.

(* the "zero cost" (bulk memmove) treatment the templates give an integer field is sound for the walker exactly when the code
   says so: zero cost => no saturation code is emitted and the storage object is as wide as the field *)
Theorem zero_cost_means_plain_copy : forall e w sat,
  is_zero_cost_primitive e (desc_of_prim (PU w sat)) = Some true ->
  e = "little"%string /\ std_width w = w /\ sat && negb (is_std w) = false.
Proof.
  intros e w sat H. destruct (zero_cost_integer_walker e w sat) as [Hu _]. rewrite Hu in H.
  injection H as H. apply andb_prop in H. destruct H as [He Hs]. split; [apply String.eqb_eq; exact He|].
  split; [|rewrite Hs; destruct sat; reflexivity].
  rewrite is_std_fixes_std_width in Hs. apply Nat.eqb_eq. exact Hs.
Qed.
(* Print Assumptions for the statements used by the property is done in Properties/C01.v *)
