(* A model of what the generated PYTHON deserialization code does, shaped after lang/py/templates/deserialization.j2 (line numbers
   below refer to that file) and the Deserializer of lang/py/support/nunavut_support.j2 - NOT after the C templates
   (Codec/Walker.v), from which it differs as follows:

     - ONE Deserializer = (buffer `bs`, cursor `off`) is threaded through everything.  A nested SEALED composite is deserialized by
       calling the nested class's `_deserialize_(_des_)` on the SAME Deserializer (l.135): nothing is clamped, the cursor simply
       continues, also beyond the end of the buffer (ZeroExtendingBuffer).  The walker's cursor therefore EQUALS the
       specification's cursor at every node; the `near` relation of Codec/RefineDesBase.v (C: clamped `size_bytes`) is not needed.
     - a nested DELIMITED composite (l.124-133): `_dh_ = fetch_aligned_u32()`; `_dh_ * 8 > max(remaining_bit_length, 0)` ->
       FormatError; `_nested_ = fork_bytes(_dh_)` (a NEW Deserializer over exactly _dh_ bytes, cursor 0); the parent
       `skip_bits(_dh_ * 8)`; the nested class's `_deserialize_(_nested_)`; whatever cursor the fork ends with is dropped.
     - every fetch goes through a Deserializer method; which one is decided STATICALLY by the template:

   template construct                                              -> model
   ---------------------------------------------------------------------------------------------------------------------------
   macro deserialize (l.7-51)                                      -> pdw_body (TComp ..):
     l.8   assert consumed_bit_length % 8 == 0                        `off mod 8 =? 0` else EAssert
     l.9   _base_offset_                                              the `off` the body was entered with
     l.11-32 structure: _deserialize_any per field (padding too)      pdw_fields (static offsets: path index i)
     l.33-44 union: tag by _deserialize_integer(tag, offset {0})      pd_uxx (tag width is standard, offset {0} is aligned: always
            if/elif tag == i .. else FormatError                      fetch_aligned_u<N>), pdw_sel, EBadTag
     l.47  pad_to_alignment(8)                                        pd_pad .. 8
     l.49  assert bit_length_set.min <= consumed - _base_offset_      `bmin t <=? o - off` else EAssert
   macro _deserialize_integer (l.54-61)                            -> pdw_uint / pdw_sint: standard width AND statically aligned:
                                                                      fetch_aligned_{u,i}<w> (pd_uxx / pd_ixx), otherwise
                                                                      fetch_{aligned,unaligned}_{unsigned,signed}(w)
   macro _deserialize_fixed_length_array (l.64-84)                 -> pdw_array: bool elements: fetch_*_array_of_bits (pd_bits);
                                                                      standard-width int/float elements:
                                                                      fetch_*_array_of_standard_bit_length_primitives (pd_std);
                                                                      otherwise the element loop over _deserialize_any (pdw_list);
     l.83  assert len(ref) == capacity                                `length l =? n` else EAssert (bulk fetchers; the loop fills
                                                                      an array of that size by construction)
   macro _deserialize_variable_length_array (l.87-110)             -> pdw_body (TVar ..): prefix by _deserialize_integer (so an
                                                                      UNALIGNED array reads it with fetch_unaligned_unsigned),
                                                                      `> capacity` -> FormatError = EBadLen, then as above with
                                                                      the count read (l.92 `assert len >= 0`: an N; l.109 follows
                                                                      from the check)
   macro _deserialize_any (l.113-145)                              -> pdw_any:
     l.114-116 pad_to_alignment(a) if a > 1 (before)                  pdw_pad_if
     l.117 void: skip_bits(w)                                         pd_skip
     l.118 bool: fetch_unaligned_bit()                                pd_bit
     l.119 integers                                                   pdw_uint / pdw_sint
     l.120 floats: fetch_{aligned,unaligned}_f{16,32,64}()            pd_float (see abstractions)
     l.124-136 composites, delimited / sealed                         see above
     l.140 assert consumed % 8 == 0 after a composite                 `o mod 8 =? 0` else EAssert
     l.142-144 pad_to_alignment(a) again after a NON-composite, a>1   pdw_pad_if (arrays of composites; always a no-op)
   nunavut_support.deserialize(dtype, fragments)                   -> py_walk_des: `dtype._deserialize_(Deserializer.new(..))`, the
                                                                      object, or None on FormatError.  NO consumed size is
                                                                      reported: the result is the value only.

   Static alignment.  `offset|alignment_prefix` / `offset.is_aligned_at_byte()` are properties of the pydsdl BitLengthSet of the
   construct's offset from the start of the enclosing composite - fixed per position in the type tree, not per run.  The model
   takes the annotation as a parameter `sa : path -> nat -> bool` (position in the type tree: field / variant indices from the
   root, 0 for "array element"; and the cursor) and the theorems hold for EVERY annotation that is sound
   (`sa pth off = true -> off mod 8 = 0`), in particular for `fun pth off => static pth && (off mod 8 =? 0)` for whatever
   `static` pydsdl computes (equal to `static pth` on all reachable states if BitLengthSet is sound), for "always unaligned"
   and for "aligned whenever the cursor is".

   Abstractions (everything else is in the model):
     - buffers are bit lists (LSB of byte 0 first), always whole bytes; a fork is a new bit list;
     - exceptions other than FormatError (AssertionError, ValueError of fork_bytes/_ensure_cardinal) are `Err EAssert`; a
       fetcher that raises is `None`;
     - floats: fetch_*_f<w> is fetch_*_bytes(w/8) + struct.unpack("<e|f|d").  `pd_float` returns the IEEE pattern of those bytes
       (little endian); struct.unpack is FOLDED into the value domain: VFlt carries the storage pattern (binary32 pattern via
       Prims/F16.v `f16_unpack` for float16 - exact widening -, the pattern itself for float32/64);
     - numpy: the bulk fetchers return raw w-bit patterns, the dtype view (uintN / intN two's complement / floatN) is
       `val_of_raw`; array-of-bits gives bools; `_np_.empty(n, dtype)` + element assignment is a list;
     - object construction `self = T(f=..)` (l.24-32, l.41) is VStruct / VUnion; void (padding) fields, which the constructor
       does not take, are VVoid entries;
     - `del _nested_`, logging, `assert isinstance(..)`. *)
From Verif Require Import Wire.
Local Open Scope nat_scope.

Definition path := list nat.

(* the Deserializer members the templates call; `bs` = the Deserializer's buffer, `off` = its cursor; fetchers return the datum
   and the new cursor *)
Record pydprims : Type := {
  pd_uxx : nat -> list bool -> nat -> option (N * nat);                   (* fetch_aligned_u8/16/32/64 *)
  pd_ixx : nat -> list bool -> nat -> option (Z * nat);                   (* fetch_aligned_i8/16/32/64 *)
  pd_unsigned : bool -> nat -> list bool -> nat -> option (N * nat);      (* fetch_{aligned,unaligned}_unsigned(w); true = aligned *)
  pd_signed : bool -> nat -> list bool -> nat -> option (Z * nat);        (* fetch_{aligned,unaligned}_signed(w) *)
  pd_bit : list bool -> nat -> bool * nat;                                (* fetch_unaligned_bit *)
  pd_float : bool -> nat -> list bool -> nat -> option (N * nat);         (* fetch_{aligned,unaligned}_f16/32/64: IEEE pattern *)
  pd_bits : bool -> nat -> list bool -> nat -> option (list bool * nat);  (* fetch_{..}_array_of_bits(count) *)
  pd_std : bool -> nat -> nat -> list bool -> nat -> option (list N * nat);
                                                  (* fetch_{..}_array_of_standard_bit_length_primitives(dtype of w bits, count) *)
  pd_skip : list bool -> nat -> nat -> nat;                               (* skip_bits(k): the new cursor *)
  pd_pad : list bool -> nat -> nat -> option nat;                         (* pad_to_alignment(a): the new cursor *)
  pd_remaining : list bool -> nat -> Z;                                   (* remaining_bit_length, negative beyond the end *)
  pd_fork : list bool -> nat -> N -> option (list bool * nat);            (* fork_bytes(n): buffer and cursor of the NEW Deserializer *)
}.

Definition is_stdw (w : nat) : bool := (w =? 8) || (w =? 16) || (w =? 32) || (w =? 64).       (* pydsdl standard_bit_length *)

(* the numpy dtype view of a raw little-endian element of a standard-width array *)
Definition val_of_raw (p : prim) (x : N) : val :=
  match p with
  | PU _ _ => VInt (Z.of_N x)
  | PS w _ => VInt (signed_of w x)
  | PF w _ => VFlt (if w =? 16 then f16_unpack x else x)
  | PBool => VBool (N.odd x)
  | PVoid _ => VVoid
  end.

(* which of the three array paths the template emits for an element type (l.65-82, l.95-108) *)
Inductive akind : Type := ABits | AStd (p : prim) | ALoop.
Definition array_kind (e : ty) : akind :=
  match e with
  | TPrim PBool => ABits
  | TPrim (PU w s) => if is_stdw w then AStd (PU w s) else ALoop
  | TPrim (PS w s) => if is_stdw w then AStd (PS w s) else ALoop
  | TPrim (PF w s) => if is_stdw w then AStd (PF w s) else ALoop
  | _ => ALoop                                    (* void is not a pydsdl PrimitiveType; arrays, composites *)
  end.

Definition is_comp (t : ty) : bool := match t with TComp _ _ _ => true | _ => false end.

Definition res_val (r : res (val * nat)) : res val := match r with Ok (v, _) => Ok v | Err e => Err e end.

Section PyDesWalk.
  Variable Q : pydprims.
  Variable sa : path -> nat -> bool.          (* the static alignment annotation, see the header *)

  Definition dres (A : Type) := res (A * nat).

  Definition lift {A} (o : option A) : res A := match o with Some a => Ok a | None => Err EAssert end.

  (* _deserialize_integer, l.54-61 *)
  Definition pdw_uint (w : nat) (pth : path) (bs : list bool) (off : nat) : dres N :=
    let al := sa pth off in
    lift (if is_stdw w && al then pd_uxx Q w bs off else pd_unsigned Q al w bs off).
  Definition pdw_sint (w : nat) (pth : path) (bs : list bool) (off : nat) : dres Z :=
    let al := sa pth off in
    lift (if is_stdw w && al then pd_ixx Q w bs off else pd_signed Q al w bs off).

  (* the primitive branches of _deserialize_any, l.117-120 *)
  Definition pdw_prim (p : prim) (pth : path) (bs : list bool) (off : nat) : dres val :=
    match p with
    | PVoid w => Ok (VVoid, pd_skip Q bs off w)
    | PBool => let '(b, o) := pd_bit Q bs off in Ok (VBool b, o)
    | PU w _ => bind (pdw_uint w pth bs off) (fun '(x, o) => Ok (VInt (Z.of_N x), o))
    | PS w _ => bind (pdw_sint w pth bs off) (fun '(z, o) => Ok (VInt z, o))
    | PF w _ => bind (lift (pd_float Q (sa pth off) w bs off)) (fun '(x, o) =>
                  Ok (VFlt (if w =? 16 then f16_unpack x else x), o))
    end.

  Section PList.
    Variable De : list bool -> nat -> dres val.
    (* for i in range(n): _deserialize_any(element); ref[i] = e *)
    Fixpoint pdw_list (n : nat) (bs : list bool) (off : nat) : dres (list val) :=
      match n with
      | O => Ok ([], off)
      | S n' => bind (De bs off) (fun '(v, o) => bind (pdw_list n' bs o) (fun '(vs, o') => Ok (v :: vs, o')))
      end.
  End PList.

  Section PComb.
    Variable D : ty -> path -> list bool -> nat -> dres val.
    (* l.13-22: one _deserialize_any per field, in order; i = index of the field (its static offset) *)
    Fixpoint pdw_fields (fs : list ty) (i : nat) (pth : path) (bs : list bool) (off : nat) : dres (list val) :=
      match fs with
      | [] => Ok ([], off)
      | f :: fs' => bind (D f (i :: pth) bs off) (fun '(v, o) =>
                      bind (pdw_fields fs' (S i) pth bs o) (fun '(vs, o') => Ok (v :: vs, o')))
      end.
    (* l.36-44: if tag == 0: .. elif tag == 1: .. else: raise FormatError *)
    Fixpoint pdw_sel (fs : list ty) (i k : nat) (pth : path) (bs : list bool) (off : nat) : dres val :=
      match fs, k with
      | [], _ => Err EBadTag
      | f :: _, O => D f (i :: pth) bs off
      | _ :: r, S k' => pdw_sel r (S i) k' pth bs off
      end.
  End PComb.

  (* {% if t.alignment_requirement > 1 %} _des_.pad_to_alignment(a) *)
  Definition pdw_pad_if (t : ty) (bs : list bool) (off : nat) : res nat :=
    if 1 <? align t then lift (pd_pad Q bs off (align t)) else Ok off.

  (* _deserialize_any, l.113-145; D = the body of the type (the nested class's _deserialize_ for composites) *)
  Definition pdw_any (D : ty -> path -> list bool -> nat -> dres val) (t : ty) (pth : path) (bs : list bool) (off : nat)
    : dres val :=
    bind (pdw_pad_if t bs off) (fun o1 =>
    bind (match t with
          | TComp _ _ (Some _) =>
              bind (lift (pd_uxx Q header_bits bs o1)) (fun '(dh, o2) =>                              (* l.126 *)
                if (Z.max (pd_remaining Q bs o2) 0 <? Z.of_N dh * 8)%Z then Err EBadHdr                (* l.127-129 *)
                else bind (lift (pd_fork Q bs o2 dh)) (fun '(nested, o0) =>                           (* l.130 *)
                       let o3 := pd_skip Q bs o2 (N.to_nat dh * 8) in                                 (* l.131 *)
                       bind (D t pth nested o0) (fun '(v, _) => Ok (v, o3))))                         (* l.132 *)
          | _ => D t pth bs o1                                                                        (* l.135, l.117-122 *)
          end) (fun '(v, o4) =>
    if is_comp t then (if o4 mod 8 =? 0 then Ok (v, o4) else Err EAssert)                             (* l.140 *)
    else bind (pdw_pad_if t bs o4) (fun o5 => Ok (v, o5)))).                                          (* l.142-144 *)

  (* the three array paths; De = _deserialize_any of the element type *)
  Definition pdw_array (De : list bool -> nat -> dres val) (e : ty) (n : nat) (pth : path) (bs : list bool) (off : nat)
    : dres (list val) :=
    match array_kind e with
    | ABits => bind (lift (pd_bits Q (sa pth off) n bs off)) (fun '(l, o) =>
                 if length l =? n then Ok (map VBool l, o) else Err EAssert)
    | AStd p => bind (lift (pd_std Q (sa pth off) (prim_bits p) n bs off)) (fun '(l, o) =>
                  if length l =? n then Ok (map (val_of_raw p) l, o) else Err EAssert)
    | ALoop => pdw_list De n bs off
    end.

  Fixpoint pdw_body (t : ty) (pth : path) (bs : list bool) (off : nat) : dres val :=
    match t with
    | TPrim p => pdw_prim p pth bs off
    | TFix e n =>
        bind (pdw_array (pdw_any pdw_body e (0 :: pth)) e n pth bs off) (fun '(vs, o) => Ok (VArr vs, o))
    | TVar e c =>
        bind (pdw_uint (prefix_bits c) pth bs off) (fun '(len, o) =>                                   (* l.91 *)
          if (N.of_nat c <? len)%N then Err EBadLen                                                   (* l.93-94 *)
          else bind (pdw_array (pdw_any pdw_body e (0 :: pth)) e (N.to_nat len) pth bs o) (fun '(vs, o') => Ok (VArr vs, o')))
    | TComp u fs ext =>
        if negb (off mod 8 =? 0) then Err EAssert                                                     (* l.8 *)
        else
          bind (if u
                then bind (lift (pd_uxx Q (tag_bits (length fs)) bs off)) (fun '(tag, o) =>           (* l.35 *)
                       bind (pdw_sel (pdw_any pdw_body) fs 0 (N.to_nat tag) pth bs o) (fun '(v, o') =>
                         Ok (VUnion (N.to_nat tag) v, o')))
                else bind (pdw_fields (pdw_any pdw_body) fs 0 pth bs off) (fun '(vs, o) => Ok (VStruct vs, o)))
            (fun '(v, o) =>
               bind (lift (pd_pad Q bs o 8)) (fun o' =>                                               (* l.47 *)
                 if bmin (TComp u fs ext) <=? o' - off then Ok (v, o') else Err EAssert))             (* l.49 *)
    end.

  (* nunavut_support.deserialize(T, [bytes]): T._deserialize_(Deserializer.new(..)); the object, or None on FormatError;
     the consumed size is not reported *)
  Definition py_walk_des (t : ty) (bs : list bool) : res val := res_val (pdw_body t [] bs 0).
End PyDesWalk.
