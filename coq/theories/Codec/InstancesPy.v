(* The walker against the SHIPPED Python primitives (Prims/PyPrims.v: Serializer / Deserializer of nunavut_support.py), using the
   C14 theorems fetch_(un)aligned_unsigned_spec and add_(un)aligned_unsigned_appends.

   DESERIALIZATION - complete.  `py_prims` reads with Deserializer.fetch_aligned_unsigned / fetch_unaligned_unsigned, selected by the
   alignment of the cursor exactly as the templates select the method by `alignment_prefix` (translated in Generated/Gen_C01.v),
   on a Deserializer over the first `capacity` bits (what `fork_bytes` hands a nested delimited object).  Python integers are
   unbounded: no 2^64 side condition, any buffer.  `py_walk_des_refines`: walk_des py_prims = des_spec for every well-formed type
   and every byte string.

   SERIALIZATION - the leaf law only.  The Python Serializer is append-only: `buf[i] |= ...` is correct because everything at and
   after the cursor is zero (the invariant `Inv` of C14; a fresh Serializer is zero-filled).  `py_store_inv`: under that invariant
   one add_(un)aligned_unsigned is the walker's store law and re-establishes the invariant.  The walker of Codec/Walker.v is
   shaped after the C templates in two places that the Python templates do not share and that break the invariant: the aligned
   whole-byte store of a <= 8 bit field (`buffer[off/8] = (uint8_t) value; off += w`, leaving storage bits right of the cursor)
   and the back-patching of a delimiter header below the cursor (Python serializes the nested object into a fork and knows the
   size before it writes the header).  Hence there is NO `py_walk_ser_refines`: the composition Python templates -> wire
   specification is tied by correspondence only (codec harness, target py, every run), on top of the leaf law proved here. *)
From Verif Require Import Bits CPrims CPrimsThm PyPrims PyPrimsThm PyPrimsMoreThm.
From Verif Require Import Wire WireThm WireThmExt Walker PrimsOn InstancesBase RefineDes RefineSerBase.
Local Open Scope nat_scope.

Definition py_get_bits (buf : list bool) (cap off w : nat) : list bool :=
  let d := mkdes (bytes_of_bits (firstn cap buf)) (N.of_nat off) in
  match (if off mod 8 =? 0 then fetch_aligned_unsigned d (N.of_nat w) else fetch_unaligned_unsigned d (N.of_nat w)) with
  | Some (x, _) => bits_of_N w x
  | None => repeat false w
  end.

(* a Serializer over the buffer plus the spare byte the generated code allocates, cursor at off *)
Definition py_ser_at (buf : list bool) (off : nat) : ser := mkser (bytes_of_bits buf ++ [0%N]) (N.of_nat off).

Definition py_set_bits (buf : list bool) (off : nat) (v : list bool) : option (list bool) :=
  let s := py_ser_at buf off in
  match (if off mod 8 =? 0 then add_aligned_unsigned s (N_of_bits v) (N.of_nat (length v))
         else add_unaligned_unsigned s (N_of_bits v) (N.of_nat (length v))) with
  | Some s' => Some (firstn (length buf) (bits_of_bytes (s_buf s')))
  | None => None
  end.

Definition py_prims : prims := {| set_bits := py_set_bits; get_bits := py_get_bits |}.

Lemma bytes_of_bits_bytes_ok l : bytes_ok (bytes_of_bits l).
Proof. apply bytes_okb_ok. apply bytes_of_bits_ok. Qed.

(* ---- loads ---- *)
Theorem py_get_law bits : get_law py_prims (fun w => 1 <= w <= 64) bits.
Proof.
  intros cap off w Hw Hc Hm. cbn [get_bits py_prims]. unfold py_get_bits.
  set (d := mkdes (bytes_of_bits (firstn cap bits)) (N.of_nat off)).
  assert (Hlf : length (firstn cap bits) = cap) by (apply firstn_length_le; exact Hc).
  assert (Hspec : exists x d', (if off mod 8 =? 0 then fetch_aligned_unsigned d (N.of_nat w) else fetch_unaligned_unsigned d (N.of_nat w))
                               = Some (x, d') /\
                               forall k, N.testbit x k = ((k <? N.of_nat w)%N && bit (d_buf d) (d_off d + k))%bool).
  { destruct (Nat.eqb_spec (off mod 8) 0) as [Ha|Ha].
    - destruct (fetch_aligned_unsigned_spec d (N.of_nat w) (bytes_of_bits_bytes_ok _) ltac:(lia)
                  ltac:(unfold d; cbn [d_off]; lia)) as (x & d' & E & _ & _ & Hx).
      exists x, d'. split; assumption.
    - destruct (fetch_unaligned_unsigned_spec d (N.of_nat w) (bytes_of_bits_bytes_ok _) ltac:(lia)) as (x & d' & E & _ & _ & Hx).
      exists x, d'. split; assumption. }
  destruct Hspec as (x & d' & -> & Hx).
  apply bits_ext; [rewrite bits_of_N_length, take_ze_length; reflexivity|].
  intros k Hk. rewrite bits_of_N_length in Hk.
  rewrite nth_bits_of_N by exact Hk. rewrite Hx. unfold d. cbn [d_buf d_off].
  rewrite (nth_window bits cap off w k Hc).
  replace (N.of_nat off + N.of_nat k)%N with (N.of_nat (off + k)) by lia.
  rewrite (bit_bytes_of_bits (firstn cap bits) (off + k)) by (rewrite Hlf; exact Hm).
  destruct (N.ltb_spec (N.of_nat k) (N.of_nat w)) as [A|A]; destruct (Nat.ltb_spec k w) as [A'|A']; try lia; cbn [andb].
  destruct (Nat.ltb_spec (off + k) cap) as [C|C]; [apply nth_firstn_low; exact C|].
  apply nth_overflow. rewrite Hlf. exact C.
Qed.

Theorem py_walk_des_refines : forall t bits, wf_ty t = true -> length bits mod 8 = 0 ->
  walk_des py_prims t bits = des_spec t bits.
Proof.
  intros t bits Hwf Hm.
  apply (walk_des_refines_on _ (fun w => 1 <= w <= 64)); [trivial | apply py_get_law | right; exact Hwf | exact Hm].
Qed.

(* ---- stores, under the Serializer's invariant ---- *)
Lemma bits_of_bytes_app a c : bits_of_bytes (a ++ c) = bits_of_bytes a ++ bits_of_bytes c.
Proof. induction a as [|x a IH]; cbn [app bits_of_bytes]; [reflexivity|]. rewrite IH, app_assoc. reflexivity. Qed.

Lemma bit_spare buf p : length buf mod 8 = 0 -> bit (bytes_of_bits buf ++ [0%N]) (N.of_nat p) = nth p buf false.
Proof.
  intros Hm. rewrite bit_bits_of_bytes, bits_of_bytes_app, (bits_of_bytes_of_bits buf Hm).
  destruct (Nat.ltb_spec p (length buf)) as [H|H]; [apply app_nth1; exact H|].
  rewrite app_nth2 by exact H. rewrite (nth_overflow buf) by exact H.
  cbn [bits_of_bytes]. rewrite app_nil_r.
  destruct (Nat.ltb_spec (p - length buf) 8) as [H8|H8]; [rewrite nth_bits_of_N by exact H8; apply N.bits_0 | apply nth_bits_of_N_beyond; exact H8].
Qed.

(* everything at and after the cursor is zero *)
Definition zero_from (buf : list bool) (off : nat) : Prop := forall p, off <= p -> nth p buf false = false.

Theorem py_store_inv : forall buf off v, length buf mod 8 = 0 -> 1 <= length v -> off + length v <= length buf ->
  zero_from buf off ->
  exists buf', py_set_bits buf off v = Some buf' /\
               buf' = firstn off buf ++ v ++ skipn (off + length v) buf /\ zero_from buf' (off + length v).
Proof.
  intros buf off v Hm Hv Hfit Hz. unfold py_set_bits.
  set (s := py_ser_at buf off). set (n := N.of_nat (length v)).
  assert (Hbl : length (bytes_of_bits buf) = length buf / 8) by (apply bytes_of_bits_length; exact Hm).
  assert (Hblen : blen (s_buf s) = (N.of_nat (length buf / 8) + 1)%N).
  { unfold s, py_ser_at, blen. cbn [s_buf]. rewrite app_length, Hbl. cbn [length]. lia. }
  assert (HI : Inv s).
  { intros p Hp. unfold s, py_ser_at in *. cbn [s_buf s_off] in *.
    replace p with (N.of_nat (N.to_nat p)) by lia. rewrite (bit_spare buf _ Hm). apply Hz. lia. }
  assert (Hok : bytes_ok (s_buf s)).
  { unfold s, py_ser_at. cbn [s_buf]. apply Forall_app. split; [apply bytes_of_bits_bytes_ok|]. constructor; [lia | constructor]. }
  assert (Happ : exists s', (if off mod 8 =? 0 then add_aligned_unsigned s (N_of_bits v) n else add_unaligned_unsigned s (N_of_bits v) n)
                            = Some s' /\ appended s s' n (N.testbit (N_of_bits v))).
  { destruct (Nat.eqb_spec (off mod 8) 0) as [Ha|Ha].
    - apply add_aligned_unsigned_appends; try assumption; unfold s, py_ser_at, n in *; cbn [s_off] in *; rewrite ?Hblen; lia.
    - apply add_unaligned_unsigned_appends; try assumption; unfold s, py_ser_at, n in *; cbn [s_off] in *; rewrite ?Hblen; lia. }
  destruct Happ as (s' & -> & Hoff & Hlen & _ & Hbit).
  assert (Hlen' : length (s_buf s') = length buf / 8 + 1).
  { rewrite Hlen. unfold s, py_ser_at. cbn [s_buf]. rewrite app_length, Hbl. reflexivity. }
  assert (Heq : firstn (length buf) (bits_of_bytes (s_buf s')) = firstn off buf ++ v ++ skipn (off + length v) buf).
  { apply bits_ext.
    - rewrite firstn_length, bits_of_bytes_length, Hlen', !app_length, firstn_length, skipn_length. lia.
    - intros p Hp. rewrite firstn_length, bits_of_bytes_length, Hlen' in Hp.
      rewrite nth_firstn_low by lia. rewrite <- bit_bits_of_bytes, Hbit. rewrite (nth_store buf v off p) by lia.
      unfold s, py_ser_at, n. cbn [s_buf s_off]. rewrite (bit_spare buf p Hm).
      destruct (N.ltb_spec (N.of_nat p) (N.of_nat off)) as [A|A]; destruct (Nat.leb_spec off p) as [A'|A']; try lia;
        cbn [andb]; [reflexivity|].
      destruct (N.ltb_spec (N.of_nat p) (N.of_nat off + N.of_nat (length v))) as [C|C];
        destruct (Nat.ltb_spec p (off + length v)) as [C'|C']; try lia.
      + replace (N.of_nat p - N.of_nat off)%N with (N.of_nat (p - off)) by lia. apply testbit_N_of_bits.
      + symmetry. apply Hz. lia. }
  eexists. split; [reflexivity|]. split; [exact Heq|].
  rewrite Heq. intros p Hp. rewrite (nth_store buf v off p) by lia.
  destruct (Nat.leb_spec off p); [|lia]. destruct (Nat.ltb_spec p (off + length v)); [lia|]. cbn [andb]. apply Hz. lia.
Qed.

(* append-only composition: ANY serializer that hands the bit strings c1, c2, ... in order to add_(un)aligned_unsigned, starting
   from a zero-filled Serializer, leaves their concatenation in the buffer.  With c_i = the specification's encodings of the
   successive fields this is the shape of the Python templates on types without nested delimited objects. *)
Fixpoint py_emit (chunks : list (list bool)) (buf : list bool) (off : nat) : option (list bool * nat) :=
  match chunks with
  | [] => Some (buf, off)
  | c :: r => match py_set_bits buf off c with Some b => py_emit r b (off + length c) | None => None end
  end.

Theorem py_emit_appends : forall chunks buf off, length buf mod 8 = 0 -> Forall (fun c => 1 <= length c) chunks ->
  off + length (concat chunks) <= length buf -> zero_from buf off ->
  py_emit chunks buf off =
    Some (firstn off buf ++ concat chunks ++ skipn (off + length (concat chunks)) buf, off + length (concat chunks)).
Proof.
  induction chunks as [|c r IH]; intros buf off Hm Hc Hfit Hz; cbn [py_emit concat].
  - cbn [length app]. rewrite Nat.add_0_r, firstn_skipn. reflexivity.
  - inversion Hc as [|? ? Hc1 Hc2]; subst. cbn [concat] in Hfit. rewrite app_length in *.
    destruct (py_store_inv buf off c Hm Hc1 ltac:(lia) Hz) as (b & -> & Eb & Hzb).
    assert (Hlb : length b = length buf).
    { rewrite Eb, !app_length, firstn_length, skipn_length. lia. }
    rewrite (IH b (off + length c)) by (rewrite ?Hlb; try assumption; lia).
    f_equal. f_equal; [|lia].
    assert (Hf : firstn (off + length c) b = firstn off buf ++ c).
    { rewrite Eb. rewrite firstn_app_exact by (rewrite firstn_length; lia). f_equal.
      rewrite firstn_app_left by lia. apply firstn_all. }
    assert (Hs : skipn (off + length c + length (concat r)) b = skipn (off + (length c + length (concat r))) buf).
    { rewrite Eb. rewrite set_frame by lia. f_equal. lia. }
    rewrite Hf, Hs, <- !app_assoc. reflexivity.
Qed.

(* a fresh Serializer satisfies the invariant *)
Lemma zero_from_fresh n off : zero_from (repeat false n) off.
Proof. intros p _. destruct (Nat.ltb_spec p n); [apply nth_repeat | apply nth_overflow; rewrite repeat_length; assumption]. Qed.

(* non-vacuity: an unaligned 13-bit store into a fresh 3-byte Serializer and an aligned 16-bit fetch, through the instance *)
Example py_prims_example :
  set_bits py_prims (repeat false 24) 3 (bits_of_N 13 4097) =
    Some (repeat false 3 ++ bits_of_N 13 4097 ++ repeat false 8) /\
  get_bits py_prims (bits_of_bytes [255; 1; 7]%N) 16 8 16 = bits_of_N 16 1.
Proof. vm_compute. split; reflexivity. Qed.
