(* The TYPED members of the support libraries against the walker.  The walker (Codec/Walker.v) routes every primitive field
   through one raw store / load of a bit vector and applies the conversions itself (two's complement image, `cast_f` / `f16_pack`,
   `signed_of`, `f16_unpack`); the generated code calls the typed members nunavutSetIxx / SetBit / SetF16 / SetF32 / SetF64 and
   nunavutGetI<N> / GetBit / GetF16 / GetF32 / GetF64 (bitspan::setIxx ... getF64 in C++).  Here each typed member is shown to
   be the walker's raw operation on the walker's bit vector, using the C14 round-2 theorems (Prims/PrimsExtThm.v)
   `set_ixx_is_set_uxx`, `set_bit_is_set_uxx`, `c_float_members_are_integer_members`, `cpp_float_members_are_c` and
   `cpp_members_are_c_b`.  So the instance theorems of InstancesC.v / InstancesCpp.v cover signed, boolean and float fields as
   the generated code executes them, for every offset, capacity and both target_endianness renderings. *)
From Verif Require Import Bits CPrims CPrimsThm CppPrims CppPrimsThm CppPrimsMoreThm PrimsExt PrimsExtThm.
From Verif Require Import Wire WireThm WireThmRt WireThmExt Walker PrimsOn InstancesBase RefineSerBits InstancesC InstancesCpp.
Local Open Scope nat_scope.

Definition c_view (o : option (list N + err)) : option (list bool) :=
  match o with Some (inl r) => Some (bits_of_bytes r) | _ => None end.

(* ---- one nunavutSetUxx call whose value has the bits v in its low |v| positions stores exactly v ---- *)
Lemma c_store_value little buf off value v : c_dom buf -> length v <= 64 -> off + length v <= length buf ->
  (forall i, i < length v -> N.testbit (value mod 2 ^ 64) (N.of_nat i) = nth i v false) ->
  c_view (set_uxx little (bytes_of_bits buf) (blen (bytes_of_bits buf)) (N.of_nat off) value (N.of_nat (length v))) =
    Some (firstn off buf ++ v ++ skipn (off + length v) buf).
Proof.
  intros Hd H64 Hfit Hval. unfold c_view.
  assert (Hm : length buf mod 8 = 0) by apply Hd. assert (HL : (N.of_nat (length buf) < two64)%N) by apply Hd.
  assert (Hpre : buf_pre (bytes_of_bits buf) (blen (bytes_of_bits buf)) (N.of_nat off) = true).
  { rewrite (blen_bytes_of_bits buf Hm). apply c_buf_pre; [exact Hd | lia | lia]. }
  assert (Hsum : (N.of_nat off + N.of_nat (length v) <? two64)%N = true) by (apply N.ltb_lt; lia).
  pose proof (set_uxx_exact_b little _ _ _ value _ Hpre Hsum) as H.
  rewrite (blen_bytes_of_bits buf Hm) in *.
  destruct (N.ltb_spec (N.of_nat (length buf / 8) * 8) (N.of_nat off + N.of_nat (length v))) as [Hbad|_]; [lia|].
  destruct H as (r & -> & Hlen & Hbit). f_equal.
  assert (Hbl : length (bytes_of_bits buf) = length buf / 8) by (apply bytes_of_bits_length; exact Hm).
  apply bits_ext.
  - rewrite bits_of_bytes_length, Hlen, Hbl, !app_length, firstn_length, skipn_length. lia.
  - intros p Hp. rewrite <- bit_bits_of_bytes, Hbit. rewrite (nth_store buf v off p) by lia.
    rewrite (bit_bytes_of_bits buf p Hm).
    destruct (N.leb_spec (N.of_nat off) (N.of_nat p)) as [A|A]; destruct (Nat.leb_spec off p) as [A'|A']; try lia; cbn [andb];
      [|reflexivity].
    destruct (N.ltb_spec (N.of_nat p) (N.of_nat off + N.min (N.of_nat (length v)) 64)) as [C|C];
      destruct (Nat.ltb_spec p (off + length v)) as [C'|C']; try lia; [|reflexivity].
    replace (N.of_nat p - N.of_nat off)%N with (N.of_nat (p - off)) by lia. apply Hval. lia.
Qed.

Lemma testbit_mod64_low x i : i < 64 -> N.testbit (x mod 2 ^ 64) (N.of_nat i) = N.testbit x (N.of_nat i).
Proof. intros H. apply N.mod_pow2_bits_low. lia. Qed.

(* the raw store of the walker is that call with value = the bit vector read as a number *)
Lemma c_set_bits_is_store little buf off v : c_dom buf -> length v <= 64 -> off + length v <= length buf ->
  c_set_bits little buf off v = Some (firstn off buf ++ v ++ skipn (off + length v) buf).
Proof.
  intros [Hm HL] H64 Hfit. exact (c_set_law little (length buf) Hm HL buf off v eq_refl H64 Hfit).
Qed.

(* ---- signed fields: nunavutSetIxx(buf, size, off, z, w) = the walker's store of the w-bit two's complement image of z ---- *)
Theorem c_SetIxx_is_walker_store : forall little buf off (z : Z) w, c_dom buf -> w <= 64 -> off + w <= length buf ->
  c_view (set_ixx little (bytes_of_bits buf) (blen (bytes_of_bits buf)) (N.of_nat off) z (N.of_nat w)) =
    set_bits (c_prims little) buf off (bits_of_N w (Z.to_N (z mod pow2 w))).
Proof.
  intros little buf off z w Hd Hw Hfit. cbn [set_bits c_prims].
  set (v := bits_of_N w (Z.to_N (z mod pow2 w))). assert (Hlv : length v = w) by apply bits_of_N_length.
  rewrite (c_set_bits_is_store little buf off v Hd) by lia.
  destruct (set_ixx_is_set_uxx little (bytes_of_bits buf) (blen (bytes_of_bits buf)) (N.of_nat off) z (N.of_nat w)) as [-> Hbits].
  rewrite <- Hlv. apply c_store_value; try lia; [exact Hd|].
  intros i Hi. rewrite Hlv in Hi. change (2 ^ 64)%N with two64. fold (w64 (Z.to_N (z mod 2 ^ 64))).
  rewrite Hbits by lia. unfold v. rewrite nth_bits_of_N by exact Hi.
  pose proof (pow2_pos w) as Hp.
  rewrite <- Z.testbit_of_N. rewrite Z2N.id by (apply Z.mod_pos_bound; exact Hp).
  unfold pow2. rewrite Z.mod_pow2_bits_low by lia. reflexivity.
Qed.

(* ---- boolean fields: nunavutSetBit(buf, size, off, b) = the walker's one-bit store ---- *)
Theorem c_SetBit_is_walker_store : forall little buf off (b : bool), c_dom buf -> off + 1 <= length buf ->
  c_view (set_bit (bytes_of_bits buf) (blen (bytes_of_bits buf)) (N.of_nat off) b) = set_bits (c_prims little) buf off [b].
Proof.
  intros little buf off b Hd Hfit. cbn [set_bits c_prims].
  assert (Hm : length buf mod 8 = 0) by apply Hd. assert (HL : (N.of_nat (length buf) < two64)%N) by apply Hd.
  assert (Hpre : buf_pre (bytes_of_bits buf) (blen (bytes_of_bits buf)) (N.of_nat off) = true).
  { rewrite (blen_bytes_of_bits buf Hm). apply c_buf_pre; [exact Hd | lia | lia]. }
  rewrite (set_bit_is_set_uxx little _ _ _ b Hpre) by (apply N.ltb_lt; lia).
  rewrite (c_set_bits_is_store little buf off [b] Hd) by (cbn [length]; lia).
  apply (c_store_value little buf off (if b then 1%N else 0%N) [b] Hd); cbn [length]; try lia.
  intros i Hi. assert (i = 0) by lia. subst i. destruct b; reflexivity.
Qed.

(* ---- float fields ---- *)
Lemma land_pow2_31 x : N.land x (N.shiftl 1 31) = if N.testbit x 31 then (2 ^ 31)%N else 0%N.
Proof.
  rewrite N.shiftl_1_l. apply N.bits_inj. intros k. rewrite N.land_spec, N.pow2_bits_eqb.
  destruct (N.eqb_spec 31 k) as [E|E].
  - subst k. rewrite andb_true_r. destruct (N.testbit x 31) eqn:T; symmetry; [apply N.pow2_bits_true | apply N.bits_0].
  - rewrite andb_false_r. destruct (N.testbit x 31); symmetry; [apply N.pow2_bits_false; exact E | apply N.bits_0].
Qed.

Lemma sat16_lt x : (x < 2 ^ 32)%N -> (sat16 x < 2 ^ 32)%N.
Proof.
  intros Hx. unfold sat16. rewrite land_pow2_31.
  destruct (_ <? F32INF)%N; [|exact Hx]. destruct (F32_65504 <? _)%N; [|exact Hx].
  destruct (N.testbit x 31); vm_compute; reflexivity.
Qed.

(* the binary32 pattern the generated code hands to nunavutSetF16 / SetF32 (after the isfinite-guarded clamp for saturated
   float16), and the binary64 pattern for SetF64 *)
Definition float_arg (w : nat) (sat : bool) (x : N) : N :=
  if w =? 16 then (if sat then sat16 (x mod 2 ^ 32) else x mod 2 ^ 32)%N else x.

Theorem c_SetF_is_walker_store : forall little buf off sat x, c_dom buf ->
  let b := bytes_of_bits buf in
  (off + 16 <= length buf ->
     c_view (set_f16 little b (blen b) (N.of_nat off) (float_arg 16 sat x)) = set_bits (c_prims little) buf off (bits_of_N 16 (cast_f 16 sat x))) /\
  (off + 32 <= length buf ->
     c_view (set_f32 little b (blen b) (N.of_nat off) x) = set_bits (c_prims little) buf off (bits_of_N 32 (cast_f 32 sat x))) /\
  (off + 64 <= length buf ->
     c_view (set_f64 little b (blen b) (N.of_nat off) x) = set_bits (c_prims little) buf off (bits_of_N 64 (cast_f 64 sat x))).
Proof.
  intros little buf off sat x Hd b.
  destruct (c_float_members_are_integer_members little b (blen b) (N.of_nat off) x x) as (E32 & E64 & _ & _).
  destruct (c_float_members_are_integer_members little b (blen b) (N.of_nat off) (float_arg 16 sat x) x) as (_ & _ & E16 & _).
  cbn [set_bits c_prims]. split; [|split]; intros Hfit.
  - rewrite E16. rewrite (c_set_bits_is_store little buf off _ Hd) by (rewrite bits_of_N_length; lia).
    assert (Harg : (float_arg 16 sat x mod 2 ^ 32 = float_arg 16 sat x)%N).
    { unfold float_arg. cbn [Nat.eqb]. apply N.mod_small.
      destruct sat; [apply sat16_lt|]; apply N.mod_lt; discriminate. }
    rewrite Harg.
    pose proof (c_store_value little buf off (f16_pack (float_arg 16 sat x)) (bits_of_N 16 (cast_f 16 sat x)) Hd) as H.
    rewrite bits_of_N_length in H. apply H; try lia.
    intros i Hi. rewrite testbit_mod64_low by lia. rewrite nth_bits_of_N by exact Hi. reflexivity.
  - rewrite E32. rewrite (c_set_bits_is_store little buf off _ Hd) by (rewrite bits_of_N_length; lia).
    pose proof (c_store_value little buf off (x mod 2 ^ 32)%N (bits_of_N 32 (cast_f 32 sat x)) Hd) as H.
    rewrite bits_of_N_length in H. apply H; try lia.
    intros i Hi. rewrite testbit_mod64_low by lia. rewrite nth_bits_of_N by exact Hi. reflexivity.
  - rewrite E64. rewrite (c_set_bits_is_store little buf off _ Hd) by (rewrite bits_of_N_length; lia).
    pose proof (c_store_value little buf off (x mod 2 ^ 64)%N (bits_of_N 64 (cast_f 64 sat x)) Hd) as H.
    rewrite bits_of_N_length in H. apply H; try lia.
    intros i Hi. rewrite testbit_mod64_low by lia. rewrite nth_bits_of_N by exact Hi. reflexivity.
Qed.

(* ---- loads: the raw field the walker reads is what nunavutGetU<N> returns ---- *)
Lemma c_get_raw little buf cap off w : c_dom buf -> 1 <= w <= 64 -> cap <= length buf -> cap mod 8 = 0 ->
  (N.of_nat off < two64)%N ->
  get_uxx little (N.of_nat (std_width w)) (bytes_of_bits buf) (N.of_nat (cap / 8)) (N.of_nat off) (N.of_nat w) =
    Some (N_of_bits (get_bits (c_prims little) buf cap off w)).
Proof.
  intros Hd Hw Hc Hm Ho. cbn [get_bits c_prims]. unfold c_get_bits.
  assert (Hs : cap / 8 <= length buf / 8) by (destruct Hd; lia).
  pose proof (std_width_ge w ltac:(lia)) as Hsw.
  destruct (get_uxx_spec_b little _ _ _ _ (N.of_nat w) (std_width_is_N w) (c_buf_pre buf (cap / 8) off Hd Hs Ho))
    as (x & -> & Hx & _).
  rewrite N_of_bits_of_N; [reflexivity|]. replace (N.min (N.of_nat w) (N.of_nat (std_width w))) with (N.of_nat w) in Hx by lia.
  exact Hx.
Qed.

(* the typed getters of the header return what Walker.r_prim computes *)
Theorem c_typed_getters_are_r_prim : forall little buf cap off sat, c_dom buf -> cap <= length buf -> cap mod 8 = 0 ->
  (N.of_nat off < two64)%N ->
  let b := bytes_of_bits buf in let size := N.of_nat (cap / 8) in let o := N.of_nat off in
  let P := c_prims little in
  (match get_f16 little b size o with Some x => r_prim P (PF 16 sat) buf cap off = VFlt x | None => False end) /\
  (match get_f32 little b size o with Some x => r_prim P (PF 32 sat) buf cap off = VFlt x | None => False end) /\
  (match get_f64 little b size o with Some x => r_prim P (PF 64 sat) buf cap off = VFlt x | None => False end) /\
  (forall w, 1 <= w <= 64 ->
     match get_ixx little (N.of_nat (std_width w)) b size o (N.of_nat w) with
     | Some z => r_prim P (PS w sat) buf cap off = VInt z | None => False end) /\
  (match get_bit little b size o with Some x => r_prim P PBool buf cap off = VBool x | None => False end).
Proof.
  intros little buf cap off sat Hd Hc Hm Ho b size o P.
  destruct (c_float_members_are_integer_members little b size o 0%N 0%N) as (_ & _ & _ & E32 & E64 & E16).
  pose proof (c_get_raw little buf cap off 16 Hd ltac:(lia) Hc Hm Ho) as R16.
  pose proof (c_get_raw little buf cap off 32 Hd ltac:(lia) Hc Hm Ho) as R32.
  pose proof (c_get_raw little buf cap off 64 Hd ltac:(lia) Hc Hm Ho) as R64.
  change (N.of_nat (std_width 16)) with 16%N in R16. change (N.of_nat 16) with 16%N in R16.
  change (N.of_nat (std_width 32)) with 32%N in R32. change (N.of_nat 32) with 32%N in R32.
  change (N.of_nat (std_width 64)) with 64%N in R64. change (N.of_nat 64) with 64%N in R64.
  fold b size o in R16, R32, R64.
  split; [|split; [|split; [|split]]].
  - rewrite E16, R16. reflexivity.
  - rewrite E32, R32. reflexivity.
  - rewrite E64, R64. reflexivity.
  - intros w Hw. unfold b, size, o. rewrite (c_get_signed_is_GetI little buf cap off w Hd Hw Hc Hm Ho). reflexivity.
  - unfold get_bit. pose proof (c_get_raw little buf cap off 1 Hd ltac:(lia) Hc Hm Ho) as R1.
    change (N.of_nat (std_width 1)) with 8%N in R1. change (N.of_nat 1) with 1%N in R1. fold b size o in R1. rewrite R1.
    cbn [r_prim]. fold P.
    assert (Hlen : length (get_bits P buf cap off 1) = 1).
    { unfold P. cbn [get_bits c_prims]. rewrite (c_get_ok little buf cap off 1 Hd ltac:(lia) Hc Hm Ho). apply take_ze_length. }
    assert (Hzero : cap <= off -> get_bits P buf cap off 1 = [false]).
    { intros Hge. unfold P. cbn [get_bits c_prims]. rewrite (c_get_ok little buf cap off 1 Hd ltac:(lia) Hc Hm Ho).
      rewrite skipn_all2 by (rewrite firstn_length; lia). reflexivity. }
    destruct (Nat.ltb_spec off cap) as [Hlt|Hge].
    + destruct (get_bits P buf cap off 1) as [|x [|? ?]]; cbn [length] in Hlen; try lia. destruct x; reflexivity.
    + rewrite (Hzero Hge). reflexivity.
Qed.

(* ---- C++: the typed bitspan members are the C functions (cpp_members_are_c_b, cpp_float_members_are_c), hence the same ---- *)
Theorem cpp_typed_members_are_c : forall buf size off, c_dom buf -> size <= length buf / 8 -> (N.of_nat off + 64 < two64)%N ->
  let s := cpp_span buf size off in let b := bytes_of_bits buf in let sz := N.of_nat size in let o := N.of_nat off in
  (forall (z : Z) len, (len <= 64)%N -> cpp_set_ixx s z len = set_ixx false b sz o z len) /\
  (forall v, cpp_set_bit s v = set_bit b sz o v) /\
  (forall x, cpp_set_f16 s x = set_f16 false b sz o x /\ cpp_set_f32 s x = set_f32 false b sz o x /\
             cpp_set_f64 s x = set_f64 false b sz o x) /\
  cpp_get_f16 s = get_f16 false b sz o /\ cpp_get_f32 s = get_f32 false b sz o /\ cpp_get_f64 s = get_f64 false b sz o /\
  (forall w len, ((w =? 8) || (w =? 16) || (w =? 32) || (w =? 64))%N = true -> cpp_get_ixx w s len = get_ixx false w b sz o len) /\
  cpp_get_bit s = get_bit false b sz o.
Proof.
  intros buf size off Hd Hs Ho s b sz o.
  assert (Hok : span_okb s = true) by (apply cpp_span_ok; [exact Hd | exact Hs | lia]).
  destruct (cpp_members_are_c_b s Hok) as (_ & Hi & Hb & Hg & Hgb & _).
  assert (H64 : (sp_off s + 64 <? two64)%N = true) by (unfold s; cbn [sp_off cpp_span]; apply N.ltb_lt; lia).
  split; [|split; [|split; [|split; [|split; [|split; [|split]]]]]].
  - intros z len Hl. apply Hi. unfold s. cbn [sp_off cpp_span]. apply N.ltb_lt. lia.
  - exact Hb.
  - intros x. destruct (cpp_float_members_are_c s x x Hok H64) as (E32 & E64 & E16 & _).
    split; [exact E16 | split; [exact E32 | exact E64]].
  - destruct (cpp_float_members_are_c s 0%N 0%N Hok H64) as (_ & _ & _ & _ & _ & E). exact E.
  - destruct (cpp_float_members_are_c s 0%N 0%N Hok H64) as (_ & _ & _ & E & _). exact E.
  - destruct (cpp_float_members_are_c s 0%N 0%N Hok H64) as (_ & _ & _ & _ & E & _). exact E.
  - intros w len Hw. apply (Hg w len Hw).
  - exact Hgb.
Qed.
