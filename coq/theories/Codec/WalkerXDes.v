(* The C deserialization walker EXTENDED with the bulk array path of the templates (audit C02 #6): when `WalkerSafe.bulk c e` says so
   (bool elements, or the TRANSLATED `is_zero_cost_primitive`), the array is read by ONE nunavutGetBits(object, buffer, capacity_bytes,
   off, n*w) call (`getl`: the n*w bits at the cursor, zero-extended past the capacity - the saturated fragment - whatever the object
   held before), and the elements are the w-bit fields of the object; otherwise the element loop.  Everything else is
   Codec/Walker.v verbatim (its combinators are reused).  NO PROOFS in this file (Codec/RefineDesX.v). *)
From Verif Require Import WalkerSafe.
From Verif Require Import Wire Walker.
Local Open Scope nat_scope.

Section WalkXDes.
  Variable P : prims.
  Variable getl : list bool -> nat -> nat -> nat -> list bool.     (* nunavutGetBits: buffer, capacity_bits, off, number of bits *)
  Variable cf : cfg.

  Definition wdx_array (e : ty) (n : nat) (buf : list bool) (cap off : nat) (loop : rres (list val)) : rres (list val) :=
    match e, bulk cf e with
    | TPrim p, Some _ =>
        let w := prim_bits p in
        let img := getl buf cap off (n * w) in
        Ok (map (fun i => dec_prim p (firstn w (skipn (i * w) img))) (seq 0 n), off + n * w)
    | _, _ => loop
    end.

  Fixpoint wd_body_x (t : ty) (buf : list bool) (cap off : nat) : rres val :=
    match t with
    | TPrim p => Ok (r_prim P p buf cap off, off + prim_bits p)
    | TFix e n =>
        bind (wdx_array e n buf cap off (wd_list (wd_field P wd_body_x e) n buf cap off)) (fun '(vs, o) => Ok (VArr vs, o))
    | TVar e c =>
        let pw := prefix_bits c in
        let nN := N_of_bits (get_bits P buf cap off pw) in
        if (N.of_nat c <? nN)%N then Err EBadLen
        else bind (wdx_array e (N.to_nat nN) buf cap (off + pw) (wd_list (wd_field P wd_body_x e) (N.to_nat nN) buf cap (off + pw)))
               (fun '(vs, o) => Ok (VArr vs, o))
    | TComp false fs _ => bind (wd_fields (wd_field P wd_body_x) fs buf cap off) (fun '(vs, o) => Ok (VStruct vs, o))
    | TComp true fs _ =>
        let tw := tag_bits (length fs) in
        let kN := N_of_bits (get_bits P buf cap off tw) in
        if (N.of_nat (length fs) <=? kN)%N then Err EBadTag
        else bind (wd_sel (wd_field P wd_body_x) fs (N.to_nat kN) buf cap (off + tw)) (fun '(v, o) =>
               Ok (VUnion (N.to_nat kN) v, o + pad8 o))
    end.

  Definition walk_des_x (t : ty) (buf : list bool) : res (val * nat) :=
    let cap := length buf in
    bind (wd_body_x t buf cap 0) (fun '(v, o) => Ok (v, Nat.min o cap / 8)).
End WalkXDes.
