(* The Python-shaped deserialization walker (Codec/PyDesWalker.v) returns exactly what the wire specification prescribes - value,
   error AND cursor - for every well-formed type, every whole-byte bit string, every position of the cursor and EVERY sound
   static alignment annotation, from abstract laws of the Deserializer members (`pyd_laws`):
     unsigned fetch of w bits = the w bits at the cursor of the zero-extended buffer read as a number (`read_N w (skipn off bs)`),
     signed fetch = `signed_of` of it, bit fetch = that bit, float fetch = the pattern, array-of-bits fetch = the n bits,
     array-of-standard-primitives fetch = the n consecutive w-bit fields (`raw_list`), skip / pad / remaining = cursor arithmetic,
     fork_bytes(h) = a new Deserializer over the window of exactly 8*h bits at the cursor, its own cursor at 0.
   Because nothing is clamped on the Python side the statement is an EQUALITY of results including the cursor
   (`pdw_body .. t pth bs off = shift off (dec_body t (skipn off bs))`); no `near`/`sim` relation as for C (RefineDesBase.v).
   The specification's delimited case decodes the nested body from `firstn (8*h) rest`, zero-extended inside: that is what
   fork_bytes + ZeroExtendingBuffer give.  The template's `assert bit_length_set.min <= consumed` (l.49) needs a
   specification-side fact proved here first: `dec_min`: the decoder never consumes less than `bmin t`. *)
From Verif Require Import Wire WireThm WireThmExt Refine RefineDesBase RefineSerBase PyDesWalker.
From Coq Require Import Lia ZifyBool ZifyNat ZifyN.
Local Open Scope nat_scope.
Ltac Zify.zify_post_hook ::= Z.div_mod_to_equations.

(* ---------- the laws ---------- *)
Definition sa_sound (sa : path -> nat -> bool) : Prop := forall pth off, sa pth off = true -> off mod 8 = 0.

(* n consecutive w-bit fields of the zero-extended stream *)
Fixpoint raw_list (w n : nat) (bs : list bool) : list N :=
  match n with O => [] | S n' => read_N w bs :: raw_list w n' (skipn w bs) end.

Record pyd_laws (Q : pydprims) : Prop := {
  law_uxx : forall w bs off, is_stdw w = true -> length bs mod 8 = 0 -> off mod 8 = 0 ->
    pd_uxx Q w bs off = Some (read_N w (skipn off bs), off + w);
  law_ixx : forall w bs off, is_stdw w = true -> length bs mod 8 = 0 -> off mod 8 = 0 ->
    pd_ixx Q w bs off = Some (signed_of w (read_N w (skipn off bs)), off + w);
  law_unsigned : forall al w bs off, 1 <= w -> length bs mod 8 = 0 -> (al = true -> off mod 8 = 0) ->
    pd_unsigned Q al w bs off = Some (read_N w (skipn off bs), off + w);
  law_signed : forall al w bs off, 2 <= w -> length bs mod 8 = 0 -> (al = true -> off mod 8 = 0) ->
    pd_signed Q al w bs off = Some (signed_of w (read_N w (skipn off bs)), off + w);
  law_bit : forall bs off, length bs mod 8 = 0 -> pd_bit Q bs off = (nth off bs false, off + 1);
  law_float : forall al w bs off, w = 16 \/ w = 32 \/ w = 64 -> length bs mod 8 = 0 -> (al = true -> off mod 8 = 0) ->
    pd_float Q al w bs off = Some (read_N w (skipn off bs), off + w);
  law_bits : forall al n bs off, length bs mod 8 = 0 -> (al = true -> off mod 8 = 0) ->
    pd_bits Q al n bs off = Some (take_ze n (skipn off bs), off + n);
  law_std : forall al w n bs off, is_stdw w = true -> length bs mod 8 = 0 -> (al = true -> off mod 8 = 0) ->
    pd_std Q al w n bs off = Some (raw_list w n (skipn off bs), off + n * w);
  law_skip : forall bs off k, pd_skip Q bs off k = off + k;
  law_pad : forall bs off a, 0 < a -> pd_pad Q bs off a = Some (off + padn off a);
  law_remaining : forall bs off, length bs mod 8 = 0 -> pd_remaining Q bs off = (Z.of_nat (length bs) - Z.of_nat off)%Z;
  law_fork : forall bs off h, length bs mod 8 = 0 -> off mod 8 = 0 -> 8 * N.to_nat h <= length bs - off ->
    pd_fork Q bs off h = Some (firstn (8 * N.to_nat h) (skipn off bs), 0);
}.

(* ---------- small facts ---------- *)
Lemma shift_0 {A} (r : res (A * nat)) : shift 0 r = r.
Proof. destruct r as [[v k]|e]; reflexivity. Qed.

Lemma padn_aligned off a : 0 < a -> off mod a = 0 -> padn off a = 0.
Proof. intros Ha H. unfold padn. rewrite H, Nat.sub_0_r. apply Nat.mod_same. lia. Qed.

Lemma nth0_skipn {A} (d : A) : forall off (l : list A), nth 0 (skipn off l) d = nth off l d.
Proof. induction off as [|off IH]; intros l; [reflexivity|]. destruct l as [|x l]; cbn [skipn nth]; [reflexivity | apply IH]. Qed.

Lemma bool_at bs off : match take_ze 1 (skipn off bs) with b :: _ => b | [] => false end = nth off bs false.
Proof. rewrite <- (nth0_skipn false off bs). destruct (skipn off bs); reflexivity. Qed.

Lemma is_stdw_len_width m : is_stdw (len_width m) = true.
Proof. destruct (len_width_cases m) as [-> | [-> | [-> | ->]]]; reflexivity. Qed.

Lemma is_stdw_cases w : is_stdw w = true -> w = 8 \/ w = 16 \/ w = 32 \/ w = 64.
Proof. unfold is_stdw. lia. Qed.

Lemma raw_list_length w : forall n bs, length (raw_list w n bs) = n.
Proof. induction n as [|n IH]; intros bs; cbn [raw_list length]; [reflexivity | rewrite IH; reflexivity]. Qed.

(* ---------- the specification's element loop over primitive elements, in closed form ---------- *)
Lemma dec_list_bool : forall n bs, dec_list (dec_field (TPrim PBool)) n bs = Ok (map VBool (take_ze n bs), n).
Proof.
  induction n as [|n IH]; intros bs; cbn [dec_list take_ze map]; [reflexivity|].
  unfold dec_field at 1, as_field_dec. cbn [dec_body bind prim_bits]. rewrite IH. cbn [bind].
  destruct bs as [|b r]; reflexivity.
Qed.

Lemma dec_list_std p : (forall bs, dec_prim p bs = val_of_raw p (read_N (prim_bits p) bs)) ->
  forall n bs, dec_list (dec_field (TPrim p)) n bs = Ok (map (val_of_raw p) (raw_list (prim_bits p) n bs), n * prim_bits p).
Proof.
  intros Hp. induction n as [|n IH]; intros bs; cbn [dec_list raw_list map]; [reflexivity|].
  unfold dec_field at 1, as_field_dec. cbn [dec_body bind]. rewrite IH. cbn [bind]. rewrite Hp. reflexivity.
Qed.

Lemma array_kind_bits e : array_kind e = ABits -> e = TPrim PBool.
Proof.
  destruct e as [p| | |]; cbn [array_kind]; try discriminate.
  destruct p as [|w s|w s|w s|w]; try destruct (is_stdw w); try discriminate. reflexivity.
Qed.

Lemma array_kind_std e p : array_kind e = AStd p ->
  e = TPrim p /\ is_stdw (prim_bits p) = true /\ forall bs, dec_prim p bs = val_of_raw p (read_N (prim_bits p) bs).
Proof.
  destruct e as [q| | |]; cbn [array_kind]; try discriminate.
  destruct q as [|w s|w s|w s|w]; try discriminate; destruct (is_stdw w) eqn:E; try discriminate;
    intros H; injection H as <-; cbn [prim_bits]; (split; [reflexivity|]); (split; [exact E|]); intros bs; reflexivity.
Qed.

(* ---------- the decoder consumes at least the minimum bit length (needed for the assertion of l.49) ---------- *)
Definition P_min (t : ty) : Prop := forall bs v k, dec_body t bs = Ok (v, k) -> bmin t <= k.
Definition P_minf (t : ty) : Prop := forall bs v k, dec_field t bs = Ok (v, k) -> fmin t <= k.

Lemma min_body_to_field t : P_min t -> P_minf t.
Proof.
  intros H bs v k. unfold dec_field, as_field_dec, fmin, as_field_min.
  destruct t as [p|e n|e c|u fs [x|]]; try apply H.
  destruct (_ <? _)%N; [discriminate|].
  destruct (dec_body _ _) as [[v0 k0]|]; cbn [bind]; [|discriminate].
  intros Hd. apply Ok_inj in Hd. injection Hd as _ <-. unfold header_bits. lia.
Qed.

Lemma min_list De lo : (forall bs v k, De bs = Ok (v, k) -> lo <= k) ->
  forall n bs vs k, dec_list De n bs = Ok (vs, k) -> n * lo <= k.
Proof.
  intros H. induction n as [|n IH]; intros bs vs k Hd; cbn [dec_list] in Hd; [lia|].
  destruct (De bs) as [[v0 k0]|] eqn:E0; cbn [bind] in Hd; [|discriminate].
  destruct (dec_list De n _) as [[vs0 m]|] eqn:E1; cbn [bind] in Hd; [|discriminate].
  apply Ok_inj in Hd. injection Hd as _ <-. apply H in E0. apply IH in E1. lia.
Qed.

Lemma min_fields fs : Forall P_minf fs -> forall bs off vs o,
  dec_fields dec_field fs bs off = Ok (vs, o) -> fields_sum fmin fs off <= o.
Proof.
  induction 1 as [|f fs Hf Hfs IH]; intros bs off vs o Hd; cbn [dec_fields fields_sum] in *.
  - apply Ok_inj in Hd. injection Hd as _ <-. lia.
  - destruct (dec_field f _) as [[v k]|] eqn:E0; cbn [bind] in Hd; [|discriminate].
    destruct (dec_fields dec_field fs _ _) as [[vs0 o0]|] eqn:E1; cbn [bind] in Hd; [|discriminate].
    apply Ok_inj in Hd. injection Hd as _ <-. apply Hf in E0. apply IH in E1.
    pose proof (fields_sum_mono fmin fs (off + padn off (align f) + fmin f) (off + padn off (align f) + k) ltac:(lia)). lia.
Qed.

Lemma dec_sel_in D fs : forall k bs v n, dec_sel D fs k bs = Ok (v, n) -> exists f, In f fs /\ D f bs = Ok (v, n).
Proof.
  induction fs as [|f fs IH]; intros k bs v n Hd; [destruct k; discriminate|].
  destruct k as [|k]; cbn [dec_sel] in Hd.
  - exists f. split; [left; reflexivity | exact Hd].
  - destruct (IH _ _ _ _ Hd) as (g & Hin & Hg). exists g. split; [right; exact Hin | exact Hg].
Qed.

Theorem dec_min_all : forall t, P_min t.
Proof.
  induction t as [p|e n IHe|e c IHe|u fs ext H] using ty_nested_ind; unfold P_min; intros bs v k Hd.
  - cbn [dec_body] in Hd. apply Ok_inj in Hd. injection Hd as _ <-. cbn [bmin]. lia.
  - cbn [dec_body bmin] in *. change (as_field_dec dec_body e) with (dec_field e) in Hd. fold (fmin e).
    destruct (dec_list _ n bs) as [[vs m]|] eqn:E; cbn [bind] in Hd; [|discriminate].
    apply Ok_inj in Hd. injection Hd as _ <-.
    apply (min_list (dec_field e) (fmin e) (min_body_to_field e IHe)) in E. exact E.
  - cbn [dec_body bmin] in *. destruct (_ <? _)%N; [discriminate|].
    destruct (dec_list _ _ _) as [[vs m]|]; cbn [bind] in Hd; [|discriminate].
    apply Ok_inj in Hd. injection Hd as _ <-. lia.
  - assert (Hf : Forall P_minf fs).
    { rewrite Forall_forall in *. intros f Hin. apply min_body_to_field. apply H. exact Hin. }
    destruct u; cbn [dec_body bmin] in *; change (as_field_dec dec_body) with dec_field in Hd; fold fmin.
    + destruct (_ <=? _)%N; [discriminate|].
      destruct (dec_sel _ _ _ _) as [[v0 m]|] eqn:Es; cbn [bind] in Hd; [|discriminate].
      apply Ok_inj in Hd. injection Hd as _ <-.
      destruct (dec_sel_in _ _ _ _ _ _ Es) as (f & Hin & Ef).
      rewrite Forall_forall in Hf. apply (Hf f Hin) in Ef.
      pose proof (fields_min_le fmin f fs Hin).
      apply rup8_mono. lia.
    + destruct (dec_fields _ fs bs 0) as [[vs m]|] eqn:E; cbn [bind] in Hd; [|discriminate].
      apply Ok_inj in Hd. injection Hd as _ <-. eapply min_fields; eassumption.
Qed.

Theorem dec_min : forall t bs v k, dec_body t bs = Ok (v, k) -> bmin t <= k.
Proof. intros t. apply dec_min_all. Qed.

(* ---------- the refinement ---------- *)
Section PyDesRefine.
  Variable Q : pydprims.
  Variable sa : path -> nat -> bool.
  Hypothesis HQ : pyd_laws Q.
  Hypothesis Hsa : sa_sound sa.

  Notation body := (pdw_body Q sa).
  Notation any := (pdw_any Q (pdw_body Q sa)).

  Definition P_body (t : ty) : Prop := wf_ty t = true -> forall pth bs off, length bs mod 8 = 0 -> off mod align t = 0 ->
    body t pth bs off = shift off (dec_body t (skipn off bs)).

  (* _deserialize_any pads first *)
  Definition P_anyp (t : ty) : Prop := wf_ty t = true -> forall pth bs off, length bs mod 8 = 0 ->
    any t pth bs off = shift (off + padn off (align t)) (dec_field t (skipn (off + padn off (align t)) bs)).

  Lemma pad_if t bs off : pdw_pad_if Q t bs off = Ok (off + padn off (align t)).
  Proof.
    unfold pdw_pad_if. destruct (align_cases t) as [A|A]; rewrite A.
    - cbn [Nat.ltb Nat.leb]. rewrite padn_1, Nat.add_0_r. reflexivity.
    - cbn [Nat.ltb Nat.leb]. rewrite (law_pad Q HQ) by lia. reflexivity.
  Qed.

  Lemma pdes_uint w pth bs off : 1 <= w -> length bs mod 8 = 0 ->
    pdw_uint Q sa w pth bs off = Ok (read_N w (skipn off bs), off + w).
  Proof.
    intros Hw Hl. unfold pdw_uint. destruct (is_stdw w && sa pth off) eqn:E.
    - apply andb_prop in E. destruct E as [E1 E2]. rewrite (law_uxx Q HQ w bs off E1 Hl (Hsa _ _ E2)). reflexivity.
    - rewrite (law_unsigned Q HQ (sa pth off) w bs off Hw Hl (Hsa pth off)). reflexivity.
  Qed.

  Lemma pdes_sint w pth bs off : 2 <= w -> length bs mod 8 = 0 ->
    pdw_sint Q sa w pth bs off = Ok (signed_of w (read_N w (skipn off bs)), off + w).
  Proof.
    intros Hw Hl. unfold pdw_sint. destruct (is_stdw w && sa pth off) eqn:E.
    - apply andb_prop in E. destruct E as [E1 E2]. rewrite (law_ixx Q HQ w bs off E1 Hl (Hsa _ _ E2)). reflexivity.
    - rewrite (law_signed Q HQ (sa pth off) w bs off Hw Hl (Hsa pth off)). reflexivity.
  Qed.

  Lemma body_to_any t : P_body t -> P_anyp t.
  Proof.
    intros H Hwf pth bs off Hl. unfold pdw_any. rewrite pad_if. cbn [bind].
    set (o1 := off + padn off (align t)).
    assert (Ha1 : o1 mod align t = 0) by apply rupn_aligned.
    assert (Hpost : forall v k, dec_body t (skipn o1 bs) = Ok (v, k) -> padn (o1 + k) (align t) = 0).
    { intros v k E. destruct (align_cases t) as [A|A]; rewrite A in *; [apply padn_1|].
      pose proof (dec_body_aligned t A _ _ _ E). rewrite padn_8. apply pad8_aligned. lia. }
    pose proof (H Hwf pth bs o1 Hl Ha1) as Hb.
    destruct t as [p|e n|e c|u fs [x|]].
    - cbn [is_comp]. rewrite Hb. unfold dec_field, as_field_dec.
      destruct (dec_body _ _) as [[v k]|e0] eqn:E; cbn [shift bind]; [|reflexivity].
      rewrite pad_if. cbn [bind]. rewrite (Hpost v k eq_refl), Nat.add_0_r. reflexivity.
    - cbn [is_comp]. rewrite Hb. unfold dec_field, as_field_dec.
      destruct (dec_body _ _) as [[v k]|e0] eqn:E; cbn [shift bind]; [|reflexivity].
      rewrite pad_if. cbn [bind]. rewrite (Hpost v k eq_refl), Nat.add_0_r. reflexivity.
    - cbn [is_comp]. rewrite Hb. unfold dec_field, as_field_dec.
      destruct (dec_body _ _) as [[v k]|e0] eqn:E; cbn [shift bind]; [|reflexivity].
      rewrite pad_if. cbn [bind]. rewrite (Hpost v k eq_refl), Nat.add_0_r. reflexivity.
    - (* delimited: header, check, fork, skip, nested _deserialize_ on the fork *)
      clear Hb Hpost. cbn [align] in Ha1. cbn [is_comp].
      rewrite (law_uxx Q HQ header_bits bs o1 eq_refl Hl Ha1). cbn [lift bind].
      rewrite (law_remaining Q HQ) by exact Hl. rewrite (law_skip Q HQ).
      unfold dec_field, as_field_dec. rewrite skipn_add, skipn_length.
      set (hN := read_N header_bits (skipn o1 bs)).
      destruct (N.ltb_spec (N.of_nat (length bs - (o1 + header_bits))) (8 * hN)) as [Hlt|Hge];
        destruct (Z.ltb_spec (Z.max (Z.of_nat (length bs) - Z.of_nat (o1 + header_bits)) 0) (Z.of_N hN * 8)) as [Hlt'|Hge'];
        try lia; [reflexivity|].
      assert (Hfit : 8 * N.to_nat hN <= length bs - (o1 + header_bits)) by lia.
      assert (Ha2 : (o1 + header_bits) mod 8 = 0) by (unfold header_bits; lia).
      rewrite (law_fork Q HQ bs (o1 + header_bits) hN Hl Ha2 Hfit). cbn [lift bind].
      set (nested := firstn (8 * N.to_nat hN) (skipn (o1 + header_bits) bs)).
      assert (Hln : length nested mod 8 = 0).
      { unfold nested. rewrite firstn_length, skipn_length. lia. }
      rewrite (H Hwf pth nested 0 Hln eq_refl). cbn [skipn]. rewrite shift_0.
      destruct (dec_body _ nested) as [[v k]|e0]; cbn [shift bind]; [|reflexivity].
      assert (Hm : (o1 + header_bits + N.to_nat hN * 8) mod 8 = 0) by lia.
      apply Nat.eqb_eq in Hm. rewrite Hm. f_equal. f_equal. lia.
    - (* sealed: the nested _deserialize_ on the same Deserializer *)
      cbn [is_comp]. rewrite Hb. unfold dec_field, as_field_dec.
      destruct (dec_body _ _) as [[v k]|e0] eqn:E; cbn [shift bind]; [|reflexivity].
      pose proof (dec_body_aligned (TComp u fs None) eq_refl _ _ _ E) as Hk. cbn [align] in Ha1.
      assert (Hm : (o1 + k) mod 8 = 0) by lia. apply Nat.eqb_eq in Hm. rewrite Hm. reflexivity.
  Qed.

  Lemma any_aligned t : P_anyp t -> wf_ty t = true -> forall pth bs off, length bs mod 8 = 0 -> off mod align t = 0 ->
    any t pth bs off = shift off (dec_field t (skipn off bs)).
  Proof.
    intros H Hwf pth bs off Hl Ha. rewrite (H Hwf pth bs off Hl).
    rewrite padn_aligned by (try exact Ha; destruct (align_cases t) as [-> | ->]; lia). rewrite Nat.add_0_r. reflexivity.
  Qed.

  Lemma pdes_list e pth : wf_ty e = true -> P_anyp e -> forall n bs off, length bs mod 8 = 0 -> off mod align e = 0 ->
    pdw_list (any e pth) n bs off = shift off (dec_list (dec_field e) n (skipn off bs)).
  Proof.
    intros Hwf He. induction n as [|n IH]; intros bs off Hl Ha; cbn [pdw_list dec_list].
    - cbn [shift]. rewrite Nat.add_0_r. reflexivity.
    - rewrite (any_aligned e He Hwf pth bs off Hl Ha).
      destruct (dec_field e (skipn off bs)) as [[v k]|err] eqn:E; cbn [shift bind]; [|reflexivity].
      assert (Ha' : (off + k) mod align e = 0).
      { destruct (align_cases e) as [A | A]; [rewrite A; apply Nat.mod_1_r|].
        pose proof (dec_field_aligned e A _ _ _ E) as Hk. rewrite A in *. lia. }
      rewrite (IH bs (off + k) Hl Ha'), skipn_add.
      destruct (dec_list (dec_field e) n (skipn (off + k) bs)) as [[vs m]|err]; cbn [shift bind]; [|reflexivity].
      rewrite Nat.add_assoc. reflexivity.
  Qed.

  Lemma pdes_array e pth : wf_ty e = true -> P_anyp e -> forall n bs off, length bs mod 8 = 0 -> off mod align e = 0 ->
    pdw_array Q sa (any e (0 :: pth)) e n pth bs off = shift off (dec_list (dec_field e) n (skipn off bs)).
  Proof.
    intros Hwf He n bs off Hl Ha. unfold pdw_array. destruct (array_kind e) as [|p|] eqn:K.
    - apply array_kind_bits in K. subst e.
      rewrite (law_bits Q HQ (sa pth off) n bs off Hl (Hsa pth off)). cbn [lift bind].
      rewrite take_ze_length, Nat.eqb_refl, dec_list_bool. cbn [shift]. reflexivity.
    - apply array_kind_std in K. destruct K as (-> & Hstd & Hraw).
      rewrite (law_std Q HQ (sa pth off) (prim_bits p) n bs off Hstd Hl (Hsa pth off)). cbn [lift bind].
      rewrite raw_list_length, Nat.eqb_refl, (dec_list_std p Hraw). cbn [shift]. reflexivity.
    - apply pdes_list; assumption.
  Qed.

  Lemma pdes_fields fs : Forall P_anyp fs -> forallb wf_ty fs = true -> forall i pth bs off, length bs mod 8 = 0 ->
    bind (pdw_fields any fs i pth bs off) (fun '(vs, o) => Ok (vs, o + pad8 o)) = dec_fields dec_field fs (skipn off bs) off.
  Proof.
    induction 1 as [|f fs Hf Hfs IH]; intros Hwf i pth bs off Hl; cbn [pdw_fields dec_fields bind]; [reflexivity|].
    cbn [forallb] in Hwf. apply andb_prop in Hwf. destruct Hwf as [Hwf1 Hwf2].
    rewrite (Hf Hwf1 (i :: pth) bs off Hl), skipn_add. set (p := padn off (align f)).
    destruct (dec_field f (skipn (off + p) bs)) as [[v k]|err]; cbn [shift bind]; [|reflexivity].
    rewrite skipn_add. replace (off + (p + k)) with (off + p + k) by lia.
    rewrite <- (IH Hwf2 (S i) pth bs (off + p + k) Hl).
    destruct (pdw_fields any fs (S i) pth bs (off + p + k)) as [[vs o]|err]; reflexivity.
  Qed.

  Lemma pdw_sel_oob D fs : forall i k pth bs off, length fs <= k -> pdw_sel D fs i k pth bs off = Err EBadTag.
  Proof.
    induction fs as [|f fs IH]; intros i k pth bs off H; [destruct k; reflexivity|].
    destruct k as [|k]; cbn [length] in H; [lia|]. cbn [pdw_sel]. apply IH. lia.
  Qed.

  Lemma pdes_sel fs : Forall P_anyp fs -> forallb wf_ty fs = true -> forall i k pth bs off,
    length bs mod 8 = 0 -> off mod 8 = 0 ->
    pdw_sel any fs i k pth bs off = shift off (dec_sel dec_field fs k (skipn off bs)).
  Proof.
    induction 1 as [|f fs Hf Hfs IH]; intros Hwf i k pth bs off Hl Ha; [destruct k; reflexivity|].
    cbn [forallb] in Hwf. apply andb_prop in Hwf. destruct Hwf as [Hwf1 Hwf2].
    destruct k as [|k]; cbn [pdw_sel dec_sel]; [|apply IH; assumption].
    apply any_aligned; [exact Hf | exact Hwf1 | exact Hl | apply mod_align; exact Ha].
  Qed.

  Theorem pdes_all : forall t, P_body t.
  Proof.
    induction t as [p|e n IHe|e c IHe|u fs ext H] using ty_nested_ind; unfold P_body; intros Hwf pth bs off Hl Ha.
    - (* primitives *)
      cbn [pdw_body dec_body shift wf_ty] in *. unfold pdw_prim.
      destruct p as [|w s|w s|w s|w]; cbn [prim_wf dec_prim prim_bits] in *.
      + rewrite (law_bit Q HQ bs off Hl), bool_at. reflexivity.
      + rewrite pdes_uint by (try exact Hl; lia). reflexivity.
      + rewrite pdes_sint by (try exact Hl; lia). reflexivity.
      + rewrite (law_float Q HQ (sa pth off) w bs off ltac:(lia) Hl (Hsa pth off)). reflexivity.
      + rewrite (law_skip Q HQ). reflexivity.
    - (* fixed array *)
      cbn [pdw_body dec_body align wf_ty] in *. change (as_field_dec dec_body e) with (dec_field e).
      rewrite (pdes_array e pth Hwf (body_to_any e IHe) n bs off Hl Ha).
      destruct (dec_list (dec_field e) n (skipn off bs)) as [[vs k]|err]; reflexivity.
    - (* variable array *)
      cbn [pdw_body dec_body align wf_ty] in *. change (as_field_dec dec_body e) with (dec_field e).
      apply andb_prop in Hwf. destruct Hwf as [Hwf _].
      pose proof (len_width_mod8 c) as Hw8. pose proof (len_width_cases c) as Hwc. unfold prefix_bits in *.
      rewrite pdes_uint by (try exact Hl; lia). cbn [bind].
      destruct (N.of_nat c <? read_N (len_width c) (skipn off bs))%N; [reflexivity|].
      assert (Ha' : (off + len_width c) mod align e = 0).
      { destruct (align_cases e) as [A | A]; rewrite A in *; [apply Nat.mod_1_r | lia]. }
      rewrite (pdes_array e pth Hwf (body_to_any e IHe) _ bs (off + len_width c) Hl Ha'), skipn_add.
      destruct (dec_list (dec_field e) _ (skipn (off + len_width c) bs)) as [[vs k]|err]; cbn [shift bind]; [|reflexivity].
      rewrite Nat.add_assoc. reflexivity.
    - (* composite *)
      assert (Hf : Forall P_anyp fs).
      { rewrite Forall_forall in *. intros f Hin. apply body_to_any. apply H. exact Hin. }
      assert (Hwfs : forallb wf_ty fs = true).
      { cbn [wf_ty] in Hwf. apply andb_prop in Hwf. destruct Hwf as [Hwf _]. apply andb_prop in Hwf. destruct Hwf as [Hwf _]. exact Hwf. }
      cbn [align] in Ha. pose proof (dec_min (TComp u fs ext) (skipn off bs)) as Hmin.
      cbn [pdw_body]. apply Nat.eqb_eq in Ha. rewrite Ha. cbn [negb]. apply Nat.eqb_eq in Ha.
      destruct u; cbn [dec_body] in *; change (as_field_dec dec_body) with dec_field in *.
      + (* union *)
        set (tw := tag_bits (length fs)) in *.
        assert (Htw : tw mod 8 = 0) by apply tag_bits_mod8.
        rewrite (law_uxx Q HQ tw bs off (is_stdw_len_width _) Hl Ha). cbn [lift bind].
        set (kN := read_N tw (skipn off bs)) in *.
        destruct (N.leb_spec (N.of_nat (length fs)) kN) as [Ek|Ek].
        { rewrite pdw_sel_oob by lia. reflexivity. }
        rewrite (pdes_sel fs Hf Hwfs 0 (N.to_nat kN) pth bs (off + tw) Hl ltac:(lia)).
        rewrite skipn_add in *.
        destruct (dec_sel dec_field fs (N.to_nat kN) (skipn (off + tw) bs)) as [[v m]|err]; cbn [shift bind] in *; [|reflexivity].
        rewrite (law_pad Q HQ) by lia. cbn [lift bind]. rewrite padn_8.
        specialize (Hmin _ _ eq_refl).
        assert (Hp : pad8 (off + tw + m) = pad8 (tw + m)) by (unfold pad8; lia). rewrite Hp.
        destruct (Nat.leb_spec (bmin (TComp true fs ext)) (off + tw + m + pad8 (tw + m) - off)) as [_|Hbad]; [|lia].
        f_equal. f_equal. lia.
      + (* structure *)
        pose proof (pdes_fields fs Hf Hwfs 0 pth bs off Hl) as S.
        rewrite (dec_fields_from dec_field fs off _ Ha) in S.
        destruct (pdw_fields any fs 0 pth bs off) as [[vs o]|err]; cbn [bind] in S |- *.
        * destruct (dec_fields dec_field fs (skipn off bs) 0) as [[vs' m]|err'] eqn:Ed; cbn [shift bind] in *; [|discriminate].
          apply Ok_inj in S. injection S as -> Hm.
          rewrite (law_pad Q HQ) by lia. cbn [lift bind]. rewrite padn_8, Hm.
          specialize (Hmin _ _ eq_refl).
          destruct (Nat.leb_spec (bmin (TComp false fs ext)) (off + m - off)) as [_|Hbad]; [|lia].
          reflexivity.
        * destruct (dec_fields dec_field fs (skipn off bs) 0) as [[vs' m]|err'] eqn:Ed; cbn [shift bind] in *; [discriminate|].
          injection S as ->. reflexivity.
  Qed.
End PyDesRefine.

(* ---- the Python deserialization refinement from the laws ---- *)
(* including the cursor: the generated `_deserialize_` leaves the Deserializer exactly where the specification's decoder stops *)
Theorem py_walk_body_refines_on : forall Q sa t bs, pyd_laws Q -> sa_sound sa -> wf_ty t = true -> length bs mod 8 = 0 ->
  pdw_body Q sa t [] bs 0 = dec_body t bs.
Proof.
  intros Q sa t bs HQ Hsa Hwf Hl.
  assert (H0 : 0 mod align t = 0) by (destruct (align_cases t) as [-> | ->]; reflexivity).
  rewrite (pdes_all Q sa HQ Hsa t Hwf [] bs 0 Hl H0). cbn [skipn]. apply shift_0.
Qed.

(* what nunavut_support.deserialize returns: the value / the error; no consumed size is reported *)
Theorem py_walk_des_refines_on : forall Q sa t bs, pyd_laws Q -> sa_sound sa -> wf_ty t = true -> length bs mod 8 = 0 ->
  py_walk_des Q sa t bs = res_val (des_spec t bs).
Proof.
  intros Q sa t bs HQ Hsa Hwf Hl. unfold py_walk_des, des_spec.
  rewrite (py_walk_body_refines_on Q sa t bs HQ Hsa Hwf Hl).
  destruct (dec_body t bs) as [[v k]|e]; reflexivity.
Qed.
