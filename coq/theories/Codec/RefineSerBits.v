(* Serialization refinement, part 1 (bit level): what the walker hands to the store primitive - the low bits of the storage
   object, after the saturation code that is emitted only for saturated non-standard widths - are exactly the bits the
   specification prescribes, PROVIDED the value fits the storage type of the generated field (`prim_storage_ok`: uintN_t /
   intN_t with N = std_width w).  Without that proviso the statement is false: a saturated standard-width field has no
   saturation code, the C type itself is the bound. *)
From Verif Require Import Wire WireThm Walker.
From Coq Require Import Lia ZifyBool ZifyNat ZifyN Znumtheory.
Local Open Scope nat_scope.

(* the value fits the C storage type the generator picks for the field *)
Definition prim_storage_ok (p : prim) (v : val) : bool :=
  match p, v with
  | PU w _, VInt z => (0 <=? z)%Z && (z <? pow2 (std_width w))%Z
  | PS w _, VInt z => (- pow2 (std_width w - 1) <=? z)%Z && (z <? pow2 (std_width w - 1))%Z
  | _, _ => true
  end.

Section StorageComb.
  Variable SO : ty -> val -> bool.
  Fixpoint storage_fields (fs : list ty) (vs : list val) : bool :=
    match fs, vs with f :: fs', v :: vs' => SO f v && storage_fields fs' vs' | _, _ => true end.
  Fixpoint storage_sel (fs : list ty) (k : nat) (x : val) : bool :=
    match fs, k with
    | [], _ => true
    | f :: _, O => SO f x
    | _ :: r, S k' => storage_sel r k' x
    end.
End StorageComb.

(* permissive on shape mismatches / bad lengths / bad tags: those are rejected identically by walker and specification *)
Fixpoint storage_ok (t : ty) (v : val) : bool :=
  match t, v with
  | TPrim p, _ => prim_storage_ok p v
  | TFix e _, VArr l => forallb (storage_ok e) l
  | TVar e _, VArr l => forallb (storage_ok e) l
  | TComp false fs _, VStruct vs => storage_fields storage_ok fs vs
  | TComp true fs _, VUnion k x => storage_sel storage_ok fs k x
  | _, _ => true
  end.

(* ---------- bits_of_N ---------- *)
Lemma firstn_bits_of_N w : forall sw x, w <= sw -> firstn w (bits_of_N sw x) = bits_of_N w x.
Proof.
  induction w as [|w IH]; intros sw x H; [reflexivity|]. destruct sw as [|sw]; [lia|].
  cbn [bits_of_N firstn]. f_equal. apply IH. lia.
Qed.

Lemma bits_of_N_testbit w : forall x y, (forall i, (i < N.of_nat w)%N -> N.testbit x i = N.testbit y i) ->
  bits_of_N w x = bits_of_N w y.
Proof.
  induction w as [|w IH]; intros x y H; [reflexivity|]. cbn [bits_of_N]. f_equal.
  - rewrite <- !N.bit0_odd. apply H. lia.
  - apply IH. intros i Hi. rewrite !N.div2_spec, !N.shiftr_spec'. apply H. lia.
Qed.

Lemma bits_of_N_mod w x : bits_of_N w (x mod 2 ^ N.of_nat w) = bits_of_N w x.
Proof. apply bits_of_N_testbit. intros i Hi. apply N.mod_pow2_bits_low. exact Hi. Qed.

Lemma pow2_pos w : (0 < pow2 w)%Z.
Proof. unfold pow2. apply Z.pow_pos_nonneg; lia. Qed.

Lemma pow2_to_N w : Z.to_N (pow2 w) = (2 ^ N.of_nat w)%N.
Proof. unfold pow2. rewrite Z2N.inj_pow by lia. f_equal. lia. Qed.

Lemma pow2_divide w sw : w <= sw -> (pow2 w | pow2 sw)%Z.
Proof.
  intros H. exists (pow2 (sw - w)). unfold pow2. rewrite <- Z.pow_add_r by lia. f_equal. lia.
Qed.

(* the low w bits of the sw-bit two's complement image of z are the w-bit two's complement image of z *)
Lemma low_bits w sw z : w <= sw ->
  firstn w (bits_of_N sw (Z.to_N (z mod pow2 sw))) = bits_of_N w (Z.to_N (z mod pow2 w)).
Proof.
  intros H. rewrite firstn_bits_of_N by exact H.
  rewrite <- (bits_of_N_mod w (Z.to_N (z mod pow2 sw))). f_equal.
  pose proof (pow2_pos w) as Hp. pose proof (pow2_pos sw) as Hq.
  rewrite <- pow2_to_N. rewrite <- Z2N.inj_mod by (try lia; apply Z.mod_pos_bound; lia).
  f_equal. symmetry. apply Zmod_div_mod; try lia. apply pow2_divide. exact H.
Qed.

(* ---------- storage widths ---------- *)
Lemma std_width_ge w : w <= 64 -> w <= std_width w.
Proof.
  unfold std_width. intros H.
  destruct (Nat.leb_spec w 8); [lia|]. destruct (Nat.leb_spec w 16); [lia|]. destruct (Nat.leb_spec w 32); lia.
Qed.

Lemma std_width_is_std w : is_std w = true -> std_width w = w.
Proof.
  unfold is_std, std_width. intros H.
  destruct (Nat.leb_spec w 8); [lia|]. destruct (Nat.leb_spec w 16); [lia|]. destruct (Nat.leb_spec w 32); lia.
Qed.

Lemma std_width_small w : w <= 8 -> std_width w = 8.
Proof. unfold std_width. intros H. destruct (Nat.leb_spec w 8); [reflexivity | lia]. Qed.

Lemma std_width_ge8 w : 8 <= std_width w.
Proof. unfold std_width. destruct (w <=? 8); [lia|]. destruct (w <=? 16); [lia|]. destruct (w <=? 32); lia. Qed.

(* ---------- the storage image against the wire image ---------- *)
Definition sb_len (p : prim) : nat :=
  match p with PBool => 8 | PU w _ | PS w _ => std_width w | PF w _ | PVoid w => w end.

Lemma storage_enc p v : prim_wf p = true -> prim_storage_ok p v = true ->
  match enc_prim p v with
  | Ok bits => exists sb, storage_bits p v = Some sb /\ length sb = sb_len p /\ firstn (prim_bits p) sb = bits
  | Err e => e = EShape /\ storage_bits p v = None
  end.
Proof.
  intros Hwf Hst.
  destruct p as [|w sat|w sat|w sat|w], v; cbn [enc_prim storage_bits]; try (split; reflexivity);
    cbn [prim_wf prim_storage_ok sb_len prim_bits] in *.
  - (* bool *) eexists. split; [reflexivity|]. split; reflexivity.
  - (* unsigned *)
    eexists. split; [reflexivity|]. split; [apply bits_of_N_length|].
    assert (Hw : w <= 64) by lia.
    rewrite low_bits by (apply std_width_ge; exact Hw). unfold cast_u.
    pose proof (pow2_pos w) as Hp.
    destruct sat; [|reflexivity].
    destruct (is_std w) eqn:Es; cbn [andb negb].
    + rewrite (std_width_is_std w Es) in Hst. unfold clampZ.
      destruct (Z.ltb_spec z 0); [lia|]. destruct (Z.ltb_spec (pow2 w - 1) z); [lia|].
      rewrite Z.mod_small by lia. reflexivity.
    + rewrite Z.mod_small; [reflexivity|]. unfold clampZ.
      destruct (Z.ltb_spec z 0); [lia|]. destruct (Z.ltb_spec (pow2 w - 1) z); lia.
  - (* signed *)
    eexists. split; [reflexivity|]. split; [apply bits_of_N_length|].
    assert (Hw : w <= 64) by lia.
    rewrite low_bits by (apply std_width_ge; exact Hw). unfold cast_s.
    destruct sat; [|reflexivity].
    destruct (is_std w) eqn:Es; cbn [andb negb]; [|reflexivity].
    rewrite (std_width_is_std w Es) in Hst. unfold clampZ.
    destruct (Z.ltb_spec z (- pow2 (w - 1))); [lia|]. destruct (Z.ltb_spec (pow2 (w - 1) - 1) z); [lia|]. reflexivity.
  - (* float *)
    eexists. split; [reflexivity|]. split; [apply bits_of_N_length|].
    apply firstn_all2. rewrite bits_of_N_length. lia.
  - (* void *)
    eexists. split; [reflexivity|]. split; [apply repeat_length|].
    apply firstn_all2. rewrite repeat_length. lia.
Qed.

(* non-vacuity and necessity of the storage proviso: a saturated uint8 field holding 300 (impossible in a uint8_t) would be
   emitted as 44 by the code shape, as 255 by the specification *)
Example storage_proviso_needed :
  prim_storage_ok (PU 8 true) (VInt 300) = false /\
  storage_bits (PU 8 true) (VInt 300) = Some (bits_of_N 8 44) /\ enc_prim (PU 8 true) (VInt 300) = Ok (bits_of_N 8 255).
Proof. vm_compute. repeat split; reflexivity. Qed.
