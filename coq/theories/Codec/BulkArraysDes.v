(* The bulk DEserialization path of the templates (ONE nunavutGetBits(image, buffer, capacity_bytes, off, n*w) into the array
   object, then the elements are the little-endian fields of the image) against the walker's element loop `wd_list`.
   Uses C14's get_bits_zero_ext (saturated fragment: bits beyond the capacity read as zero, the whole (n*w+7)/8 bytes of the
   destination are written, so the PREVIOUS CONTENT OF THE DESTINATION DOES NOT MATTER) and le_elems_bit. *)
From Verif Require Import Bits CPrims CPrimsThm PrimsExt PrimsExtThm.
From Verif Require Import Wire WireThm WireThmRt WireThmExt Walker Refine PrimsOn InstancesBase WalkerBound RefineDesBase RefineDes
  RefineSerBits InstancesC BulkArrays.
Local Open Scope nat_scope.

Lemma testbit_N_of_bits_N l (k : N) : N.testbit (N_of_bits l) k = nth (N.to_nat k) l false.
Proof. rewrite <- (N2Nat.id k) at 1. apply testbit_N_of_bits. Qed.

(* the raw field of w bits at o, as the walker reads it *)
Definition raw_field (buf : list bool) (cap o w : nat) : N := N_of_bits (take_ze w (skipn o (firstn cap buf))).

Theorem c_bulk_des_elements : forall buf cap off k n (output : list N),
  c_dom buf -> cap <= length buf -> cap mod 8 = 0 -> 0 < k -> (N.of_nat (off + n * (8 * k)) < two64)%N ->
  bytes_ok output -> k * n <= length output -> (8 * blen output < two64)%N ->
  exists r, CPrims.get_bits output (bytes_of_bits buf) (N.of_nat (cap / 8)) (N.of_nat off) (N.of_nat (n * (8 * k))) = Some r /\
            length r = length output /\
            forall i, i < n -> nth i (le_elems n k r) 0%N = raw_field buf cap (off + i * (8 * k)) (8 * k).
Proof.
  intros buf cap off k n output Hd Hc Hm Hk HB Hok Hout Halloc.
  assert (Hbm : length buf mod 8 = 0) by apply Hd. assert (HL : (N.of_nat (length buf) < two64)%N) by apply Hd.
  assert (Hbl : blen (bytes_of_bits buf) = N.of_nat (length buf / 8)) by (apply blen_bytes_of_bits; exact Hbm).
  set (len := N.of_nat (n * (8 * k))).
  assert (Hlen8 : ((len + 7) / 8 = N.of_nat (k * n))%N) by (unfold len; lia).
  assert (P1 : (N.of_nat (cap / 8) <= blen (bytes_of_bits buf))%N) by (rewrite Hbl; lia).
  assert (P2 : (8 * blen (bytes_of_bits buf) < two64)%N) by (rewrite Hbl; lia).
  assert (P3 : (N.of_nat off < two64)%N) by lia.
  assert (P4 : (len + 7 < two64)%N) by (unfold len, two64 in *; lia).
  assert (P5 : ((len + 7) / 8 <= blen output)%N) by (rewrite Hlen8; unfold blen; lia).
  destruct (get_bits_zero_ext output (bytes_of_bits buf) (N.of_nat (cap / 8)) (N.of_nat off) len P1 P2 P3 P4 P5 Halloc)
    as (r & E & Hlr & Hokr & Hbit).
  exists r. split; [exact E|]. split; [exact Hlr|].
  intros i Hi. apply N.bits_inj. intros kk.
  assert (Hrok : bytes_ok r) by (apply Hokr; [exact Hok | apply bytes_okb_ok, bytes_of_bits_ok]).
  rewrite (le_elems_bit n k r i kk Hrok Hi). unfold raw_field. rewrite testbit_N_of_bits_N.
  rewrite (nth_window buf cap (off + i * (8 * k)) (8 * k) (N.to_nat kk) Hc).
  destruct (N.ltb_spec kk (8 * N.of_nat k)) as [A|A]; destruct (Nat.ltb_spec (N.to_nat kk) (8 * k)) as [A'|A']; try lia;
    cbn [andb]; [|reflexivity].
  rewrite Hbit, Hlen8.
  destruct (N.ltb_spec (8 * N.of_nat k * N.of_nat i + kk) (8 * N.of_nat (k * n))) as [B|B]; [|nia].
  destruct (N.ltb_spec (8 * N.of_nat k * N.of_nat i + kk) len) as [C|C]; [|unfold len in C; nia]. cbn [andb].
  replace (N.of_nat off + (8 * N.of_nat k * N.of_nat i + kk))%N with (N.of_nat (off + i * (8 * k) + N.to_nat kk)) by nia.
  rewrite (bit_bytes_of_bits buf _ Hbm).
  destruct (N.ltb_spec (N.of_nat (off + i * (8 * k) + N.to_nat kk)) (8 * N.of_nat (cap / 8))) as [D|D];
    destruct (Nat.ltb_spec (off + i * (8 * k) + N.to_nat kk) cap) as [D'|D']; try lia; reflexivity.
Qed.

Lemma nth_map_seq {A} (f : nat -> A) (d : A) n i : i < n -> nth i (map f (seq 0 n)) d = f i.
Proof.
  intros H. rewrite (nth_indep _ d (f 0)) by (rewrite map_length, seq_length; exact H).
  rewrite map_nth, seq_nth by exact H. reflexivity.
Qed.

(* the walker's element loop over a primitive element type, element by element *)
Lemma wd_list_prim_seq P p buf cap : forall n off,
  wd_list (wd_field P (wd_body P) (TPrim p)) n buf cap off =
    Ok (map (fun i => r_prim P p buf cap (off + i * prim_bits p)) (seq 0 n), off + n * prim_bits p).
Proof.
  induction n as [|n IH]; intros off; cbn [wd_list seq map].
  - rewrite Nat.add_0_r. reflexivity.
  - cbn [wd_field wd_body bind]. rewrite IH. cbn [bind]. f_equal. f_equal.
    + f_equal; [f_equal; lia|]. rewrite <- seq_shift, map_map. apply map_ext. intros i. f_equal. lia.
    + lia.
Qed.

(* what the walker reads for one element is the value decoded from the raw field *)
Lemma c_r_prim_raw little p buf cap o : c_dom buf -> prim_wf p = true -> cap <= length buf -> cap mod 8 = 0 ->
  (N.of_nat (o + prim_bits p) < two64)%N ->
  r_prim (c_prims little) p buf cap o = dec_prim p (bits_of_N (prim_bits p) (raw_field buf cap o (prim_bits p))).
Proof.
  intros Hd Hwf Hc Hm HB. set (B := o + prim_bits p).
  rewrite <- (guard_r_prim (c_prims little) B buf p cap o (le_n _)).
  rewrite (r_prim_view (guard B (c_prims little)) buf (fun w => 1 <= w <= 64) (fun w H => H)
             (c_get_law little B buf Hd HB) p cap o (or_intror Hwf) Hc Hm).
  apply WireThmExt.dec_prim_agree. unfold WireThmExt.agree, raw_field, view.
  rewrite <- (take_ze_length (prim_bits p) (skipn o (firstn cap buf))) at 3. rewrite bits_of_N_of_bits.
  symmetry. rewrite WireThmExt.take_ze_firstn by (rewrite take_ze_length; lia).
  apply firstn_all2. rewrite take_ze_length. lia.
Qed.

(* ---- bulk deserialization = the element loop: the values decoded from the elements of the image ---- *)
Theorem c_bulk_des_equals_element_loop : forall little p buf cap off n (output : list N),
  prim_wf p = true -> std_prim p = true -> c_dom buf -> cap <= length buf -> cap mod 8 = 0 ->
  (N.of_nat (off + n * prim_bits p) < two64)%N ->
  bytes_ok output -> prim_bits p / 8 * n <= length output -> (8 * blen output < two64)%N ->
  exists r, CPrims.get_bits output (bytes_of_bits buf) (N.of_nat (cap / 8)) (N.of_nat off) (N.of_nat (n * prim_bits p)) = Some r /\
            wd_list (wd_field (c_prims little) (wd_body (c_prims little)) (TPrim p)) n buf cap off =
              Ok (map (fun x => dec_prim p (bits_of_N (prim_bits p) x)) (le_elems n (prim_bits p / 8) r), off + n * prim_bits p).
Proof.
  intros little p buf cap off n output Hwf Hstd Hd Hc Hm HB Hok Hout Halloc.
  destruct (std_prim_width p Hwf Hstd) as [Hw _]. set (w := prim_bits p) in *.
  assert (Hk : 8 * (w / 8) = w /\ 0 < w / 8) by (destruct (is_std_cases _ Hw) as [-> | [-> | [-> | ->]]]; split; reflexivity || lia).
  destruct Hk as [Hk8 Hk0].
  destruct (c_bulk_des_elements buf cap off (w / 8) n output Hd Hc Hm Hk0 ltac:(rewrite Hk8; exact HB) Hok Hout Halloc)
    as (r & E & _ & Hel).
  rewrite Hk8 in *. exists r. split; [exact E|].
  rewrite wd_list_prim_seq. fold w. f_equal. f_equal.
  apply (nth_ext _ _ (VBool false) (VBool false)).
  - rewrite !map_length, seq_length, le_elems_length. reflexivity.
  - intros i Hi. rewrite map_length, seq_length in Hi.
    rewrite nth_map_seq by exact Hi.
    rewrite (nth_indep _ (VBool false) (dec_prim p (bits_of_N w 0%N))) by (rewrite map_length, le_elems_length; exact Hi).
    rewrite (map_nth (fun x => dec_prim p (bits_of_N w x))). rewrite (Hel i Hi).
    apply c_r_prim_raw; try assumption. fold w. nia.
Qed.

(* ---- bit-packed bool arrays: nunavutGetBits into the packed object ---- *)
Theorem c_bulk_bool_des : forall buf cap off n (output : list N),
  c_dom buf -> cap <= length buf -> cap mod 8 = 0 -> (N.of_nat (off + n) < two64)%N ->
  (n + 7) / 8 <= length output -> (8 * blen output < two64)%N ->
  exists r, CPrims.get_bits output (bytes_of_bits buf) (N.of_nat (cap / 8)) (N.of_nat off) (N.of_nat n) = Some r /\
            forall i, i < 8 * ((n + 7) / 8) ->
              bit r (N.of_nat i) = if i <? n then nth (off + i) (firstn cap buf) false else false.
Proof.
  intros buf cap off n output Hd Hc Hm HB Hout Halloc.
  assert (Hbm : length buf mod 8 = 0) by apply Hd. assert (HL : (N.of_nat (length buf) < two64)%N) by apply Hd.
  assert (Hbl : blen (bytes_of_bits buf) = N.of_nat (length buf / 8)) by (apply blen_bytes_of_bits; exact Hbm).
  assert (P1 : (N.of_nat (cap / 8) <= blen (bytes_of_bits buf))%N) by (rewrite Hbl; lia).
  assert (P2 : (8 * blen (bytes_of_bits buf) < two64)%N) by (rewrite Hbl; lia).
  assert (P3 : (N.of_nat off < two64)%N) by lia.
  assert (P4 : (N.of_nat n + 7 < two64)%N) by (unfold blen, two64 in *; lia).
  assert (P5 : ((N.of_nat n + 7) / 8 <= blen output)%N) by (unfold blen; lia).
  destruct (get_bits_zero_ext output (bytes_of_bits buf) (N.of_nat (cap / 8)) (N.of_nat off) (N.of_nat n) P1 P2 P3 P4 P5 Halloc)
    as (r & E & _ & _ & Hbit).
  exists r. split; [exact E|]. intros i Hi. rewrite Hbit.
  destruct (N.ltb_spec (N.of_nat i) (8 * ((N.of_nat n + 7) / 8))) as [A|A]; [|lia].
  destruct (N.ltb_spec (N.of_nat i) (N.of_nat n)) as [B|B]; destruct (Nat.ltb_spec i n) as [B'|B']; try lia; cbn [andb]; try reflexivity.
  replace (N.of_nat off + N.of_nat i)%N with (N.of_nat (off + i)) by lia. rewrite (bit_bytes_of_bits buf _ Hbm).
  destruct (N.ltb_spec (N.of_nat (off + i)) (8 * N.of_nat (cap / 8))) as [D|D]; cbn [andb].
  - symmetry. apply nth_firstn_low. lia.
  - symmetry. apply nth_overflow. rewrite firstn_length. lia.
Qed.
