(* Deserialization refinement, part 2: the code-shaped walker decodes exactly as the wire specification prescribes, for EVERY
   type (all primitives, arrays of anything, nested sealed and delimited composites at any depth, unions with composite
   members), every byte string and every primitive record satisfying `prims_ok`.  This closes
   `Refine.walk_des_refines_statement` (no well-formedness hypothesis is needed in this direction).

   Shape of the proof: nested induction on the type of
     P_des t := for every capacity `cap` (a multiple of 8, at most the buffer length: the capacity handed to a nested delimited
                object is smaller than the buffer) and every cursor `off` aligned for t,
                  wd_body t buf cap off   ~sim cap~   shift off (dec_body t (skipn off (firstn cap buf)))
   where `sim` (RefineDesBase.v) allows the two cursors to differ once both are at/past the capacity: that is what the clamped
   size of nested sealed objects produces.  Sequencing lemmas (arrays, fields, union members) are stated for two cursors
   related by `near`; when they differ both sides decode the empty stream. *)
From Verif Require Import Wire WireThm WireThmExt Walker Refine RefineDesBase PrimsOn.
From Coq Require Import Lia ZifyBool ZifyNat ZifyN.
Local Open Scope nat_scope.
Ltac Zify.zify_post_hook ::= Z.div_mod_to_equations.

Section RefineDes.
  Variable P : prims.
  Variable buf : list bool.
  (* the only thing assumed of the primitives: reads of the widths in Wd (at least 1..64) from THIS buffer (PrimsOn.get_law) *)
  Variable Wd : nat -> Prop.
  Hypothesis HWd : forall w, 1 <= w <= 64 -> Wd w.
  Hypothesis Hget : get_law P Wd buf.

  (* the widths the type makes the walker read are allowed: all widths are, or the type is well-formed (fields of 1..64 bits) *)
  Definition okW (t : ty) : Prop := (forall w, Wd w) \/ wf_ty t = true.

  Lemma okW_prim p : okW (TPrim p) -> Wd (prim_bits p).
  Proof.
    intros [H|H]; [apply H|]. apply HWd. cbn [wf_ty] in H.
    destruct p; cbn [prim_wf prim_bits] in *; lia.
  Qed.

  Lemma okW_fix e n : okW (TFix e n) -> okW e.
  Proof. intros [H|H]; [left; exact H | right; exact H]. Qed.

  Lemma okW_var e c : okW (TVar e c) -> okW e.
  Proof. intros [H|H]; [left; exact H|]. right. cbn [wf_ty] in H. apply andb_prop in H. apply H. Qed.

  Lemma okW_fields u fs ext : okW (TComp u fs ext) -> Forall okW fs.
  Proof.
    intros [H|H]; apply Forall_forall; intros f Hin; [left; exact H|]. right.
    cbn [wf_ty] in H. apply andb_prop in H. destruct H as [H _]. apply andb_prop in H. destruct H as [H _].
    rewrite forallb_forall in H. apply H. exact Hin.
  Qed.

  Lemma Wd_len_width m : Wd (len_width m).
  Proof. apply HWd. destruct (len_width_cases m) as [-> | [-> | [-> | ->]]]; lia. Qed.

  Lemma Wd_header : Wd header_bits.
  Proof. apply HWd. unfold header_bits. lia. Qed.

  Definition view (cap : nat) : list bool := firstn cap buf.

  Lemma view_len cap : cap <= length buf -> length (view cap) = cap.
  Proof. intros H. unfold view. apply firstn_length_le. exact H. Qed.

  Lemma get_view cap off w : Wd w -> cap <= length buf -> cap mod 8 = 0 ->
    get_bits P buf cap off w = take_ze w (skipn off (view cap)).
  Proof. intros HW Hc Hm. apply Hget; assumption. Qed.

  Lemma view_beyond cap off : cap <= length buf -> cap <= off -> skipn off (view cap) = [].
  Proof. intros Hc H. apply skipn_all2. rewrite (view_len cap Hc). exact H. Qed.

  Lemma r_prim_view p cap off : okW (TPrim p) -> cap <= length buf -> cap mod 8 = 0 ->
    r_prim P p buf cap off = dec_prim p (skipn off (view cap)).
  Proof.
    intros Hok Hc Hm. pose proof (okW_prim p Hok) as HWp. assert (HW1 : Wd 1) by (apply HWd; lia).
    destruct p; cbn [r_prim dec_prim prim_bits] in *; rewrite ?(get_view cap off _ HWp Hc Hm), ?(get_view cap off 1 HW1 Hc Hm);
      unfold read_N; try reflexivity.
    - (* bool: `if (offset_bits < capacity_bits)` *)
      destruct (Nat.ltb_spec off cap) as [Hlt|Hge]; [reflexivity|].
      rewrite view_beyond by assumption. reflexivity.
    - (* unsigned: guarded aligned byte load *)
      destruct (off mod 8 =? 0) eqn:Ea; destruct (w <=? 8) eqn:Ew; cbn [andb]; try reflexivity.
      destruct (Nat.leb_spec (off + w) cap) as [Hle|Hgt]; [reflexivity|].
      apply Nat.eqb_eq in Ea. apply Nat.leb_le in Ew.
      assert (Hge : cap <= off) by lia.
      rewrite view_beyond by assumption. rewrite take_ze_nil', N_of_bits_zeros. reflexivity.
  Qed.

  Definition P_des (t : ty) : Prop := okW t -> forall cap off, cap <= length buf -> cap mod 8 = 0 -> off mod align t = 0 ->
    sim cap (wd_body P t buf cap off) (shift off (dec_body t (skipn off (view cap)))).

  Definition P_desf1 (t : ty) : Prop := okW t -> forall cap off, cap <= length buf -> cap mod 8 = 0 -> off mod align t = 0 ->
    sim cap (wd_field P (wd_body P) t buf cap off) (shift off (dec_field t (skipn off (view cap)))).

  Definition P_desf (t : ty) : Prop := okW t -> forall cap ow os, cap <= length buf -> cap mod 8 = 0 -> ow mod align t = 0 ->
    near cap ow os ->
    sim cap (wd_field P (wd_body P) t buf cap ow) (shift os (dec_field t (skipn os (view cap)))).

  (* nested composites as fields: the clamped size of sealed ones, the bounded sub-buffer of delimited ones *)
  Lemma des_body_to_field1 t : P_des t -> P_desf1 t.
  Proof.
    intros H Hok cap off Hc Hm Ha. unfold dec_field, as_field_dec.
    destruct t as [p|e n|e c|u fs [x|]]; try (apply H; assumption).
    - (* delimited: header check, decode within header bytes, cursor += header value *)
      cbn [wd_field]. cbn [align] in Ha. rewrite (get_view cap off header_bits Wd_header Hc Hm).
      fold (read_N header_bits (skipn off (view cap))).
      set (hN := read_N header_bits (skipn off (view cap))).
      rewrite skipn_add, skipn_length, (view_len cap Hc).
      assert (Hb : (N.of_nat (cap / 8 - Nat.min ((off + header_bits) / 8) (cap / 8)) <? hN)%N
                   = (N.of_nat (cap - (off + header_bits)) <? 8 * hN)%N).
      { unfold header_bits. destruct (N.ltb_spec (N.of_nat (cap - (off + 32))) (8 * hN));
          destruct (N.ltb_spec (N.of_nat (cap / 8 - Nat.min ((off + 32) / 8) (cap / 8))) hN); try reflexivity; lia. }
      rewrite Hb. destruct (N.ltb_spec (N.of_nat (cap - (off + header_bits))) (8 * hN)) as [Hlt|Hge];
        [cbn [shift sim]; reflexivity|].
      set (h := N.to_nat hN). set (o := off + header_bits).
      assert (Ho : o mod 8 = 0) by (unfold o, header_bits; lia).
      assert (Hsub : skipn o (view (Nat.min cap (o + 8 * h))) = firstn (8 * h) (skipn o (view cap))).
      { unfold view. rewrite !skipn_firstn_comm, firstn_firstn. f_equal. lia. }
      assert (Hc' : Nat.min cap (o + 8 * h) <= length buf) by lia.
      assert (Hm' : Nat.min cap (o + 8 * h) mod 8 = 0) by lia.
      pose proof (H Hok (Nat.min cap (o + 8 * h)) o Hc' Hm' Ho) as S. rewrite Hsub in S.
      destruct (dec_body (TComp u fs (Some x)) (firstn (8 * h) (skipn o (view cap)))) as [[v k]|e];
        destruct (wd_body P (TComp u fs (Some x)) buf (Nat.min cap (o + 8 * h)) o) as [[v' o']|e'];
        cbn [shift sim bind] in *; try contradiction; [|exact S].
      destruct S as [-> _]. split; [reflexivity|]. unfold near, o. split; [f_equal; lia | left; lia].
    - (* sealed: handed the rest of the buffer, cursor advanced by the clamped size it reports *)
      cbn [wd_field]. cbn [align] in Ha.
      pose proof (H Hok cap off Hc Hm Ha) as S.
      destruct (dec_body (TComp u fs None) (skipn off (view cap))) as [[v k]|e] eqn:E;
        destruct (wd_body P (TComp u fs None) buf cap off) as [[v' o']|e'];
        cbn [shift sim bind] in *; try contradiction; [|exact S].
      destruct S as [-> [Hmod Hnear]]. split; [reflexivity|].
      pose proof (dec_body_aligned (TComp u fs None) eq_refl _ _ _ E) as Hk.
      unfold near. lia.
  Qed.

  (* two cursors: when they differ both stand at/past the capacity and both decoders see the empty stream *)
  Lemma des_field1_to_field t : P_desf1 t -> P_desf t.
  Proof.
    intros H Hok cap ow os Hc Hm Ha [Hmod [->|[H1 H2]]]; [apply H; assumption|].
    pose proof (H Hok cap ow Hc Hm Ha) as S.
    rewrite (view_beyond cap ow Hc H1) in S. rewrite (view_beyond cap os Hc H2).
    destruct (dec_field t []) as [[v k]|e]; destruct (wd_field P (wd_body P) t buf cap ow) as [[v' o']|e'];
      cbn [shift sim] in *; try contradiction; [|exact S].
    destruct S as [-> S]. split; [reflexivity|]. unfold near in *. lia.
  Qed.

  Lemma des_body_to_field t : P_des t -> P_desf t.
  Proof. intros H. apply des_field1_to_field, des_body_to_field1, H. Qed.

  Lemma des_list e : okW e -> P_desf e -> forall n cap ow os, cap <= length buf -> cap mod 8 = 0 -> ow mod align e = 0 ->
    near cap ow os ->
    sim cap (wd_list (wd_field P (wd_body P) e) n buf cap ow) (shift os (dec_list (dec_field e) n (skipn os (view cap)))).
  Proof.
    intros Hok He. induction n as [|n IH]; intros cap ow os Hc Hm Ha Hn; cbn [wd_list dec_list].
    - cbn [shift sim]. split; [reflexivity|]. rewrite Nat.add_0_r. exact Hn.
    - pose proof (He Hok cap ow os Hc Hm Ha Hn) as S.
      destruct (dec_field e (skipn os (view cap))) as [[v k]|err] eqn:E;
        destruct (wd_field P (wd_body P) e buf cap ow) as [[v' o']|err'];
        cbn [shift sim bind] in *; try contradiction; [|exact S].
      destruct S as [-> Hn'].
      assert (Ha' : o' mod align e = 0).
      { destruct (align_cases e) as [A | A]; [rewrite A; apply Nat.mod_1_r|].
        pose proof (dec_field_aligned e A _ _ _ E) as Hk. rewrite A in *. unfold near in *. lia. }
      pose proof (IH cap o' (os + k) Hc Hm Ha' Hn') as S. rewrite skipn_add.
      destruct (dec_list (dec_field e) n (skipn (os + k) (view cap))) as [[vs m]|err];
        destruct (wd_list (wd_field P (wd_body P) e) n buf cap o') as [[vs' o'']|err'];
        cbn [shift sim bind] in *; try contradiction; [|exact S].
      destruct S as [-> S]. split; [reflexivity|]. rewrite Nat.add_assoc. exact S.
  Qed.

  Lemma des_fields fs : Forall P_desf fs -> Forall okW fs -> forall cap ow os, cap <= length buf -> cap mod 8 = 0 -> near cap ow os ->
    sim cap (wd_fields (wd_field P (wd_body P)) fs buf cap ow) (dec_fields dec_field fs (skipn os (view cap)) os).
  Proof.
    induction 1 as [|f fs Hf Hfs IH]; intros Hoks cap ow os Hc Hm Hn; cbn [wd_fields dec_fields].
    - cbn [sim]. split; [reflexivity|]. unfold near, pad8 in *. lia.
    - inversion Hoks as [|? ? Hok1 Hok2]; subst.
      assert (Hp : padn ow (align f) = padn os (align f)) by (apply padn_cong; apply Hn).
      rewrite Hp. set (p := padn os (align f)).
      assert (Hn1 : near cap (ow + p) (os + p)) by (unfold near in *; lia).
      assert (Ha1 : (ow + p) mod align f = 0) by (unfold p; rewrite <- Hp; apply rupn_aligned).
      pose proof (Hf Hok1 cap (ow + p) (os + p) Hc Hm Ha1 Hn1) as S. rewrite skipn_add.
      destruct (dec_field f (skipn (os + p) (view cap))) as [[v k]|err];
        destruct (wd_field P (wd_body P) f buf cap (ow + p)) as [[v' o']|err'];
        cbn [shift sim bind] in *; try contradiction; [|exact S].
      destruct S as [-> Hn'].
      pose proof (IH Hok2 cap o' (os + p + k) Hc Hm Hn') as S. rewrite skipn_add, Nat.add_assoc.
      destruct (dec_fields dec_field fs (skipn (os + p + k) (view cap)) (os + p + k)) as [[vs m]|err];
        destruct (wd_fields (wd_field P (wd_body P)) fs buf cap o') as [[vs' o'']|err'];
        cbn [sim bind] in *; try contradiction; [|exact S].
      destruct S as [-> S]. split; [reflexivity | exact S].
  Qed.

  Lemma des_sel fs : Forall P_desf fs -> Forall okW fs -> forall k cap off, cap <= length buf -> cap mod 8 = 0 -> off mod 8 = 0 ->
    sim cap (wd_sel (wd_field P (wd_body P)) fs k buf cap off) (shift off (dec_sel dec_field fs k (skipn off (view cap)))).
  Proof.
    induction 1 as [|f fs Hf Hfs IH]; intros Hoks k cap off Hc Hm Ha; [destruct k; cbn [wd_sel dec_sel shift sim]; reflexivity|].
    inversion Hoks as [|? ? Hok1 Hok2]; subst.
    destruct k as [|k]; cbn [wd_sel dec_sel]; [|apply IH; assumption].
    apply Hf; [assumption | assumption | assumption | apply mod_align; exact Ha | apply near_refl].
  Qed.

  Theorem des_all : forall t, P_des t.
  Proof.
    induction t as [p|e n IHe|e c IHe|u fs ext H] using ty_nested_ind; unfold P_des; intros Hok cap off Hc Hm Ha.
    - (* primitive *)
      cbn [wd_body dec_body shift sim]. rewrite r_prim_view by assumption. split; [reflexivity | apply near_refl].
    - (* fixed array *)
      cbn [wd_body dec_body align] in *. change (as_field_dec dec_body) with dec_field.
      pose proof (des_list e (okW_fix e n Hok) (des_body_to_field e IHe) n cap off off Hc Hm Ha (near_refl cap off)) as S.
      destruct (dec_list (dec_field e) n (skipn off (view cap))) as [[vs k]|err];
        destruct (wd_list (wd_field P (wd_body P) e) n buf cap off) as [[vs' o']|err'];
        cbn [shift sim bind] in *; try contradiction; [|exact S].
      destruct S as [-> S]. split; [reflexivity | exact S].
    - (* variable array *)
      cbn [wd_body dec_body align] in *. change (as_field_dec dec_body) with dec_field.
      rewrite (get_view cap off (prefix_bits c) (Wd_len_width c) Hc Hm). fold (read_N (prefix_bits c) (skipn off (view cap))).
      destruct (N.of_nat c <? read_N (prefix_bits c) (skipn off (view cap)))%N; [cbn [shift sim]; reflexivity|].
      set (n := N.to_nat (read_N (prefix_bits c) (skipn off (view cap)))).
      assert (Ha' : (off + prefix_bits c) mod align e = 0).
      { pose proof (len_width_mod8 c) as Hw. unfold prefix_bits.
        destruct (align_cases e) as [A | A]; rewrite A in *; [apply Nat.mod_1_r | lia]. }
      pose proof (des_list e (okW_var e c Hok) (des_body_to_field e IHe) n cap _ _ Hc Hm Ha' (near_refl cap (off + prefix_bits c))) as S.
      rewrite skipn_add.
      destruct (dec_list (dec_field e) n (skipn (off + prefix_bits c) (view cap))) as [[vs k]|err];
        destruct (wd_list (wd_field P (wd_body P) e) n buf cap (off + prefix_bits c)) as [[vs' o']|err'];
        cbn [shift sim bind] in *; try contradiction; [|exact S].
      destruct S as [-> S]. split; [reflexivity|]. rewrite Nat.add_assoc. exact S.
    - (* composite *)
      assert (Hf : Forall P_desf fs).
      { rewrite Forall_forall in *. intros f Hin. apply des_body_to_field. apply H. exact Hin. }
      cbn [align] in Ha. pose proof (okW_fields u fs ext Hok) as Hoks.
      destruct u; cbn [wd_body dec_body]; change (as_field_dec dec_body) with dec_field.
      + (* union *)
        set (tw := tag_bits (length fs)).
        rewrite (get_view cap off tw (Wd_len_width (length fs - 1)) Hc Hm). fold (read_N tw (skipn off (view cap))).
        destruct (N.of_nat (length fs) <=? read_N tw (skipn off (view cap)))%N; [cbn [shift sim]; reflexivity|].
        set (k := N.to_nat (read_N tw (skipn off (view cap)))).
        assert (Htw : tw mod 8 = 0) by apply tag_bits_mod8.
        assert (Ha' : (off + tw) mod 8 = 0) by lia.
        pose proof (des_sel fs Hf Hoks k cap (off + tw) Hc Hm Ha') as S. rewrite skipn_add.
        destruct (dec_sel dec_field fs k (skipn (off + tw) (view cap))) as [[v m]|err];
          destruct (wd_sel (wd_field P (wd_body P)) fs k buf cap (off + tw)) as [[v' o']|err'];
          cbn [shift sim bind] in *; try contradiction; [|exact S].
        destruct S as [-> S]. split; [reflexivity|]. unfold near, pad8 in *. lia.
      + (* structure *)
        pose proof (des_fields fs Hf Hoks cap off off Hc Hm (near_refl cap off)) as S.
        rewrite (dec_fields_from dec_field fs off _ Ha) in S.
        destruct (dec_fields dec_field fs (skipn off (view cap)) 0) as [[vs m]|err];
          destruct (wd_fields (wd_field P (wd_body P)) fs buf cap off) as [[vs' o']|err'];
          cbn [shift sim bind] in *; try contradiction; [|exact S].
        destruct S as [-> S]. split; [reflexivity | exact S].
  Qed.
End RefineDes.

(* ---- the deserialization refinement from the restricted read law (PrimsOn.get_law): this is the form that is instantiated
   with the shipped primitives (Codec/Instances*.v) ---- *)
Theorem walk_des_refines_on : forall P (Wd : nat -> Prop) t bits,
  (forall w, 1 <= w <= 64 -> Wd w) -> get_law P Wd bits -> ((forall w, Wd w) \/ wf_ty t = true) ->
  length bits mod 8 = 0 -> walk_des P t bits = des_spec t bits.
Proof.
  intros P Wd t bits HWd Hget Hok Hb. unfold walk_des, des_spec.
  assert (H0 : 0 mod align t = 0) by (destruct (align_cases t) as [-> | ->]; reflexivity).
  pose proof (des_all P bits Wd HWd Hget t Hok (length bits) 0 (le_n _) Hb H0) as S.
  unfold view in S. rewrite firstn_all in S. cbn [skipn] in S.
  destruct (dec_body t bits) as [[v k]|err]; destruct (wd_body P t bits (length bits) 0) as [[v' o']|err'];
    cbn [shift sim bind] in *; try contradiction; [|f_equal; exact S].
  destruct S as [-> S]. f_equal. f_equal. unfold near in S. cbn [plus] in S. lia.
Qed.

(* ---- the full deserialization refinement: Refine.walk_des_refines_statement holds ---- *)
Theorem walk_des_refines_all : forall P t bits, prims_ok P -> length bits mod 8 = 0 -> walk_des P t bits = des_spec t bits.
Proof.
  intros P t bits HP Hb. apply (walk_des_refines_on P (fun _ => True)); [trivial | apply prims_ok_get_law; exact HP | left; trivial | exact Hb].
Qed.

Theorem walk_des_refines_statement_holds : walk_des_refines_statement.
Proof. intros P t bits HP _ Hb. apply walk_des_refines_all; assumption. Qed.

Theorem walk_des_refines_bytes : forall t bytes, walk_des_obs t bytes = des_spec t (bits_of_bytes bytes).
Proof.
  intros t bytes. unfold walk_des_obs. apply walk_des_refines_all; [apply ref_prims_ok|].
  rewrite bits_of_bytes_len. lia.
Qed.

(* consequence: everything proved about the specification's decoder transfers to the walker, e.g. the reported size never
   exceeds the supplied one, and decoding a serialization returns the cast value *)
Corollary walk_des_consumed_le : forall P t bits v c, prims_ok P -> length bits mod 8 = 0 ->
  walk_des P t bits = Ok (v, c) -> 8 * c <= length bits.
Proof. intros P t bits v c HP Hb H. rewrite walk_des_refines_all in H by assumption. eapply des_consumed_le. exact H. Qed.
