(* C03: the code-level theorems.  The observables of Codec/ObsC03.v (TARGET-SHAPED walkers over the shipped C / C++ / Python primitive
   models, with the build gate and the epilogue assertions) are PROVED equal to the wire specification - via the refinement theorems
   InstancesX.c_walk_ser_x_refines, InstancesXDes.c_walk_des_x_refines (C templates incl. the little-endian memmove and bulk-copy paths),
   CppWalkerInst.cppw_walk_{ser,des}_refines (C++ templates), InstancesPySer.py_walk_ser_refines, PyDesWalkerInst.pyd_walk_des_refines_sa
   (Python templates) - and cross-target agreement,
   option independence, round trip, re-serialization and des-ser-des stability are derived from that.  Nothing is by reflexivity on
   a definition that ignores its arguments: every equality below goes through a refinement theorem and its side conditions. *)
From Verif Require Import Wire WireThm WireThmRt WireThmExt WireThmValid TargetsC03 TargetPreThm WireThmC03.
From Verif Require Import Walker WalkerBound RefineSerBits WalkerSafeThm ObsC03.
From Coq Require Import Lia ZifyBool ZifyNat ZifyN.
Local Open Scope nat_scope.
Ltac Zify.zify_post_hook ::= Z.div_mod_to_equations.

(* ---------- the epilogue assertions never fire on what the specification prescribes ---------- *)
Lemma ser_asserts_spec on t v cap : wf_ty t = true -> align t = 8 -> ser_asserts on t (ser_spec t v cap) = ser_spec t v cap.
Proof.
  intros Hwf Ha. unfold ser_spec. destruct (8 * cap <? bmax t); [reflexivity|].
  destruct (enc_body t v) as [b|e] eqn:E; [|reflexivity].
  destruct (enc_len_bounds t v b Hwf E) as [[Hlo Hhi] Hm]. specialize (Hm Ha).
  unfold ser_asserts, ser_epilogue_ok.
  assert (H1 : (bmin t <=? length b) = true) by (apply Nat.leb_le; exact Hlo).
  assert (H2 : (length b <=? bmax t) = true) by (apply Nat.leb_le; exact Hhi).
  assert (H3 : (length b mod 8 =? 0) = true) by (apply Nat.eqb_eq; exact Hm).
  rewrite H1, H2, H3. cbn [andb negb]. rewrite andb_false_r. reflexivity.
Qed.

Lemma des_asserts_spec on t bits : des_asserts on (length bits) (des_spec t bits) = des_spec t bits.
Proof.
  destruct (des_spec t bits) as [[v c]|e] eqn:E; [|reflexivity].
  pose proof (des_consumed_le t bits v c E) as H. unfold des_asserts.
  assert (H1 : (8 * c <=? length bits) = true) by (apply Nat.leb_le; exact H). rewrite H1. cbn [negb]. rewrite andb_false_r. reflexivity.
Qed.

(* ---------- DOMAIN of the assertion claims (audit3 D3).  C03's observables are built on WalkerSafe.std_cfg: the up-front capacity test
   of _serialize_impl is compiled in and no array capacity is overridden, i.e. enable_override_variable_array_capacity is off, or on
   without any -D..._ARRAY_CAPACITY_ macro (the only way the check builds it).  With a reduced capacity macro the test is compiled out
   and the INNER assertion of _serialize_any aborts on a valid call: that configuration is outside every statement of C03 (C04 models
   it).  Inside the domain also the inner assertion never fires: C04's theorem for the access-logging walker, instantiated. ---------- *)
Theorem obs_cfg_domain : forall l, up_front (std_cfg l) = true /\ (forall e n, ov (std_cfg l) e n = n) /\ little (std_cfg l) = l.
Proof. intros l. repeat split. Qed.

Theorem inner_ser_assert_never_fires : forall l t o capB, wf_ty t = true -> align t = 8 ->
  fst (walk_ser_safe (std_cfg l) t o capB) <> Err EAssert.
Proof.
  intros l t o capB Hwf Ha. apply ser_asserts_never_fire_checked; try assumption; try reflexivity.
  right. intros e n. apply le_n.
Qed.

(* ---------- each observable IS the specification (applied to the target's pre-adjusted value) ---------- *)
Lemma gate_ok {A} tg o t (r : res A) : buildable tg o t = true -> gate tg o t r = r.
Proof. intros H. unfold gate. rewrite H. reflexivity. Qed.

Theorem obs_ser_c : forall o u fs ext v buf cap, wf_ty (TComp u fs ext) = true -> buildable TgC o (TComp u fs ext) = true ->
  buf_ok buf cap -> storage_ok (TComp u fs ext) v = true ->
  obs_ser TgC o (TComp u fs ext) v buf cap = spec_ser TgC (TComp u fs ext) v cap.
Proof.
  intros o u fs ext v buf cap Hwf Hb [Hl HB] Hst. unfold obs_ser, spec_ser, target_pre. rewrite gate_ok by exact Hb.
  rewrite (c_walk_ser_x_refines (is_little o) u fs ext v buf cap Hwf Hl HB Hst). apply ser_asserts_spec; [exact Hwf | reflexivity].
Qed.

Theorem obs_ser_cpp : forall o u fs ext v buf cap, wf_ty (TComp u fs ext) = true -> buildable TgCpp o (TComp u fs ext) = true ->
  buf_ok buf cap -> storage_ok (TComp u fs ext) v = true ->
  obs_ser TgCpp o (TComp u fs ext) v buf cap = spec_ser TgCpp (TComp u fs ext) v cap.
Proof.
  intros o u fs ext v buf cap Hwf Hb [Hl HB] Hst. unfold obs_ser, spec_ser, target_pre. rewrite gate_ok by exact Hb.
  rewrite (cppw_walk_ser_refines u fs ext v buf cap Hwf Hl HB Hst). apply ser_asserts_spec; [exact Hwf | reflexivity].
Qed.

Theorem obs_ser_py : forall o u fs ext v buf cap, wf_ty (TComp u fs ext) = true -> bmax (TComp u fs ext) <= 8 * cap ->
  obs_ser TgPy o (TComp u fs ext) v buf cap = spec_ser TgPy (TComp u fs ext) v cap.
Proof.
  intros o u fs ext v buf cap Hwf Hge. unfold obs_ser, spec_ser, target_pre.
  rewrite (py_walk_ser_refines u fs ext v cap Hwf Hge). apply ser_asserts_spec; [exact Hwf | reflexivity].
Qed.

(* one statement for the three: the side conditions each target needs *)
Definition ser_side (tg : target) (o : options) (t : ty) (v : val) (buf : list bool) (cap : nat) : Prop :=
  match tg with
  | TgPy => bmax t <= 8 * cap
  | _ => buildable tg o t = true /\ buf_ok buf cap /\ storage_ok t v = true
  end.

Theorem obs_ser_is_spec : forall tg o u fs ext v buf cap, wf_ty (TComp u fs ext) = true ->
  ser_side tg o (TComp u fs ext) v buf cap ->
  obs_ser tg o (TComp u fs ext) v buf cap = spec_ser tg (TComp u fs ext) v cap.
Proof.
  intros tg o u fs ext v buf cap Hwf Hs. destruct tg; cbn [ser_side] in Hs.
  - destruct Hs as (? & ? & ?). apply obs_ser_c; assumption.
  - destruct Hs as (? & ? & ?). apply obs_ser_cpp; assumption.
  - apply obs_ser_py; assumption.
Qed.

Lemma with_size_spec tg t bits : tg <> TgPy -> with_size (des_spec t bits) = spec_des tg t bits.
Proof. intros H. unfold with_size, spec_des. destruct (des_spec t bits) as [[v c]|e]; [|reflexivity]. destruct tg; try contradiction; reflexivity. Qed.

Theorem obs_des_is_spec : forall tg o t bits, wf_ty t = true -> buildable tg o t = true -> input_ok t bits ->
  obs_des tg o t bits = spec_des tg t bits.
Proof.
  intros tg o t bits Hwf Hb [Hm HB]. destruct tg; unfold obs_des.
  - rewrite gate_ok by exact Hb. rewrite (c_walk_des_x_refines (is_little o) t bits Hwf Hm HB), des_asserts_spec.
    apply with_size_spec. discriminate.
  - rewrite gate_ok by exact Hb. rewrite (cppw_walk_des_refines t bits Hwf Hm ltac:(lia)), des_asserts_spec.
    apply with_size_spec. discriminate.
  - rewrite (pyd_walk_des_refines_sa sa_dyn t bits sa_dyn_sound Hwf Hm). unfold no_size, res_val, spec_des.
    destruct (des_spec t bits) as [[v c]|e]; reflexivity.
Qed.

(* ---------- cross-target and cross-option agreement ---------- *)
(* any two targets, any two option sets, any two initial buffer contents: same bytes / same error, whenever no float16 field holds
   an exact tie *)
Theorem cross_target_ser : forall tg1 tg2 o1 o2 u fs ext v buf1 buf2 cap, wf_ty (TComp u fs ext) = true ->
  ser_side tg1 o1 (TComp u fs ext) v buf1 cap -> ser_side tg2 o2 (TComp u fs ext) v buf2 cap ->
  no_f16_tie (TComp u fs ext) v = true ->
  obs_ser tg1 o1 (TComp u fs ext) v buf1 cap = obs_ser tg2 o2 (TComp u fs ext) v buf2 cap.
Proof.
  intros tg1 tg2 o1 o2 u fs ext v buf1 buf2 cap Hwf H1 H2 Hn.
  rewrite (obs_ser_is_spec tg1 o1 u fs ext v buf1 cap Hwf H1), (obs_ser_is_spec tg2 o2 u fs ext v buf2 cap Hwf H2).
  apply spec_cross_target_partial. exact Hn.
Qed.

(* C and C++ agree on every value, ties included (they share the float16 pack function), under every option set *)
Theorem cross_target_ser_c_family : forall tg1 tg2 o1 o2 u fs ext v buf1 buf2 cap, tg1 <> TgPy -> tg2 <> TgPy ->
  wf_ty (TComp u fs ext) = true -> ser_side tg1 o1 (TComp u fs ext) v buf1 cap -> ser_side tg2 o2 (TComp u fs ext) v buf2 cap ->
  obs_ser tg1 o1 (TComp u fs ext) v buf1 cap = obs_ser tg2 o2 (TComp u fs ext) v buf2 cap.
Proof.
  intros tg1 tg2 o1 o2 u fs ext v buf1 buf2 cap N1 N2 Hwf S1 S2.
  rewrite (obs_ser_is_spec tg1 o1 u fs ext v buf1 cap Hwf S1), (obs_ser_is_spec tg2 o2 u fs ext v buf2 cap Hwf S2).
  destruct tg1, tg2; try contradiction; reflexivity.
Qed.

(* the option set (target_endianness: the memmove / bulk-copy template paths and the support rendering; enable_serialization_asserts;
   omit_float_serialization_support wherever the program exists) and the initial buffer content are unobservable *)
Theorem option_indep_ser : forall tg o1 o2 u fs ext v buf1 buf2 cap, wf_ty (TComp u fs ext) = true ->
  ser_side tg o1 (TComp u fs ext) v buf1 cap -> ser_side tg o2 (TComp u fs ext) v buf2 cap ->
  obs_ser tg o1 (TComp u fs ext) v buf1 cap = obs_ser tg o2 (TComp u fs ext) v buf2 cap.
Proof.
  intros tg o1 o2 u fs ext v buf1 buf2 cap Hwf H1 H2.
  rewrite (obs_ser_is_spec tg o1 u fs ext v buf1 cap Hwf H1), (obs_ser_is_spec tg o2 u fs ext v buf2 cap Hwf H2). reflexivity.
Qed.

(* decoded VALUES agree across all targets; C and C++ also agree on the consumed size (Python does not report one) *)
Theorem cross_target_des : forall tg1 tg2 o1 o2 t bits, wf_ty t = true -> buildable tg1 o1 t = true -> buildable tg2 o2 t = true ->
  input_ok t bits -> dobs_val (obs_des tg1 o1 t bits) = dobs_val (obs_des tg2 o2 t bits).
Proof.
  intros tg1 tg2 o1 o2 t bits Hwf B1 B2 Hin. rewrite !obs_des_is_spec by assumption. unfold spec_des.
  destruct (des_spec t bits) as [[v c]|e]; reflexivity.
Qed.

Theorem cross_target_des_c_family : forall tg1 tg2 o1 o2 t bits, tg1 <> TgPy -> tg2 <> TgPy -> wf_ty t = true ->
  buildable tg1 o1 t = true -> buildable tg2 o2 t = true -> input_ok t bits -> obs_des tg1 o1 t bits = obs_des tg2 o2 t bits.
Proof.
  intros tg1 tg2 o1 o2 t bits N1 N2 Hwf B1 B2 Hin. rewrite !obs_des_is_spec by assumption.
  destruct tg1, tg2; try contradiction; reflexivity.
Qed.

Theorem option_indep_des : forall tg o1 o2 t bits, wf_ty t = true -> buildable tg o1 t = true -> buildable tg o2 t = true ->
  input_ok t bits -> obs_des tg o1 t bits = obs_des tg o2 t bits.
Proof. intros. rewrite !obs_des_is_spec by assumption. reflexivity. Qed.

(* omit_float_serialization_support: a float-free type is buildable under every option set *)
Theorem float_free_buildable : forall tg o t, uses_float t = false -> buildable tg o t = true.
Proof. intros tg o t H. unfold buildable. rewrite H, andb_false_r. destruct tg; reflexivity. Qed.

(* the full statement "all three targets emit the same bytes" is false of the models of the shipped code: F-F16-TIE *)
Theorem obs_f16_tie_refuted :
  obs_ser TgC default_options tie_ty tie_val (repeat true 16) 2 = Ok (bits_of_N 16 15361) /\
  obs_ser TgCpp default_options tie_ty tie_val (repeat true 16) 2 = Ok (bits_of_N 16 15361) /\
  obs_ser TgPy default_options tie_ty tie_val (repeat true 16) 2 = Ok (bits_of_N 16 15360) /\
  no_f16_tie tie_ty tie_val = false.
Proof. vm_compute. repeat split; reflexivity. Qed.

(* ---------- values that went through a cast fit the storage types ---------- *)
Lemma pow2_mono a b : a <= b -> (pow2 a <= pow2 b)%Z.
Proof. intros H. unfold pow2. apply Z.pow_le_mono_r; lia. Qed.

Lemma prim_storage_cast p v : prim_wf p = true -> prim_storage_ok p (cast_prim p v) = true.
Proof.
  intros Hwf. unfold cast_prim. destruct (enc_prim p v) as [b|e] eqn:E.
  - destruct p as [|w sat|w sat|w sat|w], v; cbn [enc_prim] in E; try discriminate; cbn [dec_prim prim_storage_ok]; try reflexivity;
      cbn [prim_wf] in Hwf; apply andb_prop in Hwf as [Hw1 Hw2]; apply Nat.leb_le in Hw1, Hw2;
      pose proof (std_width_ge w Hw2) as Hs; pose proof (read_N_lt w b) as Hr; apply of_N_lt in Hr.
    + pose proof (pow2_mono w (std_width w) Hs). apply andb_true_intro. split; [apply Z.leb_le | apply Z.ltb_lt]; lia.
    + pose proof (pow2_mono (w - 1) (std_width w - 1) ltac:(lia)) as Hm. pose proof (pow2_half w ltac:(lia)) as Hh.
      unfold signed_of. apply andb_true_intro.
      destruct (Z.of_N (read_N w b) <? pow2 (w - 1))%Z eqn:El; [apply Z.ltb_lt in El | apply Z.ltb_ge in El];
        (split; [apply Z.leb_le | apply Z.ltb_lt]); pose proof (pow2_pos' (std_width w - 1)); lia.
  - destruct p, v; cbn [enc_prim] in E; try discriminate; reflexivity.
Qed.

Lemma storage_fields_cast C SO fs : Forall (fun f => forall v, SO f (C f v) = true) fs ->
  forall vs, storage_fields SO fs (cast_fields C fs vs) = true.
Proof.
  induction 1 as [|f fs Hf _ IH]; intros vs; [destruct vs; reflexivity|].
  destruct vs as [|x vs]; [reflexivity|]. cbn [cast_fields storage_fields]. rewrite Hf, IH. reflexivity.
Qed.

Lemma storage_sel_cast C SO fs : Forall (fun f => forall v, SO f (C f v) = true) fs ->
  forall k x, storage_sel SO fs k (cast_sel C fs k x) = true.
Proof.
  induction 1 as [|f fs Hf _ IH]; intros k x; [destruct k; reflexivity|].
  destruct k; cbn [cast_sel storage_sel]; auto.
Qed.

Theorem cast_storage_ok : forall t, wf_ty t = true -> forall v, storage_ok t (cast_val t v) = true.
Proof.
  induction t as [p|t m IHt|t c IHt|u fs ext H] using ty_nested_ind; intros Hwf v.
  - cbn [cast_val storage_ok wf_ty] in *. apply prim_storage_cast. exact Hwf.
  - cbn [wf_ty] in Hwf. destruct v; cbn [cast_val storage_ok]; try reflexivity; try (apply prim_storage_cast).
    apply forallb_forall. intros y Hy. apply in_map_iff in Hy as [x [<- _]]. apply IHt. exact Hwf.
  - cbn [wf_ty] in Hwf. apply andb_prop in Hwf as [Hwf _]. destruct v; cbn [cast_val storage_ok]; try reflexivity.
    apply forallb_forall. intros y Hy. apply in_map_iff in Hy as [x [<- _]]. apply IHt. exact Hwf.
  - assert (Hwfs : forallb wf_ty fs = true).
    { cbn [wf_ty] in Hwf. apply andb_prop in Hwf. destruct Hwf as [Hwf _]. apply andb_prop in Hwf. destruct Hwf as [Hwf _]. exact Hwf. }
    assert (HF : Forall (fun f => forall v, storage_ok f (cast_val f v) = true) fs).
    { rewrite Forall_forall in *. intros f Hin. apply H; [exact Hin|]. rewrite forallb_forall in Hwfs. apply Hwfs. exact Hin. }
    destruct u, v; cbn [cast_val storage_ok]; try reflexivity.
    + apply (storage_sel_cast cast_val storage_ok). exact HF.
    + apply (storage_fields_cast cast_val storage_ok). exact HF.
Qed.

(* ---------- round trip through the GENERATED code: serialize with any target, deserialize with any target ---------- *)
Lemma ok_len_mod8 : forall t v cap b, wf_ty t = true -> align t = 8 -> ser_spec t v cap = Ok b -> length b mod 8 = 0.
Proof.
  unfold ser_spec. intros t v cap b Hwf Ha H. destruct (8 * cap <? bmax t); [discriminate|].
  destruct (enc_len_bounds t v b Hwf H) as [_ Hm]. exact (Hm Ha).
Qed.

Theorem obs_roundtrip : forall tg tg' o o' u fs ext v buf cap b r, wf_ty (TComp u fs ext) = true ->
  ser_side tg o (TComp u fs ext) v buf cap -> obs_ser tg o (TComp u fs ext) v buf cap = Ok b ->
  buildable tg' o' (TComp u fs ext) = true -> input_ok (TComp u fs ext) (b ++ r) ->
  obs_des tg' o' (TComp u fs ext) (b ++ r) =
    Ok (cast_val (TComp u fs ext) (target_pre tg (TComp u fs ext) v), consumed_of tg' (length b / 8)).
Proof.
  intros tg tg' o o' u fs ext v buf cap b r Hwf Hs Hser Hb Hin.
  rewrite (obs_ser_is_spec tg o u fs ext v buf cap Hwf Hs) in Hser.
  rewrite (obs_des_is_spec tg' o' _ _ Hwf Hb Hin). unfold spec_des.
  rewrite (spec_roundtrip tg _ v cap b r Hwf eq_refl Hser). reflexivity.
Qed.

(* serializing the deserialized value again - same target, any option sets, any buffers - yields the identical bytes *)
Theorem obs_reser : forall tg o o' o'' u fs ext v buf buf' cap b v' k, wf_ty (TComp u fs ext) = true ->
  ser_side tg o (TComp u fs ext) v buf cap -> obs_ser tg o (TComp u fs ext) v buf cap = Ok b ->
  buildable tg o' (TComp u fs ext) = true -> input_ok (TComp u fs ext) b -> obs_des tg o' (TComp u fs ext) b = Ok (v', k) ->
  (tg <> TgPy -> buildable tg o'' (TComp u fs ext) = true /\ buf_ok buf' cap) ->
  obs_ser tg o'' (TComp u fs ext) v' buf' cap = Ok b.
Proof.
  intros tg o o' o'' u fs ext v buf buf' cap b v' k Hwf Hs Hser Hbd Hin Hdes Hb'.
  pose proof (obs_roundtrip tg tg o o' u fs ext v buf cap b [] Hwf Hs Hser Hbd) as Hr. rewrite app_nil_r in Hr.
  rewrite (Hr Hin) in Hdes. apply Ok_inj in Hdes. apply pair_equal_spec in Hdes. destruct Hdes as [<- _].
  rewrite (obs_ser_is_spec tg o u fs ext v buf cap Hwf Hs) in Hser.
  assert (Hs' : ser_side tg o'' (TComp u fs ext) (cast_val (TComp u fs ext) (target_pre tg (TComp u fs ext) v)) buf' cap).
  { destruct tg; cbn [ser_side] in *; try exact Hs;
      (destruct Hb' as [B1 B2]; [discriminate|]; split; [exact B1 | split; [exact B2 | apply cast_storage_ok; exact Hwf]]). }
  rewrite (obs_ser_is_spec tg o'' u fs ext _ buf' cap Hwf Hs').
  exact (spec_reser tg (TComp u fs ext) v cap b Hwf eq_refl Hser).
Qed.

(* des . ser . des = des through the generated code, at the VALUE level, float16 NaN payload canonicalisation excluded:
   deserialize any byte string with any target, serialize the value with any target, deserialize with any target *)
Theorem obs_des_ser_des : forall tg1 tg2 tg3 o1 o2 o3 u fs ext bits v k buf cap b, wf_ty (TComp u fs ext) = true ->
  buildable tg1 o1 (TComp u fs ext) = true -> input_ok (TComp u fs ext) bits -> obs_des tg1 o1 (TComp u fs ext) bits = Ok (v, k) ->
  f16_nans_canonical (TComp u fs ext) v = true ->
  (tg2 <> TgPy -> buildable tg2 o2 (TComp u fs ext) = true /\ buf_ok buf cap) -> (tg2 = TgPy -> bmax (TComp u fs ext) <= 8 * cap) ->
  obs_ser tg2 o2 (TComp u fs ext) v buf cap = Ok b ->
  buildable tg3 o3 (TComp u fs ext) = true -> input_ok (TComp u fs ext) b ->
  obs_des tg3 o3 (TComp u fs ext) b = Ok (v, consumed_of tg3 (length b / 8)).
Proof.
  intros tg1 tg2 tg3 o1 o2 o3 u fs ext bits v k buf cap b Hwf Hb1 Hin Hd Hn Hb Hc Hser Hb3 Hinb.
  rewrite (obs_des_is_spec tg1 o1 (TComp u fs ext) bits Hwf Hb1 Hin) in Hd.
  assert (Hds : exists c, des_spec (TComp u fs ext) bits = Ok (v, c)).
  { unfold spec_des in Hd. destruct (des_spec (TComp u fs ext) bits) as [[v0 c]|e]; [|discriminate].
    apply Ok_inj in Hd. apply pair_equal_spec in Hd. destruct Hd as [<- _]. exists c. reflexivity. }
  destruct Hds as [c Hds].
  assert (Hdec : exists n, dec_body (TComp u fs ext) bits = Ok (v, n)).
  { unfold des_spec in Hds. destruct (dec_body (TComp u fs ext) bits) as [[v1 n]|] eqn:E1; cbn [bind] in Hds; [|discriminate].
    apply Ok_inj in Hds. apply pair_equal_spec in Hds. destruct Hds as [<- _]. exists n. reflexivity. }
  destruct Hdec as [n Hdec].
  pose proof (dec_cast_fix (TComp u fs ext) bits v n Hwf Hdec Hn) as Hfix.
  assert (Hs : ser_side tg2 o2 (TComp u fs ext) v buf cap).
  { destruct tg2; cbn [ser_side]; try (apply Hc; reflexivity);
      (destruct Hb as [B1 B2]; [discriminate|]; split; [exact B1 | split; [exact B2 | rewrite <- Hfix; apply cast_storage_ok; exact Hwf]]). }
  rewrite (obs_ser_is_spec tg2 o2 u fs ext v buf cap Hwf Hs) in Hser.
  assert (Hpre : target_pre tg2 (TComp u fs ext) v = v).
  { destruct tg2; try reflexivity. apply py_pre_id. exact (dec_no_tie (TComp u fs ext) bits v n Hwf Hdec Hn). }
  unfold spec_ser in Hser. rewrite Hpre in Hser.
  rewrite (obs_des_is_spec tg3 o3 (TComp u fs ext) b Hwf Hb3 Hinb). unfold spec_des.
  rewrite (des_ser_des_value_partial (TComp u fs ext) bits v c cap b Hwf eq_refl Hds Hn Hser). reflexivity.
Qed.

(* non-vacuity: the observables really run the target-shaped walkers over the shipped primitive models; a truncated uint13 holding
   0xFFFF at a byte-aligned offset takes the little-endian memmove path (16 storage bits stored, the surplus overwritten by the next
   field), an array of uint16 the bulk nunavutCopyBits path - the same bytes as the portable rendering and as C++ / Python *)
Example obs_example_options :
  let t := TComp false [TPrim (PU 13 false); TPrim (PU 3 true); TFix (TPrim (PU 16 true)) 2; TPrim (PVoid 7); TPrim (PS 13 true);
                        TPrim (PF 16 false)] None in
  let v := VStruct [VInt 65535; VInt 9; VArr [VInt 258; VInt 772]; VVoid; VInt (-5000); VFlt 1065357313%N] in
  obs_ser TgC (mk_options EndLittle false true) t v (repeat true 88) 11 = obs_ser TgC (mk_options EndBig false false) t v (repeat false 88) 11 /\
  obs_ser TgC (mk_options EndLittle false true) t v (repeat true 88) 11 = obs_ser TgCpp (mk_options EndAny false true) t v (repeat true 88) 11 /\
  obs_ser TgCpp default_options t v (repeat true 88) 11 = obs_ser TgPy default_options t v [] 11 /\
  obs_ser TgC (mk_options EndLittle false false) t v (repeat true 88) 11 = ser_spec t v 11 /\
  obs_ser TgC (mk_options EndAny true false) t v (repeat true 88) 11 = Err EShape.
Proof. vm_compute. repeat split; reflexivity. Qed.
