(* The C serialization walker EXTENDED with the two families of fast paths that the C templates take and Codec/Walker.v abstracts
   (audit C01 #3, #5):
     - the little-endian memmove path of `_serialize_integer`: byte-aligned, target_endianness = little, more than 8 bits ->
       `memmove(&buffer[off/8], &value, ceil(w/8))`, i.e. a store of the first 8*ceil(w/8) STORAGE bits (for a 13-bit field 16 bits:
       the 3 surplus bits are whatever the storage object holds - high bits of a truncated value, sign extension of a negative one),
       cursor += w.  Floats (2/4/8 bytes) and the delimiter header (4 bytes) are memmoved with exactly w bits: no surplus, the same
       store as the generic path at bit level;
     - the bulk array paths: when `WalkerSafe.bulk c e` says so (bool elements: bit-packed storage; `is zero_cost_primitive`
       elements: little-endian + standard width - the TRANSLATED predicate of Generated/Gen_C01.v), the whole array is ONE
       nunavutCopyBits(buffer, off, n*w, object, 0) call (`copy`) from the array object, whose bits are the concatenated element
       storage images; otherwise the element loop.
   Everything else is Codec/Walker.v verbatim (its combinators `ws_field`, `ws_list`, `ws_fields`, `ws_sel`, `w_set`, `w_pad` are reused).
   `c : WalkerSafe.cfg` supplies `little c` and `bulk c`.  NO PROOFS in this file (Codec/RefineSerX.v). *)
From Verif Require Import WalkerSafe.
From Verif Require Import Wire Walker.
Local Open Scope nat_scope.

Definition ceil8 (w : nat) : nat := 8 * ((w + 7) / 8).

(* the bits of one element inside the array object: bool -> one bit of the bit-packed array; standard width -> the storage object *)
Definition elem_bits (p : prim) (v : val) : option (list bool) :=
  match storage_bits p v with Some sb => Some (firstn (prim_bits p) sb) | None => None end.

Fixpoint bulk_bits (p : prim) (l : list val) : option (list bool) :=
  match l with
  | [] => Some []
  | x :: r => match elem_bits p x, bulk_bits p r with Some a, Some b => Some (a ++ b) | _, _ => None end
  end.

Section WalkX.
  Variable P : prims.
  Variable copy : list bool -> nat -> list bool -> option (list bool).     (* nunavutCopyBits(&buffer[0], off, |bits|, object, 0) *)
  Variable c : cfg.

  Definition wx_prim (p : prim) (v : val) (buf : list bool) (off : nat) : wres :=
    match storage_bits p v with
    | None => Err EShape
    | Some sb =>
        let w := prim_bits p in
        let aligned := off mod 8 =? 0 in
        match p with
        | PBool | PU _ _ | PS _ _ =>
            if aligned && (w <=? 8)
            then bind (w_set P buf off (firstn 8 sb)) (fun '(b, _) => Ok (b, off + w))            (* buffer[off/8] = (uint8_t) v *)
            else if aligned && little c
            then bind (w_set P buf off (firstn (ceil8 w) sb)) (fun '(b, _) => Ok (b, off + w))    (* memmove ceil(w/8) bytes *)
            else w_set P buf off (firstn w sb)                                                     (* nunavutSet[UI]xx *)
        | _ => w_set P buf off (firstn w sb)                              (* floats: memmove of exactly w/8 bytes or nunavutSetF* *)
        end
    end.

  (* an array: one CopyBits call when the templates take the bulk path, else the element loop *)
  Definition wx_array (e : ty) (l : list val) (buf : list bool) (off : nat) (loop : wres) : wres :=
    match e, bulk c e with
    | TPrim p, Some _ =>
        match bulk_bits p l with
        | Some B => match copy buf off B with Some b => Ok (b, off + length B) | None => Err ETooSmall end
        | None => Err EShape
        end
    | _, _ => loop
    end.

  Fixpoint ws_body_x (t : ty) (v : val) (buf : list bool) (off : nat) : wres :=
    match t with
    | TPrim p => wx_prim p v buf off
    | TFix e n =>
        match v with
        | VArr l => if length l =? n then wx_array e l buf off (ws_list (ws_field P ws_body_x e) l buf off) else Err EShape
        | _ => Err EShape
        end
    | TVar e cap =>
        match v with
        | VArr l =>
            if cap <? length l then Err EBadLen
            else bind (w_set P buf off (bits_of_N (prefix_bits cap) (N.of_nat (length l)))) (fun '(b, o) =>
                   wx_array e l b o (ws_list (ws_field P ws_body_x e) l b o))
        | _ => Err EShape
        end
    | TComp false fs _ =>
        match v with VStruct vs => ws_fields P (ws_field P ws_body_x) fs vs buf off off | _ => Err EShape end
    | TComp true fs _ =>
        match v with
        | VUnion k x =>
            if length fs <=? k then Err EBadTag
            else bind (w_set P buf off (bits_of_N (tag_bits (length fs)) (N.of_nat k))) (fun '(b, o) =>
                   bind (ws_sel (ws_field P ws_body_x) fs k x b o) (fun '(b', o') => w_pad P b' o' 8))
        | _ => Err EShape
        end
    end.

  Definition walk_ser_x (t : ty) (v : val) (buf : list bool) (cap_bytes : nat) : res (list bool) :=
    if 8 * cap_bytes <? bmax t then Err ETooSmall
    else bind (ws_body_x t v buf 0) (fun '(b, o) => Ok (firstn (8 * (o / 8)) b)).
End WalkX.
