(* Source tie of the codec template bodies.

   Generated/Gen_CodecTpl.v is regenerated from lang/{c,cpp,py}/templates/{serialization,deserialization}.j2 on every check run
   (tools/translators/gen_codec_tpl.py, fail closed).  Codec/TplTieData.v is the hand-owned, reviewed description of the
   same decision structure (dispatch order of `_serialize_any` / `_deserialize_any`, per branch macro the static decisions and the
   classified emitted statements: support primitive called with which width / offset expression, cursor update, bounds check and
   error code, padding).  Part 1 proves the two equal, so an edit of ANY template branch breaks an obligation of C01 / C02.

   Part 2 interprets the regenerated C trees and proves that the case split the walker (Codec/Walker.v) makes IS the one the
   templates make, where the walker splits:
     - type dispatch: every `ty` constructor is routed to the macro whose behaviour the corresponding walker arm models;
     - integer serialization: saturation code is emitted iff `saturated /\ ~standard width` (= Walker.storage_bits), the
       whole-byte store is chosen iff `aligned /\ width <= 8` (= Walker.w_prim); the other two template paths (aligned memmove
       on little-endian targets, nunavutSet[UI]xx) are both mapped to the walker's generic `set_bits` path by the explicit
       abstraction `abs_ser_path` - their equivalence is Prims/CPrimsThm.v `endianness_variants_equal_set` / `set_uxx_exact`;
     - integer / bool deserialization: the capacity-guarded byte load is chosen iff `aligned /\ unsigned /\ width <= 8`
       (= Walker.r_prim), bool is always guarded by `offset_bits < capacity_bits`;
     - every primitive branch advances the cursor by exactly the bit length.
   Where the walker deliberately abstracts more (arrays: the templates' four paths - bit-packed bools, byte arrays, zero-cost
   primitive bulk copy via nunavutCopyBits/GetBits, element loop - are ONE element loop in the walker, `ws_list` / `wd_list`),
   the mapping is `abs_array_path`; the equivalence of a bulk copy of n*w bits with n element copies of w bits is
   Prims/CPrimsThm.v `copy_bits_exact` / `get_bits_zero_ext` (bit-exact copy, zero extension), used by Codec/Instances*.v. *)
From Coq Require Import List String Bool Arith Lia.
From Verif Require Import TplTieBase TplTieData Gen_CodecTpl Wire Walker.
Import ListNotations.
Local Open Scope nat_scope.
Local Open Scope string_scope.

(* ---------------- Part 1: regenerated tables = reviewed tables ---------------- *)
Theorem c_templates_match_walker :
  gen_c_ser_dispatch = walker_c_ser_dispatch /\ gen_c_ser_macros = walker_c_ser_macros /\
  gen_c_des_dispatch = walker_c_des_dispatch /\ gen_c_des_macros = walker_c_des_macros.
Proof. repeat split; reflexivity. Qed.

Theorem cpp_templates_match_walker :
  gen_cpp_ser_dispatch = walker_cpp_ser_dispatch /\ gen_cpp_ser_macros = walker_cpp_ser_macros /\
  gen_cpp_des_dispatch = walker_cpp_des_dispatch /\ gen_cpp_des_macros = walker_cpp_des_macros.
Proof. repeat split; reflexivity. Qed.

Theorem py_templates_match_walker :
  gen_py_ser_dispatch = walker_py_ser_dispatch /\ gen_py_ser_macros = walker_py_ser_macros /\
  gen_py_des_dispatch = walker_py_des_dispatch /\ gen_py_des_macros = walker_py_des_macros.
Proof. repeat split; reflexivity. Qed.

(* the C tables projected on the DEFAULT option set (opt_override_capacity = false; guard / storage-capacity helper macros
   dropped or inlined by the scanner): this is the structure Walker.v models.  It is insensitive to template fixes that only
   touch branches under the option atom (e.g. /repo 2e84c7a), which change the full tables above only. *)
Theorem c_default_templates_match_walker :
  gen_c_ser_macros_default = walker_c_ser_macros_default /\ gen_c_des_macros_default = walker_c_des_macros_default.
Proof. split; reflexivity. Qed.

(* ---------------- Part 2: the walker's case split is the templates' case split (C) ---------------- *)

(* 2a. type dispatch *)
Definition type_test (t : ty) : string :=
  match t with
  | TPrim (PVoid _) => "t is VoidType"
  | TPrim PBool => "t is BooleanType"
  | TPrim (PU _ _) | TPrim (PS _ _) => "t is IntegerType"
  | TPrim (PF _ _) => "t is FloatType"
  | TFix _ _ => "t is FixedLengthArrayType"
  | TVar _ _ => "t is VariableLengthArrayType"
  | TComp _ _ _ => "t is CompositeType"
  end.

Fixpoint first_match (test : string) (tbl : list (string * list string)) : option (list string) :=
  match tbl with
  | [] => None
  | (c, ms) :: r => if String.eqb c test then Some ms else first_match test r
  end.

(* the macro whose behaviour the walker arm for `t` models (ws_body / w_prim, wd_body / r_prim) *)
Definition walker_arm (ser : bool) (t : ty) : string :=
  (if ser then "_serialize_" else "_deserialize_") ++
  match t with
  | TPrim (PVoid _) => "void"
  | TPrim PBool => "boolean"
  | TPrim (PU _ _) | TPrim (PS _ _) => "integer"
  | TPrim (PF _ _) => "float"
  | TFix _ _ => "fixed_length_array"
  | TVar _ _ => "variable_length_array"
  | TComp _ _ _ => "composite"
  end.

Theorem c_dispatch_routes_like_walker : forall t,
  first_match (type_test t) gen_c_ser_dispatch = Some [walker_arm true t] /\
  first_match (type_test t) gen_c_des_dispatch = Some [walker_arm false t].
Proof. intros [[| | | |]| | |]; split; reflexivity. Qed.

Theorem cpp_dispatch_routes_like_walker : forall t,
  first_match (type_test t) gen_cpp_ser_dispatch = Some [walker_arm true t] /\
  first_match (type_test t) gen_cpp_des_dispatch = Some [walker_arm false t].
Proof. intros [[| | | |]| | |]; split; reflexivity. Qed.

(* 2b. what one instantiation of a primitive macro emits *)
Definition has_sub (needle hay : string) : bool :=
  match index 0 needle hay with Some _ => true | None => false end.

Definition emits (k : akind) (needle : string) (l : list (akind * string)) : bool :=
  existsb (fun '(k', p) =>
    (match k, k' with
     | KStore, KStore | KCall, KCall | KGuard, KGuard | KCursor, KCursor | KReturn, KReturn | KMacro, KMacro | KLoop, KLoop => true
     | _, _ => false
     end) && has_sub needle p) l.

(* the static facts the templates test, as an assignment of the condition atoms *)
Record iflags := { f_sat : bool; f_std : bool; f_uns : bool; f_al : bool; f_le8 : bool; f_little : bool }.

Definition rho_of (f : iflags) (atom : string) : bool :=
  if String.eqb atom "t is saturated" then f_sat f
  else if String.eqb atom "t.standard_bit_length" then f_std f
  else if String.eqb atom "t is UnsignedIntegerType" then f_uns f
  else if String.eqb atom "offset.is_aligned_at_byte()" then f_al f
  else if String.eqb atom "t.bit_length <= 8" then f_le8 f
  else if String.eqb atom "LITTLE_ENDIAN" then f_little f
  else false.

Definition c_int_ser (f : iflags) := flatten_all (rho_of f) (find_macro "_serialize_integer" gen_c_ser_macros).
Definition c_int_des (f : iflags) := flatten_all (rho_of f) (find_macro "_deserialize_integer" gen_c_des_macros).
Definition c_bool_ser (f : iflags) := flatten_all (rho_of f) (find_macro "_serialize_boolean" gen_c_ser_macros).
Definition c_bool_des (f : iflags) := flatten_all (rho_of f) (find_macro "_deserialize_boolean" gen_c_des_macros).

Inductive wpath : Type := WByte | WGeneric.

(* explicit abstraction: the three template paths of `_serialize_integer` onto the two paths of Walker.w_prim *)
Definition abs_ser_path (l : list (akind * string)) : option wpath :=
  if emits KStore "buffer[offset_bits / 8U] = " l then Some WByte
  else if emits KCall "memmove(&buffer[offset_bits / 8U]" l then Some WGeneric        (* = set_bits, little-endian image *)
  else if emits KCall "xx(&buffer[0], capacity_bytes, offset_bits" l then Some WGeneric  (* nunavutSet[UI]xx *)
  else None.

Definition walker_ser_path (al le8 : bool) : wpath := if al && le8 then WByte else WGeneric.

Definition all_flags : list iflags :=
  flat_map (fun a => flat_map (fun b => flat_map (fun c => flat_map (fun d => flat_map (fun e =>
    map (fun g => Build_iflags a b c d e g) [true; false]) [true; false]) [true; false]) [true; false]) [true; false]) [true; false].

Lemma all_flags_complete f : In f all_flags.
Proof. destruct f as [[] [] [] [] [] []]; cbn; tauto. Qed.

Definition int_ser_ok (f : iflags) : bool :=
  (match abs_ser_path (c_int_ser f) with
   | Some WByte => f_al f && f_le8 f
   | Some WGeneric => negb (f_al f && f_le8 f)
   | None => false
   end)
  && Bool.eqb (emits KGuard "if ({{ <sat> }} > " (c_int_ser f)) (f_sat f && negb (f_std f))          (* saturation code *)
  && Bool.eqb (emits KGuard "if ({{ <sat> }} < " (c_int_ser f)) (f_sat f && negb (f_std f) && negb (f_uns f))
  && emits KCursor "offset_bits += {{ t.bit_length }}U;" (c_int_ser f).

Lemma int_ser_ok_all : forallb int_ser_ok all_flags = true.
Proof. vm_compute. reflexivity. Qed.

(* the templates choose the byte store / emit saturation code exactly when the walker does *)
Theorem c_int_ser_split_matches_walker : forall f,
  abs_ser_path (c_int_ser f) = Some (walker_ser_path (f_al f) (f_le8 f)) /\
  emits KGuard "if ({{ <sat> }} > " (c_int_ser f) = f_sat f && negb (f_std f) /\
  emits KCursor "offset_bits += {{ t.bit_length }}U;" (c_int_ser f) = true.
Proof.
  intros f. pose proof (proj1 (forallb_forall _ _) int_ser_ok_all f (all_flags_complete f)) as H.
  unfold int_ser_ok in H. repeat (apply andb_prop in H; destruct H as [H ?]).
  unfold walker_ser_path. repeat split.
  - destruct (abs_ser_path (c_int_ser f)) as [[]|]; destruct (f_al f && f_le8 f); try discriminate; reflexivity.
  - apply Bool.eqb_prop. assumption.
  - assumption.
Qed.

(* ... and that IS Walker.w_prim's split (definitional) *)
Theorem walker_w_prim_split : forall P w sat z buf off sb,
  storage_bits (PU w sat) (VInt z) = Some sb ->
  w_prim P (PU w sat) (VInt z) buf off =
  match walker_ser_path (Nat.eqb (off mod 8) 0) (Nat.leb w 8) with
  | WByte => bind (w_set P buf off (firstn 8 sb)) (fun '(b, _) => Ok (b, off + w))
  | WGeneric => w_set P buf off (firstn w sb)
  end.
Proof.
  intros P w sat z buf off sb H. unfold w_prim. rewrite H. cbn [prim_bits]. unfold walker_ser_path.
  destruct (Nat.eqb (off mod 8) 0 && Nat.leb w 8); reflexivity.
Qed.

Theorem walker_saturation_rule : forall w sat z,
  storage_bits (PU w sat) (VInt z) =
  Some (bits_of_N (std_width w)
          (Z.to_N ((if sat && negb (is_std w) then clampZ 0 (pow2 w - 1) z else z) mod pow2 (std_width w)))).
Proof. reflexivity. Qed.

(* deserialization *)
Definition int_des_ok (f : iflags) : bool :=
  Bool.eqb (emits KGuard "<= capacity_bits)" (c_int_des f)) (f_al f && f_uns f && f_le8 f)      (* guarded byte load *)
  && Bool.eqb (emits KCall "{{ getter }}(&buffer[0], capacity_bytes, offset_bits" (c_int_des f)) (negb (f_al f && f_uns f && f_le8 f))
  && emits KCursor "offset_bits += {{ t.bit_length }}U;" (c_int_des f)
  && emits KGuard "if (offset_bits < capacity_bits)" (c_bool_des f)
  && emits KCursor "offset_bits += 1U;" (c_bool_des f)
  && emits KCursor "offset_bits += 1U;" (c_bool_ser f).

Lemma int_des_ok_all : forallb int_des_ok all_flags = true.
Proof. vm_compute. reflexivity. Qed.

Theorem c_int_des_split_matches_walker : forall f,
  emits KGuard "<= capacity_bits)" (c_int_des f) = f_al f && f_uns f && f_le8 f /\
  emits KCall "{{ getter }}(&buffer[0], capacity_bytes, offset_bits" (c_int_des f) = negb (f_al f && f_uns f && f_le8 f) /\
  emits KGuard "if (offset_bits < capacity_bits)" (c_bool_des f) = true.
Proof.
  intros f. pose proof (proj1 (forallb_forall _ _) int_des_ok_all f (all_flags_complete f)) as H.
  unfold int_des_ok in H. repeat (apply andb_prop in H; destruct H as [H ?]).
  repeat split; try (apply Bool.eqb_prop; assumption); assumption.
Qed.

(* Walker.r_prim: the guarded load exists for unsigned only, under aligned /\ w <= 8; signed always goes through the getter *)
Theorem walker_r_prim_split : forall P w sat buf cap off,
  r_prim P (PU w sat) buf cap off =
    (if Nat.eqb (off mod 8) 0 && Nat.leb w 8
     then VInt (if Nat.leb (off + w) cap then Z.of_N (N_of_bits (get_bits P buf cap off w)) else 0%Z)
     else VInt (Z.of_N (N_of_bits (get_bits P buf cap off w)))) /\
  r_prim P (PS w sat) buf cap off = VInt (signed_of w (N_of_bits (get_bits P buf cap off w))).
Proof. intros. split; reflexivity. Qed.

(* arrays: the four template paths onto the walker's single element loop *)
Inductive apath : Type := ABitPacked | ABytes | AZeroCost | AElementLoop.
Definition abs_array_path (p : apath) : string := "element loop (Walker.ws_list / wd_list)".
Record aflags := { a_bool : bool; a_prim : bool; a_w8 : bool; a_zero_cost : bool }.
Definition rho_arr (f : aflags) (atom : string) : bool :=
  if String.eqb atom "t.element_type is BooleanType" then a_bool f
  else if String.eqb atom "t.element_type is PrimitiveType" then a_prim f
  else if String.eqb atom "t.element_type.bit_length == 8" then a_w8 f
  else if String.eqb atom "t.element_type is zero_cost_primitive" then a_zero_cost f
  else false.
Definition c_farr_ser (f : aflags) := flatten_all (rho_arr f) (find_macro "_serialize_fixed_length_array" gen_c_ser_macros).
Definition c_farr_des (f : aflags) := flatten_all (rho_arr f) (find_macro "_deserialize_fixed_length_array" gen_c_des_macros).

(* exactly one of {bulk copy, element loop} is emitted, the bulk copy exactly for bool / zero-cost primitive elements *)
Theorem c_array_paths : forall b p w z,
  let f := Build_aflags b p w z in
  emits KCall "nunavutCopyBits(&buffer[0], offset_bits," (c_farr_ser f) = b || (p && z) /\
  emits KMacro "_serialize_any(t.element_type" (c_farr_ser f) = negb (b || (p && z)) /\
  emits KMacro "_deserialize_any(t.element_type" (c_farr_des f) = negb (b || (p && z)) /\
  emits KCall "nunavutGetBits(&{{ reference }}" (c_farr_des f) = b || (p && z).
Proof. intros [] [] [] []; vm_compute; repeat split; reflexivity. Qed.

(* ---------------- Part 3: enable_override_variable_array_capacity = true ----------------
   Part 2 evaluates the regenerated trees with every atom it does not list - in particular `opt_override_capacity` - false, i.e.
   on the default output.  With the option on, the up-front buffer check can be compiled out, so every store that does not go
   through a bounds-checking support primitive must be preceded, on every static path, by a call of the `_guard` macro (which
   then emits `if ((offset_bits + n) > (capacity_bytes * 8U)) return -...TOO_SMALL`). *)
Definition is_guard_call (k : akind) (p : string) : bool :=
  match k with KMacro => String.prefix "_guard(" p | _ => false end.

Definition is_unchecked_store (k : akind) (p : string) : bool :=
  match k with
  | KStore => has_sub "buffer[offset_bits / 8U] =" p
  | KCall => has_sub "memmove(&buffer[" p || has_sub "memset(&buffer[" p || has_sub "nunavutCopyBits(&buffer[0]" p
             || has_sub "&buffer[offset_bits / 8U], &" p                       (* nested T_serialize_ on the rest of the buffer *)
  | _ => false
  end.

Definition c_ser_guarded : bool :=
  forallb (fun m => guarded_macro is_guard_call is_unchecked_store "opt_override_capacity" (snd m)) gen_c_ser_macros.

Theorem c_override_stores_guarded : c_ser_guarded = true.
Proof. vm_compute. reflexivity. Qed.

(* the guard macro emits its check exactly under the option *)
Theorem c_guard_macro_shape :
  emits KGuard "if ((offset_bits + {{ n_bits }}) > (capacity_bytes * 8U))"
    (flatten_all (fun a => String.eqb a "opt_override_capacity") (find_macro "_guard" gen_c_ser_macros)) = true /\
  flatten_all (fun _ => false) (find_macro "_guard" gen_c_ser_macros) = [].
Proof. vm_compute. split; reflexivity. Qed.

(* non-vacuity of the scan: there are unchecked stores to guard, and dropping the guards is detected *)
Example c_guard_scan_not_vacuous :
  existsb (fun m => existsb (fun '(k, p) => is_unchecked_store k p) (flatten_all (fun _ => true) (snd m))) gen_c_ser_macros = true /\
  forallb (fun m => guarded_macro (fun _ _ => false) is_unchecked_store "opt_override_capacity" (snd m)) gen_c_ser_macros = false.
Proof. vm_compute. split; reflexivity. Qed.

(* the statement patterns quoted by Properties/C01.v and C02.v *)
Definition pat0 : string := "if ({{ <sat> }} > ".
Definition pat1 : string := "offset_bits += {{ t.bit_length }}U;".
Definition pat2 : string := "<= capacity_bits)".
Definition pat3 : string := "{{ getter }}(&buffer[0], capacity_bytes, offset_bits".
Definition pat4 : string := "if (offset_bits < capacity_bits)".
Definition pat5 : string := "nunavutCopyBits(&buffer[0], offset_bits,".
Definition pat6 : string := "_serialize_any(t.element_type".
Definition pat7 : string := "_deserialize_any(t.element_type".
Definition pat8 : string := "nunavutGetBits(&{{ reference }}".
