(* A fact about the C++-shaped deserialization walker alone (no specification, no laws of the members), the analogue of
   Codec/WalkerBound.v: the bit cursor of every span it reads from never exceeds max(capacity, start) + tsz t, where sub-spans
   only ever have a smaller capacity and a start below 8 (any_bitspan::subspan / subspan_bytes turn the byte part of the cursor
   into the data pointer).  Consequently the read member may be replaced by anything that agrees with it on reads with
   off + w <= B, provided |buffer| + tsz t <= B: `cguard B Q` behaves like the reference beyond B, and
   cpp_walk_des (cguard B Q) = cpp_walk_des Q.  This discharges the "offset_bits_ is a size_t" side condition (B = 2^64 - 1) of the
   shipped const_bitspan getters in CppWalkerInst.v. *)
From Verif Require Import Wire WireThm Walker WalkerBound CppWalker.
From Coq Require Import Lia ZifyBool ZifyNat ZifyN.
Local Open Scope nat_scope.
Ltac Zify.zify_post_hook ::= Z.div_mod_to_equations.

Definition cguard (B : nat) (Q : cppprims) : cppprims := {|
  c_set := c_set Q;
  c_zero := c_zero Q;
  c_get := fun buf base cap off w =>
    if off + w <=? B then c_get Q buf base cap off w else take_ze w (skipn off (firstn cap (skipn base buf)));
|}.

Section CBound.
  Variable Q : cppprims.
  Variable B : nat.
  Variable buf : list bool.
  Let G := cguard B Q.

  Lemma cguard_get base cap off w : off + w <= B -> c_get G buf base cap off w = c_get Q buf base cap off w.
  Proof. intros H. unfold G, cguard. cbn [c_get]. destruct (Nat.leb_spec (off + w) B); [reflexivity | lia]. Qed.

  Lemma cguard_prim p base cap off : off + prim_bits p <= B -> cd_prim G p buf base cap off = cd_prim Q p buf base cap off.
  Proof.
    intros H. destruct p; cbn [cd_prim prim_bits] in *; rewrite ?cguard_get by lia; reflexivity.
  Qed.

  Definition CQ (t : ty) : Prop := forall base cap off, Nat.max cap off + tsz t <= B ->
    cd_body G t buf base cap off = cd_body Q t buf base cap off /\ bnd (cd_body Q t buf base cap off) (Nat.max cap off + tsz t).

  Definition CQf (t : ty) : Prop := forall base cap off, Nat.max cap off + (32 + tsz t) <= B ->
    cd_field G (cd_body G) t buf base cap off = cd_field Q (cd_body Q) t buf base cap off /\
    bnd (cd_field Q (cd_body Q) t buf base cap off) (Nat.max cap off + (32 + tsz t)).

  (* what the two sub-span constructors produce, as far as the bound is concerned *)
  Lemma cd_subspan_facts base cap off b c o : cd_subspan base cap off = (b, c, o) ->
    c <= cap /\ o <= off /\ o <= 7 /\ off + c <= Nat.max cap off + 7 /\ c mod 8 = 0.
  Proof.
    intros E.
    assert (Hc : c = snd (fst (cd_subspan base cap off))) by (rewrite E; reflexivity).
    assert (Ho : o = snd (cd_subspan base cap off)) by (rewrite E; reflexivity).
    unfold cd_subspan in Hc, Ho. cbn [fst snd] in Hc, Ho. clear E.
    destruct (Nat.ltb_spec (off / 8) (cap / 8)); lia.
  Qed.

  Lemma cd_subspan_bytes_facts base cap off n b c o : cd_subspan_bytes base cap off n = (b, c, o) ->
    c <= cap /\ o <= off /\ o <= 7.
  Proof.
    unfold cd_subspan_bytes. destruct (cd_subspan base cap off) as [[b0 c0] o0] eqn:E0.
    destruct (cd_subspan_facts _ _ _ _ _ _ E0) as (H1 & H2 & H3 & _ & H5).
    intros E.
    assert (Hc : c = snd (fst (b0, 8 * (if n <? c0 / 8 then n else c0 / 8), o0))) by (rewrite E; reflexivity).
    assert (Ho : o = snd (b0, 8 * (if n <? c0 / 8 then n else c0 / 8), o0)) by (rewrite E; reflexivity).
    cbn [fst snd] in Hc, Ho. clear E. destruct (Nat.ltb_spec n (c0 / 8)); lia.
  Qed.

  Lemma cq_body_to_field t : CQ t -> CQf t.
  Proof.
    intros H base cap off Hb.
    destruct t as [p|e n|e c|u fs [x|]];
      try (destruct (H base cap off ltac:(lia)) as [E Hn]; split; [exact E | eapply bnd_weaken; [|exact Hn]; lia]).
    - (* delimited *)
      cbn [cd_field]. unfold header_bits in *. rewrite cguard_get by lia.
      set (hN := N_of_bits (c_get Q buf base cap off 32)).
      destruct (N.ltb_spec (N.of_nat (cap - (off + 32))) (hN * 8)) as [Hlt|Hge]; [split; [reflexivity | exact I]|].
      set (h := N.to_nat hN).
      assert (Hh : off + 32 + h * 8 <= Nat.max cap off + 32) by (subst h; lia).
      destruct (cd_subspan_bytes base cap (off + 32) h) as [[b' c'] o'] eqn:Es.
      destruct (cd_subspan_bytes_facts _ _ _ _ _ _ _ Es) as (H1 & H2 & H3).
      unfold cd_routine.
      destruct (H b' c' o' ltac:(lia)) as [E _]. rewrite E. split; [reflexivity|].
      destruct (cd_body Q _ buf b' c' o') as [[v o'']|err]; cbn [bind bnd]; [|exact I].
      cbn [tsz]. lia.
    - (* sealed *)
      cbn [cd_field].
      destruct (cd_subspan base cap off) as [[b' c'] o'] eqn:Es.
      destruct (cd_subspan_facts _ _ _ _ _ _ Es) as (H1 & H2 & H3 & H4 & H5).
      unfold cd_routine.
      destruct (H b' c' o' ltac:(lia)) as [E Hn]. rewrite E. split; [reflexivity|].
      destruct (cd_body Q _ buf b' c' o') as [[v o'']|err]; cbn [bind bnd] in *; [|exact I]. lia.
  Qed.

  Lemma cq_list e : CQf e -> forall n base cap off, Nat.max cap off + n * (32 + tsz e) <= B ->
    cd_list (fun o => cd_field G (cd_body G) e buf base cap o) n off = cd_list (fun o => cd_field Q (cd_body Q) e buf base cap o) n off /\
    bnd (cd_list (fun o => cd_field Q (cd_body Q) e buf base cap o) n off) (Nat.max cap off + n * (32 + tsz e)).
  Proof.
    intros He. induction n as [|n IH]; intros base cap off Hb; cbn [cd_list].
    - split; [reflexivity|]. cbn [bnd]. lia.
    - rewrite Nat.mul_succ_l in *.
      destruct (He base cap off ltac:(lia)) as [E Hn]. rewrite E.
      destruct (cd_field Q (cd_body Q) e buf base cap off) as [[v o]|err]; cbn [bind bnd] in *; [|split; [reflexivity | exact I]].
      destruct (IH base cap o ltac:(lia)) as [E2 Hn2]. rewrite E2. split; [reflexivity|].
      destruct (cd_list (fun o0 => cd_field Q (cd_body Q) e buf base cap o0) n o) as [[vs o']|err]; cbn [bind bnd] in *; [lia | exact I].
  Qed.

  Lemma cq_fields fs : Forall CQf fs -> forall first base cap off, Nat.max cap off + tsz_sum tsz fs <= B ->
    cd_fields (cd_field G (cd_body G)) first fs buf base cap off = cd_fields (cd_field Q (cd_body Q)) first fs buf base cap off /\
    bnd (cd_fields (cd_field Q (cd_body Q)) first fs buf base cap off) (Nat.max cap off + tsz_sum tsz fs).
  Proof.
    induction 1 as [|f fs Hf Hfs IH]; intros first base cap off Hb; cbn [cd_fields tsz_sum] in *.
    - split; [reflexivity|]. cbn [bnd]. lia.
    - pose proof (padn_le7 off f) as Hp.
      set (o := if first then off else if align f <=? 1 then off else off + padn off (align f)).
      assert (Ho : off <= o <= off + 7) by (unfold o; destruct first; [lia|]; destruct (align f <=? 1); lia).
      destruct (Hf base cap o ltac:(lia)) as [E Hn]. rewrite E.
      destruct (cd_field Q (cd_body Q) f buf base cap o) as [[v o1]|err]; cbn [bind bnd] in *; [|split; [reflexivity | exact I]].
      destruct (IH false base cap o1 ltac:(lia)) as [E2 Hn2]. rewrite E2. split; [reflexivity|].
      destruct (cd_fields (cd_field Q (cd_body Q)) false fs buf base cap o1) as [[vs o']|err]; cbn [bind bnd] in *; [lia | exact I].
  Qed.

  Lemma cq_sel fs : Forall CQf fs -> forall k base cap off, Nat.max cap off + tsz_sum tsz fs <= B ->
    cd_sel (cd_field G (cd_body G)) fs k buf base cap off = cd_sel (cd_field Q (cd_body Q)) fs k buf base cap off /\
    bnd (cd_sel (cd_field Q (cd_body Q)) fs k buf base cap off) (Nat.max cap off + tsz_sum tsz fs).
  Proof.
    induction 1 as [|f fs Hf Hfs IH]; intros k base cap off Hb; [destruct k; (split; [reflexivity | exact I])|].
    cbn [tsz_sum] in *. destruct k as [|k]; cbn [cd_sel].
    - destruct (Hf base cap off ltac:(lia)) as [E Hn]. split; [exact E | eapply bnd_weaken; [|exact Hn]; lia].
    - destruct (IH k base cap off ltac:(lia)) as [E Hn]. split; [exact E | eapply bnd_weaken; [|exact Hn]; lia].
  Qed.

  Theorem cq_all : forall t, CQ t.
  Proof.
    induction t as [p|e n IHe|e c IHe|u fs ext H] using ty_nested_ind; unfold CQ; intros base cap off Hb; cbn [tsz] in Hb.
    - cbn [cd_body tsz]. rewrite cguard_prim by lia. split; [reflexivity|]. cbn [bnd]. lia.
    - cbn [cd_body tsz]. destruct (cq_list e (cq_body_to_field e IHe) n base cap off Hb) as [E Hn]. rewrite E.
      split; [reflexivity|].
      destruct (cd_list (fun o => cd_field Q (cd_body Q) e buf base cap o) n off) as [[vs o]|err]; cbn [bind bnd] in *; [exact Hn | exact I].
    - cbn [cd_body tsz]. pose proof (len_width_le64 c) as Hw. unfold prefix_bits in *.
      rewrite cguard_get by lia.
      set (nN := N_of_bits (c_get Q buf base cap off (len_width c))).
      destruct (N.ltb_spec (N.of_nat c) nN) as [Hlt|Hge]; [split; [reflexivity | exact I]|].
      assert (Hn : N.to_nat nN * (32 + tsz e) <= c * (32 + tsz e)) by (apply Nat.mul_le_mono_r; lia).
      destruct (cq_list e (cq_body_to_field e IHe) (N.to_nat nN) base cap (off + len_width c) ltac:(lia)) as [E Hb2]. rewrite E.
      split; [reflexivity|].
      destruct (cd_list (fun o => cd_field Q (cd_body Q) e buf base cap o) (N.to_nat nN) (off + len_width c)) as [[vs o]|err];
        cbn [bind bnd] in *; [lia | exact I].
    - assert (Hf : Forall CQf fs).
      { rewrite Forall_forall in *. intros f Hin. apply cq_body_to_field. apply H. exact Hin. }
      destruct u; cbn [cd_body tsz].
      + pose proof (len_width_le64 (length fs - 1)) as Hw. unfold tag_bits in *.
        rewrite cguard_get by lia.
        set (kN := N_of_bits (c_get Q buf base cap off (len_width (length fs - 1)))).
        destruct (N.leb_spec (N.of_nat (length fs)) kN) as [Hle|Hgt]; [split; [reflexivity | exact I]|].
        destruct (cq_sel fs Hf (N.to_nat kN) base cap (off + len_width (length fs - 1)) ltac:(lia)) as [E Hb2]. rewrite E.
        split; [reflexivity|].
        destruct (cd_sel (cd_field Q (cd_body Q)) fs (N.to_nat kN) buf base cap (off + len_width (length fs - 1))) as [[v o]|err];
          cbn [bind bnd] in *; [unfold pad8; lia | exact I].
      + destruct (cq_fields fs Hf true base cap off ltac:(lia)) as [E Hb2]. rewrite E. split; [reflexivity|].
        destruct (cd_fields (cd_field Q (cd_body Q)) true fs buf base cap off) as [[vs o]|err]; cbn [bind bnd] in *;
          [unfold pad8; lia | exact I].
  Qed.
End CBound.

(* the C++-shaped deserializer never asks for a read with off + w > |buffer| + tsz t *)
Theorem cpp_walk_des_guard : forall Q B t bits, length bits + tsz t <= B ->
  cpp_walk_des (cguard B Q) t bits = cpp_walk_des Q t bits.
Proof.
  intros Q B t bits Hb. unfold cpp_walk_des, cd_routine.
  destruct (cq_all Q B bits t 0 (length bits) 0 ltac:(lia)) as [E _]. rewrite E. reflexivity.
Qed.
