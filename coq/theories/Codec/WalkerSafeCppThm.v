(* C04, C++ side: proofs about Codec/WalkerSafeCpp.v. *)
From Verif Require Import Wire WireThm Walker WalkerSafe WalkerSafeThm WalkerSafeCpp.
From Coq Require Import Lia.
Local Open Scope nat_scope.

(* =====================================================  buffer side  ===================================================== *)
(* the C++ deserializer is the walker under cpp_cfg: the bounds, totality and prior-independence theorems of WalkerSafeThm.v apply *)
Lemma cpp_cfg_sound b : cap_sound (cpp_cfg b).
Proof. right. intros e n. apply le_n. Qed.

Theorem cpp_des_in_bounds b capB t prior buf : wf_ty t = true -> length buf = 8 * capB ->
  forallb (acc_ok capB) (snd (walk_des_safe (cpp_cfg b) t prior buf)) = true.
Proof. apply (des_in_bounds (cpp_cfg b) eq_refl (cpp_cfg_sound b)). Qed.

(* ---- the C++ serializer: every store inside the caller's buffer, for every type, object content and buffer size; whatever does not
   fit is refused by the member BEFORE it stores (w_checked / w_nest fail without a log entry) ---- *)
Theorem cpp_ser_in_bounds upf pl t o capB : pl = all_first ->
  forallb (acc_ok capB) (snd (walk_ser_safe (cpp_ser_cfg upf pl) t o capB)) = true.
Proof. intros ->. exact (ser_in_bounds_guarded (cpp_ser_cfg upf all_first) t o capB eq_refl eq_refl eq_refl). Qed.

(* with the up-front test compiled in, too small a buffer is refused before ANY store *)
Theorem cpp_ser_too_small_no_write pl t o capB : pl = all_first -> 8 * capB < bmax t ->
  walk_ser_safe (cpp_ser_cfg true pl) t o capB = (Err ETooSmall, []).
Proof. intros -> H. exact (too_small_no_write (cpp_ser_cfg true all_first) t o capB eq_refl eq_refl H). Qed.

(* a refused store leaves no log entry: the checked members test first (model side of the scanned event lists of the set members) *)
Theorem checked_refusal_touches_nothing lim off w : lim < off + w -> w_checked lim off w = (Err ETooSmall, []).
Proof. intros H. unfold w_checked. replace (lim <? off + w) with true by (symmetry; apply Nat.ltb_lt; exact H). reflexivity. Qed.

(* with a clamped subspan() every pointer stays inside [data, data + size] *)
Theorem cpp_des_ptr_in_bounds capB t prior buf : wf_ty t = true -> length buf = 8 * capB ->
  forallb (ptr_ok capB) (snd (walk_des_safe (cpp_cfg true) t prior buf)) = true.
Proof. apply (des_ptr_in_bounds (cpp_cfg true) eq_refl (cpp_cfg_sound true)). reflexivity. Qed.

(* =====================================================  variable-length array  ===================================================== *)
Section VlaSound.
  Variable A : Type.
  Variable fresh : A.

  Definition conc (d : A) (t : atmp) : A := match t with TDec => d | _ => fresh end.
  Definition tmp_rel (d : A) (t : atmp) (tmp : option A) : Prop :=
    match t with TNone => tmp = None | TFresh => tmp = Some fresh | TDec => tmp = Some d end.

  Lemma body_sound d i : forall body t tmp v bad ps, tmp_rel d t tmp -> body_pushes body t = Some ps ->
    run_l A fresh body tmp v d i bad = (v ++ map (conc d) ps, bad).
  Proof.
    induction body as [|s r IH]; intros t tmp v bad ps Hr Hp; cbn [body_pushes run_l] in *.
    - injection Hp as <-. cbn. rewrite app_nil_r. reflexivity.
    - destruct s.
      + apply (IH TFresh); [exact eq_refl | exact Hp].
      + destruct t; [discriminate| |]; cbn [tmp_rel] in Hr; subst tmp; apply (IH TDec); try exact eq_refl; exact Hp.
      + discriminate.
      + destruct t; [discriminate| |]; cbn [tmp_rel] in Hr; subst tmp;
          (destruct (body_pushes r _) as [ps'|] eqn:E; [|discriminate]); cbn [option_map] in Hp; injection Hp as <-.
        * rewrite (IH TFresh (Some fresh) (v ++ [fresh]) bad ps' eq_refl E). cbn [map conc]. rewrite <- app_assoc. reflexivity.
        * rewrite (IH TDec (Some d) (v ++ [d]) bad ps' eq_refl E). cbn [map conc]. rewrite <- app_assoc. reflexivity.
  Qed.

  Lemma loop_sound body : body_ok body = true -> forall ds i v bad, run_loop A fresh body ds i v bad = (v ++ ds, bad).
  Proof.
    unfold body_ok. destruct (body_pushes body TNone) as [[|[] [|]]|] eqn:E; try discriminate. intros _.
    induction ds as [|d r IH]; intros i v bad; cbn [run_loop]; [rewrite app_nil_r; reflexivity|].
    rewrite (body_sound d i body TNone None v bad [TDec] eq_refl E). cbn [map conc]. rewrite IH, <- app_assoc. reflexivity.
  Qed.

  Definition vinv (decoded : list A) (a : ast) (st : vst A) : Prop :=
    sized A st = asized a /\ checked A st = achecked a /\
    match av a with AEmpty => vec A st = [] | ADecoded => vec A st = decoded | _ => True end /\
    (aok a = true -> av a <> AUnknown -> vbad A st = 0).

  Lemma vstep decoded s a st : vinv decoded a st -> vinv decoded (arun s a) (run_v A fresh decoded s st).
  Proof.
    intros (H1 & H2 & H3 & H4). destruct s; cbn [arun run_v].
    - repeat split; cbn; auto.
    - repeat split; cbn; auto. intros Ho Hu. apply andb_prop in Ho. destruct Ho as [Ho Hs]. rewrite H1, Hs. auto.
    - repeat split; cbn; auto; destruct (av a); cbn; auto; intros; try congruence; auto.
      all: try (apply H4; [assumption | congruence]).
    - repeat split; cbn; auto. intros Ho Hu. apply andb_prop in Ho. destruct Ho as [Ho Hs]. rewrite H2, Hs. auto.
    - repeat split; cbn; auto. intros _ Hu. congruence.
    - destruct (run_loop A fresh body decoded 0 (vec A st) (vbad A st)) as [v b] eqn:E. repeat split; cbn; auto.
      + destruct (av a); auto. destruct (body_ok body) eqn:Eb; auto. rewrite H3 in E. rewrite (loop_sound body Eb) in E.
        injection E as <- _. reflexivity.
      + intros Ho Hu. apply andb_prop in Ho. destruct Ho as [Ho Hc]. rewrite H2, Hc.
        destruct (av a) eqn:Ea; try congruence. destruct (body_ok body) eqn:Eb; try congruence.
        rewrite H3 in E. rewrite (loop_sound body Eb) in E. injection E as _ <-. apply H4; [exact Ho | congruence].
  Qed.

  (* a statement list accepted by the abstract interpreter replaces the vector by the decoded elements, whatever it held, and
     performs no allocation / loop before the length check and no access through an empty temporary *)
  Theorem vla_check_sound p : vla_check p = true -> forall prior decoded,
    vec A (run_vla A fresh p prior decoded) = decoded /\ vbad A (run_vla A fresh p prior decoded) = 0.
  Proof.
    intros Hc prior decoded. unfold vla_check, run_vla in *.
    set (a0 := {| av := APrior; asized := false; achecked := false; aok := true |}) in *.
    set (s0 := {| vec := prior; sized := false; checked := false; vbad := 0 |}).
    assert (H0 : vinv decoded a0 s0) by (repeat split; auto).
    clearbody a0 s0. revert a0 s0 H0 Hc. induction p as [|s r IH]; intros a0 s0 H0 Hc; cbn [fold_left] in *.
    - apply andb_prop in Hc. destruct Hc as [Ho Hv]. destruct H0 as (_ & _ & H3 & H4).
      destruct (av a0) eqn:Ea; try discriminate. split; [exact H3 | apply H4; [exact Ho | congruence]].
    - apply (IH (arun s a0) (run_v A fresh decoded s s0)); [apply vstep; exact H0 | exact Hc].
  Qed.
End VlaSound.

(* what the checker rejects, by example: no clear(), clear() after the loop, allocation before the length check *)
Theorem vla_check_rejects :
  vla_check [VSizeRead; VSizeCheck; VReserve; VLoop [LTmp; LDecodeTmp; LPushBack]] = false /\
  vla_check [VSizeRead; VSizeCheck; VReserve; VLoop [LTmp; LDecodeTmp; LPushBack]; VClear] = false /\
  vla_check [VSizeRead; VClear; VReserve; VSizeCheck; VLoop [LTmp; LDecodeTmp; LPushBack]] = false /\
  exists prior decoded : list nat,
    vec nat (run_vla nat 0 [VSizeRead; VSizeCheck; VReserve; VLoop [LTmp; LDecodeTmp; LPushBack]] prior decoded) <> decoded.
Proof. repeat split; try reflexivity. exists [1; 2; 3], [9; 8]. vm_compute. discriminate. Qed.

(* =====================================================  C++14 union emulation  ===================================================== *)
Definition one_live (c : ucell) : Prop := ulive c = [utag c].

Lemma emitted_std b : destroy_emitted std_dshape b = b.
Proof. destruct b; reflexivity. Qed.

Lemma destroy_alt_tag i c : utag (destroy_alt i c) = utag c.
Proof. unfold destroy_alt. destruct (existsb _ _); [reflexivity|]. destruct (uzero c); reflexivity. Qed.

Lemma destroy_from_skip np all : forall i c, (forall j, utag c <> i + j \/ nth j np false = false) ->
  destroy_from std_dshape np all i c = c.
Proof.
  induction np as [|b r IH]; intros i c H; cbn [destroy_from]; [reflexivity|].
  assert (E : destroy_emitted std_dshape b && (utag c =? destroy_idx std_dshape all i) = false).
  { rewrite emitted_std. unfold destroy_idx. cbn [std_dshape d_filtered]. destruct (H 0) as [H0|H0]; cbn [nth] in H0.
    - replace (utag c =? i) with false by (symmetry; apply Nat.eqb_neq; lia). apply Bool.andb_false_r.
    - subst b. reflexivity. }
  rewrite E. apply IH. intros j. destruct (H (S j)) as [H1|H1]; [left; lia | right; exact H1].
Qed.

(* destroy_current with the unfiltered loop: the destructor of the tagged alternative runs iff it is not a primitive *)
Lemma destroy_from_hit np all : forall i c, i <= utag c ->
  destroy_from std_dshape np all i c = if nth (utag c - i) np false then destroy_alt (utag c) c else c.
Proof.
  induction np as [|b r IH]; intros i c Hi; cbn [destroy_from].
  - destruct (utag c - i); reflexivity.
  - rewrite emitted_std. unfold destroy_idx. cbn [std_dshape d_filtered]. destruct (Nat.eq_dec (utag c) i) as [E|E].
    + rewrite E, Nat.eqb_refl, Nat.sub_diag. cbn [nth]. rewrite Bool.andb_true_r. destruct b.
      * rewrite destroy_from_skip; [reflexivity|]. intros j. left. rewrite destroy_alt_tag. lia.
      * rewrite destroy_from_skip; [reflexivity|]. intros j. left. lia.
    + replace (utag c =? i) with false by (symmetry; apply Nat.eqb_neq; exact E). rewrite Bool.andb_false_r.
      rewrite IH by lia. replace (utag c - i) with (S (utag c - S i)) by lia. reflexivity.
Qed.

Lemma destroy_current_std np c :
  destroy_current std_dshape np c = if nth (utag c) np false then destroy_alt (utag c) c else c.
Proof. unfold destroy_current. rewrite destroy_from_hit by lia. rewrite Nat.sub_0_r. reflexivity. Qed.

Lemma emplace_one np i c : one_live c ->
  let c' := emplace std_dshape std_emplace np i c in
  one_live c' /\ ubad c' = ubad c /\ uzd c' = uzd c /\ uzero c' = false.
Proof.
  intros Hl. unfold emplace, std_emplace. cbn [fold_left run_u]. rewrite destroy_current_std.
  unfold one_live in *. destruct (nth (utag c) np false) eqn:E.
  - unfold destroy_alt. rewrite Hl. cbn [existsb]. rewrite Nat.eqb_refl. cbn [orb remove_one]. rewrite Nat.eqb_refl.
    unfold construct. cbn. repeat split; reflexivity.
  - unfold construct. cbn [utag ulive ubad uzd uzero]. rewrite Hl. cbn [filter]. rewrite E. repeat split; reflexivity.
Qed.

(* VariantType() on raw storage with any previous tag value: afterwards alternative 0 is the only live one, no destructor ran on
   foreign contents; if alternative 0 has a destructor it ran ONCE on the all-zero bytes of value-initialisation *)
Theorem variant_ctor np t0 :
  let c0 := ctor std_dshape std_emplace std_ctor np t0 in
  one_live c0 /\ ubad c0 = 0 /\ uzd c0 = (if nth 0 np false then 1 else 0) /\ uzero c0 = false.
Proof.
  unfold ctor, std_ctor. cbn [fold_left run_c]. unfold emplace, std_emplace. cbn [fold_left run_u]. rewrite destroy_current_std.
  cbn [utag]. destruct (nth 0 np false); unfold destroy_alt, construct, one_live; cbn; repeat split; reflexivity.
Qed.

Lemma cstmts_eqb_eq a : forall b, cstmts_eqb a b = true -> a = b.
Proof.
  induction a as [|x r IH]; intros [|y r'] H; cbn [cstmts_eqb] in H; try discriminate; [reflexivity|].
  apply andb_prop in H. destruct H as [H1 H2]. rewrite (IH _ H2). destruct x, y; try discriminate; reflexivity.
Qed.

(* both recognised constructor shapes *)
Theorem variant_ctor_gen cs np t0 : ctor_check cs = true ->
  let c0 := ctor std_dshape std_emplace cs np t0 in
  one_live c0 /\ ubad c0 = 0 /\ uzd c0 <= 1 /\ (nth 0 np false = false -> uzd c0 = 0) /\ uzero c0 = false.
Proof.
  intros H. apply Bool.orb_true_iff in H. destruct H as [H|H]; apply cstmts_eqb_eq in H; subst cs; cbn zeta.
  - destruct (variant_ctor np t0) as (H1 & H2 & H3 & H4). cbn zeta in *. rewrite H3.
    repeat split; try assumption; destruct (nth 0 np false); try lia; try discriminate; reflexivity.
  - unfold ctor, direct_ctor. cbn [fold_left run_c]. unfold construct, one_live. cbn. repeat split; try reflexivity; lia.
Qed.

(* after the constructor and ANY sequence of set_x / decode / assignment operations exactly the tagged alternative is live and
   NO destructor call ever hit storage that holds something else (absolute), nor zeroed storage again *)
Theorem variant_exactly_one_live cs np t0 ops : ctor_check cs = true ->
  let c0 := ctor std_dshape std_emplace cs np t0 in
  let c := run_ops std_dshape std_emplace np ops c0 in
  one_live c /\ ubad c = 0 /\ uzd c = uzd c0.
Proof.
  intros Hcs. cbn zeta. destruct (variant_ctor_gen cs np t0 Hcs) as (H0 & Hb & _). cbn zeta in *.
  revert H0 Hb. generalize (ctor std_dshape std_emplace cs np t0) as c0.
  induction ops as [|i r IH]; intros c0 H0 Hb; cbn [run_ops]; [repeat split; assumption|].
  destruct (emplace_one np i c0 H0) as (H1 & H2 & H3 & _). cbn zeta in *.
  destruct (IH _ H1) as (H4 & H5 & H6); [congruence|]. repeat split; [exact H4 | exact H5 | congruence].
Qed.

(* ... and the destructor then leaves nothing behind (no leak), for every history *)
Theorem variant_dtor_clean cs np t0 ops : ctor_check cs = true ->
  let c := dtor std_dshape np (run_ops std_dshape std_emplace np ops (ctor std_dshape std_emplace cs np t0)) in
  ulive c = filter (fun j => negb (nth j np false)) [utag c] /\ ubad c = 0.
Proof.
  intros Hcs. cbn zeta. destruct (variant_exactly_one_live cs np t0 ops Hcs) as (Hl & Hb & _). cbn zeta in *.
  unfold dtor. rewrite destroy_current_std. unfold one_live in Hl.
  destruct (nth (utag _) np false) eqn:E.
  - unfold destroy_alt. rewrite Hl. cbn [existsb]. rewrite Nat.eqb_refl. cbn [orb remove_one utag ulive ubad filter]. rewrite Nat.eqb_refl.
    rewrite E. split; [reflexivity | exact Hb].
  - cbn [filter]. rewrite E. split; [exact Hl | exact Hb].
Qed.

(* constructing alternative 0 directly (proposed: do_emplace<0>() instead of emplace<0>()) never runs a destructor on dead storage *)
Theorem variant_ctor_direct np t0 :
  let c0 := ctor std_dshape std_emplace [CTag0; CZero; CDoEmplace0] np t0 in one_live c0 /\ ubad c0 = 0 /\ uzd c0 = 0.
Proof. unfold ctor. cbn [fold_left run_c]. unfold construct, one_live. cbn. repeat split; reflexivity. Qed.

(* without the value-initialisation in front, emplace<0>() would run a destructor on garbage *)
Theorem variant_ctor_needs_zero : exists np t0, ubad (ctor std_dshape std_emplace [CTag0; CEmplace0] np t0) <> 0.
Proof. exists [true], 7. vm_compute. discriminate. Qed.

(* =====================================================  delimiter header test, width-parametric  ===================================================== *)
From Coq Require Import NArith.
(* the test rejects exactly the headers that exceed the remaining bytes - for every size_t width from hchk_min_width on: 32 bits for the
   division form, 35 for the multiplication form (a 32-bit header times 8) *)
Theorem hdr_check_exact (W : N) k (h size : N) : (hchk_min_width k <= W)%N -> (h < 2 ^ 32)%N ->
  hchk_eval W k h size = (size / 8 <? h)%N.
Proof.
  intros HW Hh. destruct k; cbn [hchk_eval hchk_min_width] in *; [|reflexivity].
  assert (H35 : (2 ^ 35 <= 2 ^ W)%N) by (apply N.pow_le_mono_r; lia).
  rewrite N.mod_small by (change (2 ^ 35)%N with (8 * 2 ^ 32)%N in H35; lia).
  pose proof (N.div_mod size 8 ltac:(lia)) as Hd. pose proof (N.mod_lt size 8 ltac:(lia)) as Hm.
  destruct (N.ltb_spec size (8 * h)); destruct (N.ltb_spec (size / 8) h); try reflexivity; exfalso; lia.
Qed.

(* D1: with a 32-bit size_t the multiplication form ACCEPTS header 0x20000001 in front of 2 bytes *)
Theorem hdr_mul_w32_refuted : hchk_eval 32 HMulCmp 536870913 16 = false /\ (16 / 8 <? 536870913)%N = true.
Proof. split; reflexivity. Qed.
