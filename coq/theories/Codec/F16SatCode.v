(* The float16 saturation code of the C / C++ templates, modelled on binary32 bit patterns (audit C01 #7: `Walker.storage_bits` and
   `InstancesTyped.float_arg` both used `Wire.sat16` by definition, so the emitted comparison code was not modelled).
   serialization.j2 `_serialize_float`, saturated float16:
       if (isfinite(v)) { if (v < -65504.0f) { v = -65504.0f; }  if (v > 65504.0f) { v = 65504.0f; } }
   (the literals are pydsdl's `inclusive_value_range` of float16).  IEEE-754 comparisons of a finite binary32 value with a
   constant, on patterns: sign-magnitude order - v > c (c > 0) iff sign clear and magnitude pattern above c's; v < -c iff sign set
   and magnitude pattern above c's; isfinite iff the magnitude pattern is below that of infinity.  `sat_code_is_sat16`: the code
   computes exactly `Wire.sat16`, for every 32-bit pattern (zeros of both signs, subnormals, infinities and NaNs included). *)
From Verif Require Import Bits F16.
From Verif Require Import Wire InstancesTyped.
Local Open Scope N_scope.

Definition f32_sign (x : N) : bool := N.testbit x 31.
Definition f32_mag (x : N) : N := N.land x 2147483647.
Definition isfinite32 (x : N) : bool := f32_mag x <? F32INF.
Definition f32_gt_pos (x c : N) : bool := negb (f32_sign x) && (c <? f32_mag x).      (* x > c,  c a positive finite pattern *)
Definition f32_lt_neg (x c : N) : bool := f32_sign x && (c <? f32_mag x).             (* x < -c *)
Definition NEG_65504 : N := 2147483648 + F32_65504.

Definition sat_code (x : N) : N :=
  if isfinite32 x then
    let x1 := if f32_lt_neg x F32_65504 then NEG_65504 else x in
    if f32_gt_pos x1 F32_65504 then F32_65504 else x1
  else x.

Theorem sat_code_is_sat16 : forall x, sat_code x = sat16 x.
Proof.
  intros x. unfold sat_code, sat16, isfinite32, f32_lt_neg, f32_gt_pos, f32_mag, f32_sign. rewrite land_pow2_31.
  destruct (N.land x 2147483647 <? F32INF); [|reflexivity].
  destruct (N.testbit x 31) eqn:Es; destruct (F32_65504 <? N.land x 2147483647) eqn:Em; cbn [andb negb].
  - vm_compute. reflexivity.
  - rewrite Es. reflexivity.
  - rewrite Es, Em. reflexivity.
  - rewrite Es, Em. reflexivity.
Qed.

(* hence what reaches nunavutFloat16Pack / nunavutSetF16 for a saturated float16 field is `InstancesTyped.float_arg 16 true` *)
Corollary float_arg_is_sat_code : forall x, float_arg 16 true x = sat_code (x mod 2 ^ 32).
Proof. intros x. rewrite sat_code_is_sat16. reflexivity. Qed.

Example sat_code_examples :
  sat_code 1199570944 = F32_65504 /\               (* 65520.0f -> 65504.0f *)
  sat_code 3347054592 = NEG_65504 /\               (* -65520.0f -> -65504.0f *)
  sat_code 2139095040 = 2139095040 /\              (* +inf unchanged *)
  sat_code 2143289344 = 2143289344 /\              (* NaN unchanged *)
  sat_code 2147483648 = 2147483648.                (* -0.0 unchanged *)
Proof. vm_compute. repeat split; reflexivity. Qed.
