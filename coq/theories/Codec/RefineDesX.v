(* Deserialization refinement for the EXTENDED C walker (Codec/WalkerXDes.v: bulk GetBits path for arrays of bool / zero-cost
   elements): it decodes exactly as the wire specification prescribes, from `PrimsOn.get_law` plus the law of nunavutGetBits (the
   bits at the cursor, zero-extended past the capacity).  The Section is Codec/RefineDes.v's proof with `wd_body` replaced by
   `wd_body_x` plus the lemmas `dec_list_prim`, `chunk_agree`, `desx_array` for the bulk path (incl. the case where the walker's and
   the specification's cursors differ past the capacity: both see zeros). *)
From Verif Require Import WalkerSafe.
From Verif Require InstancesBase.
From Verif Require Import Wire WireThm WireThmExt Walker Refine RefineDesBase PrimsOn RefineDes WalkerXDes.
From Coq Require Import Lia ZifyBool ZifyNat ZifyN.
Local Open Scope nat_scope.
Ltac Zify.zify_post_hook ::= Z.div_mod_to_equations.

Section RefineDesX.
  Variable P : prims.
  Variable getl : list bool -> nat -> nat -> nat -> list bool.
  Variable cf : cfg.
  Variable buf : list bool.
  (* the only thing assumed of the primitives: reads of the widths in Wd (at least 1..64) from THIS buffer (PrimsOn.get_law) *)
  Variable Wd : nat -> Prop.
  Hypothesis HWd : forall w, 1 <= w <= 64 -> Wd w.
  Hypothesis Hget : get_law P Wd buf.
  (* nunavutGetBits: the m bits at the cursor of the capacity-bounded buffer, zero-extended *)
  Hypothesis Hgetl : forall cap off m, cap <= length buf -> cap mod 8 = 0 ->
    getl buf cap off m = take_ze m (skipn off (firstn cap buf)).

  (* the widths the type makes the walker read are allowed: all widths are, or the type is well-formed (fields of 1..64 bits) *)
  Definition okW (t : ty) : Prop := (forall w, Wd w) \/ wf_ty t = true.

  Lemma okW_prim p : okW (TPrim p) -> Wd (prim_bits p).
  Proof.
    intros [H|H]; [apply H|]. apply HWd. cbn [wf_ty] in H.
    destruct p; cbn [prim_wf prim_bits] in *; lia.
  Qed.

  Lemma okW_fix e n : okW (TFix e n) -> okW e.
  Proof. intros [H|H]; [left; exact H | right; exact H]. Qed.

  Lemma okW_var e c : okW (TVar e c) -> okW e.
  Proof. intros [H|H]; [left; exact H|]. right. cbn [wf_ty] in H. apply andb_prop in H. apply H. Qed.

  Lemma okW_fields u fs ext : okW (TComp u fs ext) -> Forall okW fs.
  Proof.
    intros [H|H]; apply Forall_forall; intros f Hin; [left; exact H|]. right.
    cbn [wf_ty] in H. apply andb_prop in H. destruct H as [H _]. apply andb_prop in H. destruct H as [H _].
    rewrite forallb_forall in H. apply H. exact Hin.
  Qed.

  Lemma Wd_len_width m : Wd (len_width m).
  Proof. apply HWd. destruct (len_width_cases m) as [-> | [-> | [-> | ->]]]; lia. Qed.

  Lemma Wd_header : Wd header_bits.
  Proof. apply HWd. unfold header_bits. lia. Qed.

  Definition view (cap : nat) : list bool := firstn cap buf.

  Lemma view_len cap : cap <= length buf -> length (view cap) = cap.
  Proof. intros H. unfold view. apply firstn_length_le. exact H. Qed.

  Lemma get_view cap off w : Wd w -> cap <= length buf -> cap mod 8 = 0 ->
    get_bits P buf cap off w = take_ze w (skipn off (view cap)).
  Proof. intros HW Hc Hm. apply Hget; assumption. Qed.

  Lemma view_beyond cap off : cap <= length buf -> cap <= off -> skipn off (view cap) = [].
  Proof. intros Hc H. apply skipn_all2. rewrite (view_len cap Hc). exact H. Qed.

  Lemma r_prim_view p cap off : okW (TPrim p) -> cap <= length buf -> cap mod 8 = 0 ->
    r_prim P p buf cap off = dec_prim p (skipn off (view cap)).
  Proof.
    intros Hok Hc Hm. pose proof (okW_prim p Hok) as HWp. assert (HW1 : Wd 1) by (apply HWd; lia).
    destruct p; cbn [r_prim dec_prim prim_bits] in *; rewrite ?(get_view cap off _ HWp Hc Hm), ?(get_view cap off 1 HW1 Hc Hm);
      unfold read_N; try reflexivity.
    - (* bool: `if (offset_bits < capacity_bits)` *)
      destruct (Nat.ltb_spec off cap) as [Hlt|Hge]; [reflexivity|].
      rewrite view_beyond by assumption. reflexivity.
    - (* unsigned: guarded aligned byte load *)
      destruct (off mod 8 =? 0) eqn:Ea; destruct (w <=? 8) eqn:Ew; cbn [andb]; try reflexivity.
      destruct (Nat.leb_spec (off + w) cap) as [Hle|Hgt]; [reflexivity|].
      apply Nat.eqb_eq in Ea. apply Nat.leb_le in Ew.
      assert (Hge : cap <= off) by lia.
      rewrite view_beyond by assumption. rewrite take_ze_nil', N_of_bits_zeros. reflexivity.
  Qed.

  Definition P_desx (t : ty) : Prop := okW t -> forall cap off, cap <= length buf -> cap mod 8 = 0 -> off mod align t = 0 ->
    sim cap (wd_body_x P getl cf t buf cap off) (shift off (dec_body t (skipn off (view cap)))).

  Definition P_desxf1 (t : ty) : Prop := okW t -> forall cap off, cap <= length buf -> cap mod 8 = 0 -> off mod align t = 0 ->
    sim cap (wd_field P (wd_body_x P getl cf) t buf cap off) (shift off (dec_field t (skipn off (view cap)))).

  Definition P_desxf (t : ty) : Prop := okW t -> forall cap ow os, cap <= length buf -> cap mod 8 = 0 -> ow mod align t = 0 ->
    near cap ow os ->
    sim cap (wd_field P (wd_body_x P getl cf) t buf cap ow) (shift os (dec_field t (skipn os (view cap)))).

  (* nested composites as fields: the clamped size of sealed ones, the bounded sub-buffer of delimited ones *)
  Lemma desx_body_to_field1 t : P_desx t -> P_desxf1 t.
  Proof.
    intros H Hok cap off Hc Hm Ha. unfold dec_field, as_field_dec.
    destruct t as [p|e n|e c|u fs [x|]]; try (apply H; assumption).
    - (* delimited: header check, decode within header bytes, cursor += header value *)
      cbn [wd_field]. cbn [align] in Ha. rewrite (get_view cap off header_bits Wd_header Hc Hm).
      fold (read_N header_bits (skipn off (view cap))).
      set (hN := read_N header_bits (skipn off (view cap))).
      rewrite skipn_add, skipn_length, (view_len cap Hc).
      assert (Hb : (N.of_nat (cap / 8 - Nat.min ((off + header_bits) / 8) (cap / 8)) <? hN)%N
                   = (N.of_nat (cap - (off + header_bits)) <? 8 * hN)%N).
      { unfold header_bits. destruct (N.ltb_spec (N.of_nat (cap - (off + 32))) (8 * hN));
          destruct (N.ltb_spec (N.of_nat (cap / 8 - Nat.min ((off + 32) / 8) (cap / 8))) hN); try reflexivity; lia. }
      rewrite Hb. destruct (N.ltb_spec (N.of_nat (cap - (off + header_bits))) (8 * hN)) as [Hlt|Hge];
        [cbn [shift sim]; reflexivity|].
      set (h := N.to_nat hN). set (o := off + header_bits).
      assert (Ho : o mod 8 = 0) by (unfold o, header_bits; lia).
      assert (Hsub : skipn o (view (Nat.min cap (o + 8 * h))) = firstn (8 * h) (skipn o (view cap))).
      { unfold view. rewrite !skipn_firstn_comm, firstn_firstn. f_equal. lia. }
      assert (Hc' : Nat.min cap (o + 8 * h) <= length buf) by lia.
      assert (Hm' : Nat.min cap (o + 8 * h) mod 8 = 0) by lia.
      pose proof (H Hok (Nat.min cap (o + 8 * h)) o Hc' Hm' Ho) as S. rewrite Hsub in S.
      destruct (dec_body (TComp u fs (Some x)) (firstn (8 * h) (skipn o (view cap)))) as [[v k]|e];
        destruct (wd_body_x P getl cf (TComp u fs (Some x)) buf (Nat.min cap (o + 8 * h)) o) as [[v' o']|e'];
        cbn [shift sim bind] in *; try contradiction; [|exact S].
      destruct S as [-> _]. split; [reflexivity|]. unfold near, o. split; [f_equal; lia | left; lia].
    - (* sealed: handed the rest of the buffer, cursor advanced by the clamped size it reports *)
      cbn [wd_field]. cbn [align] in Ha.
      pose proof (H Hok cap off Hc Hm Ha) as S.
      destruct (dec_body (TComp u fs None) (skipn off (view cap))) as [[v k]|e] eqn:E;
        destruct (wd_body_x P getl cf (TComp u fs None) buf cap off) as [[v' o']|e'];
        cbn [shift sim bind] in *; try contradiction; [|exact S].
      destruct S as [-> [Hmod Hnear]]. split; [reflexivity|].
      pose proof (dec_body_aligned (TComp u fs None) eq_refl _ _ _ E) as Hk.
      unfold near. lia.
  Qed.

  (* two cursors: when they differ both stand at/past the capacity and both decoders see the empty stream *)
  Lemma desx_field1_to_field t : P_desxf1 t -> P_desxf t.
  Proof.
    intros H Hok cap ow os Hc Hm Ha [Hmod [->|[H1 H2]]]; [apply H; assumption|].
    pose proof (H Hok cap ow Hc Hm Ha) as S.
    rewrite (view_beyond cap ow Hc H1) in S. rewrite (view_beyond cap os Hc H2).
    destruct (dec_field t []) as [[v k]|e]; destruct (wd_field P (wd_body_x P getl cf) t buf cap ow) as [[v' o']|e'];
      cbn [shift sim] in *; try contradiction; [|exact S].
    destruct S as [-> S]. split; [reflexivity|]. unfold near in *. lia.
  Qed.

  Lemma desx_body_to_field t : P_desx t -> P_desxf t.
  Proof. intros H. apply desx_field1_to_field, desx_body_to_field1, H. Qed.

  Lemma desx_list e : okW e -> P_desxf e -> forall n cap ow os, cap <= length buf -> cap mod 8 = 0 -> ow mod align e = 0 ->
    near cap ow os ->
    sim cap (wd_list (wd_field P (wd_body_x P getl cf) e) n buf cap ow) (shift os (dec_list (dec_field e) n (skipn os (view cap)))).
  Proof.
    intros Hok He. induction n as [|n IH]; intros cap ow os Hc Hm Ha Hn; cbn [wd_list dec_list].
    - cbn [shift sim]. split; [reflexivity|]. rewrite Nat.add_0_r. exact Hn.
    - pose proof (He Hok cap ow os Hc Hm Ha Hn) as S.
      destruct (dec_field e (skipn os (view cap))) as [[v k]|err] eqn:E;
        destruct (wd_field P (wd_body_x P getl cf) e buf cap ow) as [[v' o']|err'];
        cbn [shift sim bind] in *; try contradiction; [|exact S].
      destruct S as [-> Hn'].
      assert (Ha' : o' mod align e = 0).
      { destruct (align_cases e) as [A | A]; [rewrite A; apply Nat.mod_1_r|].
        pose proof (dec_field_aligned e A _ _ _ E) as Hk. rewrite A in *. unfold near in *. lia. }
      pose proof (IH cap o' (os + k) Hc Hm Ha' Hn') as S. rewrite skipn_add.
      destruct (dec_list (dec_field e) n (skipn (os + k) (view cap))) as [[vs m]|err];
        destruct (wd_list (wd_field P (wd_body_x P getl cf) e) n buf cap o') as [[vs' o'']|err'];
        cbn [shift sim bind] in *; try contradiction; [|exact S].
      destruct S as [-> S]. split; [reflexivity|]. rewrite Nat.add_assoc. exact S.
  Qed.

  Lemma desx_fields fs : Forall P_desxf fs -> Forall okW fs -> forall cap ow os, cap <= length buf -> cap mod 8 = 0 -> near cap ow os ->
    sim cap (wd_fields (wd_field P (wd_body_x P getl cf)) fs buf cap ow) (dec_fields dec_field fs (skipn os (view cap)) os).
  Proof.
    induction 1 as [|f fs Hf Hfs IH]; intros Hoks cap ow os Hc Hm Hn; cbn [wd_fields dec_fields].
    - cbn [sim]. split; [reflexivity|]. unfold near, pad8 in *. lia.
    - inversion Hoks as [|? ? Hok1 Hok2]; subst.
      assert (Hp : padn ow (align f) = padn os (align f)) by (apply padn_cong; apply Hn).
      rewrite Hp. set (p := padn os (align f)).
      assert (Hn1 : near cap (ow + p) (os + p)) by (unfold near in *; lia).
      assert (Ha1 : (ow + p) mod align f = 0) by (unfold p; rewrite <- Hp; apply rupn_aligned).
      pose proof (Hf Hok1 cap (ow + p) (os + p) Hc Hm Ha1 Hn1) as S. rewrite skipn_add.
      destruct (dec_field f (skipn (os + p) (view cap))) as [[v k]|err];
        destruct (wd_field P (wd_body_x P getl cf) f buf cap (ow + p)) as [[v' o']|err'];
        cbn [shift sim bind] in *; try contradiction; [|exact S].
      destruct S as [-> Hn'].
      pose proof (IH Hok2 cap o' (os + p + k) Hc Hm Hn') as S. rewrite skipn_add, Nat.add_assoc.
      destruct (dec_fields dec_field fs (skipn (os + p + k) (view cap)) (os + p + k)) as [[vs m]|err];
        destruct (wd_fields (wd_field P (wd_body_x P getl cf)) fs buf cap o') as [[vs' o'']|err'];
        cbn [sim bind] in *; try contradiction; [|exact S].
      destruct S as [-> S]. split; [reflexivity | exact S].
  Qed.

  Lemma desx_sel fs : Forall P_desxf fs -> Forall okW fs -> forall k cap off, cap <= length buf -> cap mod 8 = 0 -> off mod 8 = 0 ->
    sim cap (wd_sel (wd_field P (wd_body_x P getl cf)) fs k buf cap off) (shift off (dec_sel dec_field fs k (skipn off (view cap)))).
  Proof.
    induction 1 as [|f fs Hf Hfs IH]; intros Hoks k cap off Hc Hm Ha; [destruct k; cbn [wd_sel dec_sel shift sim]; reflexivity|].
    inversion Hoks as [|? ? Hok1 Hok2]; subst.
    destruct k as [|k]; cbn [wd_sel dec_sel]; [|apply IH; assumption].
    apply Hf; [assumption | assumption | assumption | apply mod_align; exact Ha | apply near_refl].
  Qed.

  (* ---- the bulk path: one GetBits call, elements = the w-bit fields of the object ---- *)
  Lemma dec_list_prim p : forall n bs,
    dec_list (dec_field (TPrim p)) n bs = Ok (map (fun i => dec_prim p (skipn (i * prim_bits p) bs)) (seq 0 n), n * prim_bits p).
  Proof.
    induction n as [|n IH]; intros bs; cbn [dec_list seq map]; [reflexivity|].
    change (dec_field (TPrim p) bs) with (Ok (dec_prim p bs, prim_bits p)). cbn [bind]. rewrite IH. cbn [bind].
    f_equal. f_equal; try lia. cbn [Nat.mul skipn]. f_equal. rewrite <- seq_shift, map_map. apply map_ext. intros i.
    rewrite skipn_add. reflexivity.
  Qed.

  Lemma chunk_agree w n i (s : list bool) : i < n ->
    take_ze w (firstn w (skipn (i * w) (take_ze (n * w) s))) = take_ze w (skipn (i * w) s).
  Proof.
    intros Hi. apply InstancesBase.bits_ext; [rewrite !take_ze_length; reflexivity|].
    intros k Hk. rewrite take_ze_length in Hk. rewrite !InstancesBase.nth_take_ze.
    destruct (Nat.ltb_spec k w) as [_|]; [|lia].
    rewrite InstancesBase.nth_firstn_low by exact Hk. rewrite !InstancesBase.nth_skipn_add, InstancesBase.nth_take_ze.
    destruct (Nat.ltb_spec (i * w + k) (n * w)) as [_|Hbad]; [reflexivity | nia].
  Qed.

  Lemma desx_array e : okW e -> P_desxf e -> forall n cap ow os, cap <= length buf -> cap mod 8 = 0 -> ow mod align e = 0 ->
    near cap ow os ->
    sim cap (wdx_array getl cf e n buf cap ow (wd_list (wd_field P (wd_body_x P getl cf) e) n buf cap ow))
            (shift os (dec_list (dec_field e) n (skipn os (view cap)))).
  Proof.
    intros Hok He n cap ow os Hc Hm Ha Hn. unfold wdx_array.
    destruct e as [p| | |]; try (apply desx_list; assumption). destruct (bulk cf (TPrim p)); [|apply desx_list; assumption].
    rewrite dec_list_prim. cbn [shift sim]. split; [|unfold near in *; lia].
    rewrite (Hgetl cap ow _ Hc Hm). fold (view cap).
    assert (Hs : skipn ow (view cap) = skipn os (view cap)).
    { destruct Hn as [_ [->|[H1 H2]]]; [reflexivity|]. rewrite (view_beyond cap ow Hc H1), (view_beyond cap os Hc H2). reflexivity. }
    rewrite Hs. apply map_ext_in. intros i Hi. apply in_seq in Hi.
    apply WireThmExt.dec_prim_agree. unfold WireThmExt.agree. apply chunk_agree. lia.
  Qed.

  Theorem desx_all : forall t, P_desx t.
  Proof.
    induction t as [p|e n IHe|e c IHe|u fs ext H] using ty_nested_ind; unfold P_des; intros Hok cap off Hc Hm Ha.
    - (* primitive *)
      cbn [wd_body_x dec_body shift sim]. rewrite r_prim_view by assumption. split; [reflexivity | apply near_refl].
    - (* fixed array *)
      cbn [wd_body_x dec_body align] in *. change (as_field_dec dec_body) with dec_field.
      pose proof (desx_array e (okW_fix e n Hok) (desx_body_to_field e IHe) n cap off off Hc Hm Ha (near_refl cap off)) as S.
      destruct (dec_list (dec_field e) n (skipn off (view cap))) as [[vs k]|err];
        destruct (wdx_array getl cf e n buf cap off (wd_list (wd_field P (wd_body_x P getl cf) e) n buf cap off)) as [[vs' o']|err'];
        cbn [shift sim bind] in *; try contradiction; [|exact S].
      destruct S as [-> S]. split; [reflexivity | exact S].
    - (* variable array *)
      cbn [wd_body_x dec_body align] in *. change (as_field_dec dec_body) with dec_field.
      rewrite (get_view cap off (prefix_bits c) (Wd_len_width c) Hc Hm). fold (read_N (prefix_bits c) (skipn off (view cap))).
      destruct (N.of_nat c <? read_N (prefix_bits c) (skipn off (view cap)))%N; [cbn [shift sim]; reflexivity|].
      set (n := N.to_nat (read_N (prefix_bits c) (skipn off (view cap)))).
      assert (Ha' : (off + prefix_bits c) mod align e = 0).
      { pose proof (len_width_mod8 c) as Hw. unfold prefix_bits.
        destruct (align_cases e) as [A | A]; rewrite A in *; [apply Nat.mod_1_r | lia]. }
      pose proof (desx_array e (okW_var e c Hok) (desx_body_to_field e IHe) n cap _ _ Hc Hm Ha' (near_refl cap (off + prefix_bits c))) as S.
      rewrite skipn_add.
      destruct (dec_list (dec_field e) n (skipn (off + prefix_bits c) (view cap))) as [[vs k]|err];
        destruct (wdx_array getl cf e n buf cap (off + prefix_bits c) (wd_list (wd_field P (wd_body_x P getl cf) e) n buf cap (off + prefix_bits c))) as [[vs' o']|err'];
        cbn [shift sim bind] in *; try contradiction; [|exact S].
      destruct S as [-> S]. split; [reflexivity|]. rewrite Nat.add_assoc. exact S.
    - (* composite *)
      assert (Hf : Forall P_desxf fs).
      { rewrite Forall_forall in *. intros f Hin. apply desx_body_to_field. apply H. exact Hin. }
      cbn [align] in Ha. pose proof (okW_fields u fs ext Hok) as Hoks.
      destruct u; cbn [wd_body_x dec_body]; change (as_field_dec dec_body) with dec_field.
      + (* union *)
        set (tw := tag_bits (length fs)).
        rewrite (get_view cap off tw (Wd_len_width (length fs - 1)) Hc Hm). fold (read_N tw (skipn off (view cap))).
        destruct (N.of_nat (length fs) <=? read_N tw (skipn off (view cap)))%N; [cbn [shift sim]; reflexivity|].
        set (k := N.to_nat (read_N tw (skipn off (view cap)))).
        assert (Htw : tw mod 8 = 0) by apply tag_bits_mod8.
        assert (Ha' : (off + tw) mod 8 = 0) by lia.
        pose proof (desx_sel fs Hf Hoks k cap (off + tw) Hc Hm Ha') as S. rewrite skipn_add.
        destruct (dec_sel dec_field fs k (skipn (off + tw) (view cap))) as [[v m]|err];
          destruct (wd_sel (wd_field P (wd_body_x P getl cf)) fs k buf cap (off + tw)) as [[v' o']|err'];
          cbn [shift sim bind] in *; try contradiction; [|exact S].
        destruct S as [-> S]. split; [reflexivity|]. unfold near, pad8 in *. lia.
      + (* structure *)
        pose proof (desx_fields fs Hf Hoks cap off off Hc Hm (near_refl cap off)) as S.
        rewrite (dec_fields_from dec_field fs off _ Ha) in S.
        destruct (dec_fields dec_field fs (skipn off (view cap)) 0) as [[vs m]|err];
          destruct (wd_fields (wd_field P (wd_body_x P getl cf)) fs buf cap off) as [[vs' o']|err'];
          cbn [shift sim bind] in *; try contradiction; [|exact S].
        destruct S as [-> S]. split; [reflexivity | exact S].
  Qed.
End RefineDesX.

Theorem walk_des_x_refines_on : forall P getl cf (Wd : nat -> Prop) t bits,
  (forall w, 1 <= w <= 64 -> Wd w) -> get_law P Wd bits ->
  (forall cap off m, cap <= length bits -> cap mod 8 = 0 -> getl bits cap off m = take_ze m (skipn off (firstn cap bits))) ->
  ((forall w, Wd w) \/ wf_ty t = true) -> length bits mod 8 = 0 ->
  walk_des_x P getl cf t bits = des_spec t bits.
Proof.
  intros P getl cf Wd t bits HWd Hget Hgl Hok Hb. unfold walk_des_x, des_spec.
  assert (H0 : 0 mod align t = 0) by (destruct (align_cases t) as [-> | ->]; reflexivity).
  pose proof (desx_all P getl cf bits Wd HWd Hget Hgl t Hok (length bits) 0 (le_n _) Hb H0) as S.
  unfold view in S. rewrite firstn_all in S. cbn [skipn] in S.
  destruct (dec_body t bits) as [[v k]|err]; destruct (wd_body_x P getl cf t bits (length bits) 0) as [[v' o']|err'];
    cbn [shift sim bind] in *; try contradiction; [|f_equal; exact S].
  destruct S as [-> S]. f_equal. f_equal. unfold near in S. cbn [plus] in S. lia.
Qed.
