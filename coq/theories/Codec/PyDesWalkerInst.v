(* The Python-shaped deserialization walker (Codec/PyDesWalker.v) instantiated with the SHIPPED Deserializer members
   (Prims/PyPrims.v, Prims/PrimsExt.v: models of nunavut_support.py), each run on `mkdes (bytes_of_bits bs) (N.of_nat off)` - a
   Deserializer over the bytes of the bit list with its cursor at `off`; the new cursor is the one the member leaves.

     pd_uxx / pd_ixx        fetch_aligned_uxx / fetch_aligned_ixx (u8 = get_byte, u16 = two u8, ...)    C14_py_fetch_aligned_uxx_ixx_spec
     pd_unsigned            fetch_aligned_unsigned / fetch_unaligned_unsigned                           C14_py_fetch_*_unsigned_spec
     pd_signed              fetch_aligned_signed / fetch_unaligned_signed                               C14_py_fetch_signed_spec
     pd_bit                 fetch_unaligned_bit                                                         C14_py_fetch_unaligned_bit_spec
     pd_float               fetch_aligned_bytes / fetch_unaligned_bytes (w/8), then the little-endian number of those bytes
                            (CPrims.of_le_bytes; struct.unpack is folded into the value domain, see PyDesWalker.v)
     pd_bits                fetch_aligned_array_of_bits / fetch_unaligned_array_of_bits (unpackbits)    (aligned: proved here)
     pd_std                 fetch_aligned_array_std / fetch_unaligned_array_std (numpy.frombuffer)      fetch_array_std_spec
     pd_skip / pd_pad       des_skip_bits / des_pad_to_alignment
     pd_remaining           des_remaining
     pd_fork                des_fork_bytes (remaining-bytes clamp, ZeroExtendingBuffer.fork_bytes)      C14_py_des_fork_bytes_spec

   `pyd_laws_hold`: the laws of PyDesWalkerThm.v.  `pyd_walk_des_refines`: for every sound static alignment annotation the
   Python templates' shape over the shipped Deserializer returns the value / error of the wire specification;
   `pyd_walk_body_refines` also the cursor. *)
From Verif Require Import Bits CPrims CPrimsThm PyPrims PyPrimsThm PyPrimsMoreThm PyPrimsStdThm PyPrimsBitsThm PyPrimsForkThm
  PrimsExt PrimsExtThm.
From Verif Require Import Wire WireThm WireThmExt Refine InstancesBase InstancesC InstancesPy PyDesWalker PyDesWalkerThm.
From Coq Require Import Lia ZifyBool ZifyNat ZifyN.
Local Open Scope nat_scope.
Ltac Zify.zify_post_hook ::= Z.div_mod_to_equations.

Definition pyd_at (bs : list bool) (off : nat) : des := mkdes (bytes_of_bits bs) (N.of_nat off).
Definition cur (d : des) : nat := N.to_nat (d_off d).

Definition pyd_uxx (w : nat) (bs : list bool) (off : nat) : option (N * nat) :=
  match fetch_aligned_uxx (N.of_nat w) (pyd_at bs off) with Some (x, d') => Some (x, cur d') | None => None end.
Definition pyd_ixx (w : nat) (bs : list bool) (off : nat) : option (Z * nat) :=
  match fetch_aligned_ixx (N.of_nat w) (pyd_at bs off) with Some (z, d') => Some (z, cur d') | None => None end.
Definition pyd_unsigned (al : bool) (w : nat) (bs : list bool) (off : nat) : option (N * nat) :=
  match (if al then fetch_aligned_unsigned (pyd_at bs off) (N.of_nat w) else fetch_unaligned_unsigned (pyd_at bs off) (N.of_nat w)) with
  | Some (x, d') => Some (x, cur d') | None => None end.
Definition pyd_signed (al : bool) (w : nat) (bs : list bool) (off : nat) : option (Z * nat) :=
  match (if al then fetch_aligned_signed (pyd_at bs off) (N.of_nat w) else fetch_unaligned_signed (pyd_at bs off) (N.of_nat w)) with
  | Some (z, d') => Some (z, cur d') | None => None end.
Definition pyd_bit (bs : list bool) (off : nat) : bool * nat :=
  let '(b, d') := fetch_unaligned_bit (pyd_at bs off) in (b, cur d').
Definition pyd_float (al : bool) (w : nat) (bs : list bool) (off : nat) : option (N * nat) :=
  match (if al then fetch_aligned_bytes (pyd_at bs off) (N.of_nat (w / 8)) else fetch_unaligned_bytes (pyd_at bs off) (N.of_nat (w / 8))) with
  | Some (out, d') => Some (of_le_bytes out, cur d') | None => None end.
Definition pyd_bits (al : bool) (n : nat) (bs : list bool) (off : nat) : option (list bool * nat) :=
  match (if al then fetch_aligned_array_of_bits (pyd_at bs off) (N.of_nat n) else fetch_unaligned_array_of_bits (pyd_at bs off) (N.of_nat n)) with
  | Some (l, d') => Some (l, cur d') | None => None end.
Definition pyd_std (al : bool) (w n : nat) (bs : list bool) (off : nat) : option (list N * nat) :=
  match (if al then fetch_aligned_array_std (pyd_at bs off) (w / 8) (N.of_nat n)
         else fetch_unaligned_array_std (pyd_at bs off) (w / 8) (N.of_nat n)) with
  | Some (elems, _, d') => Some (elems, cur d') | None => None end.
Definition pyd_skip (bs : list bool) (off k : nat) : nat := cur (des_skip_bits (pyd_at bs off) (N.of_nat k)).
Definition pyd_pad (bs : list bool) (off a : nat) : option nat :=
  match des_pad_to_alignment (pyd_at bs off) (N.of_nat a) with Some d' => Some (cur d') | None => None end.
Definition pyd_remaining (bs : list bool) (off : nat) : Z := des_remaining (pyd_at bs off).
Definition pyd_fork (bs : list bool) (off : nat) (h : N) : option (list bool * nat) :=
  match des_fork_bytes (pyd_at bs off) h with Some f => Some (bits_of_bytes (d_buf f), cur f) | None => None end.

Definition pyd_prims : pydprims := {|
  pd_uxx := pyd_uxx; pd_ixx := pyd_ixx; pd_unsigned := pyd_unsigned; pd_signed := pyd_signed; pd_bit := pyd_bit;
  pd_float := pyd_float; pd_bits := pyd_bits; pd_std := pyd_std; pd_skip := pyd_skip; pd_pad := pyd_pad;
  pd_remaining := pyd_remaining; pd_fork := pyd_fork |}.

(* ---------- bridges ---------- *)
Lemma testbit_N_of_bits_k l (k : N) : N.testbit (N_of_bits l) k = nth (N.to_nat k) l false.
Proof. rewrite <- (N2Nat.id k) at 1. apply testbit_N_of_bits. Qed.

(* bit p of the Deserializer's buffer is element p of the walker's bit list *)
Lemma bit_at bs (off : nat) (k : N) : length bs mod 8 = 0 ->
  bit (bytes_of_bits bs) (N.of_nat off + k) = nth (off + N.to_nat k) bs false.
Proof.
  intros Hl. replace (N.of_nat off + k)%N with (N.of_nat (off + N.to_nat k)) by lia. apply bit_bytes_of_bits. exact Hl.
Qed.

(* a number whose bits are the w bits at the cursor of the zero-extended buffer is the specification's read *)
Lemma window_read x w bs off : length bs mod 8 = 0 ->
  (forall k, N.testbit x k = ((k <? N.of_nat w)%N && bit (bytes_of_bits bs) (N.of_nat off + k))%bool) ->
  x = read_N w (skipn off bs).
Proof.
  intros Hl H. apply N.bits_inj. intros k. rewrite H. unfold read_N.
  rewrite testbit_N_of_bits_k, nth_take_ze, nth_skipn_add, (bit_at bs off k Hl).
  destruct (N.ltb_spec k (N.of_nat w)); destruct (Nat.ltb_spec (N.to_nat k) w); try lia; reflexivity.
Qed.

Lemma read_N_lt w l : (read_N w l < 2 ^ N.of_nat w)%N.
Proof. unfold read_N. pose proof (N_of_bits_lt (take_ze w l)) as H. rewrite take_ze_length in H. exact H. Qed.

Lemma pyd_ok bs off : bytes_ok (d_buf (pyd_at bs off)).
Proof. cbn [pyd_at d_buf]. apply bytes_of_bits_bytes_ok. Qed.

Lemma pyd_al bs off : off mod 8 = 0 -> (d_off (pyd_at bs off) mod 8 = 0)%N.
Proof. intros H. cbn [pyd_at d_off]. lia. Qed.

Lemma stdw_N w : is_stdw w = true -> (N.of_nat w = 8 \/ N.of_nat w = 16 \/ N.of_nat w = 32 \/ N.of_nat w = 64)%N.
Proof. intros H. apply is_stdw_cases in H. lia. Qed.

Lemma nth_raw_list w : forall n l i, i < n -> nth i (raw_list w n l) 0%N = read_N w (skipn (i * w) l).
Proof.
  induction n as [|n IH]; intros l i Hi; [lia|]. cbn [raw_list]. destruct i as [|i]; cbn [nth]; [reflexivity|].
  rewrite IH by lia. rewrite skipn_add. reflexivity.
Qed.

(* ---------- the laws of the shipped members ---------- *)
Lemma pyd_law_uxx_ixx w bs off : is_stdw w = true -> length bs mod 8 = 0 -> off mod 8 = 0 ->
  pyd_uxx w bs off = Some (read_N w (skipn off bs), off + w) /\
  pyd_ixx w bs off = Some (signed_of w (read_N w (skipn off bs)), off + w).
Proof.
  intros Hw Hl Ha. unfold pyd_uxx, pyd_ixx.
  destruct (fetch_aligned_ixx_spec (N.of_nat w) (pyd_at bs off) (stdw_N w Hw) (pyd_ok bs off) (pyd_al bs off Ha))
    as (u & d' & Eu & (_ & Ho & Hb) & Ei).
  rewrite Eu, Ei.
  assert (Hu : u = read_N w (skipn off bs)) by (apply window_read; [exact Hl | exact Hb]).
  assert (Hc : cur d' = off + w) by (unfold cur; rewrite Ho; cbn [pyd_at d_off]; lia).
  rewrite Hc. split; [rewrite Hu; reflexivity|].
  rewrite sign_extend_signed_of; [rewrite Hu; reflexivity | apply is_stdw_cases in Hw; lia | rewrite Hu; apply read_N_lt].
Qed.

Lemma pyd_law_unsigned al w bs off : 1 <= w -> length bs mod 8 = 0 -> (al = true -> off mod 8 = 0) ->
  pyd_unsigned al w bs off = Some (read_N w (skipn off bs), off + w).
Proof.
  intros Hw Hl Ha. unfold pyd_unsigned.
  assert (Hspec : exists x d',
            (if al then fetch_aligned_unsigned (pyd_at bs off) (N.of_nat w) else fetch_unaligned_unsigned (pyd_at bs off) (N.of_nat w))
            = Some (x, d') /\ d_off d' = (d_off (pyd_at bs off) + N.of_nat w)%N /\
            forall k, N.testbit x k = ((k <? N.of_nat w)%N && bit (bytes_of_bits bs) (N.of_nat off + k))%bool).
  { destruct al.
    - destruct (fetch_aligned_unsigned_spec (pyd_at bs off) (N.of_nat w) (pyd_ok bs off) ltac:(lia) (pyd_al bs off (Ha eq_refl)))
        as (x & d' & E & _ & Ho & Hx).
      exists x, d'. split; [exact E|]. split; [exact Ho | exact Hx].
    - destruct (fetch_unaligned_unsigned_spec (pyd_at bs off) (N.of_nat w) (pyd_ok bs off) ltac:(lia))
        as (x & d' & E & _ & Ho & Hx).
      exists x, d'. split; [exact E|]. split; [exact Ho | exact Hx]. }
  destruct Hspec as (x & d' & -> & Ho & Hx).
  rewrite (window_read x w bs off Hl Hx). f_equal. f_equal. unfold cur. rewrite Ho. cbn [pyd_at d_off]. lia.
Qed.

Lemma pyd_law_signed al w bs off : 2 <= w -> length bs mod 8 = 0 -> (al = true -> off mod 8 = 0) ->
  pyd_signed al w bs off = Some (signed_of w (read_N w (skipn off bs)), off + w).
Proof.
  intros Hw Hl Ha. pose proof (pyd_law_unsigned al w bs off ltac:(lia) Hl Ha) as Hu. unfold pyd_unsigned in Hu. unfold pyd_signed.
  destruct (fetch_signed_spec al (pyd_at bs off) (N.of_nat w) (pyd_ok bs off) ltac:(lia) (fun E => pyd_al bs off (Ha E)))
    as (u & z & d' & Eu & Ez & Hz & Hlt & Ho).
  rewrite Eu in Hu. rewrite Ez. injection Hu as Hu Hc.
  rewrite Hc, Hz, Hu. rewrite sign_extend_signed_of; [reflexivity | lia | apply read_N_lt].
Qed.

Lemma pyd_law_bit bs off : length bs mod 8 = 0 -> pyd_bit bs off = (nth off bs false, off + 1).
Proof.
  intros Hl. unfold pyd_bit. rewrite fetch_unaligned_bit_spec. unfold cur. cbn [pyd_at d_buf d_off]. f_equal; [|lia].
  rewrite <- (N.add_0_r (N.of_nat off)), (bit_at bs off 0 Hl). f_equal. lia.
Qed.

(* fetch_aligned_bytes / fetch_unaligned_bytes *)
Lemma fetch_bytes_spec al d count : bytes_ok (d_buf d) -> (al = true -> (d_off d mod 8 = 0)%N) ->
  exists out d', (if al then fetch_aligned_bytes d count else fetch_unaligned_bytes d count) = Some (out, d') /\
    d_off d' = (d_off d + 8 * count)%N /\ bytes_ok out /\
    forall k, bit out k = ((k <? 8 * count)%N && bit (d_buf d) (d_off d + k))%bool.
Proof.
  intros Hok Ha. destruct al.
  - specialize (Ha eq_refl). unfold fetch_aligned_bytes. rewrite Ha. cbn [N.eqb negb].
    pose proof (zeb_get_unsigned_slice_spec (d_buf d) (d_off d / 8) (d_off d / 8 + count)) as S.
    assert (Hf : (d_off d / 8 + count <? d_off d / 8)%N = false) by (apply N.ltb_ge; lia). rewrite Hf in S.
    destruct S as (out & -> & Hlen & Hoko & Hb).
    eexists. eexists. split; [reflexivity|]. cbn [d_off]. split; [lia|]. split; [apply Hoko; exact Hok|].
    intros k. rewrite Hb. f_equal; [f_equal; lia | f_equal; lia].
  - destruct (fetch_unaligned_bytes_spec d count Hok) as (out & d' & E & _ & Ho & _ & Hoko & Hb).
    exists out, d'. split; [exact E|]. split; [exact Ho|]. split; [exact Hoko | exact Hb].
Qed.

Lemma pyd_law_float al w bs off : w = 16 \/ w = 32 \/ w = 64 -> length bs mod 8 = 0 -> (al = true -> off mod 8 = 0) ->
  pyd_float al w bs off = Some (read_N w (skipn off bs), off + w).
Proof.
  intros Hw Hl Ha. unfold pyd_float.
  destruct (fetch_bytes_spec al (pyd_at bs off) (N.of_nat (w / 8)) (pyd_ok bs off) (fun E => pyd_al bs off (Ha E)))
    as (out & d' & -> & Ho & Hok & Hb).
  assert (H8 : (8 * N.of_nat (w / 8) = N.of_nat w)%N) by (destruct Hw as [-> | [-> | ->]]; reflexivity).
  rewrite H8 in *. f_equal. f_equal.
  - apply window_read; [exact Hl|]. intros k. rewrite of_le_bytes_bit by exact Hok. rewrite Hb. reflexivity.
  - unfold cur. rewrite Ho. cbn [pyd_at d_off]. lia.
Qed.

(* fetch_aligned_array_of_bits / fetch_unaligned_array_of_bits *)
Lemma fetch_array_of_bits_spec al d count : bytes_ok (d_buf d) -> (al = true -> (d_off d mod 8 = 0)%N) ->
  exists out d', (if al then fetch_aligned_array_of_bits d count else fetch_unaligned_array_of_bits d count) = Some (out, d') /\
    d_off d' = (d_off d + count)%N /\ N.of_nat (length out) = count /\
    forall k, nthb out k = ((k <? count)%N && bit (d_buf d) (d_off d + k))%bool.
Proof.
  intros Hok Ha. destruct al.
  - specialize (Ha eq_refl). unfold fetch_aligned_array_of_bits. rewrite Ha. cbn [N.eqb negb].
    pose proof (zeb_get_unsigned_slice_spec (d_buf d) (d_off d / 8) (d_off d / 8 + (count + 7) / 8)) as S.
    assert (Hf : (d_off d / 8 + (count + 7) / 8 <? d_off d / 8)%N = false) by (apply N.ltb_ge; lia). rewrite Hf in S.
    destruct S as (out & -> & Hlen & _ & Hb).
    eexists. eexists. split; [reflexivity|]. cbn [d_off]. split; [reflexivity|].
    assert (Hul : length (unpackbits out) = 8 * N.to_nat ((count + 7) / 8)).
    { rewrite unpackbits_length. unfold blen in Hlen. lia. }
    split; [rewrite firstn_length, Hul; lia|].
    intros k. destruct (N.ltb_spec k count) as [Hk|Hk]; cbn [andb].
    + rewrite nthb_firstn by lia. rewrite unpackbits_bit, Hb.
      destruct (N.ltb_spec k (8 * (d_off d / 8 + (count + 7) / 8 - d_off d / 8))) as [_|Hbad]; [|lia]. cbn [andb].
      f_equal. lia.
    + apply nthb_beyond. rewrite firstn_length. lia.
  - destruct (fetch_unaligned_array_of_bits_spec d count Hok) as (out & d' & E & _ & Ho & Hlen & Hb).
    exists out, d'. split; [exact E|]. split; [exact Ho|]. split; [exact Hlen | exact Hb].
Qed.

Lemma pyd_law_bits al n bs off : length bs mod 8 = 0 -> (al = true -> off mod 8 = 0) ->
  pyd_bits al n bs off = Some (take_ze n (skipn off bs), off + n).
Proof.
  intros Hl Ha. unfold pyd_bits.
  destruct (fetch_array_of_bits_spec al (pyd_at bs off) (N.of_nat n) (pyd_ok bs off) (fun E => pyd_al bs off (Ha E)))
    as (out & d' & -> & Ho & Hlen & Hb).
  f_equal. f_equal.
  - apply bits_ext; [rewrite take_ze_length; lia|]. intros p Hp.
    pose proof (Hb (N.of_nat p)) as Hp'. unfold nthb in Hp'. rewrite Nat2N.id in Hp'. rewrite Hp'.
    rewrite nth_take_ze, nth_skipn_add. cbn [pyd_at d_buf d_off]. rewrite (bit_at bs off (N.of_nat p) Hl), Nat2N.id.
    destruct (N.ltb_spec (N.of_nat p) (N.of_nat n)); destruct (Nat.ltb_spec p n); try lia; reflexivity.
  - unfold cur. rewrite Ho. cbn [pyd_at d_off]. lia.
Qed.

Lemma pyd_law_std al w n bs off : is_stdw w = true -> length bs mod 8 = 0 -> (al = true -> off mod 8 = 0) ->
  pyd_std al w n bs off = Some (raw_list w n (skipn off bs), off + n * w).
Proof.
  intros Hw Hl Ha. unfold pyd_std.
  destruct (fetch_array_std_spec al (pyd_at bs off) (w / 8) (N.of_nat n) (pyd_ok bs off) (fun E => pyd_al bs off (Ha E)))
    as (elems & raw & d' & -> & _ & Ho & Hlen & Hb).
  assert (H8 : (8 * N.of_nat (w / 8) = N.of_nat w)%N) by (apply is_stdw_cases in Hw; destruct Hw as [-> | [-> | [-> | ->]]]; reflexivity).
  f_equal. f_equal.
  - apply (nth_ext _ _ 0%N 0%N); [rewrite raw_list_length; lia|].
    intros i Hi. rewrite Hlen in Hi. rewrite nth_raw_list by lia. rewrite skipn_add.
    apply window_read; [exact Hl|]. intros k.
    pose proof (Hb (N.of_nat i) k ltac:(lia)) as Hik. rewrite Nat2N.id in Hik. rewrite Hik, H8.
    cbn [pyd_at d_buf d_off]. f_equal. f_equal.
    apply is_stdw_cases in Hw. destruct Hw as [-> | [-> | [-> | ->]]]; lia.
  - unfold cur. rewrite Ho. cbn [pyd_at d_off].
    apply is_stdw_cases in Hw. destruct Hw as [-> | [-> | [-> | ->]]]; lia.
Qed.

Lemma pyd_law_skip bs off k : pyd_skip bs off k = off + k.
Proof. unfold pyd_skip, des_skip_bits, cur. cbn [pyd_at d_buf d_off]. lia. Qed.

Lemma pyd_law_pad bs off a : 0 < a -> pyd_pad bs off a = Some (off + padn off a).
Proof.
  intros Ha. unfold pyd_pad, des_pad_to_alignment. destruct (N.eqb_spec (N.of_nat a) 0) as [E|_]; [lia|].
  f_equal. unfold cur, padn. cbn [pyd_at d_buf d_off].
  rewrite <- Nat2N.inj_mod, <- Nat2N.inj_sub, <- Nat2N.inj_mod, <- Nat2N.inj_add. apply Nat2N.id.
Qed.

Lemma pyd_law_remaining bs off : length bs mod 8 = 0 -> pyd_remaining bs off = (Z.of_nat (length bs) - Z.of_nat off)%Z.
Proof.
  intros Hl. unfold pyd_remaining, des_remaining. cbn [pyd_at d_buf d_off]. rewrite (blen_bytes_of_bits bs Hl). lia.
Qed.

Lemma pyd_law_fork bs off h : length bs mod 8 = 0 -> off mod 8 = 0 -> 8 * N.to_nat h <= length bs - off ->
  pyd_fork bs off h = Some (firstn (8 * N.to_nat h) (skipn off bs), 0).
Proof.
  intros Hl Ha Hfit. unfold pyd_fork.
  pose proof (des_fork_bytes_spec (pyd_at bs off) h (pyd_al bs off Ha)) as S. cbn [pyd_at d_buf d_off] in S.
  rewrite (blen_bytes_of_bits bs Hl) in S.
  assert (Hf : (N.of_nat (length bs / 8) - N.of_nat off / 8 <? h)%N = false) by (apply N.ltb_ge; lia). rewrite Hf in S.
  destruct S as (f & E & Ho & Hlen & Hb). fold (pyd_at bs off) in E. rewrite E. f_equal. f_equal; [|unfold cur; rewrite Ho; reflexivity].
  apply bits_ext.
  - rewrite bits_of_bytes_length, firstn_length, skipn_length. unfold blen in Hlen. lia.
  - intros p Hp. rewrite bits_of_bytes_length in Hp. unfold blen in Hlen.
    rewrite <- bit_bits_of_bytes, Hb, nth_firstn_low by lia. rewrite nth_skipn_add, (bit_at bs off (N.of_nat p) Hl), Nat2N.id.
    destruct (N.ltb_spec (N.of_nat p) (8 * h)) as [_|Hbad]; [reflexivity | lia].
Qed.

Theorem pyd_laws_hold : pyd_laws pyd_prims.
Proof.
  constructor; cbn [pd_uxx pd_ixx pd_unsigned pd_signed pd_bit pd_float pd_bits pd_std pd_skip pd_pad pd_remaining pd_fork pyd_prims].
  - intros w bs off Hw Hl Ha. apply (pyd_law_uxx_ixx w bs off Hw Hl Ha).
  - intros w bs off Hw Hl Ha. apply (pyd_law_uxx_ixx w bs off Hw Hl Ha).
  - exact pyd_law_unsigned.
  - exact pyd_law_signed.
  - exact pyd_law_bit.
  - exact pyd_law_float.
  - exact pyd_law_bits.
  - exact pyd_law_std.
  - exact pyd_law_skip.
  - exact pyd_law_pad.
  - exact pyd_law_remaining.
  - exact pyd_law_fork.
Qed.

(* ---- the Python deserialization refinement about the shipped Deserializer ---- *)
(* the generated `_deserialize_` returns the specification's value / error AND leaves the cursor where the specification's decoder
   stops, for every sound static alignment annotation *)
Theorem pyd_walk_body_refines : forall sa t bs, sa_sound sa -> wf_ty t = true -> length bs mod 8 = 0 ->
  pdw_body pyd_prims sa t [] bs 0 = dec_body t bs.
Proof. intros sa t bs Hsa Hwf Hl. apply py_walk_body_refines_on; try assumption. apply pyd_laws_hold. Qed.

(* nunavut_support.deserialize: the object or None; no consumed size is reported, the statement is on the value (`res_val` = fst) *)
Theorem pyd_walk_des_refines_sa : forall sa t bs, sa_sound sa -> wf_ty t = true -> length bs mod 8 = 0 ->
  py_walk_des pyd_prims sa t bs = res_val (des_spec t bs).
Proof. intros sa t bs Hsa Hwf Hl. apply py_walk_des_refines_on; try assumption. apply pyd_laws_hold. Qed.

(* two canonical annotations: "aligned whenever the cursor is" (what a precise static analysis yields on types whose offsets are
   statically known) and "never aligned" (the least specialized members everywhere the template has a choice) *)
Definition sa_dyn : path -> nat -> bool := fun _ off => off mod 8 =? 0.
Definition sa_never : path -> nat -> bool := fun _ _ => false.

Lemma sa_dyn_sound : sa_sound sa_dyn.
Proof. intros pth off H. apply Nat.eqb_eq. exact H. Qed.
Lemma sa_never_sound : sa_sound sa_never.
Proof. intros pth off H. discriminate. Qed.

Theorem pyd_walk_des_refines : forall t bs, wf_ty t = true -> length bs mod 8 = 0 ->
  py_walk_des pyd_prims sa_dyn t bs = res_val (des_spec t bs).
Proof. intros t bs. apply pyd_walk_des_refines_sa. exact sa_dyn_sound. Qed.

(* the result does not depend on which members the static analysis selects *)
Corollary pyd_walk_des_sa_indep : forall sa sa' t bs, sa_sound sa -> sa_sound sa' -> wf_ty t = true -> length bs mod 8 = 0 ->
  py_walk_des pyd_prims sa t bs = py_walk_des pyd_prims sa' t bs.
Proof. intros sa sa' t bs H H' Hwf Hl. rewrite !pyd_walk_des_refines_sa by assumption. reflexivity. Qed.

(* non-vacuity, through the shipped Deserializer model: a union holding a DELIMITED structure with an unaligned 3-bit unsigned, a
   SIGNED 13-bit field (-1000), a float16 (1.0), an aligned array of 9 bools (fetch_aligned_array_of_bits) and a uint16[2]
   (fetch_aligned_array_of_standard_bit_length_primitives); the header says 11 bytes although the receiver's type needs 10:
   the extra byte is skipped.  Also with "never aligned", and a header that exceeds the data -> None (EBadHdr). *)
Example pyd_walk_des_example :
  let inner := TComp false [TPrim (PU 3 true); TPrim (PS 13 true); TPrim (PF 16 true); TFix (TPrim PBool) 9; TPrim (PVoid 7);
                            TFix (TPrim (PU 16 true)) 2] (Some 96) in
  let t := TComp true [TPrim (PU 8 true); inner; TVar (TPrim PBool) 9] None in
  let bs := bits_of_N 8 1 ++ bits_of_N 32 11 ++ bits_of_N 3 7 ++ bits_of_N 13 7192 ++ bits_of_N 16 15360 ++
            bits_of_N 9 261 ++ repeat false 7 ++ bits_of_N 16 513 ++ bits_of_N 16 65535 ++ bits_of_N 8 170 in
  let v := VUnion 1 (VStruct [VInt 7; VInt (-1000); VFlt 1065353216%N;
                              VArr (map VBool [true; false; true; false; false; false; false; false; true]); VVoid;
                              VArr [VInt 513; VInt 65535]]) in
  wf_ty t = true /\
  py_walk_des pyd_prims sa_dyn t bs = Ok v /\ py_walk_des pyd_prims sa_never t bs = Ok v /\ res_val (des_spec t bs) = Ok v /\
  pdw_body pyd_prims sa_dyn t [] bs 0 = Ok (v, 8 + 32 + 88) /\
  py_walk_des pyd_prims sa_dyn t (firstn 120 bs) = Err EBadHdr.
Proof. vm_compute. repeat split; reflexivity. Qed.

Print Assumptions pyd_walk_des_refines_sa.
Print Assumptions pyd_walk_body_refines.
