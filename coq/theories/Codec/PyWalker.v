(* A model of what the generated PYTHON serialization code does (lang/py/templates/serialization.j2), shaped after those
   templates - which differ from the C ones (Codec/Walker.v) exactly where the Python Serializer is append-only:
     - the Serializer is fresh (zero-filled); every value is appended at the cursor by add_aligned_* / add_unaligned_* (selected
       by `alignment_prefix`, folded into the primitive `p_add`); there is no whole-byte fast path and nothing is ever
       overwritten except the delimiter header below;
     - void fields and alignment padding only move the cursor (`skip_bits`, `pad_to_alignment`): the zero bits are already there;
     - a nested delimited object is serialized into `fork_bytes` of the same buffer 32 bits further on
       (`_nested_.skip_bits(32)`), then the PARENT writes the header with `add_aligned_u32(_nested_length_ // 8)` at its own,
       still unmoved, cursor and skips over the nested bytes (`p_hdr`: a plain aligned 4-byte store, the bytes behind it are not
       zero at that moment);
     - array length and union tag are appended with add_aligned_u<N>;
     - arrays (l.70-110): `assert len(..)`, then ONE call add_{aligned,unaligned}_array_of_bits for bool elements, ONE call
       add_{aligned,unaligned}_array_of_standard_bit_length_primitives for primitive elements of standard bit length (the NumPy
       array's little-endian memory image; a float16/float32 ARRAY is a NumPy float16/float32 array: it was rounded when it was
       assigned, nothing is packed here), the element loop otherwise (`pw_array`, `py_array_kind`).
   VALUE DOMAIN.  `VFlt x` of a float16/float32 field is the binary32 pattern of the field's value; the generated class stores a
   scalar float as a Python float (binary64) and rounds it only when struct.pack('<e'|'<f') is called - for values that are not
   binary32-representable that rounding step lies outside this model (the harness value generator only produces binary32
   patterns); arrays are rounded by NumPy on assignment.  The generated setters REJECT (ValueError) integers outside the wire range
   and finite floats outside the wire range whatever the cast mode, and arrays above the capacity (`Codec/PyAccept.v py_accepts`).
   That holds at ASSIGNMENT; array fields keep a reference to the caller's ndarray, so in-place writes can put any value of the NumPy
   dtype into an element afterwards: the saturating / truncating branch of the element loop is reachable for non-standard widths
   (PyAccept.v `py_elem_reachable`, `py_saturation_live_example`); the theorems here have no value proviso and cover it.
   The chunk handed to the Serializer for a primitive field is a PARAMETER `lf` (the leaf): Codec/PyLeaf.v `py_leaf_bits` models
   the Python-level conversions explicitly (`max(min(..))` saturation, two's complement by the support functions, struct.pack with
   round-half-EVEN float16); with `lf := Wire.enc_prim` the walker hands over the specification's own encoding (used as the
   intermediate step of the proof only).
   Buffers are bit lists; a fork is the same bit list at a later offset (C14: ser_fork_bytes_spec / ser_join_spec - a window on
   the same bytes). *)
From Verif Require Import Wire.
Local Open Scope nat_scope.

Record pyprims : Type := {
  p_add : list bool -> nat -> list bool -> option (list bool);   (* add_(un)aligned_unsigned / _u<N> / _bit at the cursor *)
  p_hdr : list bool -> nat -> N -> option (list bool);           (* add_aligned_u32 of the delimiter header *)
  p_bits : list bool -> nat -> list bool -> option (list bool);  (* add_(un)aligned_array_of_bits(x): the whole bool array at once *)
  p_std : nat -> list bool -> nat -> list bool -> option (list bool);
      (* add_(un)aligned_array_of_standard_bit_length_primitives(x): w, buffer, cursor, the bits of the NumPy array's memory image *)
}.

(* which array path the template emits (serialization.j2 l.73-81, l.100-108): bool elements -> array_of_bits; primitive elements of
   standard bit length (8/16/32/64-bit integers, float16/32/64) -> array_of_standard_bit_length_primitives; anything else -> the
   element loop *)
Inductive py_akind : Type := PABits | PAStd (p : prim) | PALoop.
Definition py_std_w (w : nat) : bool := (w =? 8) || (w =? 16) || (w =? 32) || (w =? 64).
Definition py_array_kind (e : ty) : py_akind :=
  match e with
  | TPrim PBool => PABits
  | TPrim (PU w s) => if py_std_w w then PAStd (PU w s) else PALoop
  | TPrim (PS w s) => if py_std_w w then PAStd (PS w s) else PALoop
  | TPrim (PF w s) => if py_std_w w then PAStd (PF w s) else PALoop
  | _ => PALoop
  end.

Section PyWalk.
  Variable Q : pyprims.
  Variable lf : prim -> val -> res (list bool).

  Definition pres := res (list bool * nat).

  Definition p_set (buf : list bool) (off : nat) (v : list bool) : pres :=
    match p_add Q buf off v with Some b => Ok (b, off + length v) | None => Err ETooSmall end.

  Definition pw_prim (p : prim) (v : val) (buf : list bool) (off : nat) : pres :=
    match p, v with
    | PVoid w, VVoid => Ok (buf, off + w)                                  (* _ser_.skip_bits(w) *)
    | _, _ => match lf p v with Ok bits => p_set buf off bits | Err e => Err e end
    end.

  Section PList.
    Variable Se : val -> list bool -> nat -> pres.
    Fixpoint pw_list (l : list val) (buf : list bool) (off : nat) : pres :=
      match l with
      | [] => Ok (buf, off)
      | x :: r => bind (Se x buf off) (fun '(b, o) => pw_list r b o)
      end.
  End PList.

  Section PComb.
    Variable Sr : ty -> val -> list bool -> nat -> pres.
    Fixpoint pw_fields (fs : list ty) (vs : list val) (buf : list bool) (off : nat) : pres :=
      match fs, vs with
      | [], [] => Ok (buf, off + pad8 off)                                 (* _ser_.pad_to_alignment(8) *)
      | f :: fs', v :: vs' =>
          bind (Sr f v buf (off + padn off (align f))) (fun '(b', o') => pw_fields fs' vs' b' o')
      | _, _ => Err EShape
      end.
    Fixpoint pw_sel (fs : list ty) (k : nat) (v : val) (buf : list bool) (off : nat) : pres :=
      match fs, k with
      | [], _ => Err EBadTag
      | f :: _, O => Sr f v buf off
      | _ :: r, S k' => pw_sel r k' v buf off
      end.
  End PComb.

  (* the two bulk adders are handed the concatenated leaf chunks of the elements (the array object's bits) *)
  Definition pw_array (e : ty) (l : list val) (buf : list bool) (off : nat) (loop : pres) : pres :=
    match py_array_kind e with
    | PABits =>
        match enc_list (lf PBool) l with
        | Ok B => match p_bits Q buf off B with Some b => Ok (b, off + length B) | None => Err ETooSmall end
        | Err e => Err e
        end
    | PAStd p =>
        match enc_list (lf p) l with
        | Ok B => match p_std Q (prim_bits p) buf off B with Some b => Ok (b, off + length B) | None => Err ETooSmall end
        | Err e => Err e
        end
    | PALoop => loop
    end.

  Definition pw_field (Sr : ty -> val -> list bool -> nat -> pres) (t : ty) (v : val) (buf : list bool) (off : nat) : pres :=
    match t with
    | TComp _ _ (Some _) =>
        bind (Sr t v buf (off + header_bits)) (fun '(b, o) =>
          match p_hdr Q b off (N.of_nat ((o - (off + header_bits)) / 8)) with
          | Some b' => Ok (b', o)
          | None => Err ETooSmall
          end)
    | _ => Sr t v buf off
    end.

  Fixpoint pw_body (t : ty) (v : val) (buf : list bool) (off : nat) : pres :=
    match t with
    | TPrim p => pw_prim p v buf off
    | TFix e n =>
        match v with
        | VArr l => if length l =? n then pw_array e l buf off (pw_list (pw_field pw_body e) l buf off) else Err EShape
        | _ => Err EShape
        end
    | TVar e cap =>
        match v with
        | VArr l =>
            if cap <? length l then Err EBadLen
            else bind (p_set buf off (bits_of_N (prefix_bits cap) (N.of_nat (length l)))) (fun '(b, o) =>
                   pw_array e l b o (pw_list (pw_field pw_body e) l b o))
        | _ => Err EShape
        end
    | TComp false fs _ =>
        match v with VStruct vs => pw_fields (pw_field pw_body) fs vs buf off | _ => Err EShape end
    | TComp true fs _ =>
        match v with
        | VUnion k x =>
            if length fs <=? k then Err EBadTag
            else bind (p_set buf off (bits_of_N (tag_bits (length fs)) (N.of_nat k))) (fun '(b, o) =>
                   bind (pw_sel (pw_field pw_body) fs k x b o) (fun '(b', o') => Ok (b', o' + pad8 o')))
        | _ => Err EShape
        end
    end.

  (* T._serialize_(Serializer.new(cap_bytes)); result = Serializer.buffer = the first ceil(cursor/8) bytes *)
  Definition py_walk_ser (t : ty) (v : val) (cap_bytes : nat) : res (list bool) :=
    bind (pw_body t v (repeat false (8 * cap_bytes)) 0) (fun '(b, o) => Ok (firstn (8 * ((o + 7) / 8)) b)).
End PyWalk.
