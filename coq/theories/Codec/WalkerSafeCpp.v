(* C04, C++ side.  NO PROOFS in this file.

   1. Buffer accesses of the generated C++ deserializer (lang/cpp/templates/deserialization.j2 over const_bitspan of
      lang/cpp/support/serialization.j2): every read goes through a saturating getter (getBit/getU*/getI*/getF* -> copyTo clamped
      to size()), there are no aligned fast paths and no bulk array paths (commented out in the template), nested objects get
      `in_buffer.subspan()` / `subspan_bytes(header)` (pointer data_.data() + offset_bytes, size clamped) and the cursor is advanced
      afterwards.  In absolute bit coordinates that is the walker of Codec/WalkerSafe.v under the configuration `cpp_cfg`; the
      footprints are linked to Prims/CppPrims.v in Codec/WalkerSafePrims.v.
   2. The destination containers.  The statements of `_deserialize_variable_length_array` are SCANNED from the template into a
      list of `vstmt` (one list per combination of Jinja branches) and interpreted here on a vector with its prior contents;
      an abstract interpreter `vla_check` decides in Coq whether a statement list replaces the contents by the decoded elements.
   3. The C++14 union emulation (_fields_as_union.j2): constructor, emplace and destroy_current are scanned into statement lists /
      a loop shape and interpreted on a tagged cell with ghost state: the live alternatives, whether the storage is still the
      all-zero bytes of value-initialisation, destructor calls on storage that holds something else (`ubad`) and destructor calls
      on never-constructed all-zero storage (`uzd`; the constructor does that once through emplace<0>()). *)
From Verif Require Import Wire Walker WalkerSafe.
Local Open Scope nat_scope.

(* ---- 1. buffer side ---- *)
Definition cpp_cfg (subspan_clamped : bool) : cfg :=
  {| ov := fun _ n => n; up_front := true; little := false; al := fun _ => false; len_chk_storage := false; guarded := false;
     ptr_clamp := subspan_clamped; bulk_on := false; nested_strict := true; plan := all_first; asserts := false; assert_max := true |}.

(* the C++ SERIALIZER (lang/cpp/templates/serialization.j2): every store goes through a checked bitspan member (setBit / setUxx /
   setIxx / setF* / setZeros / padAndMoveToAlignment: TOO_SMALL before anything is touched - scanned: tpl_cpp_ser_stores_checked and the
   event lists of the members), there are no raw or bulk paths, a nested object gets out_buffer.subspan(bits_at, ceil(max/8)*8) which
   REFUSES when the window does not fit, the vector length is compared with the DSDL capacity before the prefix is stored, and the
   up-front test `capacity_bits < max` may be compiled out (upf).  `pl` says where the two template-level checks sit. *)
Definition cpp_ser_cfg (upf : bool) (pl : chkplan) : cfg :=
  {| ov := fun _ n => n; up_front := upf; little := false; al := fun _ => false; len_chk_storage := true; guarded := true;
     ptr_clamp := true; bulk_on := false; nested_strict := true; plan := pl; asserts := false; assert_max := true |}.

(* the byte index (relative to data_.data()) of the pointer any_bitspan::subspan() hands to the nested span, as the arithmetic term
   SCANNED from the support header (newSize inlined); size_t subtraction never goes below zero in the recognised shapes *)
Inductive sexp : Type :=
| SOff | SSize | SZero
| SSub (a b : sexp) | SMin (a b : sexp)
| SIfLt (a b t e : sexp).          (* (a < b) ? t : e *)
Fixpoint seval (e : sexp) (size offb : nat) : nat :=
  match e with
  | SOff => offb | SSize => size | SZero => 0
  | SSub a b => seval a size offb - seval b size offb
  | SMin a b => Nat.min (seval a size offb) (seval b size offb)
  | SIfLt a b t e' => if seval a size offb <? seval b size offb then seval t size offb else seval e' size offb
  end.

(* the delimiter-header test of the C++ _deserialize_composite as SCANNED, evaluated in W-bit unsigned arithmetic (size_t of the target):
   h = the header (32 bits on the wire, held in a size_t), size = in_buffer.size() in bits *)
Inductive hchk : Type := HMulCmp | HDivCmp.
Definition hchk_eval (W : N) (k : hchk) (h size : N) : bool :=
  match k with
  | HMulCmp => (size <? (8 * h) mod 2 ^ W)%N          (* (h * 8U) > in_buffer.size(): the product wraps *)
  | HDivCmp => (size / 8 <? h)%N                      (* h > (in_buffer.size() / 8U) *)
  end.
Definition hchk_min_width (k : hchk) : N := match k with HMulCmp => 35%N | HDivCmp => 32%N end.

(* bitspan::setZeros(length) at bit offset off (void fields, the C++ serializer's zero runs): the byte accesses SCANNED from the support
   header, as index terms whose meaning the scanner pins (offset_bytes = off/8, length_bytes_ceil = (off%8 + length + 7)/8,
   last_byte = offset_bytes + length_bytes_ceil - 1).  The log entry of a zero run is BW (off/8) (bytes_hi (off + length)). *)
Inductive zidx : Type := ZFirst | ZLast.
Inductive zacc : Type := ZByte (i : zidx) | ZMemset (from : zidx).          (* data_[i] ; memset(&data_[from], 0, length_bytes_ceil) *)
Definition zlenceil (off len : nat) : nat := (off mod 8 + len + 7) / 8.
Definition zidx_val (i : zidx) (off len : nat) : nat :=
  match i with ZFirst => off / 8 | ZLast => off / 8 + zlenceil off len - 1 end.
Definition zrange (a : zacc) (off len : nat) : nat * nat :=
  match a with
  | ZByte i => (zidx_val i off len, zidx_val i off len + 1)
  | ZMemset i => (zidx_val i off len, zidx_val i off len + zlenceil off len)
  end.
(* inside the footprint the log entry states *)
Definition zacc_in (off len : nat) (a : zacc) : bool :=
  (off / 8 <=? fst (zrange a off len)) && (snd (zrange a off len) <=? bytes_hi (off + len)).

(* ---- 2. variable-length array: scanned statements ---- *)
Inductive lstmt : Type := LTmp | LDecodeTmp | LDecodeIdx | LPushBack.
Inductive vstmt : Type :=
| VSizeRead            (* the length prefix is read into a local *)
| VSizeCheck           (* if (size > capacity) return BadArrayLength *)
| VClear | VReserve | VResize
| VLoop (body : list lstmt).

Section Vla.
  Variable A : Type.
  Variable fresh : A.

  Record vst : Type := { vec : list A; sized : bool; checked : bool; vbad : nat }.

  (* one loop iteration: index i, decoded element d *)
  Fixpoint run_l (body : list lstmt) (tmp : option A) (v : list A) (d : A) (i : nat) (bad : nat) : list A * nat :=
    match body with
    | [] => (v, bad)
    | LTmp :: r => run_l r (Some fresh) v d i bad
    | LDecodeTmp :: r => match tmp with Some _ => run_l r (Some d) v d i bad | None => run_l r None v d i (S bad) end
    | LDecodeIdx :: r =>
        if i <? length v then run_l r tmp (firstn i v ++ d :: skipn (S i) v) d i bad else run_l r tmp v d i (S bad)   (* v[i] out of range *)
    | LPushBack :: r => match tmp with Some x => run_l r tmp (v ++ [x]) d i bad | None => run_l r tmp v d i (S bad) end
    end.

  Fixpoint run_loop (body : list lstmt) (ds : list A) (i : nat) (v : list A) (bad : nat) : list A * nat :=
    match ds with
    | [] => (v, bad)
    | d :: r => let '(v', bad') := run_l body None v d i bad in run_loop body r (S i) v' bad'
    end.

  Definition run_v (decoded : list A) (s : vstmt) (st : vst) : vst :=
    match s with
    | VSizeRead => {| vec := vec st; sized := true; checked := checked st; vbad := vbad st |}
    | VSizeCheck => {| vec := vec st; sized := sized st; checked := sized st; vbad := if sized st then vbad st else S (vbad st) |}
    | VClear => {| vec := []; sized := sized st; checked := checked st; vbad := vbad st |}
    | VReserve =>      (* allocation of `size` elements: must come after the check *)
        {| vec := vec st; sized := sized st; checked := checked st; vbad := if checked st then vbad st else S (vbad st) |}
    | VResize =>
        let n := length decoded in
        {| vec := firstn n (vec st) ++ repeat fresh (n - length (vec st)); sized := sized st; checked := checked st;
           vbad := if checked st then vbad st else S (vbad st) |}
    | VLoop body =>
        let '(v, b) := run_loop body decoded 0 (vec st) (vbad st) in
        {| vec := v; sized := sized st; checked := checked st; vbad := if checked st then b else S b |}
    end.

  Definition run_vla (p : list vstmt) (prior decoded : list A) : vst :=
    fold_left (fun st s => run_v decoded s st) p {| vec := prior; sized := false; checked := false; vbad := 0 |}.
End Vla.

(* abstract interpretation: what is known about the vector *)
Inductive avec : Type := APrior | AEmpty | ADecoded | AUnknown.
Inductive atmp : Type := TNone | TFresh | TDec.

(* a loop body is accepted iff it pushes the decoded element exactly once and does nothing else to the vector *)
Fixpoint body_pushes (body : list lstmt) (tmp : atmp) : option (list atmp) :=
  match body with
  | [] => Some []
  | LTmp :: r => body_pushes r TFresh
  | LDecodeTmp :: r => match tmp with TNone => None | _ => body_pushes r TDec end
  | LDecodeIdx :: _ => None
  | LPushBack :: r => match tmp with TNone => None | _ => option_map (cons tmp) (body_pushes r tmp) end
  end.

Definition body_ok (body : list lstmt) : bool :=
  match body_pushes body TNone with Some [TDec] => true | _ => false end.

Record ast : Type := { av : avec; asized : bool; achecked : bool; aok : bool }.
Definition arun (s : vstmt) (a : ast) : ast :=
  match s with
  | VSizeRead => {| av := av a; asized := true; achecked := achecked a; aok := aok a |}
  | VSizeCheck => {| av := av a; asized := asized a; achecked := asized a; aok := aok a && asized a |}
  | VClear => {| av := match av a with ADecoded | AUnknown => AUnknown | _ => AEmpty end; asized := asized a; achecked := achecked a; aok := aok a |}
  | VReserve => {| av := av a; asized := asized a; achecked := achecked a; aok := aok a && achecked a |}
  | VResize => {| av := AUnknown; asized := asized a; achecked := achecked a; aok := aok a && achecked a |}
  | VLoop body =>
      {| av := match av a with AEmpty => if body_ok body then ADecoded else AUnknown | _ => AUnknown end;
         asized := asized a; achecked := achecked a; aok := aok a && achecked a |}
  end.
Definition vla_check (p : list vstmt) : bool :=
  let a := fold_left (fun a s => arun s a) p {| av := APrior; asized := false; achecked := false; aok := true |} in
  aok a && match av a with ADecoded => true | _ => false end.

(* ---- 3. the C++14 union emulation ---- *)
Inductive ustmt : Type := UDestroy | UConstruct | USetTag.            (* statements of emplace<I>() *)
Inductive cstmt : Type := CTag0 | CZero | CEmplace0 | CDoEmplace0.      (* member initialisers and body of VariantType() *)
(* destroy_current(): `for field in fields [if field is not PrimitiveType]`, optional `if field is not PrimitiveType` inside,
   `if (tag_ == loop.index0)` *)
Record dshape : Type := { d_filtered : bool; d_inner_guard : bool }.

Record ucell : Type := { utag : nat; ulive : list nat; ubad : nat; uzero : bool; uzd : nat }.

Fixpoint remove_one (x : nat) (l : list nat) : list nat :=
  match l with [] => [] | y :: r => if x =? y then r else y :: remove_one x r end.

Fixpoint count_np (np : list bool) (i : nat) : nat :=
  match i, np with
  | O, _ | _, [] => 0
  | S i', b :: r => (if b then 1 else 0) + count_np r i'
  end.

(* the value `tag_` is compared with for alternative i, and whether a destructor call is emitted for it at all *)
Definition destroy_idx (d : dshape) (np : list bool) (i : nat) : nat := if d_filtered d then count_np np i else i.
Definition destroy_emitted (d : dshape) (b : bool) : bool := b || (negb (d_filtered d) && negb (d_inner_guard d)).

Definition destroy_alt (i : nat) (c : ucell) : ucell :=
  if existsb (Nat.eqb i) (ulive c)
  then {| utag := utag c; ulive := remove_one i (ulive c); ubad := ubad c; uzero := uzero c; uzd := uzd c |}
  else if uzero c
       then {| utag := utag c; ulive := ulive c; ubad := ubad c; uzero := uzero c; uzd := S (uzd c) |}
       else {| utag := utag c; ulive := ulive c; ubad := S (ubad c); uzero := uzero c; uzd := uzd c |}.

Fixpoint destroy_from (d : dshape) (np all : list bool) (i : nat) (c : ucell) : ucell :=
  match np with
  | [] => c
  | b :: r =>
      let c' := if destroy_emitted d b && (utag c =? destroy_idx d all i) then destroy_alt i c else c in
      destroy_from d r all (S i) c'
  end.
Definition destroy_current (d : dshape) (np : list bool) (c : ucell) : ucell := destroy_from d np np 0 c.

(* placement new of alternative i: trivially destructible occupants end silently, others stay (= never destroyed: a leak) *)
Definition construct (np : list bool) (i : nat) (c : ucell) : ucell :=
  {| utag := utag c; ulive := i :: filter (fun j => nth j np false) (ulive c); ubad := ubad c; uzero := false; uzd := uzd c |}.

Definition run_u (d : dshape) (np : list bool) (i : nat) (s : ustmt) (c : ucell) : ucell :=
  match s with
  | UDestroy => destroy_current d np c
  | UConstruct => construct np i c
  | USetTag => {| utag := i; ulive := ulive c; ubad := ubad c; uzero := uzero c; uzd := uzd c |}
  end.
Definition emplace (d : dshape) (es : list ustmt) (np : list bool) (i : nat) (c : ucell) : ucell :=
  fold_left (fun c s => run_u d np i s c) es c.

Definition run_c (d : dshape) (es : list ustmt) (np : list bool) (s : cstmt) (c : ucell) : ucell :=
  match s with
  | CTag0 => {| utag := 0; ulive := ulive c; ubad := ubad c; uzero := uzero c; uzd := uzd c |}
  | CZero => {| utag := utag c; ulive := ulive c; ubad := ubad c; uzero := true; uzd := uzd c |}
  | CEmplace0 => emplace d es np 0 c
  | CDoEmplace0 => construct np 0 c
  end.
(* VariantType() on raw storage: the tag holds whatever was there (t0), the bytes are not zero *)
Definition ctor (d : dshape) (es : list ustmt) (cs : list cstmt) (np : list bool) (t0 : nat) : ucell :=
  fold_left (fun c s => run_c d es np s c) cs {| utag := t0; ulive := []; ubad := 0; uzero := false; uzd := 0 |}.

(* set_x() / decode (set_x() then decode into it) / copy- and move-assignment from a cell holding alternative i *)
Fixpoint run_ops (d : dshape) (es : list ustmt) (np : list bool) (ops : list nat) (c : ucell) : ucell :=
  match ops with
  | [] => c
  | i :: r => run_ops d es np r (emplace d es np i c)
  end.

Definition dtor (d : dshape) (np : list bool) (c : ucell) : ucell := destroy_current d np c.

(* the shapes the proofs are about; Properties/C04.v states the theorems about the SCANNED values (Generated/Gen_C04.v) *)
Definition std_emplace : list ustmt := [UDestroy; UConstruct; USetTag].
Definition std_ctor : list cstmt := [CTag0; CZero; CEmplace0].
Definition direct_ctor : list cstmt := [CTag0; CZero; CDoEmplace0].
Definition cstmt_eqb (a b : cstmt) : bool :=
  match a, b with CTag0, CTag0 | CZero, CZero | CEmplace0, CEmplace0 | CDoEmplace0, CDoEmplace0 => true | _, _ => false end.
Fixpoint cstmts_eqb (a b : list cstmt) : bool :=
  match a, b with [], [] => true | x :: r, y :: r' => cstmt_eqb x y && cstmts_eqb r r' | _, _ => false end.
(* the constructor shapes the theorems cover: value-initialise, then emplace<0>() (current) or do_emplace<0>() (no destructor call) *)
Definition ctor_check (cs : list cstmt) : bool := cstmts_eqb cs std_ctor || cstmts_eqb cs direct_ctor.
Definition std_dshape : dshape := {| d_filtered := false; d_inner_guard := true |}.
Definition old_dshape : dshape := {| d_filtered := true; d_inner_guard := false |}.
