(* C04: the generated C (de)serialization routines instrumented with the memory they touch, the destination object with
   its prior contents, and the C++ containers / C++14 union emulation as small state machines.   NO PROOFS in this file.

   What is modelled (lang/c/templates/serialization.j2, deserialization.j2, lang/c/support/serialization.j2,
   lang/cpp/templates/deserialization.j2 _deserialize_variable_length_array, lang/cpp/templates/_fields_as_union.j2):

   - every buffer access of the generated code as a log entry carrying the byte range [lo, hi) it touches:
       BW  raw stores `buffer[off/8] = ..`, `memmove(&buffer[off/8], .., n)`, `memset`, nunavutCopyBits (all UNCHECKED) and the
           checked setters nunavutSetUxx/SetIxx/SetF* (which first compare `capacity*8 < off + len` -> TOO_SMALL, no write);
       BR  guarded byte loads (`if (off < capacity_bits)`, `if (off + w <= capacity_bits)`) and the nunavutGetBits/GetU*/GetI*/GetF*
           family whose footprint is the SATURATED fragment min(len, capacity*8 - min(capacity*8, off));
       BP  a pointer `&buffer[offset_bits / 8U]` formed and handed to a nested routine (no access by itself);
       OA  `elements[0 .. n)` of an object array whose storage holds `scap` elements (scap = the DSDL capacity, or the value the
           user put into <type>_<field>_ARRAY_CAPACITY_ under --enable-override-variable-array-capacity) -- the length checks of
           the generated code compare against the DSDL capacity literal, whatever the storage is;
   - offsets are ABSOLUTE bit offsets into the outermost buffer; a nested routine called on `&buffer[off/8]` with its own
     capacity is the same walker with the absolute limit `lim` (serialization: off + 8*ceil(max/8); deserialization: the remaining
     capacity resp. the delimiter header) -- exactly the convention of Codec/Walker.v, whose value semantics `wd_body` this file
     is proved equal to (WalkerSafeThm.wd_obs_eq_walker);
   - the byte-aligned fast paths are selected by the DYNAMIC test `off mod 8 = 0`; the templates select them by pydsdl's static
     `offset.is_aligned_at_byte()`, which implies the dynamic test, so the model takes the unchecked path at least as often as
     the code does (the bounds theorems therefore cover the code);
   - the C object as a tree `cobj` with ITS CURRENT CONTENTS whatever they are (counts above capacity, tags out of range, element
     storage beyond `count`, the overlapping storage of a union as one cell that is reinterpreted); every accessor is total
     (a mis-shaped cell reads as a default), so the walkers are total functions by structural recursion on the type and on the
     element count -- no fuel.  The bit loop of nunavutCopyBits is the only fuel-driven loop; its adequacy is
     Prims/CPrimsThm.copy_bits_exact (C14), re-exported in Properties/C04.v. *)
From Verif Require Import Wire Walker Gen_C01 GenC01Thm.
From Coq Require Import String.
From Coq Require Import List.
Import ListNotations.
Local Open Scope nat_scope.

(* ---- access log ---- *)
Inductive acc : Type :=
| BR (lo hi : nat)
| BW (lo hi : nat)
| BP (i : nat)
| OA (scap n : nat).

(* in bounds of a buffer of capB bytes / of the array storage; empty ranges are no access *)
Definition acc_ok (capB : nat) (a : acc) : bool :=
  match a with
  | BR lo hi | BW lo hi => (hi <=? capB) || (hi <=? lo)
  | BP _ => true
  | OA scap n => n <=? scap
  end.

(* ISO C 6.5.6p8: a pointer may point at most one past the last element *)
Definition ptr_ok (capB : nat) (a : acc) : bool :=
  match a with BP i => i <=? capB | _ => true end.

Definition is_write (a : acc) : bool := match a with BW _ _ => true | _ => false end.
Definition is_ptr (a : acc) : bool := match a with BP _ => true | _ => false end.

(* ---- error + log monad ---- *)
Definition M (A : Type) : Type := (res A * list acc)%type.
Definition ret {A} (a : A) : M A := (Ok a, []).
Definition fail {A} (e : derr) : M A := (Err e, []).
Definition tell (l : list acc) : M unit := (Ok tt, l).
Definition bindM {A B} (m : M A) (f : A -> M B) : M B :=
  match m with
  | (Ok a, l) => (fst (f a), l ++ snd (f a))
  | (Err e, l) => (Err e, l)
  end.
Definition silence {A} (m : M A) : M A := (fst m, []).

(* ---- configuration of one rendering ---- *)
(* WHERE the templates perform a check relative to the accesses it protects (true = textually before them), per macro; computed in
   Properties/C04.v from the check / access event lists scanned from the templates (`check_first`), consulted by the walkers below:
   with a flag false the walker performs the accesses first and the check afterwards, and the bounds theorems do not apply *)
Record chkplan : Type := { pl_ser_impl : bool; pl_ser_vla : bool; pl_des_vla : bool; pl_des_hdr : bool }.
Definition all_first : chkplan := {| pl_ser_impl := true; pl_ser_vla := true; pl_des_vla := true; pl_des_hdr := true |}.

Record cfg : Type := {
  ov : ty -> nat -> nat;        (* element type, DSDL capacity -> number of elements the generated `elements[]` holds *)
  up_front : bool;              (* the `8*capacity_bytes < max` check of _serialize_impl is compiled in
                                   (false = <T>_DISABLE_SERIALIZATION_BUFFER_CHECK_, defined as soon as a capacity is overridden) *)
  little : bool;                (* target_endianness = little: memmove paths and zero-cost bulk copies *)
  al : nat -> bool;             (* the static annotation `offset.is_aligned_at_byte()` of the primitive site visited at this bit offset:
                                   ANY function - the theorems hold for every annotation, so pydsdl's analysis is not modelled *)
  len_chk_storage : bool;       (* the length checks compare against the storage capacity (sizeof(elements)/sizeof(elements[0]))
                                   instead of the DSDL capacity literal *)
  guarded : bool;               (* every store that does not go through a checked primitive is preceded by a run-time bound *)
  ptr_clamp : bool;             (* _deserialize_composite forms &buffer[min(offset_bits / 8, capacity_bytes)] *)
  bulk_on : bool;               (* arrays of bool / zero-cost primitives are moved by one CopyBits / GetBits call (C; not C++) *)
  nested_strict : bool;         (* C++: bitspan::subspan(bits_at, size_bits) REFUSES (TOO_SMALL) when the nested window does not fit,
                                   before the nested routine runs; C hands the nested routine its maximum size unconditionally *)
  plan : chkplan;
  asserts : bool;               (* --enable-serialization-asserts with NUNAVUT_ASSERT = assert: a false condition ABORTS (outcome EAssert) *)
  assert_max : bool;            (* _serialize_any emits NUNAVUT_ASSERT((offset_bits + <max>) <= capacity_bytes * 8) in this rendering *)
}.
Definition plan_ok (c : cfg) : Prop := plan c = all_first.

(* a check and the code it protects, in the order the plan says *)
Definition ordered {A} (first cond : bool) (e : derr) (body : M A) : M A :=
  if first then (if cond then fail e else body) else bindM body (fun a => if cond then fail e else ret a).

Definition dyn_al (off : nat) : bool := off mod 8 =? 0.
Definition std_cfg (le : bool) : cfg :=
  {| ov := fun _ c => c; up_front := true; little := le; al := dyn_al; len_chk_storage := false; guarded := false; ptr_clamp := true;
     bulk_on := true; nested_strict := false; plan := all_first; asserts := false; assert_max := true |}.
Definition cap_ok (c : cfg) : Prop := forall e n, n <= ov c e n.
(* the array length checks keep every index inside the storage *)
Definition cap_sound (c : cfg) : Prop := len_chk_storage c = true \/ cap_ok c.
(* what `.count` is compared against (definitions.j2 refuses a storage capacity above the DSDL capacity with #error) *)
Definition chk_cap (c : cfg) (e : ty) (cap : nat) : nat := if len_chk_storage c then Nat.min cap (ov c e cap) else cap.

(* `t is zero_cost_primitive`: the TRANSLATED nunavut.lang.c.is_zero_cost_primitive (Generated/Gen_C01.v) on pydsdl's view of the
   primitive (GenC01Thm.desc_of_prim); a TypeError (None) cannot occur for the array element types DSDL admits *)
Definition zero_cost (c : cfg) (p : prim) : bool :=
  match is_zero_cost_primitive (if little c then "little"%string else "any"%string) (desc_of_prim p) with
  | Some b => b
  | None => false
  end.

(* element width when the array is moved by one nunavutCopyBits / nunavutGetBits call *)
Definition bulk (c : cfg) (e : ty) : option nat :=
  if negb (bulk_on c) then None else
  match e with
  | TPrim PBool => Some 1
  | TPrim p => if zero_cost c p then Some (prim_bits p) else None
  | _ => None
  end.

(* ---- the C object ---- *)
Inductive cobj : Type :=
| CPrim (v : val)
| CFix (l : list cobj)
| CVar (count : nat) (l : list cobj)       (* `count` is whatever the size_t field holds; l = the element storage *)
| CStruct (l : list cobj)
| CUnion (tag : nat) (cell : cobj).        (* overlapping storage: one cell, read as the member the tag selects *)

Definition dflt : cobj := CPrim VVoid.
Definition o_elems (o : cobj) : list cobj := match o with CFix l | CVar _ l | CStruct l => l | _ => [] end.
Definition o_count (o : cobj) : nat := match o with CVar n _ => n | _ => 0 end.
Definition o_tag (o : cobj) : nat := match o with CUnion k _ => k | _ => 0 end.
Definition o_cell (o : cobj) : cobj := match o with CUnion _ c => c | _ => dflt end.

Definition bytes_hi (endbit : nat) : nat := (endbit + 7) / 8.

(* =====================================================  serialization  ===================================================== *)
(* unchecked store of w bits at off *)
Definition w_raw (off w : nat) : M nat := (Ok (off + w), [BW (off / 8) (bytes_hi (off + w))]).
(* nunavutSetUxx(&buffer[0], capacity_bytes, off, v, w) of the routine whose capacity ends at absolute bit `lim` *)
Definition w_checked (lim off w : nat) : M nat :=
  if lim <? off + w then fail ETooSmall else w_raw off w.

(* a store the templates emit without a checked primitive; bounded at run time in the guarded rendering *)
Definition w_store (c : cfg) (lim off w : nat) : M nat := if guarded c then w_checked lim off w else w_raw off w.
(* the bare guard `if (offset_bits + w > capacity_bytes * 8U) return TOO_SMALL` followed by `offset_bits += w` *)
Definition w_guard (c : cfg) (lim off w : nat) : M nat :=
  if guarded c && (lim <? off + w) then fail ETooSmall else ret (off + w).

(* before a nested call: the `_guard(0)` of the guarded rendering; the C++ subspan(bits_at, size_bits) range check *)
Definition w_nest (c : cfg) (lim o1 sz : nat) : M nat :=
  if (guarded c && (lim <? o1)) || (nested_strict c && (lim <? o1 + sz)) then fail ETooSmall else ret o1.

Definition ws_pad (lim off a : nat) : M nat :=
  if off mod a =? 0 then ret off else w_checked lim off (a - off mod a).

Definition ws_prim (c : cfg) (p : prim) (lim off : nat) : M nat :=
  let w := prim_bits p in
  let al := al c off in
  match p with
  | PBool => w_store c lim off 1                                             (* byte store / read-modify-write of one byte *)
  | PVoid _ => if al then w_store c lim off w else w_checked lim off w       (* byte store / memset / SetUxx 0 *)
  | PU _ _ | PS _ _ => if al && ((w <=? 8) || little c) then w_store c lim off w else w_checked lim off w
  | PF _ _ => if al && little c then w_store c lim off w else w_checked lim off w
  end.

Section SerList.
  Variable Se : cobj -> nat -> M nat.
  Fixpoint ws_list (n : nat) (l : list cobj) (off : nat) : M nat :=
    match n with
    | O => ret off
    | S n' => bindM (Se (hd dflt l) off) (fun o => ws_list n' (tl l) o)
    end.
End SerList.

Section SerComb.
  Variable Sr : ty -> cobj -> nat -> nat -> M nat.      (* type, object, lim, off *)
  Fixpoint ws_fields (fs : list ty) (os : list cobj) (lim off : nat) : M nat :=
    match fs with
    | [] => ws_pad lim off 8
    | f :: fs' =>
        bindM (ws_pad lim off (align f)) (fun o =>
          bindM (Sr f (hd dflt os) lim o) (fun o' => ws_fields fs' (tl os) lim o'))
    end.
  Fixpoint ws_sel (fs : list ty) (k : nat) (o : cobj) (lim off : nat) : M nat :=
    match fs, k with
    | [], _ => fail EBadTag                         (* the final `else return -BAD_UNION_TAG` of the if/else-if chain *)
    | f :: _, O => Sr f o lim off
    | _ :: r, S k' => ws_sel r k' o lim off
    end.
End SerComb.

(* NUNAVUT_ASSERT(cond) *)
Definition w_assert (c : cfg) (cond : bool) : M unit :=
  if asserts c && assert_max c && negb cond then fail EAssert else ret tt.

(* _serialize_composite: the nested routine gets &buffer[off/8] and size_bytes = ceil(max/8) *)
Definition ws_field (c : cfg) (Sr : ty -> cobj -> nat -> nat -> M nat) (t : ty) (o : cobj) (lim off : nat) : M nat :=
  match t with
  | TComp _ _ ext =>
      let sz := 8 * bytes_hi (bmax t) in
      (* guarded rendering: size_bytes = min(ceil(max/8), capacity_bytes - offset_bits/8) *)
      let nlim := fun o1 => if guarded c then Nat.min (o1 + sz) lim else o1 + sz in
      match ext with
      | Some _ =>
          if bmin t =? bmax t then                      (* constant header written ahead: _serialize_integer(uint32) *)
            bindM (ws_prim c (PU header_bits false) lim off) (fun o1 =>
              bindM (w_nest c lim o1 sz) (fun _ =>
                bindM (tell [BP (o1 / 8)]) (fun _ => Sr t o (nlim o1) o1)))
          else                                          (* reserve 32 bits, nested call, jump back to store the header *)
            bindM (w_guard c lim off header_bits) (fun o1 =>
              bindM (w_nest c lim o1 sz) (fun _ =>
                bindM (tell [BP (o1 / 8)]) (fun _ =>
                  bindM (Sr t o (nlim o1) o1) (fun o2 =>
                    bindM (if little c then w_store c lim off header_bits else w_checked lim off header_bits) (fun _ => ret o2)))))
      | None => bindM (w_nest c lim off sz) (fun _ => bindM (tell [BP (off / 8)]) (fun _ => Sr t o (nlim off) off))
      end
  | _ => Sr t o lim off
  end.

(* _serialize_any: the assertion that the maximum representation of the item still fits, then the item *)
Definition ws_any (c : cfg) (Sr : ty -> cobj -> nat -> nat -> M nat) (t : ty) (o : cobj) (lim off : nat) : M nat :=
  bindM (w_assert c (off + as_field_max bmax t <=? lim)) (fun _ => ws_field c Sr t o lim off).

Fixpoint ws_body (c : cfg) (t : ty) (o : cobj) (lim off : nat) : M nat :=
  match t with
  | TPrim p => ws_prim c p lim off
  | TFix e n =>
      bindM (tell [OA n n]) (fun _ =>
        match bulk c e with
        | Some w => w_store c lim off (n * w)                               (* nunavutCopyBits, unchecked *)
        | None => ws_list (fun x off' => ws_any c (ws_body c) e x lim off') n (o_elems o) off
        end)
  | TVar e cap =>
      let n := o_count o in
      ordered (pl_ser_vla (plan c)) (chk_cap c e cap <? n) EBadLen                  (* before anything is touched *)
        (bindM (tell [OA (ov c e cap) n]) (fun _ =>
          bindM (ws_prim c (PU (prefix_bits cap) false) lim off) (fun o1 =>
            match bulk c e with
            | Some w => w_store c lim o1 (n * w)
            | None => ws_list (fun x off' => ws_any c (ws_body c) e x lim off') n (o_elems o) o1
            end)))
  | TComp false fs _ => ws_fields (ws_any c (ws_body c)) fs (o_elems o) lim off
  | TComp true fs _ =>
      bindM (ws_prim c (PU (tag_bits (length fs)) false) lim off) (fun o1 =>     (* the tag is stored first ... *)
        bindM (ws_sel (ws_any c (ws_body c)) fs (o_tag o) (o_cell o) lim o1)    (* ... then the if / else-if chain *)
          (fun o2 => ws_pad lim o2 8))
  end.

(* T_serialize_(obj, buffer, &size) with *size = capB; result = size in bytes *)
Definition walk_ser_safe (c : cfg) (t : ty) (o : cobj) (capB : nat) : M nat :=
  ordered (pl_ser_impl (plan c)) (up_front c && (8 * capB <? bmax t)) ETooSmall
    (bindM (ws_body c t o (8 * capB) 0) (fun off => ret (off / 8))).

(* =====================================================  deserialization  ===================================================== *)
(* footprint of nunavutGetBits / nunavutGetU* ...: the saturated fragment *)
Definition rd_log (cap off w : nat) : list acc :=
  let sat := Nat.min w (cap - Nat.min cap off) in
  if sat =? 0 then [] else [BR (off / 8) (bytes_hi (off + sat))].

Definition rp_log (c : cfg) (p : prim) (cap off : nat) : list acc :=
  let w := prim_bits p in
  match p with
  | PBool => if off <? cap then [BR (off / 8) (off / 8 + 1)] else []
  | PU _ _ => if al c off && (w <=? 8)
              then (if off + w <=? cap then [BR (off / 8) (off / 8 + 1)] else [])
              else rd_log cap off w
  | PVoid _ => []
  | _ => rd_log cap off w
  end.

(* integer read used for length prefixes, tags and delimiter headers: value as in Walker.v, footprint as above *)
Definition rd_uint (c : cfg) (w : nat) (buf : list bool) (cap off : nat) : M N :=
  (Ok (N_of_bits (get_bits ref_prims buf cap off w)), rp_log c (PU w false) cap off).

Definition rres (A : Type) := M (A * nat).

Section DesList.
  Variable De : cobj -> list bool -> nat -> nat -> rres cobj.
  (* elements [0, n) are decoded into the storage they find; what lies beyond stays *)
  Fixpoint wd_list (n : nat) (ps : list cobj) (buf : list bool) (cap off : nat) : rres (list cobj) :=
    match n with
    | O => ret (ps, off)
    | S n' => bindM (De (hd dflt ps) buf cap off) (fun '(v, o) =>
                bindM (wd_list n' (tl ps) buf cap o) (fun '(vs, o') => ret (v :: vs, o')))
    end.
End DesList.

Section DesComb.
  Variable D : ty -> cobj -> list bool -> nat -> nat -> rres cobj.
  Fixpoint wd_fields (fs : list ty) (ps : list cobj) (buf : list bool) (cap off : nat) : rres (list cobj) :=
    match fs with
    | [] => ret ([], off + pad8 off)
    | f :: fs' =>
        let o := off + padn off (align f) in
        bindM (D f (hd dflt ps) buf cap o) (fun '(v, o') =>
          bindM (wd_fields fs' (tl ps) buf cap o') (fun '(vs, o'') => ret (v :: vs, o'')))
    end.
  Fixpoint wd_sel (fs : list ty) (k : nat) (p : cobj) (buf : list bool) (cap off : nat) : rres cobj :=
    match fs, k with
    | [], _ => fail EBadTag
    | f :: _, O => D f p buf cap off
    | _ :: r, S k' => wd_sel r k' p buf cap off
    end.
End DesComb.

Definition ptr_at (c : cfg) (cap o : nat) : nat := if ptr_clamp c then Nat.min (o / 8) (cap / 8) else o / 8.

Definition wd_field (c : cfg) (D : ty -> cobj -> list bool -> nat -> nat -> rres cobj) (t : ty) (p : cobj) (buf : list bool) (cap off : nat)
  : rres cobj :=
  match t with
  | TComp _ _ (Some _) =>
      bindM (rd_uint c header_bits buf cap off) (fun hN =>
        let o := off + header_bits in
        let remaining := cap / 8 - Nat.min (o / 8) (cap / 8) in
        ordered (pl_des_hdr (plan c)) (N.of_nat remaining <? hN)%N EBadHdr
          (let h := N.to_nat hN in
             bindM (tell [BP (ptr_at c cap o)]) (fun _ =>
               bindM (D t p buf (Nat.min cap (o + 8 * h)) o) (fun '(v, _) => ret (v, o + 8 * h)))))
  | TComp _ _ None =>
      bindM (tell [BP (ptr_at c cap off)]) (fun _ =>
        bindM (D t p buf cap off) (fun '(v, o') =>
          let avail := cap - Nat.min off cap in
          ret (v, off + 8 * (Nat.min (o' - off) avail / 8))))
  | _ => D t p buf cap off
  end.

Fixpoint wd_body (c : cfg) (t : ty) (p : cobj) (buf : list bool) (cap off : nat) : rres cobj :=
  match t with
  | TPrim q => (Ok (CPrim (r_prim ref_prims q buf cap off), off + prim_bits q), rp_log c q cap off)
  | TFix e n =>
      bindM (tell [OA n n]) (fun _ =>
        bindM (match bulk c e with
               | Some w => bindM (tell (rd_log cap off (n * w))) (fun _ =>
                             silence (wd_list (wd_field c (wd_body c) e) n (o_elems p) buf cap off))
               | None => wd_list (wd_field c (wd_body c) e) n (o_elems p) buf cap off
               end) (fun '(vs, o) => ret (CFix vs, o)))
  | TVar e cp =>
      let pw := prefix_bits cp in
      bindM (rd_uint c pw buf cap off) (fun nN =>                     (* stored into .count, then compared *)
        ordered (pl_des_vla (plan c)) (N.of_nat (chk_cap c e cp) <? nN)%N EBadLen
          (let n := N.to_nat nN in
          bindM (tell [OA (ov c e cp) n]) (fun _ =>
            bindM (match bulk c e with
                   | Some w => bindM (tell (rd_log cap (off + pw) (n * w))) (fun _ =>
                                 silence (wd_list (wd_field c (wd_body c) e) n (o_elems p) buf cap (off + pw)))
                   | None => wd_list (wd_field c (wd_body c) e) n (o_elems p) buf cap (off + pw)
                   end) (fun '(vs, o) => ret (CVar n vs, o)))))
  | TComp false fs _ =>
      bindM (wd_fields (wd_field c (wd_body c)) fs (o_elems p) buf cap off) (fun '(vs, o) => ret (CStruct vs, o))
  | TComp true fs _ =>
      let tw := tag_bits (length fs) in
      bindM (rd_uint c tw buf cap off) (fun kN =>
        if (N.of_nat (length fs) <=? kN)%N then fail EBadTag
        else bindM (wd_sel (wd_field c (wd_body c)) fs (N.to_nat kN) (o_cell p) buf cap (off + tw)) (fun '(v, o) =>
               ret (CUnion (N.to_nat kN) v, o + pad8 o)))
  end.

(* T_deserialize_(out, buffer, &size): buffer = the bits of the supplied bytes *)
Definition walk_des_safe (c : cfg) (t : ty) (prior : cobj) (buf : list bool) : rres cobj :=
  let cap := length buf in
  bindM (wd_body c t prior buf cap 0) (fun '(v, o) => ret (v, Nat.min o cap / 8)).

(* ---- what a caller may look at: elements below count, the member the tag selects ---- *)
Section ObsComb.
  Variable Ob : ty -> cobj -> val.
  Fixpoint obs_fields (fs : list ty) (os : list cobj) : list val :=
    match fs with [] => [] | f :: r => Ob f (hd dflt os) :: obs_fields r (tl os) end.
  Fixpoint obs_sel (fs : list ty) (k : nat) (o : cobj) : val :=
    match fs, k with
    | [], _ => VVoid
    | f :: _, O => Ob f o
    | _ :: r, S k' => obs_sel r k' o
    end.
End ObsComb.

Fixpoint obs (t : ty) (o : cobj) : val :=
  match t with
  | TPrim _ => match o with CPrim v => v | _ => VVoid end
  | TFix e n => VArr (map (obs e) (firstn n (o_elems o)))
  | TVar e _ => VArr (map (obs e) (firstn (o_count o) (o_elems o)))
  | TComp false fs _ => VStruct (obs_fields obs fs (o_elems o))
  | TComp true fs _ => VUnion (o_tag o) (obs_sel obs fs (o_tag o) (o_cell o))
  end.

Definition obs_res (t : ty) (r : res (cobj * nat)) : res (val * nat) :=
  match r with Ok (o, k) => Ok (obs t o, k) | Err e => Err e end.

(* errors the generated routines document *)
Definition ser_err_documented (e : derr) : bool := match e with ETooSmall | EBadLen | EBadTag => true | _ => false end.
Definition des_err_documented (e : derr) : bool := match e with EBadLen | EBadTag | EBadHdr => true | _ => false end.


(* ---- check / access events of a template macro in textual order (scanned by tools/translators/gen_c04.py) ---- *)
Inductive ev : Type := EvCheck | EvAccess.
(* every access is preceded by a check (and there is one) *)
Fixpoint covered (seen_check : bool) (l : list ev) : bool :=
  match l with
  | [] => true
  | EvCheck :: r => covered true r
  | EvAccess :: r => seen_check && covered seen_check r
  end.
Definition check_first (l : list ev) : bool := covered false l && existsb (fun e => match e with EvAccess => true | _ => false end) l.
