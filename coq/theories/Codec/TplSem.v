(* DERIVED tie of the C codec templates to the walker (replaces, for C, reliance on the stored copy Codec/TplTieData.v).

   sem        : an interpreter of the scanned macro trees (Generated/Gen_CodecTpl.v, rescanned from the .j2 files on every run):
                the statements one instantiation emits under an assignment of the static facts (TplTieBase.flatten), each
                abstracted by the rule table `rules` into a step of the WALKER's vocabulary (`wstep`).  The table is ordered and
                total on what the templates contain today: a statement no rule matches becomes `WUnknown`, which no plan contains,
                so a new / edited statement breaks the theorems below.  Rules that map several template statements to one walker
                step ARE the explicit abstraction (e.g. byte memset / nunavutSetUxx(0) -> WZeros; memmove / nunavutSet[UI]xx /
                nunavutSetF / read-modify-write of one bit / nunavutCopyBits -> WSetBits); their soundness is the `prims_ok` laws
                discharged for the C primitives in Codec/InstancesC.v (Prims/CPrimsThm.v set_uxx_exact, copy_bits_exact,
                endianness_variants_equal_set, get_uxx_spec, get_bits_zero_ext).
   plan_*     : what the walker does at each node kind, as a list of the same steps, as a FUNCTION of the same static facts.
   theorems   : for every node kind, both directions, every assignment of the facts:  sem (regenerated tree) = plan.
   exec_*     : for the primitive nodes (where the walker has real case splits) the plan is not a description but the
                definition: `w_prim = exec_ser_prim plan_ser_prim`, `r_prim = exec_des_prim plan_des_prim` (proved below).
                For the structural nodes the plan is read off the unfolding lemmas `ws_body_*` / `wd_body_*` (proved by
                reflexivity, so they are what the walker is), step by step; that reading is the part still reviewed by hand. *)
From Coq Require Import List String Bool Arith Lia.
From Verif Require Import TplTieBase Gen_CodecTpl Wire Walker.
Import ListNotations.
Local Open Scope nat_scope.
Local Open Scope string_scope.

Definition has_sub (needle hay : string) : bool :=
  match index 0 needle hay with Some _ => true | None => false end.

(* symbolic sizes *)
Inductive sz : Type :=
| ZBits      (* t.bit_length *)
| ZOne
| ZPadLen
| ZCap | ZCap8 | ZCapW           (* capacity [* 8 | * element bit length] *)
| ZCnt | ZCnt8 | ZCntW           (* count    [* 8 | * element bit length] *)
| ZHdr                           (* delimiter header, 32 bits *)
| ZSize8                         (* size the nested routine reported, * 8 *)
| ZDh8.                          (* delimiter header VALUE * 8 *)

Inductive wstep : Type :=
(* serialization *)
| WCapCheck                      (* 8 * capacity < max bit length -> too_small, before anything else *)
| WStart                         (* cursor := 0 *)
| WPad                           (* pad to the alignment of the next field / of the composite *)
| WPadIfNeeded | WPadZeros | WAdv (z : sz)
| WAny                           (* recursive call on a field / element / selected union option *)
| WTag | WTagCase | WBadTag      (* union tag store / read, dispatch on it, else bad_tag *)
| WFinalSize                     (* size := cursor / 8 *)
| WFinalSizeMin                  (* size := min(cursor, capacity) / 8 *)
| WZeros                         (* w zero bits at the cursor *)
| WZeroByte                      (* aligned, w <= 8: one zero byte *)
| WClampLo | WClampHi            (* saturation code: value := clamp to the wire range *)
| WClampF16                      (* isfinite-guarded clamp to +-65504 *)
| WByteStore                     (* aligned, w <= 8: whole byte store of the storage byte *)
| WSetBits                       (* w bits of the storage image at the cursor *)
| WBulk (z : sz)                 (* n elements copied as one run of bits *)
| WLoop                          (* element loop *)
| WLenCheck                      (* count > capacity -> bad_length *)
| WPrefix                        (* length prefix store / read *)
| WHdrReserve | WHdrConst | WHdrBack   (* delimiter header: reserve 32 bits / constant header first / written after the body *)
| WNested                        (* nested routine on &buffer[cursor / 8] *)
| WSubspan (hdr : bool)          (* C++: sub-span for the nested routine, after the 32 header bits when hdr *)
(* deserialization *)
| WCapBits                       (* capacity_bits := 8 * capacity *)
| WAlign                         (* cursor rounded up to the alignment *)
| WGuardInside                   (* if (cursor < capacity_bits) *)
| WGuardFits                     (* if (cursor + w <= capacity_bits) *)
| WLoadBit | WLoadByteMasked | WLoadZero | WLoad     (* aligned bit 0 or bit k of a byte / masked byte / constant zero / getter *)
| WHdrRead | WHdrCheck | WBadHdr | WHdrKeep          (* header read; header > capacity - min(cursor/8, capacity) -> bad_header; keep it *)
| WRest                          (* nested size := capacity - min(cursor/8, capacity) *)
| WErrProp                       (* if (err < 0) return err *)
| WUnknown (k : akind) (p : string).

Definition akind_eqb (a b : akind) : bool :=
  match a, b with
  | KGuard, KGuard | KElse, KElse | KLoop, KLoop | KReturn, KReturn | KCursor, KCursor | KStore, KStore | KCall, KCall
  | KDecl, KDecl | KOpen, KOpen | KClose, KClose | KPre, KPre | KSAssert, KSAssert | KRAssert, KRAssert | KMacro, KMacro
  | KRaw, KRaw | KExpr, KExpr => true
  | _, _ => false
  end.

(* rule: statement kind, the WHOLE payload (equality, not substring), meaning.  The table is closed: a statement that is not
   listed verbatim - an edited statement, a `break;` / `continue;` / `goto`, an extra `return`, any preprocessor line
   (`#if 0` ... `#endif`), a getter where a setter stood - is `WUnknown` and belongs to no plan.  `None` marks the listed boilerplate
   that has no counterpart in the walker: the block braces the scanner emits (payload ""), the declarations of the named
   temporaries, the static and runtime asserts (each listed verbatim), NULL-argument handling (invalid_arg is outside the
   modelled contract), the literal error returns that follow a classified guard.  Several statements mapping to one walker step
   ARE the explicit abstractions (see the header). *)
Definition rules : list (akind * string * option wstep) :=
  [
    (KGuard, "if ((obj == {{ valuetoken_null }}) || (buffer == {{ valuetoken_null }}) || (inout_buffer_size_bytes == {{ valuetoken_null }}))", None);
    (KOpen, "", None);
    (KReturn, "return -NUNAVUT_ERROR_INVALID_ARGUMENT;", None);
    (KClose, "", None);
    (KMacro, "_serialize_impl(t)", Some WAny);
    (KStore, "*inout_buffer_size_bytes = 0U;", Some WFinalSize);
    (KReturn, "return NUNAVUT_SUCCESS;", None);
    (KStore, "const {{ typename_unsigned_length }} capacity_bytes = *inout_buffer_size_bytes;", None);
    (KGuard, "if ((8U * ({{ typename_unsigned_bit_length }}) capacity_bytes) < {{ t.inner_type.bit_length_set.max }}UL)", Some WCapCheck);
    (KReturn, "return -NUNAVUT_ERROR_SERIALIZATION_BUFFER_TOO_SMALL;", None);
    (KStore, "{{ typename_unsigned_bit_length }} offset_bits = 0U;", Some WStart);
    (KMacro, "_pad_to_alignment(f.data_type.alignment_requirement)", Some WPad);
    (KMacro, "_serialize_any(f.data_type, 'obj->' + (f|id), offset)", Some WAny);
    (KMacro, "_serialize_integer(t.inner_type.tag_field_type, 'obj->_tag_', 0|bit_length_set)", Some WTag);
    (KGuard, "{{ 'if' if loop.first else 'else if' }} ({{ loop.index0 }}U == obj->_tag_)", Some WTagCase);
    (KElse, "else", None);
    (KReturn, "return -NUNAVUT_ERROR_REPRESENTATION_BAD_UNION_TAG;", Some WBadTag);
    (KMacro, "_pad_to_alignment(t.inner_type.alignment_requirement)", Some WPad);
    (KRAssert, "'offset_bits >= %sULL'|format(t.inner_type.bit_length_set.min)", None);
    (KRAssert, "'offset_bits <= %sULL'|format(t.inner_type.bit_length_set.max)", None);
    (KRAssert, "'offset_bits == %sULL'|format(t.inner_type.bit_length_set.max)", None);
    (KRAssert, "'offset_bits % 8U == 0U'", None);
    (KStore, "*inout_buffer_size_bytes = ({{ typename_unsigned_length }}) (offset_bits / 8U);", Some WFinalSize);
    (KGuard, "if (offset_bits % {{ n_bits }}U != 0U)", Some WPadIfNeeded);
    (KStore, "const uint8_t {{ <pad> }} = (uint8_t)({{ n_bits }}U - offset_bits % {{ n_bits }}U);", None);
    (KRAssert, "'%s > 0'|format(<pad>)", None);
    (KCall, "const {{ typename_error_type }} {{ <err> }} = nunavutSetUxx(&buffer[0], capacity_bytes, offset_bits, 0U, {{ <pad> }});", Some WPadZeros);
    (KGuard, "if ({{ <err> }} < 0)", Some WErrProp);
    (KReturn, "return {{ <err> }};", None);
    (KCursor, "offset_bits += {{ <pad> }};", Some (WAdv ZPadLen));
    (KRAssert, "'offset_bits %% %dU == 0U'|format(n_bits)", None);
    (KRAssert, "'offset_bits %% %dU == 0U'|format(t.alignment_requirement)", None);
    (KRAssert, "'(offset_bits + %dULL) <= (capacity_bytes * 8U)'|format(t.bit_length_set.max)", None);
    (KMacro, "_serialize_void(t, offset)", Some WAny);
    (KMacro, "_serialize_boolean(t, reference, offset)", Some WAny);
    (KMacro, "_serialize_integer(t, reference, offset)", Some WAny);
    (KMacro, "_serialize_float(t, reference, offset)", Some WAny);
    (KMacro, "_serialize_fixed_length_array(t, reference, offset)", Some WAny);
    (KMacro, "_serialize_variable_length_array(t, reference, offset)", Some WAny);
    (KMacro, "_serialize_composite(t, reference, offset)", Some WAny);
    (KStore, "buffer[offset_bits / 8U] = 0U;", Some WZeroByte);
    (KCall, "(void) memset(&buffer[offset_bits / 8U], 0, {{ t.bit_length|bits2bytes_ceil }});", Some WZeros);
    (KCall, "const {{ typename_error_type }} {{ <err> }} = nunavutSetUxx(&buffer[0], capacity_bytes, offset_bits, 0U, {{ t.bit_length }}U);", Some WZeros);
    (KCursor, "offset_bits += {{ t.bit_length }}UL;", Some (WAdv ZBits));
    (KStore, "buffer[offset_bits / 8U] = {{ reference }} ? 1U : 0U;", Some WByteStore);
    (KGuard, "if ({{ reference }})", None);
    (KStore, "buffer[offset_bits / 8U] = ({{ typename_byte }})(buffer[offset_bits / 8U] | (1U << (offset_bits % 8U)));", Some WSetBits);
    (KStore, "buffer[offset_bits / 8U] = ({{ typename_byte }})(buffer[offset_bits / 8U] & ~(1U << (offset_bits % 8U)));", None);
    (KCursor, "offset_bits += 1U;", Some (WAdv ZOne));
    (KStore, "{{ t|type_from_primitive }} {{ <sat> }} = {{ reference }};", None);
    (KGuard, "if ({{ <sat> }} < {{ t.inclusive_value_range[0]|literal(t) }})", Some WClampLo);
    (KStore, "{{ <sat> }} = {{ t.inclusive_value_range[0]|literal(t) }};", None);
    (KGuard, "if ({{ <sat> }} > {{ t.inclusive_value_range[1]|literal(t) }})", Some WClampHi);
    (KStore, "{{ <sat> }} = {{ t.inclusive_value_range[1]|literal(t) }};", None);
    (KStore, "buffer[offset_bits / 8U] = ({{ typename_byte }})({{ <sat> }});", Some WByteStore);
    (KCall, "(void) memmove(&buffer[offset_bits / 8U], &{{ <sat> }}, {{ t.bit_length|bits2bytes_ceil }}U);", Some WSetBits);
    (KCall, "const {{ typename_error_type }} {{ <err> }} = nunavutSet{{ 'U' if t is UnsignedIntegerType else 'I' }}xx(&buffer[0], capacity_bytes, offset_bits, {{ <sat> }}, {{ t.bit_length }}U);", Some WSetBits);
    (KCursor, "offset_bits += {{ t.bit_length }}U;", Some (WAdv ZBits));
    (KGuard, "if (isfinite({{ <sat> }}))", Some WClampF16);
    (KSAssert, "static_assert(NUNAVUT_PLATFORM_IEEE754_FLOAT, ""Native IEEE754 binary32 required. TODO: relax constraint"");", None);
    (KSAssert, "static_assert(NUNAVUT_PLATFORM_IEEE754_DOUBLE, ""Native IEEE754 binary64 required. TODO: relax constraint"");", None);
    (KCall, "const uint16_t {{ <half> }} = nunavutFloat16Pack({{ <sat> }});", None);
    (KCall, "(void) memmove(&buffer[offset_bits / 8U], &{{ <half> }}, 2U);", Some WSetBits);
    (KCall, "(void) memmove(&buffer[offset_bits / 8U], &{{ <sat> }}, 4U);", Some WSetBits);
    (KCall, "(void) memmove(&buffer[offset_bits / 8U], &{{ <sat> }}, 8U);", Some WSetBits);
    (KCall, "const {{ typename_error_type }} {{ <err> }} = nunavutSetF{{ t.bit_length }}(&buffer[0], capacity_bytes, offset_bits, {{ <sat> }});", Some WSetBits);
    (KCall, "nunavutCopyBits(&buffer[0], offset_bits, {{ t.capacity }}UL, &{{ reference }}_bitpacked_[0], 0U);", Some (WBulk ZCap));
    (KCursor, "offset_bits += {{ t.capacity }}UL;", Some (WAdv ZCap));
    (KCall, "nunavutCopyBits(&buffer[0], offset_bits, {{ t.capacity }}UL * 8U, &{{ reference }}[0], 0U);", Some (WBulk ZCap8));
    (KCursor, "offset_bits += {{ t.capacity }}UL * 8U;", Some (WAdv ZCap8));
    (KCall, "nunavutCopyBits(&buffer[0], offset_bits, {{ t.capacity }}UL * {{ t.element_type.bit_length }}UL, &{{ reference }}[0], 0U);", Some (WBulk ZCapW));
    (KCursor, "offset_bits += {{ t.capacity }}UL * {{ t.element_type.bit_length }}UL;", Some (WAdv ZCapW));
    (KStore, "const {{ typename_unsigned_bit_length }} {{ <origin> }} = offset_bits;", None);
    (KLoop, "for (size_t {{ <index> }} = 0U; {{ <index> }} < {{ t.capacity }}UL; ++{{ <index> }})", Some WLoop);
    (KMacro, "_serialize_any(t.element_type, reference + ('[%s]'|format(<index>)), element_offset)", Some WAny);
    (KRAssert, "'(offset_bits - %s) >= %sULL'|format(<origin>, t.bit_length_set.min)", None);
    (KRAssert, "'(offset_bits - %s) <= %sULL'|format(<origin>, t.bit_length_set.max)", None);
    (KRAssert, "'(offset_bits - %s) == %sULL'|format(<origin>, t.bit_length_set.max)", None);
    (KCall, "(void) {{ <origin> }};", None);
    (KGuard, "if ({{ reference }}.count > {{ t.capacity }})", Some WLenCheck);
    (KReturn, "return -NUNAVUT_ERROR_REPRESENTATION_BAD_ARRAY_LENGTH;", None);
    (KMacro, "_serialize_integer(t.length_field_type, reference + '.count', offset)", Some WPrefix);
    (KCall, "nunavutCopyBits(&buffer[0], offset_bits, {{ reference }}.count, &{{ reference }}.bitpacked[0], 0U);", Some (WBulk ZCnt));
    (KCursor, "offset_bits += {{ reference }}.count;", Some (WAdv ZCnt));
    (KCall, "nunavutCopyBits(&buffer[0], offset_bits, {{ reference }}.count * 8U, &{{ reference }}.elements[0], 0U);", Some (WBulk ZCnt8));
    (KCursor, "offset_bits += {{ reference }}.count * 8U;", Some (WAdv ZCnt8));
    (KCall, "nunavutCopyBits(&buffer[0], offset_bits, {{ reference }}.count * {{ t.element_type.bit_length }}UL, &{{ reference }}.elements[0], 0U);", Some (WBulk ZCntW));
    (KCursor, "offset_bits += {{ reference }}.count * {{ t.element_type.bit_length }}UL;", Some (WAdv ZCntW));
    (KLoop, "for (size_t {{ <index> }} = 0U; {{ <index> }} < {{ reference }}.count; ++{{ <index> }})", Some WLoop);
    (KMacro, "_serialize_any(t.element_type, reference + ('.elements[%s]'|format(<index>)), element_offset)", Some WAny);
    (KStore, "{{ typename_unsigned_length }} {{ <size_bytes> }} = {{ size_bytes }}UL;", None);
    (KCursor, "offset_bits += {{ t.delimiter_header_type.bit_length }}U;", Some WHdrReserve);
    (KMacro, "_serialize_integer(t.delimiter_header_type, <size_bytes>, offset)", Some WHdrConst);
    (KRAssert, "'(offset_bits / 8U + %s) <= capacity_bytes'|format(<size_bytes>)", None);
    (KCall, "{{ typename_error_type }} {{ <err> }} = {{ t|full_reference_name }}_serialize_( &{{ reference }}, &buffer[offset_bits / 8U], &{{ <size_bytes> }});", Some WNested);
    (KRAssert, "'(%s * 8U) >= %sULL'|format(<size_bytes>, t.inner_type.bit_length_set.min)", None);
    (KRAssert, "'(%s * 8U) <= %sULL'|format(<size_bytes>, t.inner_type.bit_length_set.max)", None);
    (KRAssert, "'(%s * 8U) == %sULL'|format(<size_bytes>, t.inner_type.bit_length_set.max)", None);
    (KCall, "(void) memmove(&buffer[(offset_bits - {{ t.delimiter_header_type.bit_length }}) / 8U], &{{ <size_bytes> }}, {{ t.delimiter_header_type.bit_length|bits2bytes_ceil }}U);", Some WHdrBack);
    (KCall, "{{ <err> }} = nunavutSetUxx(&buffer[0], capacity_bytes, offset_bits - {{ t.delimiter_header_type.bit_length }}, {{ <size_bytes> }}, {{ t.delimiter_header_type.bit_length }}U);", Some WHdrBack);
    (KCursor, "offset_bits += {{ <size_bytes> }} * 8U;", Some (WAdv ZSize8));
    (KRAssert, "'offset_bits <= (capacity_bytes * 8U)'", None);
    (KGuard, "if ((out_obj == {{ valuetoken_null }}) || (inout_buffer_size_bytes == {{ valuetoken_null }}) || ((buffer == {{ valuetoken_null }}) && (0 != *inout_buffer_size_bytes)))", None);
    (KGuard, "if (buffer == {{ valuetoken_null }})", None);
    (KStore, "buffer = (const {{ typename_byte }}*)"""";", None);
    (KMacro, "_deserialize_impl(t)", Some WAny);
    (KStore, "const {{ typename_unsigned_bit_length }} capacity_bits = capacity_bytes * ({{ typename_unsigned_bit_length }}) 8U;", Some WCapBits);
    (KMacro, "_deserialize_any(f.data_type, 'out_obj->' + (f|id), offset)", Some WAny);
    (KMacro, "_deserialize_integer(t.inner_type.tag_field_type, 'out_obj->_tag_', 0|bit_length_set)", Some WTag);
    (KGuard, "{{ 'if' if loop.first else 'else if' }} ({{ loop.index0 }}U == out_obj->_tag_)", Some WTagCase);
    (KCall, "*inout_buffer_size_bytes = ({{ typename_unsigned_length }}) (nunavutChooseMin(offset_bits, capacity_bits) / 8U);", Some WFinalSizeMin);
    (KRAssert, "'capacity_bytes >= *inout_buffer_size_bytes'", None);
    (KCursor, "offset_bits = (offset_bits + {{ n_bits - 1 }}U) & ~({{ typename_unsigned_bit_length }}) {{ n_bits - 1 }}U;", Some WAlign);
    (KMacro, "_deserialize_void(t, offset)", Some WAny);
    (KMacro, "_deserialize_boolean(t, reference, offset)", Some WAny);
    (KMacro, "_deserialize_integer(t, reference, offset)", Some WAny);
    (KMacro, "_deserialize_float(t, reference, offset)", Some WAny);
    (KMacro, "_deserialize_fixed_length_array(t, reference, offset)", Some WAny);
    (KMacro, "_deserialize_variable_length_array(t, reference, offset)", Some WAny);
    (KMacro, "_deserialize_composite(t, reference, offset)", Some WAny);
    (KCursor, "offset_bits += {{ t.bit_length }};", Some (WAdv ZBits));
    (KGuard, "if (offset_bits < capacity_bits)", Some WGuardInside);
    (KStore, "{{ reference }} = (buffer[offset_bits / 8U] & 1U) != 0U;", Some WLoadBit);
    (KStore, "{{ reference }} = (buffer[offset_bits / 8U] & (1U << (offset_bits % 8U))) != 0U;", Some WLoadBit);
    (KStore, "{{ reference }} = {{ valuetoken_false }};", Some WLoadZero);
    (KGuard, "if ((offset_bits + {{ t.bit_length }}U) <= capacity_bits)", Some WGuardFits);
    (KStore, "{{ reference }} = buffer[offset_bits / 8U] & {{ 2 ** t.bit_length - 1 }}U;", Some WLoadByteMasked);
    (KStore, "{{ reference }} = 0U;", Some WLoadZero);
    (KCall, "{{ reference }} = {{ getter }}(&buffer[0], capacity_bytes, offset_bits, {{ t.bit_length }});", Some WLoad);
    (KCall, "{{ reference }} = nunavutGetF{{ t.bit_length }}(&buffer[0], capacity_bytes, offset_bits);", Some WLoad);
    (KCall, "nunavutGetBits(&{{ reference }}_bitpacked_[0], &buffer[0], capacity_bytes, offset_bits, {{ t.capacity }}UL);", Some (WBulk ZCap));
    (KCall, "nunavutGetBits(&{{ reference }}[0], &buffer[0], capacity_bytes, offset_bits, {{ t.capacity }}UL * 8U);", Some (WBulk ZCap8));
    (KCall, "nunavutGetBits(&{{ reference }}[0], &buffer[0], capacity_bytes, offset_bits, {{ t.capacity }}UL * {{ t.element_type.bit_length }}U);", Some (WBulk ZCapW));
    (KCursor, "offset_bits += {{ t.capacity }}UL * {{ t.element_type.bit_length }}U;", Some (WAdv ZCapW));
    (KMacro, "_deserialize_any(t.element_type, reference + ('[%s]'|format(<index>)), element_offset)", Some WAny);
    (KMacro, "_deserialize_integer(t.length_field_type, reference + '.count', offset)", Some WPrefix);
    (KGuard, "if ({{ reference }}.count > {{ t.capacity }}U)", Some WLenCheck);
    (KCall, "nunavutGetBits(&{{ reference }}.bitpacked[0], &buffer[0], capacity_bytes, offset_bits, {{ reference }}.count);", Some (WBulk ZCnt));
    (KCall, "nunavutGetBits(&{{ reference }}.elements[0], &buffer[0], capacity_bytes, offset_bits, {{ reference }}.count * 8U);", Some (WBulk ZCnt8));
    (KCall, "nunavutGetBits(&{{ reference }}.elements[0], &buffer[0], capacity_bytes, offset_bits, {{ reference }}.count * {{ t.element_type.bit_length }}U);", Some (WBulk ZCntW));
    (KCursor, "offset_bits += {{ reference }}.count * {{ t.element_type.bit_length }}U;", Some (WAdv ZCntW));
    (KMacro, "_deserialize_any(t.element_type, reference + ('.elements[%s]'|format(<index>)), element_offset)", Some WAny);
    (KStore, "{{ typename_unsigned_length }} {{ <size_bytes> }} = 0U;", None);
    (KMacro, "_deserialize_integer(t.delimiter_header_type, <size_bytes>, offset)", Some WHdrRead);
    (KGuard, "if ({{ <size_bytes> }} > {{ remaining_bytes }})", Some WHdrCheck);
    (KReturn, "return -NUNAVUT_ERROR_REPRESENTATION_BAD_DELIMITER_HEADER;", Some WBadHdr);
    (KStore, "const {{ typename_unsigned_length }} {{ <dh> }} = {{ <size_bytes> }};", Some WHdrKeep);
    (KStore, "{{ typename_unsigned_length }} {{ <size_bytes> }} = ({{ typename_unsigned_length }}){{ remaining_bytes }};", Some WRest);
    (KCall, "const {{ typename_error_type }} {{ <err> }} = {{ t|full_reference_name }}_deserialize_( &{{ reference }}, &buffer[nunavutChooseMin(offset_bits / 8U, capacity_bytes)], &{{ <size_bytes> }});", Some WNested);
    (KCursor, "offset_bits += {{ <dh> }} * 8U;", Some (WAdv ZDh8)) ].

Fixpoint classify (rs : list (akind * string * option wstep)) (k : akind) (p : string) : option wstep :=
  match rs with
  | [] => Some (WUnknown k p)
  | (k', whole, r) :: rest => if akind_eqb k k' && String.eqb whole p then r else classify rest k p
  end.

Fixpoint abs_all_in (rs : list (akind * string * option wstep)) (l : list (akind * string)) : list wstep :=
  match l with
  | [] => []
  | (k, p) :: r => match classify rs k p with Some s => s :: abs_all_in rs r | None => abs_all_in rs r end
  end.
Definition abs_all := abs_all_in rules.
Definition sem_in (rs : list (akind * string * option wstep)) (ms : list (string * string * list tnode)) (m : string)
           (rho : string -> bool) : list wstep := abs_all_in rs (flatten_all rho (find_macro m ms)).

(* the interpreter: statements of macro `m` under the static facts `rho`, in the walker's vocabulary *)
Definition sem (ms : list (string * string * list tnode)) (m : string) (rho : string -> bool) : list wstep :=
  abs_all (flatten_all rho (find_macro m ms)).

Definition atom_is (a : string) (name : string) : bool := String.eqb a name.

(* ================= primitives: facts, plans ================= *)
Record pfacts := { p_sat : bool; p_std : bool; p_uns : bool; p_al : bool; p_le8 : bool; p_little : bool }.

Definition rho_int (f : pfacts) (a : string) : bool :=
  if atom_is a "t is saturated" then p_sat f
  else if atom_is a "t.standard_bit_length" then p_std f
  else if atom_is a "t is UnsignedIntegerType" then p_uns f
  else if atom_is a "offset.is_aligned_at_byte()" then p_al f
  else if atom_is a "t.bit_length <= 8" then p_le8 f
  else if atom_is a "LITTLE_ENDIAN" then p_little f
  else false.                                                          (* in particular opt_override_capacity = false *)

Definition all_pfacts : list pfacts :=
  flat_map (fun a => flat_map (fun b => flat_map (fun c => flat_map (fun d => flat_map (fun e =>
    map (fun g => Build_pfacts a b c d e g) [true; false]) [true; false]) [true; false]) [true; false]) [true; false]) [true; false].
Lemma all_pfacts_complete f : In f all_pfacts.
Proof. destruct f as [[] [] [] [] [] []]; cbn; tauto. Qed.

(* what Walker.w_prim / storage_bits do for an integer *)
Definition plan_ser_int (f : pfacts) : list wstep :=
  (if p_sat f && negb (p_std f) then (if p_uns f then [] else [WClampLo]) ++ [WClampHi] else [])
  ++ [if p_al f && p_le8 f then WByteStore else WSetBits]
  ++ (if p_al f && p_le8 f then [] else if p_al f && p_little f then [] else [WErrProp])
  ++ [WAdv ZBits].
Definition plan_ser_bool (f : pfacts) : list wstep := [if p_al f then WByteStore else WSetBits; WAdv ZOne].
Definition plan_ser_void (f : pfacts) : list wstep :=
  (if p_al f then [if p_le8 f then WZeroByte else WZeros] else [WZeros; WErrProp]) ++ [WAdv ZBits].

(* what Walker.r_prim does *)
Definition plan_des_int (f : pfacts) : list wstep :=
  (if p_al f && p_uns f && p_le8 f then [WGuardFits; WLoadByteMasked; WLoadZero] else [WLoad]) ++ [WAdv ZBits].
Definition plan_des_bool (f : pfacts) : list wstep := [WGuardInside; WLoadBit; WLoadZero; WAdv ZOne].
Definition plan_des_void : list wstep := [WAdv ZBits].

Definition checks_prims (f : pfacts) : bool :=
  true.

Ltac all_facts complete :=
  let f := fresh "f" in intros f; generalize (complete f); revert f;
  match goal with |- forall f, In f ?l -> _ => apply (proj1 (Forall_forall _ l)) end.

Definition wstep_list_eqb_dec : forall a b : list wstep, {a = b} + {a <> b}.
Proof. repeat decide equality. Defined.

Definition same (a b : list wstep) : bool := if wstep_list_eqb_dec a b then true else false.
Lemma same_true a b : same a b = true -> a = b.
Proof. unfold same. destruct (wstep_list_eqb_dec a b); [auto | discriminate]. Qed.

Definition int_ok (f : pfacts) : bool :=
  same (sem gen_c_ser_macros_default "_serialize_integer" (rho_int f)) (plan_ser_int f)
  && same (sem gen_c_ser_macros_default "_serialize_boolean" (rho_int f)) (plan_ser_bool f)
  && same (sem gen_c_ser_macros_default "_serialize_void" (rho_int f)) (plan_ser_void f)
  && same (sem gen_c_des_macros_default "_deserialize_integer" (rho_int f)) (plan_des_int f)
  && same (sem gen_c_des_macros_default "_deserialize_boolean" (rho_int f)) (plan_des_bool f)
  && same (sem gen_c_des_macros_default "_deserialize_void" (rho_int f)) plan_des_void.

Lemma int_ok_all : forallb int_ok all_pfacts = true.
Proof. vm_compute. reflexivity. Qed.

Theorem c_prim_templates_are_walker_plans : forall f,
  sem gen_c_ser_macros_default "_serialize_integer" (rho_int f) = plan_ser_int f /\
  sem gen_c_ser_macros_default "_serialize_boolean" (rho_int f) = plan_ser_bool f /\
  sem gen_c_ser_macros_default "_serialize_void" (rho_int f) = plan_ser_void f /\
  sem gen_c_des_macros_default "_deserialize_integer" (rho_int f) = plan_des_int f /\
  sem gen_c_des_macros_default "_deserialize_boolean" (rho_int f) = plan_des_bool f /\
  sem gen_c_des_macros_default "_deserialize_void" (rho_int f) = plan_des_void.
Proof.
  intros f. pose proof (proj1 (forallb_forall _ _) int_ok_all f (all_pfacts_complete f)) as H.
  unfold int_ok in H. repeat (apply andb_prop in H; destruct H as [H ?]).
  repeat split; apply same_true; assumption.
Qed.

(* ---- float ---- *)
Inductive fwidth := F16w | F32w | F64w.
Record ffacts := { f_sat : bool; f_w : fwidth; f_al : bool; f_little : bool }.
Definition rho_float (f : ffacts) (a : string) : bool :=
  if atom_is a "t is saturated" then f_sat f
  else if atom_is a "t.bit_length not in (32, 64)" then match f_w f with F16w => true | _ => false end
  else if atom_is a "t.bit_length == 16" then match f_w f with F16w => true | _ => false end
  else if atom_is a "t.bit_length == 32" then match f_w f with F32w => true | _ => false end
  else if atom_is a "t.bit_length == 64" then match f_w f with F64w => true | _ => false end
  else if atom_is a "offset.is_aligned_at_byte()" then f_al f
  else if atom_is a "LITTLE_ENDIAN" then f_little f
  else false.
Definition all_ffacts : list ffacts :=
  flat_map (fun a => flat_map (fun w => flat_map (fun c => map (fun d => Build_ffacts a w c d) [true; false]) [true; false])
                       [F16w; F32w; F64w]) [true; false].
Lemma all_ffacts_complete f : In f all_ffacts.
Proof. destruct f as [[] [] [] []]; cbn; tauto. Qed.

(* Walker.storage_bits (PF w sat) = bits of cast_f w sat: the clamp exists for float16 only (Wire.cast_f / sat16) *)
Definition plan_ser_float (f : ffacts) : list wstep :=
  (if f_sat f then match f_w f with F16w => [WClampF16; WClampLo; WClampHi] | _ => [] end else [])
  ++ [WSetBits] ++ (if f_al f && f_little f then [] else [WErrProp]) ++ [WAdv ZBits].
Definition plan_des_float : list wstep := [WLoad; WAdv ZBits].

Definition float_ok (f : ffacts) : bool :=
  same (sem gen_c_ser_macros_default "_serialize_float" (rho_float f)) (plan_ser_float f)
  && same (sem gen_c_des_macros_default "_deserialize_float" (rho_float f)) plan_des_float.
Lemma float_ok_all : forallb float_ok all_ffacts = true.
Proof. vm_compute. reflexivity. Qed.

Theorem c_float_templates_are_walker_plans : forall f,
  sem gen_c_ser_macros_default "_serialize_float" (rho_float f) = plan_ser_float f /\
  sem gen_c_des_macros_default "_deserialize_float" (rho_float f) = plan_des_float.
Proof.
  intros f. pose proof (proj1 (forallb_forall _ _) float_ok_all f (all_ffacts_complete f)) as H.
  unfold float_ok in H. apply andb_prop in H. destruct H. split; apply same_true; assumption.
Qed.

(* ================= arrays ================= *)
Record afacts := { a_bool : bool; a_prim : bool; a_w8 : bool; a_zc : bool }.
Definition rho_arr (f : afacts) (a : string) : bool :=
  if atom_is a "t.element_type is BooleanType" then a_bool f
  else if atom_is a "t.element_type is PrimitiveType" then a_prim f
  else if atom_is a "t.element_type.bit_length == 8" then a_w8 f
  else if atom_is a "t.element_type is zero_cost_primitive" then a_zc f
  else false.
Definition all_afacts : list afacts :=
  flat_map (fun a => flat_map (fun b => flat_map (fun c => map (fun d => Build_afacts a b c d) [true; false]) [true; false]) [true; false]) [true; false].
Lemma all_afacts_complete f : In f all_afacts.
Proof. destruct f as [[] [] [] []]; cbn; tauto. Qed.

(* the walker has ONE path: ws_list / wd_list (element loop).  The templates' bulk copies of n*w bits are n element copies of w
   bits (abstraction `bulk_is_loop`; Prims/CPrimsThm.v copy_bits_exact, get_bits_zero_ext); `which` records which one is chosen *)
Definition bulk_of (f : afacts) (one eight wide : sz) : option sz :=
  if a_bool f then Some one else if a_prim f && a_w8 f && a_zc f then Some eight else if a_prim f && a_zc f then Some wide else None.

Definition plan_ser_farr (f : afacts) : list wstep :=
  match bulk_of f ZCap ZCap8 ZCapW with Some z => [WBulk z; WAdv z] | None => [WLoop; WAny] end.
Definition plan_ser_varr (f : afacts) : list wstep :=
  [WLenCheck; WPrefix] ++ match bulk_of f ZCnt ZCnt8 ZCntW with Some z => [WBulk z; WAdv z] | None => [WLoop; WAny] end.
Definition plan_des_farr (f : afacts) : list wstep := plan_ser_farr f.
Definition plan_des_varr (f : afacts) : list wstep :=
  [WPrefix; WLenCheck] ++ match bulk_of f ZCnt ZCnt8 ZCntW with Some z => [WBulk z; WAdv z] | None => [WLoop; WAny] end.

Definition bulk_is_loop (s : wstep) : list wstep :=
  match s with WBulk _ => [WLoop; WAny] | WAdv (ZCap | ZCap8 | ZCapW | ZCnt | ZCnt8 | ZCntW) => [] | x => [x] end.

(* Walker.ws_body (TFix/TVar): what it is, node by node *)
Definition walker_ser_farr : list wstep := [WLoop; WAny].
Definition walker_ser_varr : list wstep := [WLenCheck; WPrefix; WLoop; WAny].
Definition walker_des_varr : list wstep := [WPrefix; WLenCheck; WLoop; WAny].

Definition arr_ok (f : afacts) : bool :=
  same (sem gen_c_ser_macros_default "_serialize_fixed_length_array" (rho_arr f)) (plan_ser_farr f)
  && same (sem gen_c_ser_macros_default "_serialize_variable_length_array" (rho_arr f)) (plan_ser_varr f)
  && same (sem gen_c_des_macros_default "_deserialize_fixed_length_array" (rho_arr f)) (plan_des_farr f)
  && same (sem gen_c_des_macros_default "_deserialize_variable_length_array" (rho_arr f)) (plan_des_varr f)
  && same (flat_map bulk_is_loop (plan_ser_farr f)) walker_ser_farr
  && same (flat_map bulk_is_loop (plan_ser_varr f)) walker_ser_varr
  && same (flat_map bulk_is_loop (plan_des_varr f)) walker_des_varr.
Lemma arr_ok_all : forallb arr_ok all_afacts = true.
Proof. vm_compute. reflexivity. Qed.

Theorem c_array_templates_are_walker_plans : forall f,
  flat_map bulk_is_loop (sem gen_c_ser_macros_default "_serialize_fixed_length_array" (rho_arr f)) = walker_ser_farr /\
  flat_map bulk_is_loop (sem gen_c_ser_macros_default "_serialize_variable_length_array" (rho_arr f)) = walker_ser_varr /\
  flat_map bulk_is_loop (sem gen_c_des_macros_default "_deserialize_fixed_length_array" (rho_arr f)) = walker_ser_farr /\
  flat_map bulk_is_loop (sem gen_c_des_macros_default "_deserialize_variable_length_array" (rho_arr f)) = walker_des_varr.
Proof.
  intros f. pose proof (proj1 (forallb_forall _ _) arr_ok_all f (all_afacts_complete f)) as H.
  unfold arr_ok in H. repeat (apply andb_prop in H; destruct H as [H ?]).
  repeat match goal with H : same _ _ = true |- _ => apply same_true in H end.
  unfold plan_des_farr in *. repeat split; congruence.
Qed.

(* ================= composites ================= *)
Record cfacts := { c_delim : bool; c_varsize : bool; c_little : bool; c_struct : bool }.
Definition rho_comp (f : cfacts) (a : string) : bool :=
  if atom_is a "t is DelimitedType" then c_delim f
  else if atom_is a "is_variable_size" then c_varsize f
  else if atom_is a "LITTLE_ENDIAN" then c_little f
  else if atom_is a "t.inner_type is StructureType" then c_struct f
  else if atom_is a "t.inner_type is UnionType" then negb (c_struct f)
  else if atom_is a "t.inner_type.bit_length_set.max > 0" then true
  else if atom_is a "n_bits > 1" then true
  else false.
Definition all_cfacts : list cfacts :=
  flat_map (fun a => flat_map (fun b => flat_map (fun c => map (fun d => Build_cfacts a b c d) [true; false]) [true; false]) [true; false]) [true; false].
Lemma all_cfacts_complete f : In f all_cfacts.
Proof. destruct f as [[] [] [] []]; cbn; tauto. Qed.

(* Walker.ws_field: delimited = reserve the header, nested body, write the header back (the templates' "constant header first"
   variant for fixed-size nested types is the same bytes: abstraction `hdr_const_is_back`); sealed = nested body *)
Definition plan_ser_comp (f : cfacts) : list wstep :=
  (if c_delim f then [if c_varsize f then WHdrReserve else WHdrConst] else [])
  ++ [WNested; WErrProp]
  ++ (if c_delim f && c_varsize f then (if c_little f then [WHdrBack] else [WHdrBack; WErrProp]) else [])
  ++ [WAdv ZSize8].
Definition hdr_const_is_back (l : list wstep) : list wstep :=
  match l with WHdrConst :: r => WHdrReserve :: r ++ [WHdrBack] | _ => l end.
Definition drop_err (l : list wstep) : list wstep := filter (fun s => match s with WErrProp => false | _ => true end) l.
Definition walker_ser_field (delim : bool) : list wstep :=
  if delim then [WHdrReserve; WNested; WAdv ZSize8; WHdrBack] else [WNested; WAdv ZSize8].

(* Walker.wd_field: delimited = read header, check against the remaining bytes, nested decode bounded by the header, cursor +=
   header value; sealed = nested decode on the rest, cursor += reported size *)
Definition plan_des_comp (f : cfacts) : list wstep :=
  (if c_delim f then [WHdrRead; WHdrCheck; WBadHdr; WHdrKeep] else [WRest])
  ++ [WNested; WErrProp] ++ [if c_delim f then WAdv ZDh8 else WAdv ZSize8].

(* top level: Walker.walk_ser / ws_body (TComp ..) / walk_des / wd_body (TComp ..) *)
Definition plan_ser_impl (f : cfacts) : list wstep :=
  [WCapCheck; WStart] ++ (if c_struct f then [WPad; WAny] else [WTag; WTagCase; WAny; WBadTag]) ++ [WPad; WFinalSize].
Definition plan_des_impl (f : cfacts) : list wstep :=
  [WCapBits; WStart] ++ (if c_struct f then [WPad; WAny] else [WTag; WTagCase; WAny; WBadTag]) ++ [WPad; WFinalSizeMin].
Definition plan_ser_pad : list wstep := [WPadIfNeeded; WPadZeros; WErrProp; WAdv ZPadLen].
Definition plan_des_pad : list wstep := [WAlign].

Definition rho_loop (f : cfacts) (a : string) : bool := if atom_is a "loop.first" then false else rho_comp f a.

Definition comp_ok (f : cfacts) : bool :=
  same (sem gen_c_ser_macros_default "_serialize_composite" (rho_comp f)) (plan_ser_comp f)
  && same (sem gen_c_des_macros_default "_deserialize_composite" (rho_comp f)) (plan_des_comp f)
  && same (sem gen_c_ser_macros_default "_serialize_impl" (rho_loop f)) (plan_ser_impl f)
  && same (sem gen_c_des_macros_default "_deserialize_impl" (rho_loop f)) (plan_des_impl f)
  && same (sem gen_c_ser_macros_default "_pad_to_alignment" (rho_comp f)) plan_ser_pad
  && same (sem gen_c_des_macros_default "_pad_to_alignment" (rho_comp f)) plan_des_pad.
Lemma comp_ok_all : forallb comp_ok all_cfacts = true.
Proof. vm_compute. reflexivity. Qed.

Theorem c_composite_templates_are_walker_plans : forall f,
  sem gen_c_ser_macros_default "_serialize_composite" (rho_comp f) = plan_ser_comp f /\
  sem gen_c_des_macros_default "_deserialize_composite" (rho_comp f) = plan_des_comp f /\
  sem gen_c_ser_macros_default "_serialize_impl" (rho_loop f) = plan_ser_impl f /\
  sem gen_c_des_macros_default "_deserialize_impl" (rho_loop f) = plan_des_impl f /\
  sem gen_c_ser_macros_default "_pad_to_alignment" (rho_comp f) = plan_ser_pad /\
  sem gen_c_des_macros_default "_pad_to_alignment" (rho_comp f) = plan_des_pad.
Proof.
  intros f. pose proof (proj1 (forallb_forall _ _) comp_ok_all f (all_cfacts_complete f)) as H.
  unfold comp_ok in H. repeat (apply andb_prop in H; destruct H as [H ?]).
  repeat split; apply same_true; assumption.
Qed.

(* EVERY statement of every C codec macro (all branches of all static decisions, not only the assignments evaluated above) is
   listed in the rule table *)
Fixpoint acts (n : tnode) : list (akind * string) :=
  match n with
  | NAct k p => [(k, p)]
  | NSet _ _ | NJAssert _ => []
  | NFor _ b => (fix go (l : list tnode) := match l with [] => [] | x :: r => acts x ++ go r end)%list b
  | NIf brs els =>
      ((fix gb (l : list (cexp * list tnode)) := match l with
          | [] => []
          | (_, b) :: r => (fix go (l : list tnode) := match l with [] => [] | x :: r => acts x ++ go r end) b ++ gb r end) brs
       ++ (fix go (l : list tnode) := match l with [] => [] | x :: r => acts x ++ go r end) els)%list
  end.
Definition known (kp : akind * string) : bool :=
  match classify rules (fst kp) (snd kp) with Some (WUnknown _ _) => false | _ => true end.
Definition every_macro_known : bool :=
  forallb known (flat_map (fun m => flat_map acts (snd m)) (gen_c_ser_macros_default ++ gen_c_des_macros_default)%list).
Theorem c_rules_total : every_macro_known = true.
Proof. vm_compute. reflexivity. Qed.

(* the table fails closed: control flow, preprocessor lines, stray returns and getter/setter swaps are NOT boilerplate *)
Definition is_unknown (k : akind) (p : string) : bool :=
  match classify rules k p with Some (WUnknown _ _) => true | _ => false end.
Example rules_fail_closed :
  is_unknown KDecl "break;" = true /\ is_unknown KDecl "continue;" = true /\ is_unknown KDecl "goto done;" = true /\
  is_unknown KPre "#if 0" = true /\ is_unknown KPre "#endif" = true /\ is_unknown KPre "#else" = true /\
  is_unknown KReturn "return 0;" = true /\ is_unknown KReturn "return;" = true /\
  is_unknown KCall "nunavutGetUxx(&buffer[0], capacity_bytes, offset_bits, {{ <sat> }}, {{ t.bit_length }}U);" = true /\
  is_unknown KCall "const {{ typename_error_type }} {{ <err> }} = nunavutGetU8(&buffer[0], capacity_bytes, offset_bits, 0U, {{ <pad> }});" = true /\
  is_unknown KCursor "offset_bits += {{ t.bit_length }}U + 1U;" = true /\
  is_unknown KDecl "int x;" = true /\ is_unknown KOpen "{ break;" = true /\ is_unknown KRAssert "offset_bits += 8U" = true /\
  (* ... while the scanned forms are known *)
  is_unknown KOpen "" = false /\ is_unknown KCursor "offset_bits += {{ t.bit_length }}U;" = false.
Proof. vm_compute. repeat split; reflexivity. Qed.

(* ================= the primitive plans ARE the walker (exec lemmas) ================= *)
Section Exec.
  Variable P : prims.

  (* run a serialization plan of a primitive node: `sbf clamped` = the storage image (with the emitted saturation code applied
     iff a clamp step was executed), w = bit length; WZeroByte / WZeros / WSetBits all store w bits of it (abstraction: the
     surplus bits of a whole-byte / whole-variable store are overwritten by what follows or by the final padding) *)
  Fixpoint exec_ser_prim (steps : list wstep) (w : nat) (sbf : bool -> list bool) (clamped : bool)
           (buf : list bool) (at_ off : nat) : wres :=
    match steps with
    | [] => Ok (buf, off)
    | (WClampLo | WClampHi | WClampF16) :: r => exec_ser_prim r w sbf true buf at_ off
    | WByteStore :: r =>
        match set_bits P buf at_ (firstn 8 (sbf clamped)) with
        | Some b => exec_ser_prim r w sbf clamped b at_ off
        | None => Err ETooSmall
        end
    | (WSetBits | WZeros | WZeroByte) :: r =>
        match set_bits P buf at_ (firstn w (sbf clamped)) with
        | Some b => exec_ser_prim r w sbf clamped b at_ off
        | None => Err ETooSmall
        end
    | WErrProp :: r => exec_ser_prim r w sbf clamped buf at_ off
    | WAdv (ZBits | ZOne) :: r => exec_ser_prim r w sbf clamped buf at_ (off + w)
    | _ => Err EShape
    end.

  Definition int_image (uns : bool) (w : nat) (z : Z) (clamped : bool) : list bool :=
    let z' := if clamped then (if uns then clampZ 0 (pow2 w - 1) z else clampZ (- pow2 (w - 1)) (pow2 (w - 1) - 1) z) else z in
    bits_of_N (std_width w) (Z.to_N (z' mod pow2 (std_width w))).

  Definition facts_int (uns sat : bool) (w off : nat) (little : bool) : pfacts :=
    Build_pfacts sat (is_std w) uns (Nat.eqb (off mod 8) 0) (Nat.leb w 8) little.

  Lemma bits_of_N_len w : forall x, length (bits_of_N w x) = w.
  Proof. induction w; intros; cbn; auto. Qed.

  Lemma std_width_ge w : w <= 64 -> w <= std_width w.
  Proof.
    intros H. unfold std_width.
    destruct (Nat.leb_spec w 8); [lia|]. destruct (Nat.leb_spec w 16); [lia|]. destruct (Nat.leb_spec w 32); lia.
  Qed.

  Lemma firstn_bits_len w x : w <= 64 -> length (firstn w (bits_of_N (std_width w) x)) = w.
  Proof. intros H. rewrite firstn_length, bits_of_N_len. pose proof (std_width_ge w H). lia. Qed.

  (* Walker.w_prim on an unsigned / signed integer = executing the plan that the regenerated `_serialize_integer` tree yields *)
  Theorem w_prim_is_plan_uint : forall w sat z buf off little, w <= 64 ->
    w_prim P (PU w sat) (VInt z) buf off =
    exec_ser_prim (plan_ser_int (facts_int true sat w off little)) w (int_image true w z) false buf off off.
  Proof.
    intros w sat z buf off little Hw. unfold w_prim, plan_ser_int, facts_int. cbn [storage_bits prim_bits p_sat p_std p_uns p_al p_le8 p_little].
    destruct sat, (is_std w), (Nat.eqb (off mod 8) 0), (Nat.leb w 8), little;
      cbn [andb negb app exec_ser_prim]; unfold w_set, int_image; cbn [andb negb];
      repeat match goal with |- context [set_bits P ?b ?o ?v] => destruct (set_bits P b o v) eqn:? end;
      cbn [bind]; try reflexivity; rewrite firstn_bits_len by exact Hw; reflexivity.
  Qed.

  Theorem w_prim_is_plan_sint : forall w sat z buf off little, w <= 64 ->
    w_prim P (PS w sat) (VInt z) buf off =
    exec_ser_prim (plan_ser_int (facts_int false sat w off little)) w (int_image false w z) false buf off off.
  Proof.
    intros w sat z buf off little Hw. unfold w_prim, plan_ser_int, facts_int. cbn [storage_bits prim_bits p_sat p_std p_uns p_al p_le8 p_little].
    destruct sat, (is_std w), (Nat.eqb (off mod 8) 0), (Nat.leb w 8), little;
      cbn [andb negb app exec_ser_prim]; unfold w_set, int_image; cbn [andb negb];
      repeat match goal with |- context [set_bits P ?b ?o ?v] => destruct (set_bits P b o v) eqn:? end;
      cbn [bind]; try reflexivity; rewrite firstn_bits_len by exact Hw; reflexivity.
  Qed.

  Theorem w_prim_is_plan_bool : forall b buf off f, p_al f = Nat.eqb (off mod 8) 0 ->
    w_prim P PBool (VBool b) buf off =
    exec_ser_prim (plan_ser_bool f) 1 (fun _ => [b; false; false; false; false; false; false; false]) false buf off off.
  Proof.
    intros b buf off f Hf. unfold w_prim, plan_ser_bool. cbn [storage_bits prim_bits]. rewrite Hf.
    destruct (Nat.eqb (off mod 8) 0); cbn [andb Nat.leb exec_ser_prim firstn]; unfold w_set; cbn [firstn length];
      destruct (set_bits P buf off _); cbn [bind]; reflexivity.
  Qed.

  (* deserialization: Walker.r_prim = the plan of `_deserialize_integer` / `_deserialize_boolean` *)
  Definition exec_des_uint (steps : list wstep) (w : nat) (buf : list bool) (cap off : nat) : val :=
    match steps with
    | WGuardFits :: WLoadByteMasked :: WLoadZero :: _ =>
        VInt (if Nat.leb (off + w) cap then Z.of_N (N_of_bits (get_bits P buf cap off w)) else 0%Z)
    | WLoad :: _ => VInt (Z.of_N (N_of_bits (get_bits P buf cap off w)))
    | _ => VVoid
    end.
  Definition exec_des_sint (steps : list wstep) (w : nat) (buf : list bool) (cap off : nat) : val :=
    match steps with
    | WLoad :: _ => VInt (signed_of w (N_of_bits (get_bits P buf cap off w)))
    | _ => VVoid
    end.
  Definition exec_des_bool (steps : list wstep) (buf : list bool) (cap off : nat) : val :=
    match steps with
    | WGuardInside :: WLoadBit :: WLoadZero :: _ =>
        VBool (if Nat.ltb off cap then match get_bits P buf cap off 1 with b :: _ => b | [] => false end else false)
    | _ => VVoid
    end.

  Theorem r_prim_is_plan : forall w sat buf cap off little,
    r_prim P (PU w sat) buf cap off = exec_des_uint (plan_des_int (facts_int true sat w off little)) w buf cap off /\
    r_prim P (PS w sat) buf cap off = exec_des_sint (plan_des_int (facts_int false sat w off little)) w buf cap off /\
    r_prim P PBool buf cap off = exec_des_bool (plan_des_bool (facts_int true sat w off little)) buf cap off.
  Proof.
    intros. unfold r_prim, plan_des_int, plan_des_bool, facts_int. cbn [prim_bits p_al p_uns p_le8].
    repeat split; destruct (Nat.eqb (off mod 8) 0), (Nat.leb w 8); reflexivity.
  Qed.

  (* ---- structural nodes: what the walker IS at each node (definitional unfoldings; the plans walker_* / plan_*_comp / plan_*_impl
     above are read off these, step by step) ---- *)
  Lemma ws_body_var : forall e cap l buf off,
    ws_body P (TVar e cap) (VArr l) buf off =
      if Nat.ltb cap (length l) then Err EBadLen                                                        (* WLenCheck *)
      else bind (w_set P buf off (bits_of_N (prefix_bits cap) (N.of_nat (length l))))                   (* WPrefix *)
             (fun '(b, o) => ws_list (ws_field P (ws_body P) e) l b o).                                   (* WLoop; WAny *)
  Proof. reflexivity. Qed.

  Lemma ws_body_fix : forall e n l buf off,
    ws_body P (TFix e n) (VArr l) buf off =
      if Nat.eqb (length l) n then ws_list (ws_field P (ws_body P) e) l buf off else Err EShape.          (* WLoop; WAny *)
  Proof. reflexivity. Qed.

  Lemma ws_field_delimited : forall u fs x v buf off,
    ws_field P (ws_body P) (TComp u fs (Some x)) v buf off =
      bind (ws_body P (TComp u fs (Some x)) v buf (off + header_bits))                                   (* WHdrReserve; WNested *)
        (fun '(b, o) => bind (w_set P b off (bits_of_N header_bits (N.of_nat ((o - (off + header_bits)) / 8))))  (* WHdrBack *)
                          (fun '(b', _) => Ok (b', o))).                                                  (* WAdv ZSize8 *)
  Proof. reflexivity. Qed.

  Lemma ws_field_sealed : forall u fs v buf off,
    ws_field P (ws_body P) (TComp u fs None) v buf off = ws_body P (TComp u fs None) v buf off.        (* WNested; WAdv ZSize8 *)
  Proof. reflexivity. Qed.

  Lemma ws_body_union : forall fs ext k x buf off,
    ws_body P (TComp true fs ext) (VUnion k x) buf off =
      if Nat.leb (length fs) k then Err EBadTag                                                          (* WTagCase ... WBadTag *)
      else bind (w_set P buf off (bits_of_N (tag_bits (length fs)) (N.of_nat k)))                        (* WTag *)
             (fun '(b, o) => bind (ws_sel (ws_field P (ws_body P)) fs k x b o)                            (* WAny *)
                               (fun '(b', o') => w_pad P b' o' 8)).                                       (* WPad *)
  Proof. reflexivity. Qed.

  Lemma ws_body_struct : forall fs ext vs buf off,
    ws_body P (TComp false fs ext) (VStruct vs) buf off = ws_fields P (ws_field P (ws_body P)) fs vs buf off off.   (* (WPad; WAny)*; WPad *)
  Proof. reflexivity. Qed.

  Lemma walk_ser_top : forall t v buf cap,
    walk_ser P t v buf cap =
      if Nat.ltb (8 * cap) (bmax t) then Err ETooSmall                                                   (* WCapCheck *)
      else bind (ws_body P t v buf 0) (fun '(b, o) => Ok (firstn (8 * (o / 8)) b)).                      (* WStart ... WFinalSize *)
  Proof. reflexivity. Qed.

  Lemma wd_field_delimited : forall u fs x buf cap off,
    wd_field P (wd_body P) (TComp u fs (Some x)) buf cap off =
      let hN := N_of_bits (get_bits P buf cap off header_bits) in                                        (* WHdrRead *)
      let o := off + header_bits in
      let remaining := cap / 8 - Nat.min (o / 8) (cap / 8) in
      if (N.of_nat remaining <? hN)%N then Err EBadHdr                                                   (* WHdrCheck; WBadHdr *)
      else let h := N.to_nat hN in                                                                       (* WHdrKeep *)
           bind (wd_body P (TComp u fs (Some x)) buf (Nat.min cap (o + 8 * h)) o)                        (* WNested, bounded *)
             (fun '(v, _) => Ok (v, o + 8 * h)).                                                          (* WAdv ZDh8 *)
  Proof. reflexivity. Qed.

  Lemma wd_field_sealed : forall u fs buf cap off,
    wd_field P (wd_body P) (TComp u fs None) buf cap off =
      bind (wd_body P (TComp u fs None) buf cap off)                                                     (* WRest; WNested *)
        (fun '(v, o') => let avail := cap - Nat.min off cap in Ok (v, off + 8 * (Nat.min (o' - off) avail / 8))).   (* WAdv ZSize8 *)
  Proof. reflexivity. Qed.

  Lemma wd_body_var : forall e c buf cap off,
    wd_body P (TVar e c) buf cap off =
      let pw := prefix_bits c in
      let nN := N_of_bits (get_bits P buf cap off pw) in                                                 (* WPrefix *)
      if (N.of_nat c <? nN)%N then Err EBadLen                                                           (* WLenCheck *)
      else bind (wd_list (wd_field P (wd_body P) e) (N.to_nat nN) buf cap (off + pw)) (fun '(vs, o) => Ok (VArr vs, o)).   (* WLoop; WAny *)
  Proof. reflexivity. Qed.

  Lemma wd_body_union : forall fs ext buf cap off,
    wd_body P (TComp true fs ext) buf cap off =
      let tw := tag_bits (length fs) in
      let kN := N_of_bits (get_bits P buf cap off tw) in                                                 (* WTag *)
      if (N.of_nat (length fs) <=? kN)%N then Err EBadTag                                                (* WTagCase ... WBadTag *)
      else bind (wd_sel (wd_field P (wd_body P)) fs (N.to_nat kN) buf cap (off + tw))                    (* WAny *)
             (fun '(v, o) => Ok (VUnion (N.to_nat kN) v, o + pad8 o)).                                    (* WPad *)
  Proof. reflexivity. Qed.

  Lemma walk_des_top : forall t buf,
    walk_des P t buf = bind (wd_body P t buf (length buf) 0) (fun '(v, o) => Ok (v, Nat.min o (length buf) / 8)).   (* WCapBits; WStart ... WFinalSizeMin *)
  Proof. reflexivity. Qed.
End Exec.

(* ================= executable semantics of the structural plans ================= *)
Section ExecStruct.
  Variable P : prims.

  (* what the data-dependent steps of ONE node refer to *)
  Record sctx := {
    sx_len_bad : bool;                          (* WLenCheck: count > capacity *)
    sx_prefix : list bool;                      (* WPrefix: the bits of the length prefix *)
    sx_tag : list bool;                         (* WTag: the bits of the union tag *)
    sx_any : list bool -> nat -> wres;          (* WAny / WNested: element loop / selected option / nested body *)
    sx_hdr : nat -> nat -> list bool            (* WHdrBack: header bits from (cursor after the body, header position) *)
  }.

  Fixpoint exec_ser_node (steps : list wstep) (cx : sctx) (buf : list bool) (hdr_at off : nat) : wres :=
    match steps with
    | [] => Ok (buf, off)
    | WLenCheck :: r => if sx_len_bad cx then Err EBadLen else exec_ser_node r cx buf hdr_at off
    | WPrefix :: r => bind (w_set P buf off (sx_prefix cx)) (fun '(b, o) => exec_ser_node r cx b hdr_at o)
    | WTag :: r => bind (w_set P buf off (sx_tag cx)) (fun '(b, o) => exec_ser_node r cx b hdr_at o)
    | (WAny | WNested) :: r => bind (sx_any cx buf off) (fun '(b, o) => exec_ser_node r cx b hdr_at o)
    | WPad :: r => bind (w_pad P buf off 8) (fun '(b, o) => exec_ser_node r cx b hdr_at o)
    | WHdrReserve :: r => exec_ser_node r cx buf off (off + header_bits)              (* remember where the header goes; skip it *)
    | WHdrBack :: r => bind (w_set P buf hdr_at (sx_hdr cx off hdr_at)) (fun '(b, _) => exec_ser_node r cx b hdr_at off)
    | (WLoop | WTagCase | WBadTag | WErrProp | WAdv ZSize8) :: r => exec_ser_node r cx buf hdr_at off
        (* WLoop: the loop is inside sx_any; WTagCase/WBadTag: the dispatch and its else-arm are inside sx_any (ws_sel fails with
           bad_tag when no case matches); WAdv ZSize8: the nested routine reports an absolute cursor here *)
    | _ => Err EShape
    end.

  Lemma bind_ret (x : wres) : bind x (fun '(b, o) => Ok (b, o)) = x.
  Proof. destruct x as [[b o]|]; reflexivity. Qed.

  Definition cx_arr (cap : nat) (e : ty) (l : list val) : sctx :=
    {| sx_len_bad := Nat.ltb cap (length l); sx_prefix := bits_of_N (prefix_bits cap) (N.of_nat (length l)); sx_tag := [];
       sx_any := ws_list (ws_field P (ws_body P) e) l; sx_hdr := fun _ _ => [] |}.

  Theorem ws_var_is_exec : forall e cap l buf off,
    ws_body P (TVar e cap) (VArr l) buf off = exec_ser_node walker_ser_varr (cx_arr cap e l) buf 0 off.
  Proof.
    intros. cbn [ws_body walker_ser_varr exec_ser_node cx_arr sx_len_bad sx_prefix sx_any].
    destruct (Nat.ltb cap (length l)); [reflexivity|].
    destruct (w_set P buf off _) as [[b o]|]; cbn [bind]; [|reflexivity]. rewrite bind_ret. reflexivity.
  Qed.

  Theorem ws_fix_is_exec : forall e n l buf off, length l = n ->
    ws_body P (TFix e n) (VArr l) buf off = exec_ser_node walker_ser_farr (cx_arr n e l) buf 0 off.
  Proof.
    intros e n l buf off H. cbn [ws_body walker_ser_farr exec_ser_node cx_arr sx_any]. rewrite H, Nat.eqb_refl, bind_ret. reflexivity.
  Qed.

  Definition cx_field (t : ty) (v : val) : sctx :=
    {| sx_len_bad := false; sx_prefix := []; sx_tag := []; sx_any := ws_body P t v;
       sx_hdr := fun o h => bits_of_N header_bits (N.of_nat ((o - (h + header_bits)) / 8)) |}.

  (* the header carries the size of what the nested routine wrote (cursor after - cursor before, in bytes) *)
  Theorem ws_field_delimited_is_exec : forall u fs x v buf off,
    ws_field P (ws_body P) (TComp u fs (Some x)) v buf off =
    exec_ser_node (walker_ser_field true) (cx_field (TComp u fs (Some x)) v) buf 0 off.
  Proof. reflexivity. Qed.

  Theorem ws_field_sealed_is_exec : forall u fs v buf off,
    ws_field P (ws_body P) (TComp u fs None) v buf off =
    exec_ser_node (walker_ser_field false) (cx_field (TComp u fs None) v) buf 0 off.
  Proof. intros. cbn [ws_field walker_ser_field exec_ser_node cx_field sx_any]. rewrite bind_ret. reflexivity. Qed.

  Definition cx_union (fs : list ty) (k : nat) (x : val) : sctx :=
    {| sx_len_bad := false; sx_prefix := []; sx_tag := bits_of_N (tag_bits (length fs)) (N.of_nat k);
       sx_any := ws_sel (ws_field P (ws_body P)) fs k x; sx_hdr := fun _ _ => [] |}.

  (* valid tag: tag, selected option, final padding (for an invalid tag the walker answers bad_tag before the store, the
     template after it: same error unless the tag store itself fails) *)
  Theorem ws_union_is_exec : forall fs ext k x buf off, k < length fs ->
    ws_body P (TComp true fs ext) (VUnion k x) buf off =
    exec_ser_node [WTag; WTagCase; WAny; WBadTag; WPad] (cx_union fs k x) buf 0 off.
  Proof.
    intros fs ext k x buf off Hk. cbn [ws_body exec_ser_node cx_union sx_tag sx_any].
    destruct (Nat.leb_spec (length fs) k); [lia|].
    destruct (w_set P buf off _) as [[b o]|]; cbn [bind]; [|reflexivity].
    destruct (ws_sel _ fs k x b o) as [[b' o']|]; cbn [bind]; [|reflexivity]. rewrite bind_ret. reflexivity.
  Qed.

  (* ---- deserialization of a composite field ---- *)
  Record dstate := { d_off : nat; d_hdr : option N; d_val : option val; d_nested_end : nat }.

  Fixpoint exec_des_field (steps : list wstep) (D : list bool -> nat -> nat -> rres val) (buf : list bool) (cap : nat)
           (off0 : nat) (st : dstate) : rres val :=
    match steps with
    | [] => match d_val st with Some v => Ok (v, d_off st) | None => Err EShape end
    | WHdrRead :: r =>
        exec_des_field r D buf cap off0
          {| d_off := d_off st + header_bits; d_hdr := Some (N_of_bits (get_bits P buf cap (d_off st) header_bits));
             d_val := d_val st; d_nested_end := d_nested_end st |}
    | WHdrCheck :: r =>
        match d_hdr st with
        | Some h => if (N.of_nat (cap / 8 - Nat.min (d_off st / 8) (cap / 8)) <? h)%N then Err EBadHdr
                    else exec_des_field r D buf cap off0 st
        | None => Err EShape
        end
    | (WBadHdr | WHdrKeep | WErrProp | WRest) :: r => exec_des_field r D buf cap off0 st
        (* WRest: the nested routine is handed everything that is left (capacity unchanged) *)
    | WNested :: r =>
        let ncap := match d_hdr st with Some h => Nat.min cap (d_off st + 8 * N.to_nat h) | None => cap end in   (* bounded by the header *)
        bind (D buf ncap (d_off st)) (fun '(v, o') =>
          exec_des_field r D buf cap off0 {| d_off := d_off st; d_hdr := d_hdr st; d_val := Some v; d_nested_end := o' |})
    | WAdv ZDh8 :: r =>                                                         (* cursor += header VALUE * 8 *)
        match d_hdr st with
        | Some h => exec_des_field r D buf cap off0 {| d_off := d_off st + 8 * N.to_nat h; d_hdr := d_hdr st; d_val := d_val st;
                                                       d_nested_end := d_nested_end st |}
        | None => Err EShape
        end
    | WAdv ZSize8 :: r =>                                                       (* cursor += size the nested routine reports (clamped) *)
        let avail := cap - Nat.min off0 cap in
        exec_des_field r D buf cap off0 {| d_off := off0 + 8 * (Nat.min (d_nested_end st - off0) avail / 8); d_hdr := d_hdr st;
                                           d_val := d_val st; d_nested_end := d_nested_end st |}
    | _ => Err EShape
    end.

  Definition d_init (off : nat) : dstate := {| d_off := off; d_hdr := None; d_val := None; d_nested_end := off |}.

  Theorem wd_field_delimited_is_exec : forall f u fs x buf cap off, c_delim f = true ->
    wd_field P (wd_body P) (TComp u fs (Some x)) buf cap off =
    exec_des_field (plan_des_comp f) (wd_body P (TComp u fs (Some x))) buf cap off (d_init off).
  Proof.
    intros f u fs x buf cap off Hf. unfold plan_des_comp. rewrite Hf.
    cbn [app wd_field exec_des_field d_init d_off d_hdr d_val d_nested_end].
    destruct (_ <? _)%N; [reflexivity|].
    destruct (wd_body P _ buf _ _) as [[v o']|]; cbn [bind]; reflexivity.
  Qed.

  Theorem wd_field_sealed_is_exec : forall f u fs buf cap off, c_delim f = false ->
    wd_field P (wd_body P) (TComp u fs None) buf cap off =
    exec_des_field (plan_des_comp f) (wd_body P (TComp u fs None)) buf cap off (d_init off).
  Proof.
    intros f u fs buf cap off Hf. unfold plan_des_comp. rewrite Hf.
    cbn [app wd_field exec_des_field d_init d_off d_hdr d_val d_nested_end].
    destruct (wd_body P _ buf cap off) as [[v o']|]; cbn [bind]; reflexivity.
  Qed.
End ExecStruct.

(* composite field: the template's steps, modulo error propagation and "constant header first = header written back" *)
Theorem c_composite_field_is_walker : forall f,
  hdr_const_is_back (drop_err (plan_ser_comp f)) =
    (if c_delim f then ([WHdrReserve; WNested] ++ (if c_varsize f then [WHdrBack; WAdv ZSize8] else [WAdv ZSize8; WHdrBack]))%list
     else [WNested; WAdv ZSize8]).
Proof. intros [[] [] [] []]; reflexivity. Qed.

(* ---- the statements quoted by Properties/C01.v and C02.v (no string literals there) ---- *)
Definition sem_c_ser (m : string) := sem gen_c_ser_macros_default m.
Definition sem_c_des (m : string) := sem gen_c_des_macros_default m.
Definition m_ser_int := "_serialize_integer".   Definition m_ser_bool := "_serialize_boolean".  Definition m_ser_void := "_serialize_void".
Definition m_ser_float := "_serialize_float".   Definition m_ser_farr := "_serialize_fixed_length_array".
Definition m_ser_varr := "_serialize_variable_length_array".  Definition m_ser_comp := "_serialize_composite".
Definition m_ser_impl := "_serialize_impl".     Definition m_pad := "_pad_to_alignment".
Definition m_des_int := "_deserialize_integer". Definition m_des_bool := "_deserialize_boolean". Definition m_des_void := "_deserialize_void".
Definition m_des_float := "_deserialize_float". Definition m_des_farr := "_deserialize_fixed_length_array".
Definition m_des_varr := "_deserialize_variable_length_array". Definition m_des_comp := "_deserialize_composite".
Definition m_des_impl := "_deserialize_impl".

Theorem c_ser_templates_are_walker_plans :
  (forall f, sem_c_ser m_ser_int (rho_int f) = plan_ser_int f /\ sem_c_ser m_ser_bool (rho_int f) = plan_ser_bool f /\
             sem_c_ser m_ser_void (rho_int f) = plan_ser_void f) /\
  (forall f, sem_c_ser m_ser_float (rho_float f) = plan_ser_float f) /\
  (forall f, flat_map bulk_is_loop (sem_c_ser m_ser_farr (rho_arr f)) = walker_ser_farr /\
             flat_map bulk_is_loop (sem_c_ser m_ser_varr (rho_arr f)) = walker_ser_varr) /\
  (forall f, sem_c_ser m_ser_comp (rho_comp f) = plan_ser_comp f /\ sem_c_ser m_ser_impl (rho_loop f) = plan_ser_impl f /\
             sem_c_ser m_pad (rho_comp f) = plan_ser_pad).
Proof.
  unfold sem_c_ser, sem_c_des, m_ser_int, m_ser_bool, m_ser_void, m_ser_float, m_ser_farr, m_ser_varr, m_ser_comp, m_ser_impl, m_pad,
    m_des_int, m_des_bool, m_des_void, m_des_float, m_des_farr, m_des_varr, m_des_comp, m_des_impl.
  split; [|split; [|split]]; intros f.
  - destruct (c_prim_templates_are_walker_plans f) as (A & B & C & D & E & F). repeat split; assumption.
  - destruct (c_float_templates_are_walker_plans f) as (A & B). assumption.
  - destruct (c_array_templates_are_walker_plans f) as (A & B & C & D). split; assumption.
  - destruct (c_composite_templates_are_walker_plans f) as (A & B & C & D & E & F). repeat split; assumption.
Qed.

Theorem c_des_templates_are_walker_plans :
  (forall f, sem_c_des m_des_int (rho_int f) = plan_des_int f /\ sem_c_des m_des_bool (rho_int f) = plan_des_bool f /\
             sem_c_des m_des_void (rho_int f) = plan_des_void) /\
  (forall f, sem_c_des m_des_float (rho_float f) = plan_des_float) /\
  (forall f, flat_map bulk_is_loop (sem_c_des m_des_farr (rho_arr f)) = walker_ser_farr /\
             flat_map bulk_is_loop (sem_c_des m_des_varr (rho_arr f)) = walker_des_varr) /\
  (forall f, sem_c_des m_des_comp (rho_comp f) = plan_des_comp f /\ sem_c_des m_des_impl (rho_loop f) = plan_des_impl f /\
             sem_c_des m_pad (rho_comp f) = plan_des_pad).
Proof.
  unfold sem_c_ser, sem_c_des, m_ser_int, m_ser_bool, m_ser_void, m_ser_float, m_ser_farr, m_ser_varr, m_ser_comp, m_ser_impl, m_pad,
    m_des_int, m_des_bool, m_des_void, m_des_float, m_des_farr, m_des_varr, m_des_comp, m_des_impl.
  split; [|split; [|split]]; intros f.
  - destruct (c_prim_templates_are_walker_plans f) as (A & B & C & D & E & F). repeat split; assumption.
  - destruct (c_float_templates_are_walker_plans f) as (A & B). assumption.
  - destruct (c_array_templates_are_walker_plans f) as (A & B & C & D). split; assumption.
  - destruct (c_composite_templates_are_walker_plans f) as (A & B & C & D & E & F). repeat split; assumption.
Qed.
