(* The walker refinement instantiated with the SHIPPED C bit primitives (Prims/CPrims.v: nunavutSetUxx / nunavutGetU8..U64 of
   nunavut/support/serialization.h, both renderings `target_endianness = little` and any/big), using the C14 theorems
   (Prims/CPrimsThm.v: set_uxx_exact_b, get_uxx_spec_b).

     c_prims little : prims         set_bits = nunavutSetUxx(buffer, size_bytes, off, value, len)   (value = the bits as a uint64_t;
                                    CURRENT text with the saturating capacity check: PrimsCur.set_uxx_cur)
                                    get_bits = nunavutGetU<std_width w>(buffer, capacity/8, off, w)
   on the byte view of the walker's bit list (InstancesBase.v).  Side conditions of the C contracts and how they are met:
     - buffer of whole bytes, 8 * size < 2^64                   explicit hypotheses on the buffer (`c_dom`);
     - len <= 64 for a store, w in 1..64 for a load             the walker never asks for more (PrimsOn laws; types well-formed);
     - offset_bits is a size_t                                   stores: off + len <= 8 * size; loads: the walker's cursor stays below
                                                                 |buffer| + tsz t (Codec/WalkerBound.v), assumed < 2^64.
   Results: `c_walk_des_refines`, `c_walk_ser_refines`, `c_ws_body_effect` - the C01/C02 walker theorems with the abstract
   `prims_ok` record replaced by the C functions. *)
From Verif Require Import Bits CPrims CPrimsThm PrimsCur.
From Verif Require Import Wire WireThm WireThmRt WireThmExt Walker PrimsOn InstancesBase WalkerBound RefineDes RefineSerBits RefineSerBase RefineSer.
Local Open Scope nat_scope.

Definition c_set_bits (little : bool) (buf : list bool) (off : nat) (v : list bool) : option (list bool) :=
  let b := bytes_of_bits buf in
  match set_uxx_cur little b (blen b) (N.of_nat off) (N_of_bits v) (N.of_nat (length v)) with
  | Some (inl r) => Some (bits_of_bytes r)
  | _ => None
  end.

Definition c_get_bits (little : bool) (buf : list bool) (cap off w : nat) : list bool :=
  match get_uxx little (N.of_nat (std_width w)) (bytes_of_bits buf) (N.of_nat (cap / 8)) (N.of_nat off) (N.of_nat w) with
  | Some x => bits_of_N w x
  | None => repeat false w
  end.

Definition c_prims (little : bool) : prims := {| set_bits := c_set_bits little; get_bits := c_get_bits little |}.

(* whole bytes, and the allocation is addressable in bits by a size_t *)
Definition c_dom (buf : list bool) : Prop := length buf mod 8 = 0 /\ (N.of_nat (length buf) < two64)%N.

Lemma blen_bytes_of_bits buf : length buf mod 8 = 0 -> blen (bytes_of_bits buf) = N.of_nat (length buf / 8).
Proof. intros H. unfold blen. rewrite bytes_of_bits_length by exact H. reflexivity. Qed.

Lemma c_buf_pre buf size off : c_dom buf -> size <= length buf / 8 -> (N.of_nat off < two64)%N ->
  buf_pre (bytes_of_bits buf) (N.of_nat size) (N.of_nat off) = true.
Proof.
  intros [Hm Hl] Hs Ho. unfold buf_pre, alloc_ok. rewrite (blen_bytes_of_bits buf Hm).
  assert (H1 : (N.of_nat size <=? N.of_nat (length buf / 8))%N = true) by (apply N.leb_le; lia).
  assert (H2 : (8 * N.of_nat (length buf / 8) <? two64)%N = true) by (apply N.ltb_lt; lia).
  assert (H3 : (N.of_nat off <? two64)%N = true) by (apply N.ltb_lt; exact Ho).
  rewrite H1, H2, H3. cbn [andb]. apply bytes_of_bits_ok.
Qed.

Lemma std_width_is_N w : let W := N.of_nat (std_width w) in ((W =? 8) || (W =? 16) || (W =? 32) || (W =? 64))%N = true.
Proof.
  unfold std_width. destruct (w <=? 8); [reflexivity|]. destruct (w <=? 16); [reflexivity|]. destruct (w <=? 32); reflexivity.
Qed.

(* ---- loads: nunavutGetU<N> is the walker's read law, for every offset a size_t can hold ---- *)
Lemma c_get_ok little buf cap off w : c_dom buf -> 1 <= w <= 64 -> cap <= length buf -> cap mod 8 = 0 ->
  (N.of_nat off < two64)%N ->
  c_get_bits little buf cap off w = take_ze w (skipn off (firstn cap buf)).
Proof.
  intros Hd Hw Hc Hm Ho. unfold c_get_bits.
  assert (Hs : cap / 8 <= length buf / 8) by (destruct Hd; lia).
  destruct (get_uxx_spec_b little _ _ _ _ (N.of_nat w) (std_width_is_N w) (c_buf_pre buf (cap / 8) off Hd Hs Ho))
    as (x & -> & _ & Hx).
  apply bits_ext; [rewrite bits_of_N_length, take_ze_length; reflexivity|].
  intros k Hk. rewrite bits_of_N_length in Hk.
  rewrite nth_bits_of_N by exact Hk. rewrite Hx. rewrite (nth_window buf cap off w k Hc).
  pose proof (RefineSerBits.std_width_ge w ltac:(lia)) as Hsw.
  replace (N.of_nat off + N.of_nat k)%N with (N.of_nat (off + k)) by lia.
  rewrite (bit_bytes_of_bits buf (off + k)) by (destruct Hd; assumption).
  destruct (N.ltb_spec (N.of_nat k) (N.min (N.of_nat w) (N.of_nat (std_width w)))) as [A|A];
    destruct (Nat.ltb_spec k w) as [A'|A']; try lia; cbn [andb].
  destruct (N.ltb_spec (N.of_nat (off + k)) (8 * N.of_nat (cap / 8))) as [C|C];
    destruct (Nat.ltb_spec (off + k) cap) as [C'|C']; try lia; reflexivity.
Qed.

Theorem c_get_law little B bits : c_dom bits -> (N.of_nat B < two64)%N ->
  get_law (guard B (c_prims little)) (fun w => 1 <= w <= 64) bits.
Proof.
  intros Hd HB cap off w Hw Hc Hm. unfold guard. cbn [get_bits c_prims].
  destruct (Nat.leb_spec (off + w) B) as [Hle|_]; [|reflexivity].
  apply c_get_ok; try assumption. lia.
Qed.

(* ---- stores: nunavutSetUxx is the walker's store law ---- *)
Theorem c_set_law little L : L mod 8 = 0 -> (N.of_nat L < two64)%N -> set_law (c_prims little) L.
Proof.
  intros HLm HL buf off v Hl H64 Hfit. cbn [set_bits c_prims]. unfold c_set_bits.
  assert (Hd : c_dom buf) by (unfold c_dom; rewrite Hl; split; assumption).
  assert (Hm : length buf mod 8 = 0) by apply Hd.
  assert (Hpre : buf_pre (bytes_of_bits buf) (blen (bytes_of_bits buf)) (N.of_nat off) = true).
  { rewrite (blen_bytes_of_bits buf Hm). apply c_buf_pre; [exact Hd | lia | lia]. }
  assert (Hsum : (N.of_nat off + N.of_nat (length v) <? two64)%N = true) by (apply N.ltb_lt; lia).
  pose proof (set_uxx_exact_b little _ _ _ (N_of_bits v) _ Hpre Hsum) as H.
  rewrite set_uxx_cur_is_old by (rewrite ?(blen_bytes_of_bits buf Hm); lia).
  rewrite (blen_bytes_of_bits buf Hm) in *.
  destruct (N.ltb_spec (N.of_nat (length buf / 8) * 8) (N.of_nat off + N.of_nat (length v))) as [Hbad|_]; [lia|].
  destruct H as (r & -> & Hlen & Hbit). f_equal.
  assert (Hbl : length (bytes_of_bits buf) = length buf / 8) by (apply bytes_of_bits_length; exact Hm).
  apply bits_ext.
  - rewrite bits_of_bytes_length, Hlen, Hbl, !app_length, firstn_length, skipn_length. lia.
  - intros p Hp. rewrite <- bit_bits_of_bytes, Hbit. rewrite (nth_store buf v off p) by lia.
    rewrite (bit_bytes_of_bits buf p Hm).
    destruct (N.leb_spec (N.of_nat off) (N.of_nat p)) as [A|A]; destruct (Nat.leb_spec off p) as [A'|A']; try lia; cbn [andb];
      [|reflexivity].
    destruct (N.ltb_spec (N.of_nat p) (N.of_nat off + N.min (N.of_nat (length v)) 64)) as [C|C];
      destruct (Nat.ltb_spec p (off + length v)) as [C'|C']; try lia; [|reflexivity].
    pose proof (N_of_bits_lt v) as Hv.
    assert (Hpow : (2 ^ N.of_nat (length v) <= 2 ^ 64)%N) by (apply N.pow_le_mono_r; lia).
    rewrite N.mod_small by lia.
    replace (N.of_nat p - N.of_nat off)%N with (N.of_nat (p - off)) by lia. apply testbit_N_of_bits.
Qed.

(* ---- the typed getters of the header are what the walker computes from the raw field ----
   r_prim reads a signed field as `signed_of w (N_of_bits (get_bits ...))`; the generated code calls nunavutGetI<N>.  By the C14
   theorem get_ixx_sign_ext_b (the C expression `val | ~((1 << sat) - 1)` ... `-(x) - 1` never overflows and is the sign
   extension) these agree, for every width 1..64, offset and capacity. *)
Lemma top_bit (u : N) (w : nat) : 1 <= w -> (u < 2 ^ N.of_nat w)%N ->
  N.testbit u (N.of_nat w - 1) = negb (u <? 2 ^ (N.of_nat w - 1))%N.
Proof.
  intros Hw Hu. rewrite N.testbit_eqb. set (h := (2 ^ (N.of_nat w - 1))%N).
  assert (Hh : (0 < h)%N) by (apply N.neq_0_lt_0, N.pow_nonzero; lia).
  assert (Hm : (2 ^ N.of_nat w = 2 * h)%N).
  { unfold h. rewrite <- N.pow_succ_r'. f_equal. lia. }
  rewrite Hm in Hu.
  assert (Hq : (u / h < 2)%N) by (apply N.div_lt_upper_bound; lia).
  pose proof (N.div_mod u h ltac:(lia)) as Hd. pose proof (N.mod_lt u h ltac:(lia)) as Hr.
  destruct (N.ltb_spec u h) as [A|A]; cbn [negb].
  - rewrite N.div_small by exact A. reflexivity.
  - assert (Hq1 : (u / h = 1)%N) by nia. rewrite Hq1. reflexivity.
Qed.

Lemma sign_extend_signed_of (w : nat) (u : N) : 1 <= w -> (u < 2 ^ N.of_nat w)%N ->
  sign_extend (N.of_nat w) u = signed_of w u.
Proof.
  intros Hw Hu. unfold sign_extend, signed_of, pow2.
  rewrite (top_bit u w Hw Hu).
  assert (H0 : (0 <? N.of_nat w)%N = true) by (apply N.ltb_lt; lia). rewrite H0. cbn [andb].
  assert (Hp : Z.of_N (2 ^ (N.of_nat w - 1)) = (2 ^ Z.of_nat (w - 1))%Z).
  { rewrite N2Z.inj_pow. f_equal. lia. }
  assert (Hp2 : (2 ^ Z.of_N (N.of_nat w) = 2 ^ Z.of_nat w)%Z) by (f_equal; lia).
  destruct (N.ltb_spec u (2 ^ (N.of_nat w - 1))) as [A|A]; destruct (Z.ltb_spec (Z.of_N u) (2 ^ Z.of_nat (w - 1))) as [A'|A'];
    cbn [negb]; rewrite ?Hp2; try reflexivity; lia.
Qed.

Theorem c_get_signed_is_GetI : forall little buf cap off w, c_dom buf -> 1 <= w <= 64 -> cap <= length buf -> cap mod 8 = 0 ->
  (N.of_nat off < two64)%N ->
  get_ixx little (N.of_nat (std_width w)) (bytes_of_bits buf) (N.of_nat (cap / 8)) (N.of_nat off) (N.of_nat w) =
    Some (signed_of w (N_of_bits (c_get_bits little buf cap off w))).
Proof.
  intros little buf cap off w Hd Hw Hc Hm Ho.
  assert (Hs : cap / 8 <= length buf / 8) by (destruct Hd; lia).
  pose proof (RefineSerBits.std_width_ge w ltac:(lia)) as Hsw.
  destruct (get_ixx_sign_ext_b little _ _ _ _ (N.of_nat w) (std_width_is_N w) (c_buf_pre buf (cap / 8) off Hd Hs Ho))
    as (u & Eu & Hu & ->).
  assert (Hmin : N.min (N.of_nat w) (N.of_nat (std_width w)) = N.of_nat w) by lia. rewrite Hmin in *.
  unfold c_get_bits. rewrite Eu. rewrite WireThmRt.N_of_bits_of_N by exact Hu.
  f_equal. apply sign_extend_signed_of; [lia | exact Hu].
Qed.

(* ---- the C01/C02 walker theorems about the C functions ---- *)
Theorem c_walk_des_refines : forall (little : bool) t bits, wf_ty t = true -> length bits mod 8 = 0 ->
  (N.of_nat (length bits + tsz t) < two64)%N ->
  walk_des (c_prims little) t bits = des_spec t bits.
Proof.
  intros little t bits Hwf Hm HB.
  rewrite <- (walk_des_guard (c_prims little) (length bits + tsz t) t bits (le_n _)).
  apply (walk_des_refines_on _ (fun w => 1 <= w <= 64)); [trivial | | right; exact Hwf | exact Hm].
  apply c_get_law; [split; [exact Hm | lia] | exact HB].
Qed.

Theorem c_walk_ser_refines : forall (little : bool) u fs ext v buf cap,
  wf_ty (TComp u fs ext) = true -> length buf = 8 * cap -> (N.of_nat (8 * cap) < two64)%N ->
  storage_ok (TComp u fs ext) v = true ->
  walk_ser (c_prims little) (TComp u fs ext) v buf cap = ser_spec (TComp u fs ext) v cap.
Proof.
  intros little u fs ext v buf cap Hwf Hl HB Hst. apply walk_ser_refines_on; try assumption.
  apply c_set_law; [lia | exact HB].
Qed.

Theorem c_ws_body_effect : forall (little : bool) u fs ext v buf cap bits,
  wf_ty (TComp u fs ext) = true -> length buf = 8 * cap -> (N.of_nat (8 * cap) < two64)%N ->
  storage_ok (TComp u fs ext) v = true -> bmax (TComp u fs ext) <= 8 * cap -> enc_body (TComp u fs ext) v = Ok bits ->
  ws_body (c_prims little) (TComp u fs ext) v buf 0 = Ok (bits ++ skipn (length bits) buf, length bits).
Proof.
  intros little u fs ext v buf cap bits Hwf Hl HB Hst Hge E. apply (ws_body_effect_on _ u fs ext v buf cap); try assumption.
  apply c_set_law; [lia | exact HB].
Qed.

(* both renderings of the header produce the same (de)serializers *)
Corollary c_endianness_irrelevant : forall t bits, wf_ty t = true -> length bits mod 8 = 0 ->
  (N.of_nat (length bits + tsz t) < two64)%N ->
  walk_des (c_prims true) t bits = walk_des (c_prims false) t bits.
Proof. intros. rewrite !c_walk_des_refines by assumption. reflexivity. Qed.

(* non-vacuity: the instance really runs the C model (a 13-bit field at bit offset 3 of a 0xFF-filled 3-byte buffer) *)
Example c_prims_example :
  set_bits (c_prims false) (repeat true 24) 3 (bits_of_N 13 4096) =
    Some (firstn 3 (repeat true 24) ++ bits_of_N 13 4096 ++ skipn 16 (repeat true 24)) /\
  get_bits (c_prims true) (bits_of_bytes [255; 1; 7]%N) 16 3 13 = bits_of_N 13 63.
Proof. vm_compute. split; reflexivity. Qed.
