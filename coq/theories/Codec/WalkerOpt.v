(* De-totalised reads (audit C02 #2).  The records of Codec/Instances*.v turn a primitive call that returns `None` - in the models of
   the support libraries: an access outside the allocation / C undefined behaviour / a raised exception - into zeros, which is
   also the expected value of a read past the end; so `walk_des P = des_spec` alone does not show that no such call is issued.
   Here the deserialization walker is run over OPTION-valued reads: `wd_body_o` is `Walker.wd_body` with every primitive read going
   through `o_get : ... -> option (list bool)`, a `None` aborting with the error `EAssert`, which `wd_body` / `dec_body` never
   produce.  Same guards as the generated code: no call at all for a bool at or past the capacity and for an aligned <= 8 bit
   unsigned field that does not fit (`if (offset_bits < capacity_bits)`, `if (offset_bits + w <= capacity_bits)`).
   NO PROOFS in this file (Codec/WalkerOptThm.v). *)
From Verif Require Import Wire Walker.
Local Open Scope nat_scope.

Record oprims : Type := { o_get : list bool -> nat -> nat -> nat -> option (list bool) }.

Section WalkOpt.
  Variable O : oprims.

  Definition o_read {A} (buf : list bool) (cap off w : nat) (k : list bool -> res A) : res A :=
    match o_get O buf cap off w with Some bits => k bits | None => Err EAssert end.

  Definition r_prim_o (p : prim) (buf : list bool) (cap off : nat) : res val :=
    let w := prim_bits p in
    let aligned := off mod 8 =? 0 in
    match p with
    | PBool => if off <? cap then o_read buf cap off 1 (fun bits => Ok (VBool (match bits with b :: _ => b | [] => false end)))
               else Ok (VBool false)
    | PU _ _ =>
        if aligned && (w <=? 8)
        then (if off + w <=? cap then o_read buf cap off w (fun bits => Ok (VInt (Z.of_N (N_of_bits bits)))) else Ok (VInt 0%Z))
        else o_read buf cap off w (fun bits => Ok (VInt (Z.of_N (N_of_bits bits))))
    | PS _ _ => o_read buf cap off w (fun bits => Ok (VInt (signed_of w (N_of_bits bits))))
    | PF _ _ => o_read buf cap off w (fun bits => Ok (VFlt (if w =? 16 then f16_unpack (N_of_bits bits) else N_of_bits bits)))
    | PVoid _ => Ok VVoid
    end.

  Definition wd_field_o (D : ty -> list bool -> nat -> nat -> rres val) (t : ty) (buf : list bool) (cap off : nat) : rres val :=
    match t with
    | TComp _ _ (Some _) =>
        o_read buf cap off header_bits (fun bits =>
          let hN := N_of_bits bits in
          let o := off + header_bits in
          let remaining := cap / 8 - Nat.min (o / 8) (cap / 8) in
          if (N.of_nat remaining <? hN)%N then Err EBadHdr
          else let h := N.to_nat hN in
               bind (D t buf (Nat.min cap (o + 8 * h)) o) (fun '(v, _) => Ok (v, o + 8 * h)))
    | TComp _ _ None =>
        bind (D t buf cap off) (fun '(v, o') =>
          let avail := cap - Nat.min off cap in
          Ok (v, off + 8 * (Nat.min (o' - off) avail / 8)))
    | _ => D t buf cap off
    end.

  Fixpoint wd_body_o (t : ty) (buf : list bool) (cap off : nat) : rres val :=
    match t with
    | TPrim p => bind (r_prim_o p buf cap off) (fun v => Ok (v, off + prim_bits p))
    | TFix e n => bind (wd_list (wd_field_o wd_body_o e) n buf cap off) (fun '(vs, o) => Ok (VArr vs, o))
    | TVar e c =>
        let pw := prefix_bits c in
        o_read buf cap off pw (fun bits =>
          let nN := N_of_bits bits in
          if (N.of_nat c <? nN)%N then Err EBadLen
          else bind (wd_list (wd_field_o wd_body_o e) (N.to_nat nN) buf cap (off + pw)) (fun '(vs, o) => Ok (VArr vs, o)))
    | TComp false fs _ => bind (wd_fields (wd_field_o wd_body_o) fs buf cap off) (fun '(vs, o) => Ok (VStruct vs, o))
    | TComp true fs _ =>
        let tw := tag_bits (length fs) in
        o_read buf cap off tw (fun bits =>
          let kN := N_of_bits bits in
          if (N.of_nat (length fs) <=? kN)%N then Err EBadTag
          else bind (wd_sel (wd_field_o wd_body_o) fs (N.to_nat kN) buf cap (off + tw)) (fun '(v, o) =>
                 Ok (VUnion (N.to_nat kN) v, o + pad8 o)))
    end.

  Definition walk_des_o (t : ty) (buf : list bool) : res (val * nat) :=
    let cap := length buf in
    bind (wd_body_o t buf cap 0) (fun '(v, o) => Ok (v, Nat.min o cap / 8)).
End WalkOpt.
