(* The extended C deserialization walker (Codec/WalkerXDes.v: ONE nunavutGetBits per array of bool / zero-cost elements) over the
   SHIPPED C functions: `c_prims little` for the <= 64-bit getters and CPrims.get_bits (nunavutGetBits into a zeroed object of
   ceil(m/8) bytes) for the bulk reads.  `c_walk_des_x_refines`: for every well-formed type and every byte string the routine that
   takes the bulk path wherever the templates do (`WalkerSafe.bulk (std_cfg little)`) decodes exactly as the specification
   prescribes; the `size_t offset_bits` side condition is discharged by the cursor bound of Codec/WalkerXBound.v. *)
From Verif Require Import Bits CPrims CPrimsThm.
From Verif Require Import WalkerSafe.
From Verif Require Import Wire WireThm WireThmExt Walker PrimsOn InstancesBase WalkerBound RefineDes InstancesC WalkerXDes RefineDesX WalkerXBound.
Local Open Scope nat_scope.

Definition c_getl (buf : list bool) (cap off m : nat) : list bool :=
  match CPrims.get_bits (repeat 0%N ((m + 7) / 8)) (bytes_of_bits buf) (N.of_nat (cap / 8)) (N.of_nat off) (N.of_nat m) with
  | Some r => firstn m (bits_of_bytes r)
  | None => repeat false m
  end.

Lemma c_getl_ok buf cap off m : c_dom buf -> cap <= length buf -> cap mod 8 = 0 -> (N.of_nat (off + m + 8) < two64)%N ->
  c_getl buf cap off m = take_ze m (skipn off (firstn cap buf)).
Proof.
  intros Hd Hc Hm HB. unfold c_getl.
  assert (Hbm : length buf mod 8 = 0) by apply Hd. assert (HL : (N.of_nat (length buf) < two64)%N) by apply Hd.
  assert (Hbl : blen (bytes_of_bits buf) = N.of_nat (length buf / 8)) by (apply blen_bytes_of_bits; exact Hbm).
  set (out := repeat 0%N ((m + 7) / 8)).
  assert (Hbo : blen out = N.of_nat ((m + 7) / 8)) by (unfold blen, out; rewrite repeat_length; reflexivity).
  assert (P1 : (N.of_nat (cap / 8) <= blen (bytes_of_bits buf))%N) by (rewrite Hbl; lia).
  assert (P2 : (8 * blen (bytes_of_bits buf) < two64)%N) by (rewrite Hbl; lia).
  assert (P3 : (N.of_nat off < two64)%N) by lia.
  assert (P4 : (N.of_nat m + 7 < two64)%N) by lia.
  assert (P5 : ((N.of_nat m + 7) / 8 <= blen out)%N) by (rewrite Hbo; lia).
  assert (P6 : (8 * blen out < two64)%N) by (rewrite Hbo; unfold two64 in *; lia).
  destruct (get_bits_zero_ext out (bytes_of_bits buf) (N.of_nat (cap / 8)) (N.of_nat off) (N.of_nat m) P1 P2 P3 P4 P5 P6)
    as (r & -> & Hlr & _ & Hbit).
  assert (Hlen : length r = (m + 7) / 8) by (rewrite Hlr; unfold out; apply repeat_length).
  apply bits_ext.
  - rewrite firstn_length, bits_of_bytes_length, Hlen, take_ze_length. lia.
  - intros p Hp. rewrite firstn_length, bits_of_bytes_length, Hlen in Hp.
    rewrite nth_firstn_low by lia. rewrite <- bit_bits_of_bytes, Hbit. rewrite (nth_window buf cap off m p Hc).
    destruct (N.ltb_spec (N.of_nat p) (8 * ((N.of_nat m + 7) / 8))) as [_|]; [|lia].
    destruct (N.ltb_spec (N.of_nat p) (N.of_nat m)) as [_|]; [|lia]. destruct (Nat.ltb_spec p m) as [_|]; [|lia]. cbn [andb].
    replace (N.of_nat off + N.of_nat p)%N with (N.of_nat (off + p)) by lia. rewrite (bit_bytes_of_bits buf _ Hbm).
    destruct (N.ltb_spec (N.of_nat (off + p)) (8 * N.of_nat (cap / 8))); destruct (Nat.ltb_spec (off + p) cap); try lia; reflexivity.
Qed.

Theorem c_walk_des_x_refines : forall (little : bool) t bits, wf_ty t = true -> length bits mod 8 = 0 ->
  (N.of_nat (length bits + tsz t + 8) < two64)%N ->
  walk_des_x (c_prims little) c_getl (std_cfg little) t bits = des_spec t bits.
Proof.
  intros little t bits Hwf Hm HB. set (B := length bits + tsz t).
  rewrite <- (walk_des_x_guard (c_prims little) c_getl (std_cfg little) B t bits (le_n _)).
  assert (Hd : c_dom bits) by (split; [exact Hm | lia]).
  apply (walk_des_x_refines_on _ _ _ (fun w => 1 <= w <= 64)); [trivial | | | right; exact Hwf | exact Hm].
  - apply c_get_law; [exact Hd | unfold B; lia].
  - intros cap off m Hc Hcm. unfold getl_g. destruct (Nat.leb_spec (off + m) B) as [Hle|_]; [|reflexivity].
    apply c_getl_ok; try assumption. unfold B in Hle. lia.
Qed.

Corollary c_walk_des_x_equals_walk_des : forall (little : bool) t bits, wf_ty t = true -> length bits mod 8 = 0 ->
  (N.of_nat (length bits + tsz t + 8) < two64)%N ->
  walk_des_x (c_prims little) c_getl (std_cfg little) t bits = walk_des (c_prims little) t bits.
Proof. intros. rewrite c_walk_des_x_refines by assumption. symmetry. apply c_walk_des_refines; try assumption. lia. Qed.

(* a partially available uint16 array (3 elements announced, 3 bytes present: zero extension inside the bulk read) and a bool array *)
Example c_walk_des_x_example :
  let t := TComp false [TVar (TPrim (PU 16 true)) 4; TFix (TPrim PBool) 3] None in
  walk_des_x (c_prims true) c_getl (std_cfg true) t (bits_of_bytes [3; 1; 2; 5]%N) = des_spec t (bits_of_bytes [3; 1; 2; 5]%N) /\
  des_spec t (bits_of_bytes [3; 1; 2; 5]%N) = Ok (VStruct [VArr [VInt 513; VInt 5; VInt 0]; VArr [VBool false; VBool false; VBool false]], 4).
Proof. vm_compute. split; reflexivity. Qed.
