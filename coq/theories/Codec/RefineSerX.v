(* Serialization refinement for the EXTENDED C walker (Codec/WalkerX.v: little-endian memmove path, bulk array paths): it emits
   exactly what the wire specification prescribes, under the same hypotheses as Codec/RefineSer.v plus a law for nunavutCopyBits
   (`copy_law`: a copy of any length that fits stores exactly the bits).  The invariant is the `wrote` of RefineSerBase.v: the
   memmove path leaves storage bits between the cursor and the NEXT BYTE BOUNDARY (8*ceil(w/8) - w surplus bits), exactly the
   slack `wrote` already allows for the whole-byte store; they are overwritten by the next field or the final padding.
   The Section below is Codec/RefineSer.v's proof with `ws_body` replaced by `ws_body_x` (its combinator lemmas do not depend on
   the body function) plus the three new leaf lemmas `wx_prim_sim`, `bulk_bits_enc`, `wx_array_sim`. *)
From Verif Require Import WalkerSafe.
From Verif Require Import Wire WireThm WireThmRt Walker Refine RefineDesBase RefineSerBits PrimsOn RefineSerBase RefineSer WalkerX.
From Coq Require Import Lia ZifyBool ZifyNat ZifyN.
Local Open Scope nat_scope.
Ltac Zify.zify_post_hook ::= Z.div_mod_to_equations.

Definition copy_law (copy : list bool -> nat -> list bool -> option (list bool)) (L : nat) : Prop :=
  forall buf off B, length buf = L -> off + length B <= L ->
    copy buf off B = Some (firstn off buf ++ B ++ skipn (off + length B) buf).

Section RefineSerX.
  Variable P : prims.
  Variable copy : list bool -> nat -> list bool -> option (list bool).
  Variable cf : cfg.
  Variable L : nat.
  Hypothesis HL : L mod 8 = 0.
  (* assumed of the primitives: PrimsOn.set_law for the <= 64-bit stores, and nunavutCopyBits stores any length that fits *)
  Hypothesis Hset : set_law P L.
  Hypothesis Hcopy : copy_law copy L.

  (* ---- the memmove path and the byte path of an integer / bool field ---- *)
  Lemma wx_prim_sim p v buf off : prim_wf p = true -> prim_storage_ok p v = true -> length buf = L ->
    off + prim_bits p <= L -> ser_sim buf off (enc_prim p v) (wx_prim P cf p v buf off).
  Proof.
    intros Hwf Hst Hl Hfit. pose proof (storage_enc p v Hwf Hst) as H. unfold ser_sim, wx_prim.
    assert (Hp64 : prim_bits p <= 64) by (destruct p; cbn [prim_wf prim_bits] in *; lia).
    destruct (enc_prim p v) as [bits|e].
    - destruct H as (sb & -> & Hsl & <-).
      assert (Hplain : sb_len p >= prim_bits p ->
                wrote buf off (firstn (prim_bits p) sb) (w_set P buf off (firstn (prim_bits p) sb))).
      { intros Hge. apply (w_set_wrote P L Hset); rewrite ?firstn_length; [exact Hl | lia | lia]. }
      assert (Hmove : forall m, prim_bits p <= m -> m <= sb_len p -> m <= 64 -> off + m <= L -> off + m <= r8 (off + prim_bits p) ->
                wrote buf off (firstn (prim_bits p) sb)
                  (bind (w_set P buf off (firstn m sb)) (fun '(b, _) => Ok (b, off + prim_bits p)))).
      { intros m H1 H2 H3 H4 H5.
        rewrite <- (firstn_firstn_le sb (prim_bits p) m) by exact H1.
        apply (w_store P L Hset); rewrite ?firstn_length; try exact Hl; lia. }
      assert (Hint : forall w, prim_bits p = w -> sb_len p = std_width w -> 1 <= w ->
                wrote buf off (firstn w sb)
                  (if (off mod 8 =? 0) && (w <=? 8)
                   then bind (w_set P buf off (firstn 8 sb)) (fun '(b, _) => Ok (b, off + w))
                   else if (off mod 8 =? 0) && little cf
                        then bind (w_set P buf off (firstn (ceil8 w) sb)) (fun '(b, _) => Ok (b, off + w))
                        else w_set P buf off (firstn w sb))).
      { intros w Hw Hs H1. rewrite <- Hw in *.
        pose proof (std_width_ge (prim_bits p) Hp64) as Hg. pose proof (std_width_ge8 (prim_bits p)) as Hg8.
        assert (Hc8 : prim_bits p <= ceil8 (prim_bits p) /\ ceil8 (prim_bits p) <= std_width (prim_bits p) /\ ceil8 (prim_bits p) <= 64).
        { unfold ceil8, std_width. destruct (Nat.leb_spec (prim_bits p) 8); [lia|].
          destruct (Nat.leb_spec (prim_bits p) 16); [lia|]. destruct (Nat.leb_spec (prim_bits p) 32); lia. }
        destruct (Nat.eqb_spec (off mod 8) 0) as [Ha|Ha]; cbn [andb]; [|apply Hplain; lia].
        destruct (Nat.leb_spec (prim_bits p) 8) as [H8|H8].
        - apply Hmove; unfold r8, pad8; try lia.
        - destruct (little cf); [|apply Hplain; lia].
          apply Hmove; unfold r8, pad8, ceil8 in *; try lia. }
      destruct p as [|w sat|w sat|w sat|w]; cbn [prim_bits sb_len prim_wf] in *.
      + apply (Hint 1); [reflexivity | reflexivity | lia].
      + apply (Hint w); [reflexivity | reflexivity | lia].
      + apply (Hint w); [reflexivity | reflexivity | lia].
      + apply Hplain. lia.
      + apply Hplain. lia.
    - destruct H as [-> ->]. reflexivity.
  Qed.

  (* ---- one nunavutCopyBits call over the whole array ---- *)
  Lemma bulk_bits_enc p : prim_wf p = true -> forall l, forallb (prim_storage_ok p) l = true ->
    match enc_list (enc_field (TPrim p)) l with
    | Ok B => bulk_bits p l = Some B
    | Err e => e = EShape /\ bulk_bits p l = None
    end.
  Proof.
    intros Hwf. induction l as [|x l IH]; intros Hst; cbn [enc_list bulk_bits]; [reflexivity|].
    cbn [forallb] in Hst. apply andb_prop in Hst. destruct Hst as [Hst1 Hst2]. specialize (IH Hst2).
    change (enc_field (TPrim p) x) with (enc_prim p x).
    pose proof (storage_enc p x Hwf Hst1) as H. unfold elem_bits.
    destruct (enc_prim p x) as [b|e]; cbn [bind].
    - destruct H as (sb & -> & _ & ->).
      destruct (enc_list (enc_field (TPrim p)) l) as [B|e]; cbn [bind]; [rewrite IH; reflexivity|].
      destruct IH as [-> ->]. split; reflexivity.
    - destruct H as [-> ->]. split; reflexivity.
  Qed.

  Lemma copy_wrote buf off B : length buf = L -> off + length B <= L -> 
    wrote buf off B (match copy buf off B with Some b => Ok (b, off + length B) | None => Err ETooSmall end).
  Proof.
    intros Hl Hfit. rewrite (Hcopy buf off B Hl Hfit). eexists. split; [reflexivity|]. split; [|split].
    - rewrite !app_length, firstn_length, skipn_length. lia.
    - rewrite firstn_app_exact by (rewrite firstn_length; lia). f_equal. rewrite firstn_app_left by lia. apply firstn_all.
    - apply set_frame; [lia | apply r8_ge].
  Qed.

  Lemma wx_array_sim e l buf off loop : wf_ty e = true -> forallb (storage_ok e) l = true -> length buf = L ->
    off + length l * fmax e <= L ->
    ser_sim buf off (enc_list (enc_field e) l) loop ->
    ser_sim buf off (enc_list (enc_field e) l) (wx_array copy cf e l buf off loop).
  Proof.
    intros Hwf Hst Hl Hfit Hloop. unfold wx_array.
    destruct e as [p| | |]; try exact Hloop. destruct (bulk cf (TPrim p)); [|exact Hloop].
    cbn [wf_ty] in Hwf. pose proof (bulk_bits_enc p Hwf l Hst) as H.
    pose proof (enc_list_len (enc_field (TPrim p)) (TPrim p) (fmin (TPrim p)) (fmax (TPrim p))
                  (fun v b => enc_field_len_bounds (TPrim p) v b Hwf) l) as Hlen.
    unfold ser_sim. destruct (enc_list (enc_field (TPrim p)) l) as [B|err].
    - rewrite H. apply copy_wrote; [exact Hl|]. specialize (Hlen B eq_refl). lia.
    - destruct H as [-> ->]. reflexivity.
  Qed.

  Definition P_serx (t : ty) : Prop := wf_ty t = true -> forall v buf off, storage_ok t v = true -> length buf = L ->
    off mod align t = 0 -> off + bmax t <= L -> ser_sim buf off (enc_body t v) (ws_body_x P copy cf t v buf off).

  Definition P_serxf (t : ty) : Prop := wf_ty t = true -> forall v buf off, storage_ok t v = true -> length buf = L ->
    off mod align t = 0 -> off + fmax t <= L -> ser_sim buf off (enc_field t v) (ws_field P (ws_body_x P copy cf) t v buf off).

  (* a delimited composite as a field: reserve the header, serialize the body, store the body size into the header *)
  Lemma serx_body_to_field t : P_serx t -> P_serxf t.
  Proof.
    intros H Hwf v buf off Hst Hl Ha Hfit. unfold enc_field, as_field_enc, fmax, as_field_max in *.
    destruct t as [p|e n|e c|u fs [x|]]; try (apply H; assumption).
    cbn [ws_field]. cbn [align] in Ha.
    destruct (wf_extent _ _ _ Hwf) as [Hx _].
    assert (Ha' : (off + header_bits) mod align (TComp u fs (Some x)) = 0) by (cbn [align]; unfold header_bits; lia).
    assert (Hfit' : off + header_bits + bmax (TComp u fs (Some x)) <= L) by lia.
    pose proof (H Hwf v buf (off + header_bits) Hst Hl Ha' Hfit') as S. unfold ser_sim in *.
    destruct (enc_body (TComp u fs (Some x)) v) as [b|e] eqn:E; cbn [bind]; [|rewrite S; reflexivity].
    destruct S as (buf1 & E1 & Hl1 & Hf1 & Hs1).
    assert (Hpre1 : firstn (off + header_bits) buf1 = firstn (off + header_bits) buf).
    { eapply prefix_kept; [|exact Hf1]. lia. }
    rewrite E1. cbn [bind].
    replace (off + header_bits + length b - (off + header_bits)) with (length b) by lia.
    set (hdr := bits_of_N header_bits (N.of_nat (length b / 8))).
    assert (Hh : length hdr = header_bits) by apply bits_of_N_length.
    unfold w_set. rewrite (Hset buf1 off hdr) by (rewrite ?Hh; unfold header_bits in *; lia). cbn [bind].
    eexists. split; [f_equal; f_equal; rewrite app_length, Hh; lia|]. split; [|split].
    - rewrite !app_length, firstn_length, skipn_length. lia.
    - rewrite app_length, Hh.
      rewrite firstn_app_exact by (rewrite firstn_length; lia).
      rewrite firstn_app_exact by exact Hh.
      f_equal; [|f_equal].
      + rewrite <- (firstn_firstn_le buf1 off (off + header_bits)) by lia.
        rewrite Hpre1. apply firstn_firstn_le. lia.
      + rewrite firstn_skipn_comm, Hf1. apply skipn_app_exact. rewrite firstn_length. lia.
    - pose proof (r8_ge (off + length (hdr ++ b))) as Hr. rewrite app_length in Hr.
      rewrite set_frame by (rewrite ?app_length; lia).
      rewrite app_length, Hh. replace (off + (header_bits + length b)) with (off + header_bits + length b) by lia. exact Hs1.
  Qed.

  Lemma serx_list e : wf_ty e = true -> P_serxf e -> forall l buf off, forallb (storage_ok e) l = true -> length buf = L ->
    off mod align e = 0 -> off + length l * fmax e <= L ->
    ser_sim buf off (enc_list (enc_field e) l) (ws_list (ws_field P (ws_body_x P copy cf) e) l buf off).
  Proof.
    intros Hwf He. induction l as [|x l IH]; intros buf off Hst Hl Ha Hfit; cbn [enc_list ws_list].
    - cbn [ser_sim]. apply wrote_nil.
    - cbn [forallb length] in *. apply andb_prop in Hst. destruct Hst as [Hst1 Hst2].
      rewrite Nat.mul_succ_l in Hfit.
      assert (Hfit1 : off + fmax e <= L) by lia.
      pose proof (He Hwf x buf off Hst1 Hl Ha Hfit1) as S. unfold ser_sim in S.
      destruct (enc_field e x) as [b1|err] eqn:E1; cbn [bind]; [|rewrite S; reflexivity].
      destruct S as (buf1 & -> & Hl1 & Hf1 & Hs1). cbn [bind].
      destruct (enc_field_len_bounds _ _ _ Hwf E1) as [[_ Hhi] Hmod].
      assert (Ha1 : (off + length b1) mod align e = 0).
      { destruct (align_cases e) as [A|A]; rewrite A in *; [apply Nat.mod_1_r|]. specialize (Hmod eq_refl). lia. }
      assert (Hl1' : length buf1 = L) by lia.
      assert (Hfit2 : off + length b1 + length l * fmax e <= L) by lia.
      pose proof (IH buf1 (off + length b1) Hst2 Hl1' Ha1 Hfit2) as S.
      destruct (enc_list (enc_field e) l) as [b2|err]; cbn [bind ser_sim] in *; [|exact S].
      eapply wrote_trans; [exact Hl1 | exact Hf1 | exact Hs1 | exact S].
  Qed.

  Lemma serx_fields fs : Forall P_serxf fs -> forallb wf_ty fs = true -> forall vs buf base off omax,
    storage_fields storage_ok fs vs = true -> length buf = L -> off <= omax -> fields_sum fmax fs omax <= L ->
    ser_sim buf off (enc_fields enc_field fs vs off) (ws_fields P (ws_field P (ws_body_x P copy cf)) fs vs buf base off).
  Proof.
    induction 1 as [|f fs Hf Hfs IH]; intros Hwf vs buf base off omax Hst Hl Hle Hfit.
    - destruct vs as [|v vs]; cbn [enc_fields ws_fields ser_sim]; [|reflexivity].
      apply (w_pad8_wrote P L Hset); [exact Hl|]. cbn [fields_sum] in Hfit. pose proof (rup8_mono off omax Hle). lia.
    - cbn [forallb] in Hwf. apply andb_prop in Hwf. destruct Hwf as [Hwf1 Hwf2].
      destruct vs as [|v vs]; cbn [enc_fields ws_fields]; [reflexivity|].
      cbn [storage_fields] in Hst. apply andb_prop in Hst. destruct Hst as [Hst1 Hst2].
      cbn [fields_sum] in Hfit.
      set (p := padn off (align f)).
      pose proof (rupn_mono off omax f Hle) as Hmono. fold p in Hmono.
      pose proof (fields_sum_ge fmax fs (omax + padn omax (align f) + fmax f)) as Hge.
      assert (Hfit0 : off + padn off (align f) <= length buf) by (fold p; lia).
      destruct (w_pad_wrote P L Hset buf off f Hl Hfit0) as (buf0 & E0 & Hl0 & Hf0 & Hs0).
      fold p in E0, Hf0, Hs0. rewrite repeat_length in E0, Hf0, Hs0. rewrite E0. cbn [bind].
      assert (Hl0' : length buf0 = L) by lia.
      assert (Hfit1 : off + p + fmax f <= L) by lia.
      pose proof (Hf Hwf1 v buf0 (off + p) Hst1 Hl0' (rupn_aligned off f) Hfit1) as S. unfold ser_sim in S.
      destruct (enc_field f v) as [b1|err] eqn:E1; cbn [bind]; [|rewrite S; reflexivity].
      destruct S as (buf1 & -> & Hl1 & Hf1 & Hs1). cbn [bind].
      destruct (enc_field_len_bounds _ _ _ Hwf1 E1) as [[_ Hhi] _].
      assert (Hl1' : length buf1 = L) by lia.
      assert (Hle' : off + p + length b1 <= omax + padn omax (align f) + fmax f) by lia.
      pose proof (IH Hwf2 vs buf1 base (off + p + length b1) _ Hst2 Hl1' Hle' Hfit) as S.
      destruct (enc_fields enc_field fs vs (off + p + length b1)) as [r|err]; cbn [bind ser_sim] in *; [|exact S].
      eapply (wrote_step buf off (repeat false p) p buf0); [apply repeat_length | exact Hl0 | exact Hf0 | exact Hs0 |].
      eapply wrote_trans; [exact Hl1 | exact Hf1 | exact Hs1 | exact S].
  Qed.

  Lemma serx_sel fs : Forall P_serxf fs -> forallb wf_ty fs = true -> forall k x buf off,
    storage_sel storage_ok fs k x = true -> length buf = L -> off mod 8 = 0 -> off + fields_max fmax fs <= L ->
    ser_sim buf off (enc_sel enc_field fs k x) (ws_sel (ws_field P (ws_body_x P copy cf)) fs k x buf off).
  Proof.
    induction 1 as [|f fs Hf Hfs IH]; intros Hwf k x buf off Hst Hl Ha Hfit; [destruct k; reflexivity|].
    cbn [forallb] in Hwf. apply andb_prop in Hwf. destruct Hwf as [Hwf1 Hwf2]. cbn [fields_max] in Hfit.
    destruct k as [|k]; cbn [enc_sel ws_sel storage_sel] in *.
    - apply Hf; [assumption | assumption | assumption | apply mod_align; exact Ha | lia].
    - apply IH; [assumption | assumption | assumption | assumption | lia].
  Qed.

  Theorem serx_all : forall t, P_serx t.
  Proof.
    induction t as [p|e n IHe|e c IHe|u fs ext H] using ty_nested_ind; unfold P_ser; intros Hwf v buf off Hst Hl Ha Hfit.
    - (* primitive *)
      cbn [ws_body_x enc_body wf_ty storage_ok bmax] in *. apply wx_prim_sim; [assumption | assumption | assumption | lia].
    - (* fixed array *)
      cbn [ws_body_x enc_body]. cbn [wf_ty align bmax] in *. fold (fmax e) in Hfit.
      destruct v; try reflexivity.
      destruct (Nat.eqb_spec (length l) n) as [En|En]; [|reflexivity]. subst n.
      cbn [storage_ok] in Hst. change (as_field_enc enc_body e) with (enc_field e).
      apply wx_array_sim; try assumption.
      apply serx_list; try assumption. apply serx_body_to_field. exact IHe.
    - (* variable array *)
      cbn [ws_body_x enc_body]. cbn [wf_ty align bmax] in *. fold (fmax e) in Hfit.
      apply andb_prop in Hwf. destruct Hwf as [Hwf _].
      destruct v; try reflexivity.
      destruct (Nat.ltb_spec c (length l)) as [Ec|Ec]; [reflexivity|].
      cbn [storage_ok] in Hst. change (as_field_enc enc_body e) with (enc_field e).
      set (pfx := bits_of_N (prefix_bits c) (N.of_nat (length l))).
      assert (Hpl : length pfx = prefix_bits c) by apply bits_of_N_length.
      assert (Hmul : length l * fmax e <= c * fmax e) by (apply Nat.mul_le_mono_r; exact Ec).
      assert (Hfit0 : off + length pfx <= length buf) by lia.
      assert (Hp64 : length pfx <= 64) by (rewrite Hpl; unfold prefix_bits; destruct (len_width_cases c) as [-> | [-> | [-> | ->]]]; lia).
      destruct (w_set_wrote P L Hset buf off pfx Hl Hp64 Hfit0) as (buf0 & E0 & Hl0 & Hf0 & Hs0).
      rewrite E0. cbn [bind].
      assert (Hl0' : length buf0 = L) by lia.
      assert (Ha0 : (off + length pfx) mod align e = 0).
      { pose proof (len_width_mod8 c) as Hw. unfold prefix_bits in Hpl. rewrite Hpl.
        destruct (align_cases e) as [A | A]; rewrite A in *; [apply Nat.mod_1_r | lia]. }
      assert (Hfit1 : off + length pfx + length l * fmax e <= L) by lia.
      pose proof (serx_list e Hwf (serx_body_to_field e IHe) l buf0 (off + length pfx) Hst Hl0' Ha0 Hfit1) as S0.
      pose proof (wx_array_sim e l buf0 (off + length pfx) _ Hwf Hst Hl0' Hfit1 S0) as S.
      destruct (enc_list (enc_field e) l) as [b|err]; cbn [bind ser_sim] in *; [|exact S].
      eapply wrote_trans; [exact Hl0 | exact Hf0 | exact Hs0 | exact S].
    - (* composite *)
      assert (Hf : Forall P_serxf fs).
      { rewrite Forall_forall in *. intros f Hin. apply serx_body_to_field. apply H. exact Hin. }
      assert (Hwfs : forallb wf_ty fs = true).
      { cbn [wf_ty] in Hwf. apply andb_prop in Hwf. destruct Hwf as [Hwf _]. apply andb_prop in Hwf. destruct Hwf as [Hwf _]. exact Hwf. }
      cbn [align] in Ha.
      destruct u; cbn [ws_body_x enc_body]; change (as_field_enc enc_body) with enc_field.
      + (* union: tag, selected member, final padding *)
        destruct v; try reflexivity.
        cbn [bmax] in Hfit. fold fmax in Hfit.
        set (tw := tag_bits (length fs)) in *.
        destruct (Nat.leb_spec (length fs) tag) as [Ek|Ek].
        { rewrite enc_sel_oob by exact Ek. reflexivity. }
        cbn [storage_ok] in Hst.
        set (tg := bits_of_N tw (N.of_nat tag)).
        assert (Htl : length tg = tw) by apply bits_of_N_length.
        assert (Htw : tw mod 8 = 0) by apply tag_bits_mod8.
        assert (Hfit0 : off + length tg <= length buf) by lia.
        assert (Ht64 : length tg <= 64) by (rewrite Htl; unfold tw, tag_bits; destruct (len_width_cases (length fs - 1)) as [-> | [-> | [-> | ->]]]; lia).
        destruct (w_set_wrote P L Hset buf off tg Hl Ht64 Hfit0) as (buf0 & E0 & Hl0 & Hf0 & Hs0).
        rewrite E0. cbn [bind].
        assert (Hl0' : length buf0 = L) by lia.
        assert (Ha0 : (off + length tg) mod 8 = 0) by lia.
        assert (Hfit1 : off + length tg + fields_max fmax fs <= L) by lia.
        pose proof (serx_sel fs Hf Hwfs tag v buf0 (off + length tg) Hst Hl0' Ha0 Hfit1) as S. unfold ser_sim in S.
        destruct (enc_sel enc_field fs tag v) as [b|err] eqn:Eb; cbn [bind]; [|rewrite S; reflexivity].
        destruct S as (buf1 & -> & Hl1 & Hf1 & Hs1). cbn [bind ser_sim].
        destruct (enc_sel_in _ _ _ _ _ Eb) as (f & Hin & _ & He).
        rewrite forallb_forall in Hwfs.
        destruct (enc_field_len_bounds _ _ _ (Hwfs f Hin) He) as [[_ Hhi] _].
        pose proof (fields_max_ge fmax f fs Hin) as Hmx.
        assert (Hpad : pad8 (off + length tg + length b) = pad8 (tw + length b)) by (unfold pad8; lia).
        pose proof (rup8_mono (tw + length b) (tw + fields_max fmax fs)) as Hr.
        assert (Hfit2 : off + length tg + length b + pad8 (off + length tg + length b) <= length buf1) by lia.
        assert (Hl1' : length buf1 = L) by lia.
        pose proof (w_pad8_wrote P L Hset buf1 (off + length tg + length b) Hl1' Hfit2) as S. rewrite Hpad in S.
        eapply wrote_trans; [exact Hl0 | exact Hf0 | exact Hs0 |].
        eapply wrote_trans; [exact Hl1 | exact Hf1 | exact Hs1 | exact S].
      + (* structure *)
        destruct v; try reflexivity.
        cbn [bmax storage_ok] in *. fold fmax in Hfit.
        pose proof (fields_sum_shift fmax fs off Ha 0) as Hs. rewrite Nat.add_0_r in Hs.
        assert (Hfit0 : fields_sum fmax fs off <= L) by lia.
        pose proof (serx_fields fs Hf Hwfs l buf off off off Hst Hl (le_n _) Hfit0) as S.
        pose proof (enc_fields_shift enc_field fs off Ha l 0) as Hsh. rewrite Nat.add_0_r in Hsh.
        rewrite Hsh in S. exact S.
  Qed.
End RefineSerX.

(* ---- the extended walker emits the specification's bits ---- *)
Theorem walk_ser_x_refines_on : forall P copy c u fs ext v buf cap, set_law P (8 * cap) -> copy_law copy (8 * cap) ->
  wf_ty (TComp u fs ext) = true -> length buf = 8 * cap -> storage_ok (TComp u fs ext) v = true ->
  walk_ser_x P copy c (TComp u fs ext) v buf cap = ser_spec (TComp u fs ext) v cap.
Proof.
  intros P copy c u fs ext v buf cap HP HC Hwf Hl Hst. set (t := TComp u fs ext) in *. unfold walk_ser_x, ser_spec.
  destruct (Nat.ltb_spec (8 * cap) (bmax t)) as [Hlt|Hge]; [reflexivity|].
  assert (HL : (8 * cap) mod 8 = 0) by lia.
  pose proof (serx_all P copy c (8 * cap) HL HP HC t Hwf v buf 0 Hst Hl eq_refl Hge) as S. unfold ser_sim in S.
  destruct (enc_body t v) as [bits|e] eqn:E; [|rewrite S; reflexivity].
  destruct S as (buf' & -> & _ & Hf & _). cbn [bind plus firstn app] in *.
  destruct (enc_len_bounds _ _ _ Hwf E) as [_ Hmod]. specialize (Hmod eq_refl).
  replace (8 * (length bits / 8)) with (length bits) by lia. rewrite Hf. reflexivity.
Qed.

(* hence the extended walker and the plain walker are the same function of (type, value, buffer, capacity) on the observable *)
Corollary walk_ser_x_equals_walk_ser : forall P copy c u fs ext v buf cap, set_law P (8 * cap) -> copy_law copy (8 * cap) ->
  wf_ty (TComp u fs ext) = true -> length buf = 8 * cap -> storage_ok (TComp u fs ext) v = true ->
  walk_ser_x P copy c (TComp u fs ext) v buf cap = walk_ser P (TComp u fs ext) v buf cap.
Proof.
  intros. rewrite walk_ser_x_refines_on by assumption. symmetry. apply walk_ser_refines_on; assumption.
Qed.
