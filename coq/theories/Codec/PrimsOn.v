(* The laws of `Walker.prims_ok` restricted to what the walker actually asks of the primitives, so that they can be proved of the
   shipped bit primitives (Prims/CPrims.v etc.), whose contracts have side conditions:
     - reads: only the widths in `Wd` (the walker reads 1..64 bits: primitive fields, length prefixes, tags, delimiter headers),
       only with a capacity that is a multiple of 8 and lies within the buffer;
     - writes: at most 64 bits at a time (primitive fields, whole-byte stores, prefixes, tags, headers, padding < 8 bits), into a
       buffer of the fixed length L (the up-front capacity check) that they fit into.
   Codec/RefineDes.v and Codec/RefineSer*.v prove the refinement from these laws; `prims_ok` implies them. *)
From Verif Require Import Wire Walker.
Local Open Scope nat_scope.

Definition get_law (P : prims) (Wd : nat -> Prop) (buf : list bool) : Prop :=
  forall cap off w, Wd w -> cap <= length buf -> cap mod 8 = 0 ->
    get_bits P buf cap off w = take_ze w (skipn off (firstn cap buf)).

Definition set_law (P : prims) (L : nat) : Prop :=
  forall buf off v, length buf = L -> length v <= 64 -> off + length v <= L ->
    set_bits P buf off v = Some (firstn off buf ++ v ++ skipn (off + length v) buf).

Lemma prims_ok_get_law P : prims_ok P -> forall buf, get_law P (fun _ => True) buf.
Proof. intros HP buf cap off w _ _ _. apply (get_ok P HP). Qed.

Lemma prims_ok_set_law P : prims_ok P -> forall L, set_law P L.
Proof. intros HP L buf off v Hl _ Hfit. apply (set_ok P HP). rewrite Hl. exact Hfit. Qed.
