(* The Python-shaped serialization walker (Codec/PyWalker.v) emits exactly the bits the wire specification prescribes, for every
   well-formed composite type and every value (Python integers are unbounded: no storage proviso), from two laws of the
   Serializer primitives:
     add_law   appending a non-empty bit string at the cursor of a buffer that is ZERO FROM THE CURSOR ON stores exactly it
               (C14: add_(un)aligned_unsigned_appends under the invariant `Inv`; Codec/InstancesPy.v `py_store_inv`)
     hdr_law   add_aligned_u32 at a byte-aligned position is a plain 4-byte store, whatever follows it
   and the invariant that the buffer is zero from the cursor on at every node (a fresh Serializer is zero-filled; skips and
   alignment padding rely on it instead of writing). *)
From Verif Require Import Wire WireThm WireThmRt Walker Refine RefineDesBase RefineSerBase InstancesBase InstancesPy PyWalker.
From Coq Require Import Lia ZifyBool ZifyNat ZifyN.
Local Open Scope nat_scope.
Ltac Zify.zify_post_hook ::= Z.div_mod_to_equations.

Definition add_law (Q : pyprims) (L : nat) : Prop :=
  forall buf off v, length buf = L -> 1 <= length v -> off + length v <= L -> zero_from buf off ->
    p_add Q buf off v = Some (firstn off buf ++ v ++ skipn (off + length v) buf).

Definition hdr_law (Q : pyprims) (L : nat) : Prop :=
  forall buf off x, length buf = L -> off mod 8 = 0 -> off + header_bits <= L -> (x < 2 ^ 32)%N ->
    p_hdr Q buf off x = Some (firstn off buf ++ bits_of_N header_bits x ++ skipn (off + header_bits) buf).

(* the bulk array adders: the whole bit string at once, any length (an empty array is a no-op), under the same invariant *)
Definition bulk_law (Q : pyprims) (L : nat) : Prop :=
  forall buf off v, length buf = L -> off + length v <= L -> zero_from buf off ->
    p_bits Q buf off v = Some (firstn off buf ++ v ++ skipn (off + length v) buf) /\
    forall w, 0 < w -> w mod 8 = 0 -> length v mod w = 0 ->
      p_std Q w buf off v = Some (firstn off buf ++ v ++ skipn (off + length v) buf).

Definition stored (buf : list bool) (off : nat) (bits : list bool) : list bool :=
  firstn off buf ++ bits ++ skipn (off + length bits) buf.

Definition pwrote (buf : list bool) (off : nat) (bits : list bool) (r : pres) : Prop :=
  r = Ok (stored buf off bits, off + length bits).

Definition psim (buf : list bool) (off : nat) (rs : res (list bool)) (rw : pres) : Prop :=
  match rs with Ok bits => pwrote buf off bits rw | Err e => rw = Err e end.

Lemma stored_length buf off bits : off + length bits <= length buf -> length (stored buf off bits) = length buf.
Proof. intros H. unfold stored. rewrite !app_length, firstn_length, skipn_length. lia. Qed.

Lemma stored_zero buf off bits : off + length bits <= length buf -> zero_from buf off ->
  zero_from (stored buf off bits) (off + length bits).
Proof.
  intros Hfit Hz p Hp. unfold stored. rewrite (nth_store buf bits off p Hfit).
  destruct (Nat.leb_spec off p); [|lia]. destruct (Nat.ltb_spec p (off + length bits)); [lia|]. cbn [andb]. apply Hz. lia.
Qed.

Lemma stored_nil buf off : stored buf off [] = buf.
Proof. unfold stored. cbn [length app]. rewrite Nat.add_0_r. apply firstn_skipn. Qed.

(* skipping over bits that are already zero = storing zeros *)
Lemma stored_zeros buf off n : off + n <= length buf -> zero_from buf off -> stored buf off (repeat false n) = buf.
Proof.
  intros Hfit Hz. apply bits_ext; [apply stored_length; rewrite repeat_length; exact Hfit|].
  intros p _. unfold stored. rewrite (nth_store buf (repeat false n) off p) by (rewrite repeat_length; exact Hfit).
  rewrite repeat_length.
  destruct (Nat.leb_spec off p); cbn [andb]; [|reflexivity]. destruct (Nat.ltb_spec p (off + n)); [|reflexivity].
  rewrite nth_repeat. symmetry. apply Hz. assumption.
Qed.

Lemma stored_stored buf off b1 b2 : off + length b1 + length b2 <= length buf ->
  stored (stored buf off b1) (off + length b1) b2 = stored buf off (b1 ++ b2).
Proof.
  intros Hfit. unfold stored at 1 3.
  assert (Hf : firstn (off + length b1) (stored buf off b1) = firstn off buf ++ b1).
  { unfold stored. rewrite firstn_app_exact by (rewrite firstn_length; lia). rewrite (firstn_app_left b1) by lia.
    rewrite firstn_all. reflexivity. }
  assert (Hs : skipn (off + length b1 + length b2) (stored buf off b1) = skipn (off + length b1 + length b2) buf).
  { unfold stored. apply set_frame; lia. }
  rewrite Hf, Hs, app_length, <- !app_assoc. do 3 f_equal. f_equal. lia.
Qed.

Lemma pwrote_trans buf off b1 b2 r : off + length b1 + length b2 <= length buf ->
  pwrote (stored buf off b1) (off + length b1) b2 r -> pwrote buf off (b1 ++ b2) r.
Proof.
  unfold pwrote. intros Hfit ->. rewrite stored_stored by exact Hfit. rewrite app_length, Nat.add_assoc. reflexivity.
Qed.

Section PyRefine.
  Variable Q : pyprims.
  Variable L : nat.
  Hypothesis HL : L mod 8 = 0.
  Hypothesis Hadd : add_law Q L.
  Hypothesis Hhdr : hdr_law Q L.
  Hypothesis Hbulk : bulk_law Q L.

  Lemma p_set_wrote buf off v : length buf = L -> 1 <= length v -> off + length v <= L -> zero_from buf off ->
    pwrote buf off v (p_set Q buf off v).
  Proof. intros Hl Hv Hfit Hz. unfold pwrote, p_set. rewrite (Hadd buf off v Hl Hv Hfit Hz). reflexivity. Qed.

  Definition P_pser (t : ty) : Prop := wf_ty t = true -> forall v buf off, length buf = L -> off mod align t = 0 ->
    off + bmax t <= L -> zero_from buf off -> psim buf off (enc_body t v) (pw_body Q enc_prim t v buf off).

  Definition P_pserf (t : ty) : Prop := wf_ty t = true -> forall v buf off, length buf = L -> off mod align t = 0 ->
    off + fmax t <= L -> zero_from buf off -> psim buf off (enc_field t v) (pw_field Q (pw_body Q enc_prim) t v buf off).

  Lemma zero_from_later buf a b : a <= b -> zero_from buf a -> zero_from buf b.
  Proof. intros H Hz p Hp. apply Hz. lia. Qed.

  Lemma pser_body_to_field t : P_pser t -> P_pserf t.
  Proof.
    intros H Hwf v buf off Hl Ha Hfit Hz. unfold enc_field, as_field_enc, fmax, as_field_max in *.
    destruct t as [p|e n|e c|u fs [x|]]; try (apply H; assumption).
    cbn [pw_field]. cbn [align] in Ha.
    destruct (wf_extent _ _ _ Hwf) as [Hx _]. pose proof (wf_header _ _ _ Hwf) as Hxh.
    assert (Ha' : (off + header_bits) mod align (TComp u fs (Some x)) = 0) by (cbn [align]; unfold header_bits; lia).
    assert (Hfit' : off + header_bits + bmax (TComp u fs (Some x)) <= L) by lia.
    assert (Hz' : zero_from buf (off + header_bits)) by (eapply zero_from_later; [|exact Hz]; lia).
    pose proof (H Hwf v buf (off + header_bits) Hl Ha' Hfit' Hz') as S. unfold psim in *.
    destruct (enc_body (TComp u fs (Some x)) v) as [b|e] eqn:E; cbn [bind]; [|rewrite S; reflexivity].
    unfold pwrote in *. rewrite S. cbn [bind].
    destruct (enc_len_bounds _ _ _ Hwf E) as [[_ Hhi] _].
    replace (off + header_bits + length b - (off + header_bits)) with (length b) by lia.
    set (buf1 := stored buf (off + header_bits) b).
    assert (Hl1 : length buf1 = L) by (unfold buf1; rewrite stored_length; lia).
    rewrite (Hhdr buf1 off (N.of_nat (length b / 8)) Hl1 Ha) by (unfold header_bits in *; lia).
    f_equal. f_equal; [|rewrite app_length, bits_of_N_length; lia].
    set (hdr := bits_of_N header_bits (N.of_nat (length b / 8))).
    assert (Hh : length hdr = header_bits) by apply bits_of_N_length.
    unfold stored. rewrite app_length, Hh.
    assert (Hf : firstn off buf1 = firstn off buf).
    { unfold buf1, stored. rewrite firstn_app_left by (rewrite firstn_length; lia). apply firstn_firstn_le. lia. }
    assert (Hs : skipn (off + header_bits) buf1 = b ++ skipn (off + header_bits + length b) buf).
    { unfold buf1, stored. apply skipn_app_exact. rewrite firstn_length. lia. }
    rewrite Hf, Hs, <- !app_assoc. do 3 f_equal. f_equal. lia.
  Qed.

  Lemma pser_list e : wf_ty e = true -> P_pserf e -> forall l buf off, length buf = L ->
    off mod align e = 0 -> off + length l * fmax e <= L -> zero_from buf off ->
    psim buf off (enc_list (enc_field e) l) (pw_list (pw_field Q (pw_body Q enc_prim) e) l buf off).
  Proof.
    intros Hwf He. induction l as [|x l IH]; intros buf off Hl Ha Hfit Hz; cbn [enc_list pw_list].
    - cbn [psim]. unfold pwrote. rewrite stored_nil. cbn [length]. rewrite Nat.add_0_r. reflexivity.
    - cbn [length] in *. rewrite Nat.mul_succ_l in Hfit.
      assert (Hfit1 : off + fmax e <= L) by lia.
      pose proof (He Hwf x buf off Hl Ha Hfit1 Hz) as S. unfold psim in S.
      destruct (enc_field e x) as [b1|err] eqn:E1; cbn [bind]; [|rewrite S; reflexivity].
      unfold pwrote in S. rewrite S. cbn [bind].
      destruct (enc_field_len_bounds _ _ _ Hwf E1) as [[_ Hhi] Hmod].
      assert (Ha1 : (off + length b1) mod align e = 0).
      { destruct (align_cases e) as [A|A]; rewrite A in *; [apply Nat.mod_1_r|]. specialize (Hmod eq_refl). lia. }
      pose proof (IH (stored buf off b1) (off + length b1) ltac:(rewrite stored_length; lia) Ha1 ltac:(lia)
                    ltac:(apply stored_zero; [lia | exact Hz])) as S2.
      destruct (enc_list (enc_field e) l) as [b2|err] eqn:E2; cbn [bind psim] in *; [|exact S2].
      apply pwrote_trans; [|exact S2].
      assert (Hl2 : length b2 <= length l * fmax e).
      { pose proof (enc_list_len (enc_field e) e (fmin e) (fmax e) (fun v b => enc_field_len_bounds e v b Hwf) l b2 E2). lia. }
      lia.
  Qed.

  Lemma pser_fields fs : Forall P_pserf fs -> forallb wf_ty fs = true -> forall vs buf off omax,
    length buf = L -> off <= omax -> fields_sum fmax fs omax <= L -> zero_from buf off ->
    psim buf off (enc_fields enc_field fs vs off) (pw_fields (pw_field Q (pw_body Q enc_prim)) fs vs buf off).
  Proof.
    induction 1 as [|f fs Hf Hfs IH]; intros Hwf vs buf off omax Hl Hle Hfit Hz.
    - destruct vs as [|v vs]; cbn [enc_fields pw_fields psim]; [|reflexivity].
      cbn [fields_sum] in Hfit. pose proof (rup8_mono off omax Hle).
      unfold pwrote. rewrite repeat_length, stored_zeros by (try assumption; lia). reflexivity.
    - cbn [forallb] in Hwf. apply andb_prop in Hwf. destruct Hwf as [Hwf1 Hwf2].
      destruct vs as [|v vs]; cbn [enc_fields pw_fields]; [reflexivity|].
      cbn [fields_sum] in Hfit. set (p := padn off (align f)).
      pose proof (rupn_mono off omax f Hle) as Hmono. fold p in Hmono.
      pose proof (fields_sum_ge fmax fs (omax + padn omax (align f) + fmax f)) as Hge.
      assert (Hfit1 : off + p + fmax f <= L) by lia.
      assert (Hz1 : zero_from buf (off + p)) by (eapply zero_from_later; [|exact Hz]; lia).
      pose proof (Hf Hwf1 v buf (off + p) Hl (rupn_aligned off f) Hfit1 Hz1) as S. unfold psim in S.
      destruct (enc_field f v) as [b1|err] eqn:E1; cbn [bind]; [|rewrite S; reflexivity].
      unfold pwrote in S. rewrite S. cbn [bind].
      destruct (enc_field_len_bounds _ _ _ Hwf1 E1) as [[_ Hhi] _].
      assert (Hle' : off + p + length b1 <= omax + padn omax (align f) + fmax f) by lia.
      pose proof (IH Hwf2 vs (stored buf (off + p) b1) (off + p + length b1) _ ltac:(rewrite stored_length; lia) Hle' Hfit
                    ltac:(apply stored_zero; [lia | exact Hz1])) as S2.
      destruct (enc_fields enc_field fs vs (off + p + length b1)) as [r|err] eqn:E2; cbn [bind psim] in *; [|exact S2].
      assert (Hr : off + p + length b1 + length r <= L).
      { pose proof (fields_sum_mono fmax fs _ _ Hle').
        assert (Hb : off + p + length b1 + length r <= fields_sum fmax fs (off + p + length b1)).
        { assert (Hfl : Forall P_lenf fs) by (apply Forall_forall; intros g _; apply body_to_field, enc_len_all).
          destruct (enc_fields_len fs Hfl Hwf2 vs _ (off + p + length b1) (off + p + length b1) r E2 ltac:(lia)) as [[_ Hh] _].
          exact Hh. }
        lia. }
      (* padding skipped = zeros stored, then the field, then the rest *)
      assert (Hpad : stored buf off (repeat false p) = buf) by (apply stored_zeros; [lia | exact Hz]).
      apply (pwrote_trans buf off (repeat false p) (b1 ++ r)); rewrite repeat_length, ?app_length; [lia|].
      rewrite Hpad. apply pwrote_trans; [lia | exact S2].
  Qed.

  Lemma pser_sel fs : Forall P_pserf fs -> forallb wf_ty fs = true -> forall k x buf off,
    length buf = L -> off mod 8 = 0 -> off + fields_max fmax fs <= L -> zero_from buf off ->
    psim buf off (enc_sel enc_field fs k x) (pw_sel (pw_field Q (pw_body Q enc_prim)) fs k x buf off).
  Proof.
    induction 1 as [|f fs Hf Hfs IH]; intros Hwf k x buf off Hl Ha Hfit Hz; [destruct k; reflexivity|].
    cbn [forallb] in Hwf. apply andb_prop in Hwf. destruct Hwf as [Hwf1 Hwf2]. cbn [fields_max] in Hfit.
    destruct k as [|k]; cbn [enc_sel pw_sel] in *.
    - apply Hf; [assumption | assumption | apply mod_align; exact Ha | lia | assumption].
    - apply IH; [assumption | assumption | assumption | lia | assumption].
  Qed.

  (* the bulk adders store the concatenated element encodings: the same result as the element loop *)
  Lemma pw_array_sim e l buf off loop : wf_ty e = true -> length buf = L -> off + length l * fmax e <= L -> zero_from buf off ->
    psim buf off (enc_list (enc_field e) l) loop ->
    psim buf off (enc_list (enc_field e) l) (pw_array Q enc_prim e l buf off loop).
  Proof.
    intros Hwf Hl Hfit Hz Hloop. unfold pw_array.
    assert (Hgen : forall p, e = TPrim p ->
              psim buf off (enc_list (enc_field e) l)
                (match enc_list (enc_prim p) l with
                 | Ok B => match p_bits Q buf off B with Some b => Ok (b, off + length B) | None => Err ETooSmall end
                 | Err e0 => Err e0
                 end) /\
              (py_std_w (prim_bits p) = true ->
               psim buf off (enc_list (enc_field e) l)
                (match enc_list (enc_prim p) l with
                 | Ok B => match p_std Q (prim_bits p) buf off B with Some b => Ok (b, off + length B) | None => Err ETooSmall end
                 | Err e0 => Err e0
                 end))).
    { intros p ->. change (enc_list (enc_field (TPrim p)) l) with (enc_list (enc_prim p) l).
      pose proof (enc_list_len (enc_field (TPrim p)) (TPrim p) (fmin (TPrim p)) (fmax (TPrim p))
                    (fun v b => enc_field_len_bounds (TPrim p) v b Hwf) l) as Hlen.
      change (enc_list (enc_field (TPrim p)) l) with (enc_list (enc_prim p) l) in Hlen.
      cbn [fmax fmin as_field_max as_field_min bmax bmin] in *.
      destruct (enc_list (enc_prim p) l) as [B|err]; cbn [psim]; [|split; [reflexivity | intros _; reflexivity]].
      destruct (Hlen B eq_refl) as [HlenB _].
      destruct (Hbulk buf off B Hl ltac:(lia) Hz) as [Eb Es]. split; [rewrite Eb; reflexivity|].
      intros Hstd. assert (Hw : prim_bits p = 8 \/ prim_bits p = 16 \/ prim_bits p = 32 \/ prim_bits p = 64).
      { unfold py_std_w in Hstd. destruct (Nat.eqb_spec (prim_bits p) 8), (Nat.eqb_spec (prim_bits p) 16),
          (Nat.eqb_spec (prim_bits p) 32), (Nat.eqb_spec (prim_bits p) 64); cbn [orb] in Hstd; auto; discriminate Hstd. }
      rewrite Es; [reflexivity | lia | lia |].
      replace (length B) with (length l * prim_bits p) by lia. apply Nat.mod_mul. lia. }
    destruct e as [p| | |]; try exact Hloop. cbn [py_array_kind].
    destruct p as [|w s|w s|w s|w]; try exact Hloop.
    - apply (Hgen PBool eq_refl).
    - destruct (py_std_w w) eqn:Es; [apply (proj2 (Hgen (PU w s) eq_refl)); exact Es | exact Hloop].
    - destruct (py_std_w w) eqn:Es; [apply (proj2 (Hgen (PS w s) eq_refl)); exact Es | exact Hloop].
    - destruct (py_std_w w) eqn:Es; [apply (proj2 (Hgen (PF w s) eq_refl)); exact Es | exact Hloop].
  Qed.

  Theorem pser_all : forall t, P_pser t.
  Proof.
    induction t as [p|e n IHe|e c IHe|u fs ext H] using ty_nested_ind; unfold P_pser; intros Hwf v buf off Hl Ha Hfit Hz.
    - (* primitive *)
      cbn [pw_body enc_body wf_ty bmax] in *. unfold pw_prim.
      assert (Hgen : psim buf off (enc_prim p v) (match enc_prim p v with Ok bits => p_set Q buf off bits | Err e => Err e end)).
      { destruct (enc_prim p v) as [bits|e] eqn:E; cbn [psim]; [|reflexivity].
        pose proof (enc_prim_length _ _ _ E) as Hlen.
        apply p_set_wrote; try assumption; rewrite Hlen; [destruct p; cbn [prim_wf prim_bits] in *; lia | lia]. }
      destruct p as [| | | |w]; try exact Hgen. destruct v; try exact Hgen.
      cbn [enc_prim psim]. unfold pwrote. cbn [prim_bits] in Hfit.
      rewrite repeat_length, stored_zeros by (try assumption; lia). reflexivity.
    - (* fixed array *)
      cbn [pw_body enc_body]. cbn [wf_ty align bmax] in *. fold (fmax e) in Hfit.
      destruct v; try reflexivity.
      destruct (Nat.eqb_spec (length l) n) as [En|En]; [|reflexivity]. subst n.
      change (as_field_enc enc_body e) with (enc_field e).
      apply pw_array_sim; try assumption.
      apply pser_list; try assumption. apply pser_body_to_field. exact IHe.
    - (* variable array *)
      cbn [pw_body enc_body]. cbn [wf_ty align bmax] in *. fold (fmax e) in Hfit.
      apply andb_prop in Hwf. destruct Hwf as [Hwf _].
      destruct v; try reflexivity.
      destruct (Nat.ltb_spec c (length l)) as [Ec|Ec]; [reflexivity|].
      change (as_field_enc enc_body e) with (enc_field e).
      set (pfx := bits_of_N (prefix_bits c) (N.of_nat (length l))).
      assert (Hpl : length pfx = prefix_bits c) by apply bits_of_N_length.
      assert (Hmul : length l * fmax e <= c * fmax e) by (apply Nat.mul_le_mono_r; exact Ec).
      pose proof (len_width_mod8 c) as Hw8. pose proof (len_width_cases c) as Hwc. unfold prefix_bits in *.
      rewrite (p_set_wrote buf off pfx Hl ltac:(lia) ltac:(lia) Hz). cbn [bind].
      assert (Ha0 : (off + length pfx) mod align e = 0).
      { rewrite Hpl. destruct (align_cases e) as [A | A]; rewrite A in *; [apply Nat.mod_1_r | lia]. }
      pose proof (pser_list e Hwf (pser_body_to_field e IHe) l (stored buf off pfx) (off + length pfx)
                    ltac:(rewrite stored_length; lia) Ha0 ltac:(lia) ltac:(apply stored_zero; [lia | exact Hz])) as S0.
      pose proof (pw_array_sim e l (stored buf off pfx) (off + length pfx) _ Hwf ltac:(rewrite stored_length; lia) ltac:(lia)
                    ltac:(apply stored_zero; [lia | exact Hz]) S0) as S.
      destruct (enc_list (enc_field e) l) as [b|err] eqn:E2; cbn [bind psim] in *; [|exact S].
      apply pwrote_trans; [|exact S].
      pose proof (enc_list_len (enc_field e) e (fmin e) (fmax e) (fun v b => enc_field_len_bounds e v b Hwf) l b E2). lia.
    - (* composite *)
      assert (Hf : Forall P_pserf fs).
      { rewrite Forall_forall in *. intros f Hin. apply pser_body_to_field. apply H. exact Hin. }
      assert (Hwfs : forallb wf_ty fs = true).
      { cbn [wf_ty] in Hwf. apply andb_prop in Hwf. destruct Hwf as [Hwf _]. apply andb_prop in Hwf. destruct Hwf as [Hwf _]. exact Hwf. }
      cbn [align] in Ha.
      destruct u; cbn [pw_body enc_body]; change (as_field_enc enc_body) with enc_field.
      + (* union *)
        destruct v; try reflexivity.
        cbn [bmax] in Hfit. fold fmax in Hfit.
        set (tw := tag_bits (length fs)) in *.
        destruct (Nat.leb_spec (length fs) tag) as [Ek|Ek].
        { rewrite enc_sel_oob by exact Ek. reflexivity. }
        set (tg := bits_of_N tw (N.of_nat tag)).
        assert (Htl : length tg = tw) by apply bits_of_N_length.
        assert (Htw : tw mod 8 = 0) by apply tag_bits_mod8.
        pose proof (len_width_cases (length fs - 1)) as Hwc. fold (tag_bits (length fs)) in Hwc. fold tw in Hwc.
        rewrite (p_set_wrote buf off tg Hl ltac:(lia) ltac:(lia) Hz). cbn [bind].
        pose proof (pser_sel fs Hf Hwfs tag v (stored buf off tg) (off + length tg) ltac:(rewrite stored_length; lia)
                      ltac:(lia) ltac:(lia) ltac:(apply stored_zero; [lia | exact Hz])) as S. unfold psim in S.
        destruct (enc_sel enc_field fs tag v) as [b|err] eqn:Eb; cbn [bind]; [|rewrite S; reflexivity].
        unfold pwrote in S. rewrite S. cbn [bind psim].
        destruct (enc_sel_in _ _ _ _ _ Eb) as (f & Hin & _ & He).
        rewrite forallb_forall in Hwfs.
        destruct (enc_field_len_bounds _ _ _ (Hwfs f Hin) He) as [[_ Hhi] _].
        pose proof (fields_max_ge fmax f fs Hin) as Hmx.
        assert (Hpad : pad8 (off + length tg + length b) = pad8 (tw + length b)) by (unfold pad8; lia).
        pose proof (rup8_mono (tw + length b) (tw + fields_max fmax fs)) as Hr.
        rewrite Hpad.
        assert (Hl1 : length (stored buf off tg) = L) by (rewrite stored_length; lia).
        assert (Hl2 : length (stored (stored buf off tg) (off + length tg) b) = L) by (rewrite stored_length; lia).
        specialize (Hr ltac:(lia)).
        apply pwrote_trans; [rewrite !app_length, repeat_length; lia|].
        apply pwrote_trans; [rewrite repeat_length; lia|].
        unfold pwrote. rewrite repeat_length, stored_zeros; [reflexivity | lia |].
        apply stored_zero; [lia|]. apply stored_zero; [lia | exact Hz].
      + (* structure *)
        destruct v; try reflexivity.
        cbn [bmax] in *. fold fmax in Hfit.
        pose proof (fields_sum_shift fmax fs off Ha 0) as Hs. rewrite Nat.add_0_r in Hs.
        assert (Hfit0 : fields_sum fmax fs off <= L) by lia.
        pose proof (pser_fields fs Hf Hwfs l buf off off Hl (le_n _) Hfit0 Hz) as S.
        pose proof (enc_fields_shift enc_field fs off Ha l 0) as Hsh. rewrite Nat.add_0_r in Hsh.
        rewrite Hsh in S. exact S.
  Qed.
End PyRefine.

Lemma zero_from_fresh' n : zero_from (repeat false n) 0.
Proof. apply zero_from_fresh. Qed.

(* ---- the Python serialization refinement, from the two laws ---- *)
Theorem py_walk_ser_refines_on : forall Q u fs ext v cap, add_law Q (8 * cap) -> hdr_law Q (8 * cap) -> bulk_law Q (8 * cap) ->
  wf_ty (TComp u fs ext) = true -> bmax (TComp u fs ext) <= 8 * cap ->
  py_walk_ser Q enc_prim (TComp u fs ext) v cap = ser_spec (TComp u fs ext) v cap.
Proof.
  intros Q u fs ext v cap Ha Hh Hbk Hwf Hge. set (t := TComp u fs ext) in *. unfold py_walk_ser, ser_spec.
  destruct (Nat.ltb_spec (8 * cap) (bmax t)) as [Hlt|_]; [lia|].
  assert (HL : (8 * cap) mod 8 = 0) by lia.
  pose proof (pser_all Q (8 * cap) HL Ha Hh Hbk t Hwf v (repeat false (8 * cap)) 0 (repeat_length _ _) eq_refl Hge
                (zero_from_fresh' _)) as S. unfold psim in S.
  destruct (enc_body t v) as [bits|e] eqn:E; [|rewrite S; reflexivity].
  unfold pwrote in S. rewrite S. cbn [bind plus]. f_equal.
  destruct (enc_len_bounds _ _ _ Hwf E) as [[_ Hhi] Hmod]. specialize (Hmod eq_refl).
  replace (8 * ((length bits + 7) / 8)) with (length bits) by lia.
  unfold stored. cbn [firstn app plus]. rewrite firstn_app_left by lia. apply firstn_all.
Qed.
