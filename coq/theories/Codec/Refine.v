(* Refinement: the code-shaped walker (Codec/Walker.v) against the wire specification (Spec/Wire.v), for every primitive record
   satisfying `prims_ok`.

   PROVED here (walk_des_refines_partial): deserialization, for every type of the fragment `walk_fragment` = a top-level
   structure or union (sealed or delimited) whose fields are primitives of any kind/width or fixed/variable arrays of
   primitives - i.e. everything except NESTED composites - for every byte string.  This covers the cursor arithmetic, the
   capacity-guarded aligned fast paths (bool `off < capacity`, aligned <= 8 bit loads `off + w <= capacity`), zero extension,
   padding, prefix and tag checks, final size = min(cursor, capacity) / 8.

   EXTENDED in the second round (separate files, this file is unchanged apart from this comment):
     - Codec/RefineDesBase.v, RefineDes.v: `walk_des_refines_statement` below HOLDS (`walk_des_refines_statement_holds`,
       `walk_des_refines_all`): every type incl. nested sealed/delimited composites, arrays of composites, unions with
       composite members; simulation relation "equal values, cursors equal or both at/past the capacity";
     - Codec/RefineSerBits.v, RefineSerBase.v, RefineSer.v: the serialization direction for every well-formed composite type and
       every value that fits the storage types of the generated fields (`walk_ser_refines_composite`); the statement
       `walk_ser_refines_statement` below, whose storage proviso is the placeholder True and whose type is arbitrary, is
       REFUTED there (`walk_ser_refines_statement_refuted`) - it is kept here only as the record of what was open;
     - Codec/GenC01Thm.v: the translator tie (Generated/Gen_C01.v);
     - third round: Codec/PrimsOn.v (the laws restricted to what the walker asks), WalkerBound.v (cursor bound), Instances*.v
       (the laws proved of the C / C++ / Python primitive models of C14 and the refinement theorems instantiated with them). *)
From Verif Require Import Wire WireThm Walker.
From Coq Require Import Lia ZifyBool ZifyNat ZifyN.
Local Open Scope nat_scope.
Ltac Zify.zify_post_hook ::= Z.div_mod_to_equations.

Definition in_storage_range (t : ty) (v : val) : Prop := True.   (* placeholder name used by the statements below *)

Definition walk_des_refines_statement : Prop :=
  forall P t bits, prims_ok P -> wf_ty t = true -> length bits mod 8 = 0 -> walk_des P t bits = des_spec t bits.

Definition walk_ser_refines_statement : Prop :=
  forall P t v buf cap, prims_ok P -> wf_ty t = true -> length buf = 8 * cap ->
    (* v within the storage range of the generated fields *) in_storage_range t v ->
    walk_ser P t v buf cap = ser_spec t v cap.

(* ---- the fragment ---- *)
Definition flat_field (f : ty) : bool :=
  match f with
  | TPrim _ => true
  | TFix (TPrim _) _ => true
  | TVar (TPrim _) _ => true
  | _ => false
  end.

Definition walk_fragment (t : ty) : bool :=
  match t with TComp _ fs _ => forallb flat_field fs | _ => false end.

Definition shift {A} (off : nat) (r : res (A * nat)) : res (A * nat) :=
  match r with Ok (v, k) => Ok (v, off + k) | Err e => Err e end.

Lemma skipn_add {A} a : forall b (l : list A), skipn b (skipn a l) = skipn (a + b) l.
Proof.
  induction a as [|a IH]; intros b l; [reflexivity|].
  destruct l as [|x l]; cbn [plus skipn]; [apply skipn_nil | apply IH].
Qed.

Lemma take_ze_nil' n : take_ze n [] = repeat false n.
Proof. induction n; cbn; [reflexivity | rewrite IHn; reflexivity]. Qed.

Lemma N_of_bits_zeros n : N_of_bits (repeat false n) = 0%N.
Proof. induction n; cbn [repeat N_of_bits]; [reflexivity | rewrite IHn; reflexivity]. Qed.

Section Refine.
  Variable P : prims.
  Hypothesis HP : prims_ok P.
  Variable buf : list bool.
  Hypothesis Hbuf : length buf mod 8 = 0.
  Let cap := length buf.

  Lemma get_full off w : get_bits P buf cap off w = take_ze w (skipn off buf).
  Proof. rewrite (get_ok P HP). unfold cap. rewrite firstn_all. reflexivity. Qed.

  Lemma skipn_beyond off : cap <= off -> skipn off buf = [].
  Proof. intros H. apply skipn_all2. exact H. Qed.

  Lemma r_prim_ok p off : r_prim P p buf cap off = dec_prim p (skipn off buf).
  Proof.
    destruct p; cbn [r_prim dec_prim prim_bits]; rewrite ?get_full; unfold read_N; try reflexivity.
    - (* bool: `if (offset_bits < capacity_bits)` *)
      destruct (Nat.ltb_spec off cap) as [Hlt|Hge]; [reflexivity|].
      rewrite skipn_beyond by exact Hge. reflexivity.
    - (* unsigned: guarded aligned byte load *)
      destruct (off mod 8 =? 0) eqn:Ea; destruct (w <=? 8) eqn:Ew; cbn [andb]; try reflexivity.
      destruct (Nat.leb_spec (off + w) cap) as [Hle|Hgt]; [reflexivity|].
      apply Nat.eqb_eq in Ea. apply Nat.leb_le in Ew.
      assert (Hge : cap <= off) by (unfold cap in *; lia).
      rewrite skipn_beyond by exact Hge. rewrite take_ze_nil', N_of_bits_zeros. reflexivity.
  Qed.

  Lemma wd_list_prim p n : forall off,
    wd_list (wd_field P (wd_body P) (TPrim p)) n buf cap off = shift off (dec_list (dec_field (TPrim p)) n (skipn off buf)).
  Proof.
    induction n as [|n IH]; intros off; cbn [wd_list dec_list].
    - cbn [shift]. f_equal. f_equal. lia.
    - cbn [wd_field wd_body dec_field]. unfold dec_field, as_field_dec. cbn [dec_body bind].
      rewrite IH, skipn_add, r_prim_ok.
      destruct (dec_list _ n (skipn (off + prim_bits p) buf)) as [[vs m]|]; cbn [bind shift]; [|reflexivity].
      f_equal. f_equal. lia.
  Qed.

  Lemma wd_flat f : flat_field f = true -> forall off,
    wd_field P (wd_body P) f buf cap off = shift off (dec_field f (skipn off buf)).
  Proof.
    intros Hf off. destruct f as [p|[p| | |] n|[p| | |] c|]; try discriminate; unfold dec_field, as_field_dec;
      cbn [wd_field wd_body dec_body].
    - rewrite r_prim_ok. cbn [shift]. reflexivity.
    - change (as_field_dec dec_body (TPrim p)) with (dec_field (TPrim p)). rewrite wd_list_prim.
      destruct (dec_list _ n (skipn off buf)) as [[vs m]|]; reflexivity.
    - change (as_field_dec dec_body (TPrim p)) with (dec_field (TPrim p)). rewrite get_full. fold (read_N (prefix_bits c) (skipn off buf)).
      destruct (_ <? _)%N; [reflexivity|].
      rewrite wd_list_prim, skipn_add.
      destruct (dec_list _ _ (skipn (off + prefix_bits c) buf)) as [[vs m]|]; cbn [bind shift]; [|reflexivity].
      f_equal. f_equal. lia.
  Qed.

  Lemma wd_fields_flat fs : forallb flat_field fs = true -> forall off,
    wd_fields (wd_field P (wd_body P)) fs buf cap off = dec_fields dec_field fs (skipn off buf) off.
  Proof.
    induction fs as [|f fs IH]; intros Hf off; cbn [wd_fields dec_fields]; [reflexivity|].
    cbn [forallb] in Hf. apply andb_prop in Hf. destruct Hf as [Hf1 Hf2].
    rewrite (wd_flat f Hf1), skipn_add.
    destruct (dec_field f (skipn (off + padn off (align f)) buf)) as [[v k]|]; cbn [shift bind]; [|reflexivity].
    rewrite (IH Hf2), skipn_add. rewrite !Nat.add_assoc. reflexivity.
  Qed.

  Lemma wd_sel_flat fs : forallb flat_field fs = true -> forall k off,
    wd_sel (wd_field P (wd_body P)) fs k buf cap off = shift off (dec_sel dec_field fs k (skipn off buf)).
  Proof.
    induction fs as [|f fs IH]; intros Hf k off; [destruct k; reflexivity|].
    cbn [forallb] in Hf. apply andb_prop in Hf. destruct Hf as [Hf1 Hf2].
    destruct k as [|k]; cbn [wd_sel dec_sel]; [apply wd_flat; exact Hf1 | apply IH; exact Hf2].
  Qed.

  Lemma walk_des_fragment t : walk_fragment t = true -> walk_des P t buf = des_spec t buf.
  Proof.
    intros Hfr. destruct t as [| | |u fs ext]; try discriminate. cbn [walk_fragment] in Hfr.
    unfold walk_des, des_spec. fold cap. destruct u; cbn [wd_body dec_body]; change (as_field_dec dec_body) with dec_field.
    - rewrite get_full. cbn [skipn]. fold (read_N (tag_bits (length fs)) buf).
      destruct (_ <=? _)%N; [reflexivity|].
      rewrite (wd_sel_flat fs Hfr). cbn [plus].
      destruct (dec_sel dec_field fs _ (skipn (tag_bits (length fs)) buf)) as [[v n]|]; cbn [shift bind]; reflexivity.
    - rewrite (wd_fields_flat fs Hfr 0). cbn [skipn].
      destruct (dec_fields dec_field fs buf 0) as [[vs o]|]; reflexivity.
  Qed.
End Refine.

Lemma bits_of_bytes_len b : length (bits_of_bytes b) = 8 * length b.
Proof. induction b as [|x b IH]; cbn [bits_of_bytes length]; [reflexivity|]. rewrite app_length, bits_of_N_length, IH. lia. Qed.

Lemma ref_prims_ok : prims_ok ref_prims.
Proof.
  split; cbn [set_bits get_bits ref_prims]; intros.
  - destruct (Nat.leb_spec (off + length v) (length buf)); [reflexivity | lia].
  - reflexivity.
Qed.

(* deserialization walker = specification on the fragment, for every primitive record satisfying the laws *)
Theorem walk_des_refines_prims : forall P t bits, prims_ok P -> walk_fragment t = true -> length bits mod 8 = 0 ->
  walk_des P t bits = des_spec t bits.
Proof. intros P t bits HP Hf Hb. apply walk_des_fragment; assumption. Qed.

Theorem walk_des_refines_partial : forall t bytes, walk_fragment t = true ->
  walk_des_obs t bytes = des_spec t (bits_of_bytes bytes).
Proof.
  intros t bytes Hf. unfold walk_des_obs. apply walk_des_refines_prims; [apply ref_prims_ok | exact Hf|].
  rewrite bits_of_bytes_len. lia.
Qed.
