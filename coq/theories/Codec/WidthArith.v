(* Width of `size_t` at the level of the generated ROUTINES (audit 3, C01 #1 / C02 #1 / defect D1).  The walkers compute in `nat`;
   Codec/InstancesCW.v makes only the PRIMITIVE calls width-parametric.  What is established here, and what is NOT:

   C (Codec/Walker.v):
     - `c_cursor_bounded`: every cursor the deserialization walker produces stays <= max(capacity, start) + tsz t, so under the side
       condition |buffer| + tsz t < 2^W no cursor expression (`offset_bits += ...`) wraps; serialization cursors stay <= 8 * capacity
       (the invariant of RefineSer: off + bmax t <= L);
     - the delimiter-header check of the C template compares BYTES: `size_bytes > capacity_bytes - min(offset_bits / 8, capacity_bytes)`
       (deserialization.j2): no product of an unvalidated quantity is formed - `c_hdr_check_operands_bounded`;
     - the up-front `8 * capacity_bytes` of _serialize_impl / _deserialize_impl is covered by the side condition itself.
     So for the C walker the 32-bit statement rests on: primitives at width M (InstancesCW) + these bounds.  It is NOT a walker whose
     arithmetic is literally performed modulo 2^W; intermediate C expressions that the model does not have (temporaries of the
     templates) are outside it.
   C++ (Codec/CppWalker.v): the template tests `(size_bytes * 8U) > in_buffer.size()` - the 32-bit header is MULTIPLIED before it is
     validated.  `cpp_hdr_check_W` states the test with the product wrapped modulo 2^W as the template has it:
       `cpp_hdr_check_64_ok`        at W = 64 (header < 2^32) the wrapped test is the unbounded one that CppWalker.cd_field uses;
       `cpp_hdr_check_32_refuted`   at W = 32 it is NOT: header 0x20000001 with 2 bytes remaining passes the test (defect D1).
     Hence every C++ theorem (cppw_walk_des_refines, ...) is a 64-BIT statement only, until the template compares bytes. *)
From Verif Require Import Wire WireThm Walker WalkerBound.
From Coq Require Import Lia ZifyBool ZifyNat ZifyN.
Local Open Scope nat_scope.
Ltac Zify.zify_post_hook ::= Z.div_mod_to_equations.

(* ---- C: cursors ---- *)
Theorem c_cursor_bounded : forall P t buf cap off v o, wd_body P t buf cap off = Ok (v, o) -> o <= Nat.max cap off + tsz t.
Proof.
  intros P t buf cap off v o H.
  destruct (q_all P (Nat.max cap off + tsz t) buf t cap off (le_n _)) as [_ Hb]. rewrite H in Hb. exact Hb.
Qed.

Corollary c_cursor_fits_width : forall P t bits v o (M : N), wd_body P t bits (length bits) 0 = Ok (v, o) ->
  (N.of_nat (length bits + tsz t) < M)%N -> (N.of_nat o < M)%N.
Proof. intros P t bits v o M H HM. pose proof (c_cursor_bounded P t bits (length bits) 0 v o H). lia. Qed.

(* ---- C: the delimiter-header check compares bytes; its operands never exceed capacity_bytes ---- *)
Definition c_hdr_remaining (cap o : nat) : nat := cap / 8 - Nat.min (o / 8) (cap / 8).

Lemma c_hdr_check_operands_bounded cap o : c_hdr_remaining cap o <= cap / 8 /\ Nat.min (o / 8) (cap / 8) <= cap / 8.
Proof. unfold c_hdr_remaining. lia. Qed.

(* ---- C++: the check as the template has it, product wrapped at the width of std::size_t ---- *)
Definition cpp_hdr_check_W (M : N) (remaining_bits : N) (header : N) : bool := (remaining_bits <? (header * 8) mod M)%N.
Definition cpp_hdr_check_nat (remaining_bits : N) (header : N) : bool := (remaining_bits <? header * 8)%N.   (* CppWalker.cd_field *)

Theorem cpp_hdr_check_64_ok : forall remaining header, (header < 2 ^ 32)%N ->
  cpp_hdr_check_W (2 ^ 64) remaining header = cpp_hdr_check_nat remaining header.
Proof.
  intros remaining header H. unfold cpp_hdr_check_W, cpp_hdr_check_nat. rewrite N.mod_small; [reflexivity|].
  change (2 ^ 64)%N with 18446744073709551616%N. change (2 ^ 32)%N with 4294967296%N in H. lia.
Qed.

(* defect D1: header 0x20000001 (536870913 bytes announced), 16 bits remaining: the 32-bit test does not fire *)
Theorem cpp_hdr_check_32_refuted : exists remaining header, (header < 2 ^ 32)%N /\
  cpp_hdr_check_nat remaining header = true /\ cpp_hdr_check_W (2 ^ 32) remaining header = false.
Proof. exists 16%N, 536870913%N. vm_compute. repeat split; reflexivity. Qed.

(* with the byte comparison proposed for the template (`size_bytes > in_buffer.size() / 8`) no width matters *)
Definition cpp_hdr_check_bytes (remaining_bits : N) (header : N) : bool := (remaining_bits / 8 <? header)%N.
Theorem cpp_hdr_check_bytes_ok : forall remaining header, (remaining mod 8 = 0)%N ->
  cpp_hdr_check_bytes remaining header = cpp_hdr_check_nat remaining header.
Proof.
  intros remaining header H. unfold cpp_hdr_check_bytes, cpp_hdr_check_nat.
  destruct (N.ltb_spec (remaining / 8) header); destruct (N.ltb_spec remaining (header * 8)); try reflexivity; lia.
Qed.
