(* The chain that makes the bulk-array theorems apply to the paths the templates take:
     Codec/TplTie.v `c_array_paths`      the regenerated array macros emit ONE nunavutCopyBits / nunavutGetBits call exactly when the
                                         element type is boolean or `is zero_cost_primitive`, the element loop otherwise;
     here `zero_cost_is_std_prim`        the TRANSLATED predicate (Generated/Gen_C01.v `is_zero_cost_primitive`, from
                                         lang/c/__init__.py) holds only for standard-width integers and floats, i.e. `std_prim`;
     Codec/BulkArrays*.v                 for `std_prim` elements (and for bool arrays) the bulk call equals the walker's element loop. *)
From Coq Require Import ZArith String Bool List Lia.
From Verif Require Import Gen_C01 Wire Walker Meta GenC01Thm BulkArrays.

Theorem zero_cost_is_std_prim : forall e p,
  is_zero_cost_primitive e (desc_of_prim p) = Some true -> std_prim p = true /\ e = endian_little.
Proof.
  intros e p H. destruct p as [|w sat|w sat|w sat|w].
  - rewrite zero_cost_bool_walker in H. discriminate H.
  - destruct (zero_cost_integer_walker e w sat) as [Hu _]. rewrite Hu in H. injection H as H.
    apply andb_prop in H. destruct H as [He Hs]. split; [exact Hs | apply String.eqb_eq; exact He].
  - destruct (zero_cost_integer_walker e w sat) as [_ Hs']. rewrite Hs' in H. injection H as H.
    apply andb_prop in H. destruct H as [He Hs]. split; [exact Hs | apply String.eqb_eq; exact He].
  - rewrite zero_cost_float_walker in H. injection H as H. apply andb_prop in H. destruct H as [He _].
    split; [reflexivity | apply String.eqb_eq; exact He].
  - apply zero_cost_spec in H. destruct H as [_ [[H _] | [H _]]]; cbn in H; discriminate H.
Qed.
